import Thm.ErrLSimBase
/-!
Error layer (property C05), simulation part: **the state in which an expression unit fails**.

In the jump layer an error ends the program, so `JmpLSim.ErrsWith` records only the variables and the output of the failing
state.  In the error layer the program goes on after the error (handler, RESUME, RESUME NEXT), so the simulation needs the
*whole* failing state: everything the state relation looks at (`skipNewline`, DATA cursor, by-reference queue) and the four
stacks — the register, var-path and GOSUB stacks are those of the start state, the value stack is the start state's with the
operands the expression had pushed still on top (`FailAt`).

* `expr_fails`, `exprTo_fails`, `cond_fails`: the error half of `compileExpr_correct` / `exprTo_correct` / `cond_correct` with
  that conclusion (the success half is reused as it is).
* `lift_fails'`: the bridge to the error layer's VM for a failing run given explicitly: the state whose step fails *is* the
  state the error is dispatched from (`Fails` hides this), so `raise_correct` is used with `x = y` and `Quiet.refl`.
* `FailAt.rel`, `FailAt.inv`: the state relation and the stack invariant at the failing state.
-/
namespace RbThm.ErrLSim
set_option linter.unusedVariables false
set_option linter.unusedSimpArgs false
open RbModel RbModel.Num RbModel.ErrL RbModel.ErrL.Compile RbModel.ErrL.Vm
open RbModel.JmpL.Compile (CInstr Code labelName compileExpr compileExprTo storeVar loadVar compileItems compileConds
  sizeCaseExpr sizeItems sizeConds Dp lookupNat lookupDepth stepSuffix maxPos)
open RbModel.JmpL.Vm (Vm truncTop)
open RbModel.Ast (Pos PrintItem CaseExpr)
open RbModel.Ref (St)
open RbModel.ErrL.Ref
open RbThm.ErrLLen
open RbThm.C01Sim (Typed SlotsBelow ExprWt NumericAt NumericCond ItemsSlots CaseSlots CondsSlots)

/-- the state `υ` in which a piece of expression code started in `σ` fails: everything but the program counter, the
registers and the operands pushed on the value stack is as in `σ` -/
structure FailAt (σ υ : Vm) : Prop where
  env : υ.env = σ.env
  out : υ.out = σ.out
  skip : υ.skipNewline = σ.skipNewline
  data : υ.data = σ.data
  dataIdx : υ.dataIdx = σ.dataIdx
  queue : υ.queue = σ.queue
  regStack : υ.regStack = σ.regStack
  paths : υ.paths = σ.paths
  gosubs : υ.gosubs = σ.gosubs
  vals : ∃ X, υ.vals = X ++ σ.vals

/-- the failing state relative to a state `σ'` that differs from `σ` in the program counter, the registers and pushed
operands only -/
theorem FailAt.of_base {σ σ' υ : Vm} (h : FailAt σ' υ) (e1 : σ'.env = σ.env) (e2 : σ'.out = σ.out)
    (e3 : σ'.skipNewline = σ.skipNewline) (e4 : σ'.data = σ.data) (e5 : σ'.dataIdx = σ.dataIdx) (e6 : σ'.queue = σ.queue)
    (e7 : σ'.regStack = σ.regStack) (e8 : σ'.paths = σ.paths) (e9 : σ'.gosubs = σ.gosubs)
    (e10 : ∃ Y, σ'.vals = Y ++ σ.vals) : FailAt σ υ := by
  obtain ⟨X, hX⟩ := h.vals
  obtain ⟨Y, hY⟩ := e10
  exact ⟨h.env.trans e1, h.out.trans e2, h.skip.trans e3, h.data.trans e4, h.dataIdx.trans e5, h.queue.trans e6,
    h.regStack.trans e7, h.paths.trans e8, h.gosubs.trans e9, ⟨X ++ Y, by rw [hX, hY, List.append_assoc]⟩⟩

/-- a state that differs from `σ` in the program counter and the registers only -/
theorem FailAt.afterExpr (σ : Vm) (pc : Nat) (v b : Val) : FailAt σ (RbThm.JmpLSim.afterExpr σ pc v b) :=
  ⟨rfl, rfl, rfl, rfl, rfl, rfl, rfl, rfl, rfl, ⟨[], rfl⟩⟩

/-- the state relation at the failing state -/
theorem FailAt.rel {sl : List Ty} {s : St} {σ υ : Vm} (h : FailAt σ υ) (hr : Rel sl s σ) : Rel sl s υ :=
  hr.same h.env h.out h.data h.dataIdx h.queue

/-- the error layer's relation at the failing state (`x.b = σ`) -/
theorem FailAt.erel {sl : List Ty} {env : LEnv} {s : ESt} {x : EVm} {υ : Vm} (h : FailAt x.b υ) (hr : ERel sl env s x) :
    ERel sl env s { x with b := υ } :=
  hr.same (h.rel hr.base)

/-- the stack invariant at the failing state -/
theorem FailAt.inv {C : Ctx} {d e vb gd : Nat} {x : EVm} {υ : Vm} (h : FailAt x.b υ) (hi : Inv C d e vb gd x) :
    Inv C d e vb gd { x with b := υ } := by
  obtain ⟨X, hX⟩ := h.vals
  refine ⟨?_, ?_, ?_, ?_⟩
  · show d ≤ υ.regStack.length
    rw [h.regStack]; exact hi.hd
  · show vb + e ≤ υ.vals.length
    rw [hX, List.length_append]; have := hi.he; omega
  · show υ.gosubs.length = gd
    rw [h.gosubs]; exact hi.gs
  · exact hi.cut.congr h.regStack h.gosubs rfl

/-- a failing instruction that rewrites A by a `Res`-valued operation, after an expression -/
theorem fail_resA {code : Code} {τ : Vm} {p : Pos} {r : Res Val} {c : Nat} {q : Pos}
    (hstep : JmpL.Vm.step code τ = JmpL.Vm.resA τ p r) (hl : RbModel.Ref.lift p r = .err c q) :
    JmpL.Vm.step code τ = .error c q τ := by
  cases r with
  | ok w => simp [RbModel.Ref.lift] at hl
  | inexact => simp [RbModel.Ref.lift] at hl
  | err er =>
    simp only [RbModel.Ref.lift, RbModel.Ref.ERes.err.injEq] at hl
    obtain ⟨h1, h2⟩ := hl
    subst h1; subst h2
    rw [hstep]; rfl

/-- what a failing expression does, as a predicate on the start state -/
def FailSpec (code : Code) (σ : Vm) (c : Nat) (q : Pos) : Prop :=
  ∃ υ, RbThm.JmpLSim.Steps code σ υ ∧ JmpL.Vm.step code υ = .error c q υ ∧ FailAt σ υ

theorem FailSpec.of_steps {code : Code} {σ σ' : Vm} {c : Nat} {q : Pos} (st : RbThm.JmpLSim.Steps code σ σ')
    (h : FailSpec code σ' c q) (e1 : σ'.env = σ.env) (e2 : σ'.out = σ.out)
    (e3 : σ'.skipNewline = σ.skipNewline) (e4 : σ'.data = σ.data) (e5 : σ'.dataIdx = σ.dataIdx) (e6 : σ'.queue = σ.queue)
    (e7 : σ'.regStack = σ.regStack) (e8 : σ'.paths = σ.paths) (e9 : σ'.gosubs = σ.gosubs)
    (e10 : ∃ Y, σ'.vals = Y ++ σ.vals) : FailSpec code σ c q := by
  obtain ⟨υ, st', hs, hf⟩ := h
  exact ⟨υ, st.trans st', hs, hf.of_base e1 e2 e3 e4 e5 e6 e7 e8 e9 e10⟩

/-- the operator tail of a binary expression fails: `CopyAToB; PopValueStackIntoA; <op>; [Cast t]` -/
theorem bin_tail_fails (code : Code) (op : Op) (t : Ty) (p : Pos) (q : Nat) (τ : Vm) (a bv : Val) (vs : List Val)
    (hc : RbThm.JmpLSim.CodeAt code q ([(CInstr.copyAToB, p), (CInstr.popA, p), (CInstr.bin op, p)] ++
      (if op = .divide then [(CInstr.cast t, p)] else [])))
    (hpc : τ.pc = q) (ha : τ.regs.a = bv) (hv : τ.vals = a :: vs) {c : Nat} {r : Pos}
    (hl : RbModel.Ref.lift p (RbModel.Ref.binStep op t a bv) = .err c r) :
    ∃ υ, RbThm.JmpLSim.Steps code τ υ ∧ JmpL.Vm.step code υ = .error c r υ ∧ υ.env = τ.env ∧ υ.out = τ.out ∧
      υ.skipNewline = τ.skipNewline ∧ υ.data = τ.data ∧ υ.dataIdx = τ.dataIdx ∧ υ.queue = τ.queue ∧
      υ.regStack = τ.regStack ∧ υ.paths = τ.paths ∧ υ.gosubs = τ.gosubs ∧ υ.vals = vs := by
  have h0 : code[τ.pc]? = some (CInstr.copyAToB, p) := by rw [hpc]; exact hc.append_left.head
  have h1 : code[τ.pc + 1]? = some (CInstr.popA, p) := by rw [hpc]; exact hc.append_left.tail.head
  have h2 : code[τ.pc + 1 + 1]? = some (CInstr.bin op, p) := by rw [hpc]; exact hc.append_left.tail.tail.head
  let τ1 : Vm := JmpL.Vm.advance { τ with regs := { τ.regs with b := τ.regs.a } }
  let τ2 : Vm := JmpL.Vm.advance { JmpL.Vm.setA τ1 a with vals := vs }
  have s1 : JmpL.Vm.step code τ = .next τ1 := by simp only [JmpL.Vm.step, h0]; rfl
  have s2 : JmpL.Vm.step code τ1 = .next τ2 := by
    simp only [JmpL.Vm.step, τ1, JmpL.Vm.advance, h1, hv]; rfl
  have s3 : JmpL.Vm.step code τ2 = JmpL.Vm.resA τ2 p (JmpL.Vm.binInstr op a bv) := by
    simp only [JmpL.Vm.step, τ2, τ1, JmpL.Vm.advance, JmpL.Vm.setA, h2, ha]
  have st : RbThm.JmpLSim.Steps code τ τ2 := RbThm.JmpLSim.Steps.cons s1 (RbThm.JmpLSim.Steps.one s2)
  rw [RbThm.JmpLSim.binStep_eq] at hl
  by_cases hd : op = .divide
  · simp only [hd, if_true] at hc hl
    have h3 : code[τ.pc + 1 + 1 + 1]? = some (CInstr.cast t, p) := by
      rw [hpc]; exact hc.append_right.head
    subst hd
    cases hb : JmpL.Vm.binInstr .divide a bv with
    | ok qv =>
      let τ3 : Vm := JmpL.Vm.advance (JmpL.Vm.setA τ2 qv)
      have s3' : JmpL.Vm.step code τ2 = .next τ3 := by rw [s3, hb]; rfl
      have s4 : JmpL.Vm.step code τ3 = JmpL.Vm.resA τ3 p (cast qv t) := by
        simp only [JmpL.Vm.step, τ3, τ2, τ1, JmpL.Vm.advance, JmpL.Vm.setA, h3]
      simp only [hb, Res.bind] at hl
      exact ⟨τ3, st.trans (RbThm.JmpLSim.Steps.one s3'), fail_resA s4 hl, rfl, rfl, rfl, rfl, rfl, rfl, rfl, rfl, rfl, rfl⟩
    | err er =>
      simp only [hb, Res.bind] at hl
      exact ⟨τ2, st, fail_resA s3 (by rw [hb]; exact hl), rfl, rfl, rfl, rfl, rfl, rfl, rfl, rfl, rfl, rfl⟩
    | inexact => simp [hb, Res.bind, RbModel.Ref.lift] at hl
  · simp only [hd, if_false] at hl
    exact ⟨τ2, st, fail_resA s3 hl, rfl, rfl, rfl, rfl, rfl, rfl, rfl, rfl, rfl, rfl⟩

/-- **a failing expression**: the run reaches an instruction of the expression's code that raises the error `eval` names,
in a state that differs from the start state in the program counter, the registers and operands pushed on the value
stack only -/
theorem expr_fails (code : Code) (e : Ast.Expr) :
    ∀ (off : Nat) (σ : Vm), RbThm.JmpLSim.CodeAt code off (compileExpr e) → σ.pc = off → SlotsBelow σ.env.length e →
      ∀ (c : Nat) (q : Pos), RbModel.Ref.eval σ.env e = .err c q → FailSpec code σ c q := by
  induction e with
  | lit v p => intro off σ hc hpc _ c q he; simp [RbModel.Ref.eval] at he
  | var x t p => intro off σ hc hpc _ c q he; simp [RbModel.Ref.eval] at he
  | paren e p ih =>
    intro off σ hc hpc hs c q he
    exact ih off σ (by simpa [compileExpr] using hc) hpc hs c q (by simpa [RbModel.Ref.eval] using he)
  | un op e p ih =>
    intro off σ hc hpc hs c q he
    have hce : RbThm.JmpLSim.CodeAt code off (compileExpr e) := by
      cases op <;> (simp only [compileExpr] at hc; exact hc.append_left)
    have hok := RbThm.JmpLSim.compileExpr_correct code e off σ hce hpc hs
    simp only [RbThm.JmpLSim.ExprSpec] at hok
    cases hev : RbModel.Ref.eval σ.env e with
    | inexact => cases op <;> simp [RbModel.Ref.eval, hev, RbModel.Ref.ERes.bind] at he
    | err c' q' =>
      have : c' = c ∧ q' = q := by cases op <;> simpa [RbModel.Ref.eval, hev, RbModel.Ref.ERes.bind] using he
      obtain ⟨h1, h2⟩ := this
      subst h1; subst h2
      exact ih off σ hce hpc hs c' q' hev
    | ok v =>
      simp only [hev] at hok
      obtain ⟨b, st⟩ := hok
      cases op with
      | neg =>
        simp only [compileExpr] at hc
        have hi : code[off + (compileExpr e).length]? = some (CInstr.negateA, p) := hc.append_right.head
        simp only [RbModel.Ref.eval, hev, RbModel.Ref.ERes.bind] at he
        refine ⟨_, st, fail_resA (r := negate v) ?_ he, FailAt.afterExpr σ _ v b⟩
        simp only [JmpL.Vm.step, RbThm.JmpLSim.afterExpr, hi]
      | not =>
        simp only [compileExpr] at hc
        have hi : code[off + (compileExpr e).length]? = some (CInstr.notA, p) := hc.append_right.head
        simp only [RbModel.Ref.eval, hev, RbModel.Ref.ERes.bind] at he
        refine ⟨_, st, fail_resA (r := unaryNot v) ?_ he, FailAt.afterExpr σ _ v b⟩
        simp only [JmpL.Vm.step, RbThm.JmpLSim.afterExpr, hi]
  | bin op l r t p ihl ihr =>
    intro off σ hc hpc hs c q he
    simp only [compileExpr] at hc
    obtain ⟨hsl, hsr⟩ := hs
    have hcl : RbThm.JmpLSim.CodeAt code off (compileExpr l) := hc.append_left.append_left.append_left.append_left
    have hpush : code[off + (compileExpr l).length]? = some (CInstr.pushA, p) :=
      hc.append_left.append_left.append_left.append_right.head
    have hcr : RbThm.JmpLSim.CodeAt code (off + (compileExpr l).length + 1) (compileExpr r) := by
      have := hc.append_left.append_left.append_right
      simpa [Nat.add_assoc] using this
    have hct : RbThm.JmpLSim.CodeAt code (off + (compileExpr l).length + 1 + (compileExpr r).length)
        ([(CInstr.copyAToB, p), (CInstr.popA, p), (CInstr.bin op, p)] ++
          (if op = .divide then [(CInstr.cast t, p)] else [])) := by
      have h1 := hc.append_left.append_right
      have h2 := hc.append_right
      intro i hi
      by_cases h3 : i < 3
      · have := h1 i (by simpa using h3)
        simp only [List.length_append, List.length_singleton] at this
        rw [List.getElem?_append_left (by simpa using h3)]
        rw [← this]; congr 1; omega
      · have := h2 (i - 3) (by simp at hi ⊢; omega)
        simp only [List.length_append, List.length_cons, List.length_nil] at this
        rw [List.getElem?_append_right (by simp; omega)]
        simp only [List.length_cons, List.length_nil]
        rw [← this]; congr 1; omega
    have hokl := RbThm.JmpLSim.compileExpr_correct code l off σ hcl hpc hsl
    simp only [RbThm.JmpLSim.ExprSpec] at hokl
    simp only [RbModel.Ref.eval] at he
    cases hl : RbModel.Ref.eval σ.env l with
    | inexact => simp [hl, RbModel.Ref.ERes.bind] at he
    | err c' q' =>
      simp only [hl, RbModel.Ref.ERes.bind, RbModel.Ref.ERes.err.injEq] at he
      obtain ⟨h1, h2⟩ := he
      subst h1; subst h2
      exact ihl off σ hcl hpc hsl c' q' hl
    | ok a =>
      simp only [hl] at hokl
      simp only [hl, RbModel.Ref.ERes.bind] at he
      obtain ⟨b1, st1⟩ := hokl
      let σ2 : Vm := { RbThm.JmpLSim.afterExpr σ (off + (compileExpr l).length) a b1 with
        pc := off + (compileExpr l).length + 1, vals := a :: σ.vals }
      have spush : JmpL.Vm.step code (RbThm.JmpLSim.afterExpr σ (off + (compileExpr l).length) a b1) = .next σ2 := by
        simp only [JmpL.Vm.step, RbThm.JmpLSim.afterExpr, hpush]; rfl
      have pre1 : RbThm.JmpLSim.Steps code σ σ2 := st1.trans (RbThm.JmpLSim.Steps.one spush)
      have henv : σ2.env = σ.env := rfl
      cases hr : RbModel.Ref.eval σ.env r with
      | inexact => simp [hr, RbModel.Ref.ERes.bind] at he
      | err c' q' =>
        simp only [hr, RbModel.Ref.ERes.bind, RbModel.Ref.ERes.err.injEq] at he
        obtain ⟨h1, h2⟩ := he
        subst h1; subst h2
        have := ihr (off + (compileExpr l).length + 1) σ2 hcr rfl hsr c' q' (by rw [henv]; exact hr)
        exact FailSpec.of_steps pre1 this rfl rfl rfl rfl rfl rfl rfl rfl rfl ⟨[a], rfl⟩
      | ok bv =>
        simp only [hr, RbModel.Ref.ERes.bind] at he
        have hokr := RbThm.JmpLSim.compileExpr_correct code r (off + (compileExpr l).length + 1) σ2 hcr rfl hsr
        simp only [RbThm.JmpLSim.ExprSpec] at hokr
        rw [henv] at hokr
        simp only [hr] at hokr
        obtain ⟨b2, st2⟩ := hokr
        let σ3 : Vm := RbThm.JmpLSim.afterExpr σ2 (off + (compileExpr l).length + 1 + (compileExpr r).length) bv b2
        obtain ⟨υ, st3, hs3, f1, f2, f3, f4, f5, f6, f7, f8, f9, f10⟩ :=
          bin_tail_fails code op t p _ σ3 a bv σ.vals hct rfl rfl rfl he
        exact ⟨υ, (pre1.trans st2).trans st3, hs3, ⟨f1, f2, f3, f4, f5, f6, f7, f8, f9, ⟨[], by rw [f10]; rfl⟩⟩⟩

/-- **a failing conversion** `generate_expression_instructions_casting` -/
theorem exprTo_fails (code : Code) (e : Ast.Expr) (t : Ty) (off : Nat) (σ : Vm)
    (hc : RbThm.JmpLSim.CodeAt code off (compileExprTo e t)) (hpc : σ.pc = off) (hs : SlotsBelow σ.env.length e)
    {c : Nat} {q : Pos} (he : RbModel.Ref.evalTo σ.env e t = .err c q) : FailSpec code σ c q := by
  simp only [RbModel.Ref.evalTo] at he
  simp only [compileExprTo] at hc
  cases hev : RbModel.Ref.eval σ.env e with
  | inexact => simp [hev, RbModel.Ref.ERes.bind] at he
  | err c' q' =>
    simp only [hev, RbModel.Ref.ERes.bind, RbModel.Ref.ERes.err.injEq] at he
    obtain ⟨h1, h2⟩ := he
    subst h1; subst h2
    exact expr_fails code e off σ hc.append_left hpc hs c' q' hev
  | ok v =>
    simp only [hev, RbModel.Ref.ERes.bind, storeCast] at he
    have hok := RbThm.JmpLSim.compileExpr_correct code e off σ hc.append_left hpc hs
    simp only [RbThm.JmpLSim.ExprSpec, hev] at hok
    obtain ⟨b, st⟩ := hok
    by_cases hty : e.ty = t
    · simp [hty, RbModel.Ref.lift] at he
    · simp only [hty, if_false] at he hc
      have hi : code[off + (compileExpr e).length]? = some (CInstr.cast t, e.pos) := hc.append_right.head
      refine ⟨_, st, fail_resA (r := cast v t) ?_ he, FailAt.afterExpr σ _ v b⟩
      simp only [JmpL.Vm.step, RbThm.JmpLSim.afterExpr, hi]

/-- **a failing condition** `<cond>; JumpIfFalse target` (a condition of numeric type fails in its expression) -/
theorem cond_fails (code : Code) (c : Ast.Expr) (target : Nat) (p : Pos) (off : Nat) (σ : Vm)
    (hc : RbThm.JmpLSim.CodeAt code off (compileExpr c ++ [(CInstr.jumpIfFalse target, p)])) (hpc : σ.pc = off)
    (hs : SlotsBelow σ.env.length c) (hn : NumericAt σ.env c) {cd : Nat} {q : Pos}
    (he : JmpL.Ref.evalCond σ.env c = .error (.error cd q)) :
    ∃ υ, RbThm.JmpLSim.Steps code σ υ ∧ JmpL.Vm.step code υ = .error cd q υ ∧ FailAt σ υ := by
  simp only [JmpL.Ref.evalCond] at he
  cases hev : RbModel.Ref.eval σ.env c with
  | inexact => simp [hev] at he
  | err c' q' =>
    simp only [hev, Except.error.injEq, JmpL.Ref.Outcome.error.injEq] at he
    obtain ⟨h1, h2⟩ := he
    subst h1; subst h2
    exact expr_fails code c off σ hc.append_left hpc hs c' q' hev
  | ok v =>
    have hsome := hn v hev
    simp only [hev] at he
    cases ht : RbModel.Ref.truthy v with
    | none => simp [ht] at hsome
    | some tv => simp [ht] at he

/-- **bridge, failing instruction, explicit form**: a run of the jump layer's VM on the fragment placed alone that ends in a
failing instruction is a run of the error layer's VM to the state `{x with b := υ}` whose step is the dispatch of the error
*from that very state*, at an address inside the fragment -/
theorem lift_fails' {P : Prog} (hP : ProgOk P) {off : Nat} {frag : Code} (hc : CodeAt P.code off (lift frag))
    (hnr : ∀ ip ∈ frag, ip.1 ≠ .builtInRead) {σ υ : Vm} {c : Nat} {p : Pos}
    (st : RbThm.JmpLSim.Steps (pad off frag) σ υ) (hs : JmpL.Vm.step (pad off frag) υ = .error c p υ)
    (x : EVm) (hx : x.b = σ) :
    Steps P x { x with b := υ } ∧ off ≤ υ.pc ∧ υ.pc < off + frag.length ∧
      step P { x with b := υ } = Vm.raise P { x with b := υ } c p := by
  cases hg : (pad off frag)[υ.pc]? with
  | none => simp [JmpL.Vm.step, hg] at hs
  | some ip =>
    have hne : ip.1 ≠ .halt := by
      intro hh
      obtain ⟨i, q⟩ := ip
      simp only at hh; subst hh
      rw [step_halt hg] at hs; cases hs
    obtain ⟨hge, hf⟩ := pad_get hg hne
    have hlt : υ.pc - off < frag.length := by
      rcases Nat.lt_or_ge (υ.pc - off) frag.length with h' | h'
      · exact h'
      · rw [List.getElem?_eq_none h'] at hf; cases hf
    have hcode : P.code[υ.pc]? = some (.base ip.1, ip.2) := by
      have := hc.lift_get hf
      rwa [Nat.add_sub_cancel' hge] at this
    have hmem : ip ∈ frag := List.mem_of_getElem? hf
    have hb : JmpL.Vm.step P.base υ = .error c p υ := by
      rw [← hs]; apply step_congr; rw [base_get hP hcode, hg]
    have hstep : step P { x with b := υ } = Vm.raise P { x with b := υ } c p := by
      rw [step_base hP hcode (hnr ip hmem), hb]
    exact ⟨lift_steps hP hc hnr st x hx, hge, by omega, hstep⟩

end RbThm.ErrLSim
