import Thm.C18TwoWriters
/-!
C18, part 9 — A HANDLE OPEN FOR OUTPUT KEEPS ITS OWN WRITE OFFSET.  The counterpart of `C18TwoWriters`: a handle
open FOR OUTPUT is a `Writer` with `append = false`; `Writer.write` puts the bytes at the handle's offset
`Writer.pos` (`writeAt`: a gap is zero filled, bytes that are already there are overwritten) and advances the
offset by the number of bytes written, whatever the length of the file is by then.

* `output_print_bytes`            one PRINT # through an OUTPUT handle at offset `pos`: the file becomes
                                  `writeAt old pos bytes`, the handle's offset `pos + bytes.length`, every other
                                  inode, the directory, every other handle unchanged
* `sole_output_writer_appends`    when the offset is the length of the file (true right after OPEN FOR OUTPUT, and
                                  as long as this handle is the only writer) that is `old ++ bytes`, and the offset
                                  is again the length: a single OUTPUT writer behaves like an APPEND writer
* `sole_output_writer_run`        … for any list of PRINT # statements through the one handle
* `open_output_at_end`            OPEN FOR OUTPUT establishes the hypothesis (offset 0 = length of the truncated file)
* `output_after_foreign_append_overwrites`   the contrast, evaluated: after another handle has appended to the
                                  file, the OUTPUT handle's next PRINT # overwrites at its stale offset
-/
namespace RbThm.C18TwoWriters
open RbModel.Files RbThm.C18 RbThm.C18Multi

/-! ## A handle open FOR OUTPUT on a named file, with its write offset -/

/-- Handle `h` is open FOR OUTPUT (not APPEND) on the file that the name `k` denotes, which is inode `i`, and
its write offset is `pos`. -/
def OutputOn (s : State) (h k i : Nat) (pos : Nat) : Prop :=
  alGet s.fs.dir k = some (.file i) ∧ i < s.fs.inodes.length ∧
    ∃ fi w, alGet s.handles h = some fi ∧ fi.kind = .output w ∧ w.ino = i ∧ w.append = false ∧ w.pos = pos

theorem OutputOn.fileBytes {s : State} {h k i pos : Nat} (ha : OutputOn s h k i pos) :
    fileBytes s k = some (s.fs.data i) := by
  simp [C18Multi.fileBytes, ha.1, nodeData]

/-- An OUTPUT handle whose offset is the length of the file is a `WriterAt` of `C18`. -/
theorem OutputOn.writerAt {s : State} {h k i : Nat} (ha : OutputOn s h k i (s.fs.data i).length) :
    WriterAt s h i := by
  obtain ⟨_, hi, fi, w, h1, h2, h3, h4, h5⟩ := ha
  exact ⟨hi, fi, w, h1, h2, h3, Or.inr ⟨h4, h5⟩⟩

/-! ## One PRINT # through an OUTPUT handle -/

/-- **output_print_bytes**: one PRINT # through a handle open FOR OUTPUT with write offset `pos`, in ANY state
(other handles may be open on the same file in any mode, the file may be shorter or longer than `pos`): the
statement succeeds; the file becomes the model's write at offset `pos` of the statement's bytes into what the
file holds now (`writeAt`: zero filled gap when `pos` is past the end, overwriting when it is before the end);
the handle is still open FOR OUTPUT on the file, its offset is `pos + ` the number of bytes written; every
other inode, the directory, every other handle, the variables and the console input are unchanged. -/
theorem output_print_bytes (s : State) (h k i pos : Nat) (items : List (List Nat)) (nl : Bool)
    (hv : validHandle h = true) (ha : OutputOn s h k i pos) :
    (step s (.print h items nl)).2 = .ok ∧
      (step s (.print h items nl)).1.fs.data i = writeAt (s.fs.data i) pos (printBytes items nl) ∧
      OutputOn (step s (.print h items nl)).1 h k i (pos + (printBytes items nl).length) ∧
      (step s (.print h items nl)).1.fs.dir = s.fs.dir ∧
      (step s (.print h items nl)).1.fs.inodes.length = s.fs.inodes.length ∧
      (∀ j, j ≠ i → (step s (.print h items nl)).1.fs.data j = s.fs.data j) ∧
      (∀ h', h' ≠ h → alGet (step s (.print h items nl)).1.handles h' = alGet s.handles h') ∧
      (step s (.print h items nl)).1.vars = s.vars ∧ (step s (.print h items nl)).1.stdin = s.stdin := by
  obtain ⟨hd, hi, fi, w, hg, hk, hino, happ, hpos⟩ := ha
  obtain ⟨kind, fl, cur⟩ := fi
  obtain ⟨ino, p, app⟩ := w
  simp only at hk hino happ hpos
  subst hk hino happ hpos
  have e : step s (.print h items nl) =
      (setInfo { s with fs := s.fs.setData ino (writeAt (s.fs.data ino) p (printBytes items nl)) } h
        ⟨.output ⟨ino, p + (printBytes items nl).length, false⟩, fl, cur⟩, Out.ok) := by
    simp [step, hv, doPrint, getWriter, getInfo, hg, Writer.write]
  rw [e]
  refine ⟨rfl, ?_, ?_, rfl, ?_, ?_, ?_, rfl, rfl⟩
  · simp [setInfo, data_setData _ _ _ hi]
  · refine ⟨hd, by simpa [setInfo, Fs.setData] using hi,
      ⟨.output ⟨ino, p + (printBytes items nl).length, false⟩, fl, cur⟩,
      ⟨ino, p + (printBytes items nl).length, false⟩, ?_, rfl, rfl, rfl, rfl⟩
    simp [setInfo, alGet_alSet_same]
  · simp [setInfo, Fs.setData]
  · intro j hj
    simp [setInfo, data_setData_ne _ _ _ _ hj]
  · intro h' hh
    simp [setInfo, alGet_alSet_ne _ _ _ _ hh]

/-- The handle's entry after the PRINT #: the same entry (field lists, current field list) with the writer's
offset advanced; in particular the mode and the file are the same. -/
theorem output_print_handle (s : State) (h : Nat) (fi : FileInfo) (w : Writer) (items : List (List Nat)) (nl : Bool)
    (hv : validHandle h = true) (hg : alGet s.handles h = some fi) (hk : fi.kind = .output w)
    (happ : w.append = false) :
    alGet (step s (.print h items nl)).1.handles h
      = some { fi with kind := .output { w with pos := w.pos + (printBytes items nl).length } } := by
  obtain ⟨kind, fl, cur⟩ := fi
  obtain ⟨ino, p, app⟩ := w
  simp only at hk happ
  subst hk happ
  simp [step, hv, doPrint, getWriter, getInfo, hg, Writer.write, setInfo, alGet_alSet_same]

/-! ## The only writer: OUTPUT behaves like APPEND -/

/-- **sole_output_writer_appends**: when the offset of the OUTPUT handle is the length of the file — true
right after OPEN FOR OUTPUT (`open_output_at_end`) and as long as nobody else writes to the file — one
PRINT # through it makes the file `old ++ bytes` exactly as through an APPEND handle (`append_print_bytes`),
and the offset is again the length of the file. -/
theorem sole_output_writer_appends (s : State) (h k i : Nat) (items : List (List Nat)) (nl : Bool)
    (hv : validHandle h = true) (ha : OutputOn s h k i (s.fs.data i).length) :
    (step s (.print h items nl)).2 = .ok ∧
      (step s (.print h items nl)).1.fs.data i = s.fs.data i ++ printBytes items nl ∧
      OutputOn (step s (.print h items nl)).1 h k i ((step s (.print h items nl)).1.fs.data i).length ∧
      (step s (.print h items nl)).1.fs.dir = s.fs.dir ∧
      (step s (.print h items nl)).1.fs.inodes.length = s.fs.inodes.length ∧
      (∀ j, j ≠ i → (step s (.print h items nl)).1.fs.data j = s.fs.data j) ∧
      (∀ h', h' ≠ h → alGet (step s (.print h items nl)).1.handles h' = alGet s.handles h') := by
  have hp := output_print_bytes s h k i _ items nl hv ha
  rw [writeAt_end] at hp
  refine ⟨hp.1, hp.2.1, ?_, hp.2.2.2.1, hp.2.2.2.2.1, hp.2.2.2.2.2.1, hp.2.2.2.2.2.2.1⟩
  rw [hp.2.1, List.length_append]
  exact hp.2.2.1

/-- `PRINT #h, items[;]` for each pair, in list order, all through the one handle `h`. -/
def printsOn (h : Nat) (ps : List (List (List Nat) × Bool)) : List Op := ps.map fun p => Op.print h p.1 p.2

/-- The bytes of these statements, in order. -/
def printsBytes (ps : List (List (List Nat) × Bool)) : List Nat := (ps.map fun p => printBytes p.1 p.2).flatten

/-- **sole_output_writer_run**: any number of PRINT # statements through ONE handle open FOR OUTPUT whose
offset is at the end of the file: all succeed, the file ends up holding what it held followed by the bytes
of the statements in order (what an APPEND writer gives, `interleaved_appends`), the offset is still at the
end; every other inode, the directory and every other handle are unchanged. -/
theorem sole_output_writer_run (h k i : Nat) (ps : List (List (List Nat) × Bool)) (s : State)
    (hv : validHandle h = true) (ha : OutputOn s h k i (s.fs.data i).length) :
    (run s (printsOn h ps)).2 = ps.map (fun _ => Out.ok) ∧
      (run s (printsOn h ps)).1.fs.data i = s.fs.data i ++ printsBytes ps ∧
      OutputOn (run s (printsOn h ps)).1 h k i ((run s (printsOn h ps)).1.fs.data i).length ∧
      (run s (printsOn h ps)).1.fs.dir = s.fs.dir ∧
      (run s (printsOn h ps)).1.fs.inodes.length = s.fs.inodes.length ∧
      (∀ j, j ≠ i → (run s (printsOn h ps)).1.fs.data j = s.fs.data j) ∧
      (∀ h', h' ≠ h → alGet (run s (printsOn h ps)).1.handles h' = alGet s.handles h') := by
  induction ps generalizing s with
  | nil =>
    exact ⟨rfl, by simp [printsOn, run, printsBytes], ha, rfl, rfl, fun _ _ => rfl, fun _ _ => rfl⟩
  | cons p rest ih =>
    have h1 := sole_output_writer_appends s h k i p.1 p.2 hv ha
    have h2 := ih (step s (.print h p.1 p.2)).1 h1.2.2.1
    simp only [printsOn, List.map_cons, run] at h2 ⊢
    refine ⟨by rw [h1.1, h2.1], ?_, h2.2.2.1, by rw [h2.2.2.2.1, h1.2.2.2.1],
      by rw [h2.2.2.2.2.1, h1.2.2.2.2.1], ?_, ?_⟩
    · rw [h2.2.1, h1.2.1]
      simp [printsBytes]
    · intro j hj
      rw [h2.2.2.2.2.2.1 j hj, h1.2.2.2.2.2.1 j hj]
    · intro h' hh
      rw [h2.2.2.2.2.2.2 h' hh, h1.2.2.2.2.2.2 h' hh]

theorem OutputOn.at_end_of_empty {s : State} {h k i : Nat} (hd : s.fs.data i = []) (ha : OutputOn s h k i 0) :
    s.fs.data i = [] ∧ OutputOn s h k i (s.fs.data i).length := ⟨hd, by rw [hd]; exact ha⟩

/-- **open_output_at_end**: `OPEN k FOR OUTPUT AS #h` on a free handle, the name being an existing file or
missing: ok, the handle is open FOR OUTPUT on the file with offset 0, and the file is empty — the hypothesis
of `sole_output_writer_appends`. -/
theorem open_output_at_end (s : State) (h k : Nat) (hv : validHandle h = true)
    (hc : alGet s.handles h = none) (hndir : alGet s.fs.dir k ≠ some .dir)
    (hwf : ∀ j, alGet s.fs.dir k = some (.file j) → j < s.fs.inodes.length) :
    (step s (.open h (.plain k) .output 0)).2 = .ok ∧
      ∃ i, (step s (.open h (.plain k) .output 0)).1.fs.data i = [] ∧
        OutputOn (step s (.open h (.plain k) .output 0)).1 h k i
          ((step s (.open h (.plain k) .output 0)).1.fs.data i).length := by
  cases hd : alGet s.fs.dir k with
  | some node =>
    cases node with
    | dir => exact absurd hd hndir
    | file j =>
      have hj := hwf j hd
      have e : step s (.open h (.plain k) .output 0)
          = (setInfo { s with fs := s.fs.setData j [] } h
              (FileInfo.new (.output { ino := j, pos := 0, append := false })), .ok) := by
        simp [step, doOpen, hv, hc, Fs.openCreate, Fs.resolve, hd]
      rw [e]
      exact ⟨rfl, j, OutputOn.at_end_of_empty (by simp [setInfo, data_setData _ _ _ hj])
        ⟨by simpa [setInfo, Fs.setData] using hd, by simpa [setInfo, Fs.setData] using hj,
          FileInfo.new (.output { ino := j, pos := 0, append := false }), { ino := j, pos := 0, append := false },
          by simp [setInfo, alGet_alSet_same], rfl, rfl, rfl, rfl⟩⟩
  | none =>
    have e : step s (.open h (.plain k) .output 0)
        = (setInfo { s with fs := { inodes := s.fs.inodes ++ [[]],
                                    dir := alSet s.fs.dir k (.file s.fs.inodes.length) } } h
            (FileInfo.new (.output { ino := s.fs.inodes.length, pos := 0, append := false })), .ok) := by
      simp [step, doOpen, hv, hc, Fs.openCreate, Fs.resolve, hd]
    rw [e]
    exact ⟨rfl, s.fs.inodes.length, OutputOn.at_end_of_empty (by simp [setInfo, Fs.data])
      ⟨by simp [setInfo, alGet_alSet_same], by simp [setInfo],
        FileInfo.new (.output { ino := s.fs.inodes.length, pos := 0, append := false }),
        { ino := s.fs.inodes.length, pos := 0, append := false },
        by simp [setInfo, alGet_alSet_same], rfl, rfl, rfl, rfl⟩⟩

/-! ## The contrast: another handle appends in between -/

/-- `OPEN "f" FOR OUTPUT AS #1 : PRINT #1, "ab" : OPEN "f" FOR APPEND AS #2 : PRINT #2, "cd" : PRINT #1, "x"`
in an empty directory (`"f"` is name 0). -/
def staleState : State := { fs := { inodes := [], dir := [] }, handles := [], vars := [], stdin := [] }

def staleOps : List Op :=
  [.open 1 (.plain 0) .output 0, .print 1 [[97, 98]] true, .open 2 (.plain 0) .append 0,
   .print 2 [[99, 100]] true, .print 1 [[120]] true]

/-- **output_after_foreign_append_overwrites**: every statement succeeds; after the fourth the file holds
`"ab" CR LF "cd" CR LF` (8 bytes) while handle 1 is open FOR OUTPUT with the stale offset 4; the last PRINT #1
writes `"x" CR LF` at offset 4, OVER `"cd" CR`: the file ends up holding `"ab" CR LF "x" CR LF LF` — not
`"ab" CR LF "cd" CR LF "x" CR LF`, which two APPEND handles give (`interleaved_appends`). -/
theorem output_after_foreign_append_overwrites :
    (run staleState staleOps).2 = [.ok, .ok, .ok, .ok, .ok] ∧
      (run staleState (staleOps.take 4)).1.fs.data 0 = [97, 98, 13, 10, 99, 100, 13, 10] ∧
      OutputOn (run staleState (staleOps.take 4)).1 1 0 0 4 ∧
      AppendOn (run staleState (staleOps.take 4)).1 2 0 0 ∧
      (run staleState staleOps).1.fs.data 0 = [97, 98, 13, 10, 120, 13, 10, 10] ∧
      (run staleState staleOps).1.fs.data 0 = writeAt [97, 98, 13, 10, 99, 100, 13, 10] 4 [120, 13, 10] ∧
      OutputOn (run staleState staleOps).1 1 0 0 7 :=
  ⟨by decide +kernel, by decide +kernel, ⟨rfl, by decide +kernel, _, _, rfl, rfl, rfl, rfl, rfl⟩,
    ⟨rfl, by decide +kernel, _, _, rfl, rfl, rfl, rfl⟩, by decide +kernel, by decide +kernel,
    ⟨rfl, by decide +kernel, _, _, rfl, rfl, rfl, rfl, rfl⟩⟩

/-- The same last step from `output_print_bytes` (its hypotheses hold of the state after four statements):
the file becomes the write at the stale offset 4 into the 8 bytes. -/
example : (step (run staleState (staleOps.take 4)).1 (.print 1 [[120]] true)).1.fs.data 0
    = writeAt ((run staleState (staleOps.take 4)).1.fs.data 0) 4 (printBytes [[120]] true) :=
  (output_print_bytes _ 1 0 0 4 [[120]] true (by decide)
    ⟨rfl, by decide +kernel, _, _, rfl, rfl, rfl, rfl, rfl⟩).2.1

/-- Non-vacuity of `sole_output_writer_run`: OPEN FOR OUTPUT on an existing file holding `"o"`, then
`PRINT #1, "ab";` and `PRINT #1, "c"` through the only writer: `"abc" CR LF`. -/
example : (run (step demoState (.open 1 (.plain 0) .output 0)).1 (printsOn 1 [([[97, 98]], false), ([[99]], true)])).1.fs.data 0
    = [] ++ printsBytes [([[97, 98]], false), ([[99]], true)] :=
  (sole_output_writer_run 1 0 0 [([[97, 98]], false), ([[99]], true)] _ (by decide)
    ⟨rfl, by decide +kernel, _, _, rfl, rfl, rfl, rfl, rfl⟩).2.1

example : [] ++ printsBytes [([[97, 98]], false), ([[99]], true)] = [97, 98, 99, 13, 10] := by decide +kernel

end RbThm.C18TwoWriters
