import Thm.JmpLEncloseConv
/-!
Jump layer, the checker's rule about jumps into FOR bodies and SELECT CASE blocks (`JmpL.encB` / `JmpL.jumpsEnclosedB`):
**a jump into a block from outside it is rejected**, in general.

A seeded change to the real linter once made block identity degenerate to nesting depth, so that a GOTO from inside one
FOR body / CASE block to a label inside a *sibling* block was accepted (harness family `cross-block`).  `JmpLEnclose` has two
evaluated examples (`intoFor`, `siblingFor`); here are the statements for all statements and programs.

* `encB_mono` / `encB_mono_outer` (+ ElseIfs / SCases companions): more jumps outside can only make the rule stricter.
* `outer_jump_into_for_rejected`, `outer_jump_into_select_rejected`: an outside jump to a label of a FOR body / of a block of
  a SELECT is rejected at that FOR / SELECT.
* `insideBlock s`: the labels of `s` inside some FOR body or SELECT block of `s`, at any depth (IF / WHILE / DO are
  transparent); `outer_jump_into_block_rejected : L ∈ outer → L ∈ insideBlock s → encB outer s = false`.
* `sibling_jump_rejected` / `sibling_jump_rejected_symm`, `cross_block_goto_rejected` (+ the four FOR / SELECT forms),
  `program_with_sibling_jump_rejected`, and the any-depth form `crossAt_rejected` (`CrossAt L s`: somewhere in `s` two
  neighbouring parts, one with a jump to `L`, the other with `L` inside a block).
* `sibling_jump_outside_premise`: such a program is outside the premise `progWfB` of the simulation theorem.
* non-vacuity: `siblingFor` as an instance of `cross_block_goto_rejected`, a FOR → SELECT CASE instance, a nested instance.
-/
namespace RbThm.JmpLEnclose
set_option linter.unusedVariables false
set_option linter.unusedSimpArgs false
open RbModel RbModel.Num RbModel.JmpL RbModel.JmpL.Compile
open RbModel.Ast (Pos)

/-! ### 1. monotonicity in the outside jumps -/

theorem noneIntoB_intro_false {outer inner : List Nat} {L : Nat} (ho : L ∈ outer) (hi : L ∈ inner) :
    noneIntoB outer inner = false := by
  cases h : noneIntoB outer inner with
  | false => rfl
  | true => exact absurd hi (noneIntoB_elim h ho)

theorem noneIntoB_mono {o1 o2 inner : List Nat} (hs : ∀ L ∈ o1, L ∈ o2) (h : noneIntoB o2 inner = true) :
    noneIntoB o1 inner = true :=
  noneIntoB_of fun L hL => noneIntoB_elim h (hs L hL)

theorem sub_app {o1 o2 : List Nat} (hs : ∀ L ∈ o1, L ∈ o2) (x : List Nat) : ∀ L ∈ o1 ++ x, L ∈ o2 ++ x := by
  intro L hL
  rcases List.mem_append.mp hL with h | h
  · exact List.mem_append.mpr (.inl (hs L h))
  · exact List.mem_append.mpr (.inr h)

mutual
/-- the list-subset form: fewer jumps outside, same verdict or better -/
theorem encB_mono : ∀ (s : SStmt) (o1 o2 : List Nat), (∀ L ∈ o1, L ∈ o2) → encB o2 s = true → encB o1 s = true
  | .seq a b, o1, o2, hs, h => by
    simp only [encB, Bool.and_eq_true] at h ⊢
    exact ⟨encB_mono a _ _ (sub_app hs _) h.1, encB_mono b _ _ (sub_app hs _) h.2⟩
  | .ifBlock c thn elifs hasElse els p, o1, o2, hs, h => by
    simp only [encB, Bool.and_eq_true] at h ⊢
    exact ⟨⟨encB_mono thn _ _ (sub_app hs _) h.1.1, encElifsB_mono elifs _ _ (sub_app hs _) h.1.2⟩,
      encB_mono els _ _ (sub_app hs _) h.2⟩
  | .select sel cases hasElse els p, o1, o2, hs, h => by
    simp only [encB, Bool.and_eq_true] at h ⊢
    exact ⟨⟨noneIntoB_mono hs h.1.1, encCasesB_mono cases _ _ (sub_app hs _) h.1.2⟩,
      encB_mono els _ _ (sub_app hs _) h.2⟩
  | .forLoop x t lo hi step body p, o1, o2, hs, h => by
    simp only [encB, Bool.and_eq_true] at h ⊢
    exact ⟨noneIntoB_mono hs h.1, encB_mono body _ _ hs h.2⟩
  | .while c body p, o1, o2, hs, h => by
    simp only [encB] at h ⊢
    exact encB_mono body _ _ hs h
  | .doLoop c top u body p, o1, o2, hs, h => by
    simp only [encB] at h ⊢
    exact encB_mono body _ _ hs h
  | .skip, _, _, _, _ => by simp [encB]
  | .comment, _, _, _, _ => by simp [encB]
  | .dim _ _ _, _, _, _, _ => by simp [encB]
  | .assign _ _ _ _, _, _, _, _ => by simp [encB]
  | .print _ _, _, _, _, _ => by simp [encB]
  | .data _ _, _, _, _, _ => by simp [encB]
  | .read _ _, _, _, _, _ => by simp [encB]
  | .end_ _, _, _, _, _ => by simp [encB]
  | .label _ _ _, _, _, _, _ => by simp [encB]
  | .goto _ _, _, _, _, _ => by simp [encB]
  | .gosub _ _, _, _, _, _ => by simp [encB]
  | .ret _, _, _, _, _ => by simp [encB]
theorem encElifsB_mono : ∀ (el : ElseIfs) (o1 o2 : List Nat), (∀ L ∈ o1, L ∈ o2) → encElifsB o2 el = true →
    encElifsB o1 el = true
  | .nil, _, _, _, _ => by simp [encElifsB]
  | .cons c body rest, o1, o2, hs, h => by
    simp only [encElifsB, Bool.and_eq_true] at h ⊢
    exact ⟨encB_mono body _ _ (sub_app hs _) h.1, encElifsB_mono rest _ _ (sub_app hs _) h.2⟩
theorem encCasesB_mono : ∀ (cs : SCases) (o1 o2 : List Nat), (∀ L ∈ o1, L ∈ o2) → encCasesB o2 cs = true →
    encCasesB o1 cs = true
  | .nil, _, _, _, _ => by simp [encCasesB]
  | .cons conds body rest, o1, o2, hs, h => by
    simp only [encCasesB, Bool.and_eq_true] at h ⊢
    exact ⟨encB_mono body _ _ (sub_app hs _) h.1, encCasesB_mono rest _ _ (sub_app hs _) h.2⟩
end

/-- more jumps outside can only make the rule stricter -/
theorem encB_mono_outer (outer extra : List Nat) (s : SStmt) (h : encB (outer ++ extra) s = true) : encB outer s = true :=
  encB_mono s _ _ (fun L hL => List.mem_append.mpr (.inl hL)) h
theorem encElifsB_mono_outer (outer extra : List Nat) (el : ElseIfs) (h : encElifsB (outer ++ extra) el = true) :
    encElifsB outer el = true :=
  encElifsB_mono el _ _ (fun L hL => List.mem_append.mpr (.inl hL)) h
theorem encCasesB_mono_outer (outer extra : List Nat) (cs : SCases) (h : encCasesB (outer ++ extra) cs = true) :
    encCasesB outer cs = true :=
  encCasesB_mono cs _ _ (fun L hL => List.mem_append.mpr (.inl hL)) h

/-- the contrapositive, the form used below: rejected with fewer outside jumps, rejected with more -/
theorem encB_false_mono {s : SStmt} {o1 o2 : List Nat} (hs : ∀ L ∈ o1, L ∈ o2) (h : encB o1 s = false) :
    encB o2 s = false := by
  cases h2 : encB o2 s with
  | false => rfl
  | true => rw [encB_mono s o1 o2 hs h2] at h; exact absurd h (by decide)

/-! ### 2. an outside jump to a label of a FOR body / of a block of a SELECT -/

theorem outer_jump_into_for_rejected {outer : List Nat} {L : Nat} (x : Nat) (t : Ty) (lo hi : Ast.Expr)
    (step : Option Ast.Expr) (body : SStmt) (p : Pos) (ho : L ∈ outer) (hl : L ∈ body.labels) :
    encB outer (.forLoop x t lo hi step body p) = false := by
  simp only [encB, noneIntoB_intro_false ho hl, Bool.false_and]

theorem outer_jump_into_select_rejected {outer : List Nat} {L : Nat} (e : Ast.Expr) (cases : SCases) (hasElse : Bool)
    (els : SStmt) (p : Pos) (ho : L ∈ outer) (hl : L ∈ cases.labels ++ els.labels) :
    encB outer (.select e cases hasElse els p) = false := by
  simp only [encB, noneIntoB_intro_false ho hl, Bool.false_and]

/-! ### 3. the deep form -/

mutual
/-- the labels of `s` that lie inside some FOR body or some block of a SELECT CASE of `s`, at any depth; IF blocks, WHILE and
DO bodies are transparent: a label directly in one of them (and in no FOR / SELECT) is not inside a block -/
def insideBlock : SStmt → List Nat
  | .seq a b => insideBlock a ++ insideBlock b
  | .ifBlock _ thn elifs _ els _ => insideBlock thn ++ (insideBlockElifs elifs ++ insideBlock els)
  | .select _ cases _ els _ => cases.labels ++ els.labels
  | .forLoop _ _ _ _ _ body _ => body.labels
  | .while _ body _ => insideBlock body
  | .doLoop _ _ _ body _ => insideBlock body
  | _ => []
def insideBlockElifs : ElseIfs → List Nat
  | .nil => []
  | .cons _ body rest => insideBlock body ++ insideBlockElifs rest
def insideBlockCases : SCases → List Nat
  | .nil => []
  | .cons _ body rest => insideBlock body ++ insideBlockCases rest
end

mutual
/-- the labels inside a block are labels of the statement -/
theorem insideBlock_sub_labels : ∀ (s : SStmt) (L : Nat), L ∈ insideBlock s → L ∈ s.labels
  | .seq a b, L, h => by
    simp only [insideBlock, SStmt.labels, List.mem_append] at h ⊢
    exact h.imp (insideBlock_sub_labels a L) (insideBlock_sub_labels b L)
  | .ifBlock c thn elifs hasElse els p, L, h => by
    simp only [insideBlock, SStmt.labels, List.mem_append] at h ⊢
    exact h.imp (insideBlock_sub_labels thn L) (Or.imp (insideBlockElifs_sub_labels elifs L) (insideBlock_sub_labels els L))
  | .select sel cases hasElse els p, L, h => by simpa only [insideBlock, SStmt.labels] using h
  | .forLoop x t lo hi step body p, L, h => by simpa only [insideBlock, SStmt.labels] using h
  | .while c body p, L, h => by
    simp only [insideBlock, SStmt.labels] at h ⊢
    exact insideBlock_sub_labels body L h
  | .doLoop c top u body p, L, h => by
    simp only [insideBlock, SStmt.labels] at h ⊢
    exact insideBlock_sub_labels body L h
  | .skip, _, h => by simp [insideBlock] at h
  | .comment, _, h => by simp [insideBlock] at h
  | .dim _ _ _, _, h => by simp [insideBlock] at h
  | .assign _ _ _ _, _, h => by simp [insideBlock] at h
  | .print _ _, _, h => by simp [insideBlock] at h
  | .data _ _, _, h => by simp [insideBlock] at h
  | .read _ _, _, h => by simp [insideBlock] at h
  | .end_ _, _, h => by simp [insideBlock] at h
  | .label _ _ _, _, h => by simp [insideBlock] at h
  | .goto _ _, _, h => by simp [insideBlock] at h
  | .gosub _ _, _, h => by simp [insideBlock] at h
  | .ret _, _, h => by simp [insideBlock] at h
theorem insideBlockElifs_sub_labels : ∀ (el : ElseIfs) (L : Nat), L ∈ insideBlockElifs el → L ∈ el.labels
  | .nil, _, h => by simp [insideBlockElifs] at h
  | .cons c body rest, L, h => by
    simp only [insideBlockElifs, ElseIfs.labels, List.mem_append] at h ⊢
    exact h.imp (insideBlock_sub_labels body L) (insideBlockElifs_sub_labels rest L)
theorem insideBlockCases_sub_labels : ∀ (cs : SCases) (L : Nat), L ∈ insideBlockCases cs → L ∈ cs.labels
  | .nil, _, h => by simp [insideBlockCases] at h
  | .cons conds body rest, L, h => by
    simp only [insideBlockCases, SCases.labels, List.mem_append] at h ⊢
    exact h.imp (insideBlock_sub_labels body L) (insideBlockCases_sub_labels rest L)
end

mutual
/-- the accepting direction: the rule holds, so no outside jump names a label inside a block -/
theorem enc_outer_not_inside : ∀ (s : SStmt) (outer : List Nat) (L : Nat), encB outer s = true → L ∈ outer →
    L ∉ insideBlock s
  | .seq a b, outer, L, he, ho, hi => by
    simp only [encB, Bool.and_eq_true] at he
    simp only [insideBlock, List.mem_append] at hi
    rcases hi with hi | hi
    · exact enc_outer_not_inside a _ L he.1 (List.mem_append.mpr (.inl ho)) hi
    · exact enc_outer_not_inside b _ L he.2 (List.mem_append.mpr (.inl ho)) hi
  | .ifBlock c thn elifs hasElse els p, outer, L, he, ho, hi => by
    simp only [encB, Bool.and_eq_true] at he
    simp only [insideBlock, List.mem_append] at hi
    rcases hi with hi | hi | hi
    · exact enc_outer_not_inside thn _ L he.1.1 (List.mem_append.mpr (.inl ho)) hi
    · exact enc_outer_not_inside_elifs elifs _ L he.1.2 (List.mem_append.mpr (.inl ho)) hi
    · exact enc_outer_not_inside els _ L he.2 (List.mem_append.mpr (.inl ho)) hi
  | .select sel cases hasElse els p, outer, L, he, ho, hi => by
    simp only [encB, Bool.and_eq_true] at he
    simp only [insideBlock] at hi
    exact noneIntoB_elim he.1.1 ho hi
  | .forLoop x t lo hi' step body p, outer, L, he, ho, hi => by
    simp only [encB, Bool.and_eq_true] at he
    simp only [insideBlock] at hi
    exact noneIntoB_elim he.1 ho hi
  | .while c body p, outer, L, he, ho, hi => by
    simp only [encB] at he
    simp only [insideBlock] at hi
    exact enc_outer_not_inside body _ L he ho hi
  | .doLoop c top u body p, outer, L, he, ho, hi => by
    simp only [encB] at he
    simp only [insideBlock] at hi
    exact enc_outer_not_inside body _ L he ho hi
  | .skip, _, _, _, _, hi => by simp [insideBlock] at hi
  | .comment, _, _, _, _, hi => by simp [insideBlock] at hi
  | .dim _ _ _, _, _, _, _, hi => by simp [insideBlock] at hi
  | .assign _ _ _ _, _, _, _, _, hi => by simp [insideBlock] at hi
  | .print _ _, _, _, _, _, hi => by simp [insideBlock] at hi
  | .data _ _, _, _, _, _, hi => by simp [insideBlock] at hi
  | .read _ _, _, _, _, _, hi => by simp [insideBlock] at hi
  | .end_ _, _, _, _, _, hi => by simp [insideBlock] at hi
  | .label _ _ _, _, _, _, _, hi => by simp [insideBlock] at hi
  | .goto _ _, _, _, _, _, hi => by simp [insideBlock] at hi
  | .gosub _ _, _, _, _, _, hi => by simp [insideBlock] at hi
  | .ret _, _, _, _, _, hi => by simp [insideBlock] at hi
theorem enc_outer_not_inside_elifs : ∀ (el : ElseIfs) (outer : List Nat) (L : Nat), encElifsB outer el = true → L ∈ outer →
    L ∉ insideBlockElifs el
  | .nil, _, _, _, _, hi => by simp [insideBlockElifs] at hi
  | .cons c body rest, outer, L, he, ho, hi => by
    simp only [encElifsB, Bool.and_eq_true] at he
    simp only [insideBlockElifs, List.mem_append] at hi
    rcases hi with hi | hi
    · exact enc_outer_not_inside body _ L he.1 (List.mem_append.mpr (.inl ho)) hi
    · exact enc_outer_not_inside_elifs rest _ L he.2 (List.mem_append.mpr (.inl ho)) hi
theorem enc_outer_not_inside_cases : ∀ (cs : SCases) (outer : List Nat) (L : Nat), encCasesB outer cs = true → L ∈ outer →
    L ∉ insideBlockCases cs
  | .nil, _, _, _, _, hi => by simp [insideBlockCases] at hi
  | .cons conds body rest, outer, L, he, ho, hi => by
    simp only [encCasesB, Bool.and_eq_true] at he
    simp only [insideBlockCases, List.mem_append] at hi
    rcases hi with hi | hi
    · exact enc_outer_not_inside body _ L he.1 (List.mem_append.mpr (.inl ho)) hi
    · exact enc_outer_not_inside_cases rest _ L he.2 (List.mem_append.mpr (.inl ho)) hi
end

/-- **a jump into a block from outside it is rejected**: an outside jump that names a label inside some FOR body or some
block of a SELECT CASE of `s`, at any depth, makes the rule fail on `s` -/
theorem outer_jump_into_block_rejected {outer : List Nat} {L : Nat} {s : SStmt} (ho : L ∈ outer) (hi : L ∈ insideBlock s) :
    encB outer s = false := by
  cases h : encB outer s with
  | false => rfl
  | true => exact absurd hi (enc_outer_not_inside s outer L h ho)

theorem outer_jump_into_block_rejected_elifs {outer : List Nat} {L : Nat} {el : ElseIfs} (ho : L ∈ outer)
    (hi : L ∈ insideBlockElifs el) : encElifsB outer el = false := by
  cases h : encElifsB outer el with
  | false => rfl
  | true => exact absurd hi (enc_outer_not_inside_elifs el outer L h ho)

theorem outer_jump_into_block_rejected_cases {outer : List Nat} {L : Nat} {cs : SCases} (ho : L ∈ outer)
    (hi : L ∈ insideBlockCases cs) : encCasesB outer cs = false := by
  cases h : encCasesB outer cs with
  | false => rfl
  | true => exact absurd hi (enc_outer_not_inside_cases cs outer L h ho)

/-! ### 4. siblings -/

/-- a jump in `a` to a label inside a block of the next statement `b` -/
theorem sibling_jump_rejected {outer : List Nat} {L : Nat} {a b : SStmt} (hj : L ∈ a.jumps) (hi : L ∈ insideBlock b) :
    encB outer (.seq a b) = false := by
  simp only [encB, outer_jump_into_block_rejected (outer := outer ++ a.jumps) (List.mem_append.mpr (.inr hj)) hi,
    Bool.and_false]

/-- a jump in `b` to a label inside a block of the previous statement `a` -/
theorem sibling_jump_rejected_symm {outer : List Nat} {L : Nat} {a b : SStmt} (hj : L ∈ b.jumps) (hi : L ∈ insideBlock a) :
    encB outer (.seq a b) = false := by
  simp only [encB, outer_jump_into_block_rejected (outer := outer ++ b.jumps) (List.mem_append.mpr (.inr hj)) hi,
    Bool.false_and]

/-- a FOR statement or a SELECT CASE statement -/
def isBlockB : SStmt → Bool
  | .forLoop .. => true
  | .select .. => true
  | _ => false

theorem insideBlock_of_block : ∀ (s : SStmt), isBlockB s = true → insideBlock s = s.labels
  | .forLoop .., _ => by simp only [insideBlock, SStmt.labels]
  | .select .., _ => by simp only [insideBlock, SStmt.labels]
  | .seq .., h | .ifBlock .., h | .while .., h | .doLoop .., h | .skip, h | .comment, h | .dim .., h | .assign .., h
  | .print .., h | .data .., h | .read .., h | .end_ .., h | .label .., h | .goto .., h | .gosub .., h | .ret .., h => by
    simp [isBlockB] at h

/-- **the cross-block jump**: a jump anywhere in `a` (in particular inside a FOR body / a CASE block of `a`, at any depth) to
a label anywhere in the sibling FOR / SELECT CASE statement `b` is rejected, whatever the kinds of the two blocks; block
identity is not nesting depth -/
theorem cross_block_goto_rejected {outer : List Nat} {L : Nat} {a b : SStmt} (hb : isBlockB b = true) (hj : L ∈ a.jumps)
    (hl : L ∈ b.labels) : encB outer (.seq a b) = false :=
  sibling_jump_rejected hj (by rw [insideBlock_of_block b hb]; exact hl)

theorem cross_block_goto_rejected_symm {outer : List Nat} {L : Nat} {a b : SStmt} (ha : isBlockB a = true)
    (hj : L ∈ b.jumps) (hl : L ∈ a.labels) : encB outer (.seq a b) = false :=
  sibling_jump_rejected_symm hj (by rw [insideBlock_of_block a ha]; exact hl)

/-- FOR body → the body of the next FOR -/
theorem cross_for_for_rejected {outer : List Nat} {L : Nat} (x : Nat) (t : Ty) (lo hi : Ast.Expr) (step : Option Ast.Expr)
    (bodyA : SStmt) (p : Pos) (x' : Nat) (t' : Ty) (lo' hi' : Ast.Expr) (step' : Option Ast.Expr) (bodyB : SStmt) (p' : Pos)
    (hj : L ∈ bodyA.jumps) (hl : L ∈ bodyB.labels) :
    encB outer (.seq (.forLoop x t lo hi step bodyA p) (.forLoop x' t' lo' hi' step' bodyB p')) = false :=
  cross_block_goto_rejected rfl (by simpa only [SStmt.jumps, SStmt.gotos, SStmt.gosubs] using hj)
    (by simpa only [SStmt.labels] using hl)

/-- FOR body → a block of the next SELECT CASE -/
theorem cross_for_select_rejected {outer : List Nat} {L : Nat} (x : Nat) (t : Ty) (lo hi : Ast.Expr) (step : Option Ast.Expr)
    (bodyA : SStmt) (p : Pos) (e : Ast.Expr) (cases : SCases) (hasElse : Bool) (els : SStmt) (p' : Pos)
    (hj : L ∈ bodyA.jumps) (hl : L ∈ cases.labels ++ els.labels) :
    encB outer (.seq (.forLoop x t lo hi step bodyA p) (.select e cases hasElse els p')) = false :=
  cross_block_goto_rejected rfl (by simpa only [SStmt.jumps, SStmt.gotos, SStmt.gosubs] using hj)
    (by simpa only [SStmt.labels] using hl)

/-- a block of a SELECT CASE → the body of the next FOR -/
theorem cross_select_for_rejected {outer : List Nat} {L : Nat} (e : Ast.Expr) (cases : SCases) (hasElse : Bool) (els : SStmt)
    (p : Pos) (x : Nat) (t : Ty) (lo hi : Ast.Expr) (step : Option Ast.Expr) (bodyB : SStmt) (p' : Pos)
    (hj : L ∈ cases.jumps ++ els.jumps) (hl : L ∈ bodyB.labels) :
    encB outer (.seq (.select e cases hasElse els p) (.forLoop x t lo hi step bodyB p')) = false := by
  refine cross_block_goto_rejected rfl ?_ (by simpa only [SStmt.labels] using hl)
  simp only [SStmt.jumps, SCases.jumps, SStmt.gotos, SStmt.gosubs, List.mem_append] at hj ⊢
  rcases hj with (h | h) | (h | h)
  · exact .inl (.inl h)
  · exact .inr (.inl h)
  · exact .inl (.inr h)
  · exact .inr (.inr h)

/-- a block of a SELECT CASE → a block of the next SELECT CASE -/
theorem cross_select_select_rejected {outer : List Nat} {L : Nat} (e : Ast.Expr) (cases : SCases) (hasElse : Bool)
    (els : SStmt) (p : Pos) (e' : Ast.Expr) (cases' : SCases) (hasElse' : Bool) (els' : SStmt) (p' : Pos)
    (hj : L ∈ cases.jumps ++ els.jumps) (hl : L ∈ cases'.labels ++ els'.labels) :
    encB outer (.seq (.select e cases hasElse els p) (.select e' cases' hasElse' els' p')) = false := by
  refine cross_block_goto_rejected rfl ?_ (by simpa only [SStmt.labels] using hl)
  simp only [SStmt.jumps, SCases.jumps, SStmt.gotos, SStmt.gosubs, List.mem_append] at hj ⊢
  rcases hj with (h | h) | (h | h)
  · exact .inl (.inl h)
  · exact .inr (.inl h)
  · exact .inl (.inr h)
  · exact .inr (.inr h)

/-- two CASE blocks of one SELECT are different blocks for the jump only through the statements around them: the rule has
one block per SELECT (as the linter: one number per SELECT CASE statement), so a jump from one CASE block to a label directly
in another CASE block of the same SELECT is accepted — recorded here by evaluation, so that the statements above are not read
as saying more than they do -/
example : encB [] (.select (.lit (.int 1) ⟨1, 1⟩)
    (.cons [] (.goto 0 ⟨1, 1⟩) (.cons [] (.label 0 "L" ⟨1, 1⟩) .nil)) false .skip ⟨1, 1⟩) = true := by decide

/-- the program form -/
theorem program_with_sibling_jump_rejected {prog : SProgram} {a b : SStmt} {L : Nat} (hb : prog.body = .seq a b)
    (hj : L ∈ a.jumps) (hi : L ∈ insideBlock b) : jumpsEnclosedB prog = false := by
  simp only [jumpsEnclosedB, hb]
  exact sibling_jump_rejected hj hi

theorem program_with_sibling_jump_rejected_symm {prog : SProgram} {a b : SStmt} {L : Nat} (hb : prog.body = .seq a b)
    (hj : L ∈ b.jumps) (hi : L ∈ insideBlock a) : jumpsEnclosedB prog = false := by
  simp only [jumpsEnclosedB, hb]
  exact sibling_jump_rejected_symm hj hi

/-! ### 4b. the two parts anywhere in the program -/

mutual
/-- somewhere in `s` (at any depth, under any construct) there are two neighbouring parts — the two sides of a sequence, two
branches of an IF block, two CASE blocks / the CASE ELSE of a SELECT — one of which has a jump to `L` while `L` is inside a
FOR body / a block of a SELECT CASE of the other -/
def CrossAt (L : Nat) : SStmt → Prop
  | .seq a b => (L ∈ a.jumps ∧ L ∈ insideBlock b) ∨ (L ∈ b.jumps ∧ L ∈ insideBlock a) ∨ CrossAt L a ∨ CrossAt L b
  | .ifBlock _ thn elifs _ els _ =>
    (L ∈ elifs.jumps ++ els.jumps ∧ L ∈ insideBlock thn) ∨ (L ∈ thn.jumps ++ els.jumps ∧ L ∈ insideBlockElifs elifs) ∨
      (L ∈ thn.jumps ++ elifs.jumps ∧ L ∈ insideBlock els) ∨ CrossAt L thn ∨ CrossAtElifs L elifs ∨ CrossAt L els
  | .select _ cases _ els _ =>
    (L ∈ els.jumps ∧ L ∈ insideBlockCases cases) ∨ (L ∈ cases.jumps ∧ L ∈ insideBlock els) ∨ CrossAtCases L cases ∨
      CrossAt L els
  | .forLoop _ _ _ _ _ body _ => CrossAt L body
  | .while _ body _ => CrossAt L body
  | .doLoop _ _ _ body _ => CrossAt L body
  | _ => False
def CrossAtElifs (L : Nat) : ElseIfs → Prop
  | .nil => False
  | .cons _ body rest =>
    (L ∈ rest.jumps ∧ L ∈ insideBlock body) ∨ (L ∈ body.jumps ∧ L ∈ insideBlockElifs rest) ∨ CrossAt L body ∨
      CrossAtElifs L rest
def CrossAtCases (L : Nat) : SCases → Prop
  | .nil => False
  | .cons _ body rest =>
    (L ∈ rest.jumps ∧ L ∈ insideBlock body) ∨ (L ∈ body.jumps ∧ L ∈ insideBlockCases rest) ∨ CrossAt L body ∨
      CrossAtCases L rest
end

theorem mem_extra {outer extra : List Nat} {L : Nat} (h : L ∈ extra) : L ∈ outer ++ extra := List.mem_append.mpr (.inr h)

mutual
/-- **the cross-block jump at any depth is rejected**, whatever the outside jumps -/
theorem crossAt_rejected : ∀ (s : SStmt) (outer : List Nat) (L : Nat), CrossAt L s → encB outer s = false
  | .seq a b, outer, L, h => by
    simp only [CrossAt] at h
    simp only [encB, Bool.and_eq_false_iff]
    rcases h with ⟨hj, hi⟩ | ⟨hj, hi⟩ | h | h
    · exact .inr (outer_jump_into_block_rejected (mem_extra hj) hi)
    · exact .inl (outer_jump_into_block_rejected (mem_extra hj) hi)
    · exact .inl (crossAt_rejected a _ L h)
    · exact .inr (crossAt_rejected b _ L h)
  | .ifBlock c thn elifs hasElse els p, outer, L, h => by
    simp only [CrossAt] at h
    simp only [encB, Bool.and_eq_false_iff]
    rcases h with ⟨hj, hi⟩ | ⟨hj, hi⟩ | ⟨hj, hi⟩ | h | h | h
    · exact .inl (.inl (outer_jump_into_block_rejected (mem_extra hj) hi))
    · exact .inl (.inr (outer_jump_into_block_rejected_elifs (mem_extra hj) hi))
    · exact .inr (outer_jump_into_block_rejected (mem_extra hj) hi)
    · exact .inl (.inl (crossAt_rejected thn _ L h))
    · exact .inl (.inr (crossAt_rejected_elifs elifs _ L h))
    · exact .inr (crossAt_rejected els _ L h)
  | .select sel cases hasElse els p, outer, L, h => by
    simp only [CrossAt] at h
    simp only [encB, Bool.and_eq_false_iff]
    rcases h with ⟨hj, hi⟩ | ⟨hj, hi⟩ | h | h
    · exact .inl (.inr (outer_jump_into_block_rejected_cases (mem_extra hj) hi))
    · exact .inr (outer_jump_into_block_rejected (mem_extra hj) hi)
    · exact .inl (.inr (crossAt_rejected_cases cases _ L h))
    · exact .inr (crossAt_rejected els _ L h)
  | .forLoop x t lo hi step body p, outer, L, h => by
    simp only [CrossAt] at h
    simp only [encB, Bool.and_eq_false_iff]
    exact .inr (crossAt_rejected body _ L h)
  | .while c body p, outer, L, h => by
    simp only [CrossAt] at h
    simp only [encB]
    exact crossAt_rejected body _ L h
  | .doLoop c top u body p, outer, L, h => by
    simp only [CrossAt] at h
    simp only [encB]
    exact crossAt_rejected body _ L h
  | .skip, _, _, h => by simp [CrossAt] at h
  | .comment, _, _, h => by simp [CrossAt] at h
  | .dim _ _ _, _, _, h => by simp [CrossAt] at h
  | .assign _ _ _ _, _, _, h => by simp [CrossAt] at h
  | .print _ _, _, _, h => by simp [CrossAt] at h
  | .data _ _, _, _, h => by simp [CrossAt] at h
  | .read _ _, _, _, h => by simp [CrossAt] at h
  | .end_ _, _, _, h => by simp [CrossAt] at h
  | .label _ _ _, _, _, h => by simp [CrossAt] at h
  | .goto _ _, _, _, h => by simp [CrossAt] at h
  | .gosub _ _, _, _, h => by simp [CrossAt] at h
  | .ret _, _, _, h => by simp [CrossAt] at h
theorem crossAt_rejected_elifs : ∀ (el : ElseIfs) (outer : List Nat) (L : Nat), CrossAtElifs L el →
    encElifsB outer el = false
  | .nil, _, _, h => by simp [CrossAtElifs] at h
  | .cons c body rest, outer, L, h => by
    simp only [CrossAtElifs] at h
    simp only [encElifsB, Bool.and_eq_false_iff]
    rcases h with ⟨hj, hi⟩ | ⟨hj, hi⟩ | h | h
    · exact .inl (outer_jump_into_block_rejected (mem_extra hj) hi)
    · exact .inr (outer_jump_into_block_rejected_elifs (mem_extra hj) hi)
    · exact .inl (crossAt_rejected body _ L h)
    · exact .inr (crossAt_rejected_elifs rest _ L h)
theorem crossAt_rejected_cases : ∀ (cs : SCases) (outer : List Nat) (L : Nat), CrossAtCases L cs →
    encCasesB outer cs = false
  | .nil, _, _, h => by simp [CrossAtCases] at h
  | .cons conds body rest, outer, L, h => by
    simp only [CrossAtCases] at h
    simp only [encCasesB, Bool.and_eq_false_iff]
    rcases h with ⟨hj, hi⟩ | ⟨hj, hi⟩ | h | h
    · exact .inl (outer_jump_into_block_rejected (mem_extra hj) hi)
    · exact .inr (outer_jump_into_block_rejected_cases (mem_extra hj) hi)
    · exact .inl (crossAt_rejected body _ L h)
    · exact .inr (crossAt_rejected_cases rest _ L h)
end

theorem program_with_cross_jump_rejected {prog : SProgram} {L : Nat} (h : CrossAt L prog.body) :
    jumpsEnclosedB prog = false := crossAt_rejected prog.body [] L h

/-! ### 5. outside the premise of the simulation theorem -/

/-- a program with a jump from one statement into a block of its neighbour is outside the premise `progWfB` of the jump
layer's simulation theorem (through `not_enclosed_not_premise`) -/
theorem sibling_jump_outside_premise {prog : SProgram} {a b : SStmt} {L : Nat} (hb : prog.body = .seq a b)
    (hj : L ∈ a.jumps) (hi : L ∈ insideBlock b) : progWfB prog = false :=
  not_enclosed_not_premise prog (program_with_sibling_jump_rejected hb hj hi)

theorem sibling_jump_outside_premise_symm {prog : SProgram} {a b : SStmt} {L : Nat} (hb : prog.body = .seq a b)
    (hj : L ∈ b.jumps) (hi : L ∈ insideBlock a) : progWfB prog = false :=
  not_enclosed_not_premise prog (program_with_sibling_jump_rejected_symm hb hj hi)

theorem cross_jump_outside_premise {prog : SProgram} {L : Nat} (h : CrossAt L prog.body) : progWfB prog = false :=
  not_enclosed_not_premise prog (program_with_cross_jump_rejected h)

/-! ### 6. non-vacuity -/

private def q0 : Pos := ⟨1, 1⟩
private def one : Ast.Expr := .lit (.int 1) q0

/-- `siblingFor` of `JmpLEnclose` is an instance of `cross_block_goto_rejected` -/
example : jumpsEnclosedB siblingFor = false :=
  cross_block_goto_rejected (outer := []) (L := 0) (a := .forLoop 0 .int one one none (.goto 0 q0) q0)
    (b := .forLoop 0 .int one one none (.label 0 "L" q0) q0) (by decide) (by decide) (by decide)

example : progWfB siblingFor = false :=
  sibling_jump_outside_premise (L := 0) (a := .forLoop 0 .int one one none (.goto 0 q0) q0)
    (b := .forLoop 0 .int one one none (.label 0 "L" q0) q0) rfl (by decide) (by decide)

/-- `FOR x = 1 TO 1 : GOTO 0 : NEXT : SELECT CASE 1 : CASE ELSE … CASE: 0: … END SELECT` — from a FOR body into a CASE
block of the next SELECT CASE (both blocks at depth 1) -/
def forIntoSelect : SProgram :=
  ⟨[.int], .seq (.forLoop 0 .int one one none (.goto 0 q0) q0)
    (.select one (.cons [] (.label 0 "L" q0) .nil) false .skip q0)⟩

example : jumpsEnclosedB forIntoSelect = false :=
  cross_for_select_rejected (outer := []) (L := 0) 0 .int one one none (.goto 0 q0) q0 one
    (.cons [] (.label 0 "L" q0) .nil) false .skip q0 (by decide) (by decide)

example : jumpsEnclosedB forIntoSelect = false ∧ progWfB forIntoSelect = false := by decide +kernel

/-- the deep form on blocks of different depths and under transparent constructs: the jump is in a FOR body inside a WHILE
body, the label in a CASE block inside a FOR body inside a DO body; both inside the body of one outer FOR -/
def nestedCross : SProgram :=
  ⟨[.int], .forLoop 0 .int one one none
    (.seq (.while one (.forLoop 0 .int one one none (.gosub 7 q0) q0) q0)
      (.doLoop one true false (.forLoop 0 .int one one none
        (.select one (.cons [] (.label 7 "L" q0) .nil) false .skip q0) q0) q0)) q0⟩

example : CrossAt 7 nestedCross.body := by
  simp only [nestedCross, CrossAt]
  exact .inl (by decide)

example : jumpsEnclosedB nestedCross = false ∧ progWfB nestedCross = false :=
  have h : CrossAt 7 nestedCross.body := by
    simp only [nestedCross, CrossAt]
    exact .inl (by decide)
  ⟨program_with_cross_jump_rejected h, cross_jump_outside_premise h⟩

/-- the transparent constructs are not blocks: a label directly in a WHILE body is not inside a block, and the jump to it
from the neighbouring FOR body is accepted -/
example : insideBlock (.while one (.label 0 "L" q0) q0) = [] ∧
    encB [] (.seq (.forLoop 0 .int one one none (.goto 0 q0) q0) (.while one (.label 0 "L" q0) q0)) = true := by decide

end RbThm.JmpLEnclose
