import Thm.ProcJSimBase
import Thm.ProcSimExpr
import Thm.ProcSimCall
/-!
Layer "procedures ∪ jumps", simulation part — the expression cases (literal, variable, unary and binary operators, parentheses,
function call from the call hypothesis `CallIH`) and argument lists.  Port of `Thm/ProcSimExpr.lean` and of the argument part of
`Thm/ProcSimCall.lean`: only `SameStacks` has one more field (the GOSUB stack).
-/
namespace RbThm.ProcJSim
set_option linter.unusedVariables false
set_option linter.unusedSimpArgs false
open RbModel RbModel.ProcJ RbModel.ProcJ.Compile RbModel.ProcJ.Vm
open RbModel.Num hiding Expr
open RbModel.Ast (Pos)
open RbModel.Proc (Var SlotTabs Expr Args PrintItem CaseExpr ProcDecl zeroOf Sigs sigsOf)
open RbModel.Proc.Compile (Layout Layout.addr sizeExpr sizePush refCount sizeExprTo sizeSubCall sizeItems sizeCaseExpr sizeConds
  sizeExit labelName stepSuffix maxPos)
open RbModel.Proc.Vm (Regs Regs.new Frame CtxState getVar setVar curVars modCur curStatic applyArgs readVars binInstr)
open RbModel.ProcJ.Ref (Outcome Mode Act)
open RbThm.ProcJLen
open RbThm.ProcSim (Scope Collecting curVars_pre curVars_pre_s curStatic_pre curStatic_pre_s modCur_pre TabRel TabRel.set
  FrameRel FrameRel.set topState ogetVar StatRel getVar_setVar_same getVar_setVar_ne getElem?_setVar_ne created_setVar
  EWf AWf ItemsWf SelRelOp CaseWf CondsWf lslot list_set_getD_self truthy_of_tag)

theorem ex_case_lit (W : World) (fuel : Nat) (v : Val) (p : Pos) (sc : Scope) (off : Nat) (pre below : List CtxState)
    (s : St) (σ : Vm) (hc : CodeAt W.code off (compileExpr W.lay off (.lit v p))) (hpc : σ.pc = off)
    (hr : Rel W sc pre below s σ) :
    ExprPost W sc pre below (sizeExpr (.lit v p)) (Proc.Expr.lit v p).ty off σ
      (ProcJ.Ref.eval W.P (fuel + 1) (.lit v p) s) := by
  simp only [compileExpr] at hc
  have h0 : W.code[σ.pc]? = some (CInstr.loadA v, p) := by rw [hpc]; exact hc.head
  simp only [ProcJ.Ref.eval, ExprPost, sizeExpr, Proc.Expr.ty]
  refine ⟨Vm.advance (Vm.setA σ v), Steps.one ?_, by simp [Vm.advance, Vm.setA, hpc], rfl, (hr.setA v).advance,
    ⟨rfl, rfl, rfl, rfl, rfl, rfl, rfl, id⟩, trivial⟩
  simp only [Vm.step, h0]

theorem ex_case_var (W : World) (fuel : Nat) (x : Var) (t : Ty) (p : Pos) (sc : Scope) (off : Nat)
    (pre below : List CtxState) (s : St) (σ : Vm) (hc : CodeAt W.code off (compileExpr W.lay off (.var x t p)))
    (hpc : σ.pc = off) (hr : Rel W sc pre below s σ) (hw : EWf W.sg sc.slots (.var x t p)) :
    ExprPost W sc pre below (sizeExpr (.var x t p)) (Proc.Expr.var x t p).ty off σ
      (ProcJ.Ref.eval W.P (fuel + 1) (.var x t p) s) := by
  simp only [EWf] at hw
  have hc' : CodeAt W.code σ.pc (loadVar x t p) := by rw [hpc]; exact hc
  have st := var_steps W sc pre below s x t p σ hc' hr hw
  simp only [ProcJ.Ref.eval, ExprPost, sizeExpr, Proc.Expr.ty]
  exact ⟨_, st, by simp [loadSt, hpc], rfl, hr.loadSt _, SameStacks.loadSt σ _,
    hr.get_tag hw⟩

/-- an instruction that rewrites A by a `Res`-valued operation, after an expression whose value is in A -/
theorem ex_after_resA (W : World) (sc : Scope) (pre below : List CtxState) (σ τ : Vm) (s1 : St) (p : Pos)
    (r : Res Val) (n : Nat) (off : Nat) (ty : Ty) (st : Steps W.code σ τ) (hp : τ.pc = off + n)
    (hrel : Rel W sc pre below s1 τ) (hss : SameStacks σ τ) (hs : Vm.step W.code τ = Vm.resA τ p r)
    (htag : ∀ w, r = .ok w → w.tag = ty) :
    ExprPost W sc pre below (n + 1) ty off σ (ProcJ.Ref.liftV s1 p r) := by
  cases hr : r with
  | ok w =>
    simp only [ProcJ.Ref.liftV, ExprPost]
    exact ⟨_, st.trans (resA_ok hs hr), by simp [Vm.advance, Vm.setA, hp]; omega, rfl, (hrel.setA w).advance,
      hss.trans ⟨rfl, rfl, rfl, rfl, rfl, rfl, rfl, id⟩, htag w hr⟩
  | err e =>
    simp only [ProcJ.Ref.liftV, ExprPost, ErrPost]
    rw [← hrel.out]
    exact ErrsWith.of_steps st (resA_err hs hr)
  | inexact => simp only [ProcJ.Ref.liftV, ExprPost, ErrPost]

theorem ex_case_un (W : World) (fuel : Nat) (ih : IHle W fuel) (op : UnOp) (e : Proc.Expr) (p : Pos) (sc : Scope)
    (off : Nat) (pre below : List CtxState) (s : St) (σ : Vm)
    (hc : CodeAt W.code off (compileExpr W.lay off (.un op e p))) (hpc : σ.pc = off) (hr : Rel W sc pre below s σ)
    (hw : EWf W.sg sc.slots (.un op e p)) :
    ExprPost W sc pre below (sizeExpr (.un op e p)) (Proc.Expr.un op e p).ty off σ
      (ProcJ.Ref.eval W.P (fuel + 1) (.un op e p) s) := by
  simp only [EWf] at hw
  have hce : CodeAt W.code off (compileExpr W.lay off e) := by
    cases op <;> (simp only [compileExpr] at hc; exact hc.append_left)
  have he := ih.self.expr sc e off pre below s σ hce hpc hr hw
  simp only [ProcJ.Ref.eval, sizeExpr, Proc.Expr.ty]
  generalize ProcJ.Ref.eval W.P fuel e s = r at he ⊢
  obtain ⟨s1, rv⟩ := r
  cases rv with
  | error o => exact he
  | ok v =>
    obtain ⟨τ, st, hp, ha, hrel, hss, htag⟩ := he
    simp only
    cases op with
    | neg =>
      simp only [compileExpr] at hc
      have hi : W.code[τ.pc]? = some (CInstr.negateA, p) := by
        have := hc.append_right.head
        rw [len_expr] at this
        rw [hp]; exact this
      refine ex_after_resA W sc pre below σ τ s1 p (negate v) (sizeExpr e) off e.ty st hp hrel hss ?_ ?_
      · simp only [Vm.step, hi, ha]
      · intro w hw'
        rw [RbThm.C01Sim.SimRead.negate_tag v w hw']; exact htag
    | not =>
      simp only [compileExpr] at hc
      have hi : W.code[τ.pc]? = some (CInstr.notA, p) := by
        have := hc.append_right.head
        rw [len_expr] at this
        rw [hp]; exact this
      refine ex_after_resA W sc pre below σ τ s1 p (unaryNot v) (sizeExpr e) off e.ty st hp hrel hss ?_ ?_
      · simp only [Vm.step, hi, ha]
      · intro w hw'
        rw [RbThm.C01Sim.SimRead.unaryNot_tag v w hw']; exact htag

theorem ex_case_paren (W : World) (fuel : Nat) (ih : IHle W fuel) (e : Proc.Expr) (p : Pos) (sc : Scope)
    (off : Nat) (pre below : List CtxState) (s : St) (σ : Vm)
    (hc : CodeAt W.code off (compileExpr W.lay off (.paren e p))) (hpc : σ.pc = off) (hr : Rel W sc pre below s σ)
    (hw : EWf W.sg sc.slots (.paren e p)) :
    ExprPost W sc pre below (sizeExpr (.paren e p)) (Proc.Expr.paren e p).ty off σ
      (ProcJ.Ref.eval W.P (fuel + 1) (.paren e p) s) := by
  simp only [EWf] at hw
  simp only [compileExpr] at hc
  simp only [ProcJ.Ref.eval, sizeExpr, Proc.Expr.ty]
  exact ih.self.expr sc e off pre below s σ hc hpc hr hw

/-- the operator tail of a binary expression: `CopyAToB; PopValueStackIntoA; <op>; [Cast t]` -/
theorem ex_bin_tail (code : Code) (op : Op) (t : Ty) (p : Pos) (q : Nat) (τ : Vm) (a bv : Val) (vs : List Val)
    (hc : CodeAt code q ([(CInstr.copyAToB, p), (CInstr.popA, p), (CInstr.bin op, p)] ++
      (if op = .divide then [(CInstr.cast t, p)] else [])))
    (hpc : τ.pc = q) (ha : τ.regs.a = bv) (hv : τ.vals = a :: vs) :
    match RbModel.Proc.Ref.binStep op t a bv with
    | .ok w => Steps code τ { τ with pc := q + 3 + (if op = .divide then 1 else 0),
                                      regs := { τ.regs with a := w, b := bv }, vals := vs }
    | .err e => ErrsWith code τ (RbModel.Proc.Ref.codeOf e) p τ.out
    | .inexact => True := by
  have h0 : code[τ.pc]? = some (CInstr.copyAToB, p) := by rw [hpc]; exact hc.append_left.head
  have h1 : code[τ.pc + 1]? = some (CInstr.popA, p) := by rw [hpc]; exact hc.append_left.tail.head
  have h2 : code[τ.pc + 1 + 1]? = some (CInstr.bin op, p) := by rw [hpc]; exact hc.append_left.tail.tail.head
  let τ1 : Vm := Vm.advance { τ with regs := { τ.regs with b := τ.regs.a } }
  let τ2 : Vm := Vm.advance { Vm.setA τ1 a with vals := vs }
  have s1 : Vm.step code τ = .next τ1 := by simp only [Vm.step, h0]; rfl
  have s2 : Vm.step code τ1 = .next τ2 := by
    simp only [Vm.step, τ1, Vm.advance, h1, hv]; rfl
  have s3 : Vm.step code τ2 = Vm.resA τ2 p (binInstr op a bv) := by
    simp only [Vm.step, τ2, τ1, Vm.advance, Vm.setA, h2, ha]
  have st : Steps code τ τ2 := Steps.cons s1 (Steps.one s2)
  rw [RbThm.ProcSim.binStep_eq]
  by_cases hd : op = .divide
  · simp only [hd, if_true] at hc ⊢
    have h3 : code[τ.pc + 1 + 1 + 1]? = some (CInstr.cast t, p) := by
      rw [hpc]; exact hc.append_right.head
    subst hd
    cases hb : binInstr .divide a bv with
    | ok qv =>
      let τ3 : Vm := Vm.advance (Vm.setA τ2 qv)
      have s3' : Vm.step code τ2 = .next τ3 := by rw [s3, hb]; rfl
      have s4 : Vm.step code τ3 = Vm.resA τ3 p (cast qv t) := by
        simp only [Vm.step, τ3, τ2, τ1, Vm.advance, Vm.setA, h3]
      simp only [Res.bind]
      cases hcst : cast qv t with
      | ok w =>
        simp only
        refine st.trans (Steps.cons s3' (Steps.one ?_))
        rw [s4, hcst]
        simp only [Vm.resA, τ3, τ2, τ1, Vm.advance, Vm.setA, ha, hpc]
      | err e =>
        simp only
        refine ⟨τ3, τ3, st.trans (Steps.one s3'), ?_, rfl⟩
        rw [s4, hcst]; rfl
      | inexact => simp
    | err e =>
      simp only [Res.bind]
      refine ⟨τ2, τ2, st, ?_, rfl⟩
      rw [s3, hb]; rfl
    | inexact => simp [Res.bind]
  · simp only [hd, if_false]
    cases hb : binInstr op a bv with
    | ok w =>
      simp only
      refine st.trans (Steps.one ?_)
      rw [s3, hb]
      simp only [Vm.resA, τ2, τ1, Vm.advance, Vm.setA, ha, hpc, Nat.add_zero]
    | err e =>
      simp only
      refine ⟨τ2, τ2, st, ?_, rfl⟩
      rw [s3, hb]; rfl
    | inexact => simp

theorem ex_case_bin (W : World) (fuel : Nat) (ih : IHle W fuel) (op : Op) (l r : Proc.Expr) (t : Ty) (p : Pos)
    (sc : Scope) (off : Nat) (pre below : List CtxState) (s : St) (σ : Vm)
    (hc : CodeAt W.code off (compileExpr W.lay off (.bin op l r t p))) (hpc : σ.pc = off)
    (hr : Rel W sc pre below s σ) (hw : EWf W.sg sc.slots (.bin op l r t p)) :
    ExprPost W sc pre below (sizeExpr (.bin op l r t p)) (Proc.Expr.bin op l r t p).ty off σ
      (ProcJ.Ref.eval W.P (fuel + 1) (.bin op l r t p) s) := by
  simp only [EWf] at hw
  obtain ⟨hwl, hwr, hop⟩ := hw
  simp only [compileExpr] at hc
  have hcl : CodeAt W.code off (compileExpr W.lay off l) := hc.append_left.append_left.append_left.append_left
  have hpush : W.code[off + sizeExpr l]? = some (CInstr.pushA, p) := by
    have := hc.append_left.append_left.append_left.append_right.head
    rwa [len_expr] at this
  have hcr : CodeAt W.code (off + sizeExpr l + 1) (compileExpr W.lay (off + sizeExpr l + 1) r) := by
    have := hc.append_left.append_left.append_right
    simp only [List.length_append, List.length_singleton, len_expr] at this
    exact this.at (by omega)
  have hct : CodeAt W.code (off + sizeExpr l + 1 + sizeExpr r)
      ([(CInstr.copyAToB, p), (CInstr.popA, p), (CInstr.bin op, p)] ++
        (if op = .divide then [(CInstr.cast t, p)] else [])) := by
    have h1 := hc.append_left.append_right
    have h2 := hc.append_right
    intro i hi
    by_cases h3 : i < 3
    · have := h1 i (by simpa using h3)
      simp only [List.length_append, List.length_singleton, len_expr] at this
      rw [List.getElem?_append_left (by simpa using h3)]
      rw [← this]; congr 1; omega
    · have := h2 (i - 3) (by simp at hi ⊢; omega)
      simp only [List.length_append, List.length_cons, List.length_nil, len_expr] at this
      rw [List.getElem?_append_right (by simp; omega)]
      simp only [List.length_cons, List.length_nil]
      rw [← this]; congr 1; omega
  have hl := ih.self.expr sc l off pre below s σ hcl hpc hr hwl
  simp only [ProcJ.Ref.eval, sizeExpr, Proc.Expr.ty]
  generalize ProcJ.Ref.eval W.P fuel l s = rl at hl ⊢
  obtain ⟨s1, rv⟩ := rl
  cases rv with
  | error o => exact hl
  | ok a =>
    obtain ⟨τ1, st1, hp1, ha1, hrel1, hss1, htag1⟩ := hl
    -- push the left value
    let τ2 : Vm := Vm.advance { τ1 with vals := τ1.regs.a :: τ1.vals }
    have spush : Vm.step W.code τ1 = .next τ2 := by
      have : W.code[τ1.pc]? = some (CInstr.pushA, p) := by rw [hp1]; exact hpush
      simp only [Vm.step, this]; rfl
    have hrel2 : Rel W sc pre below s1 τ2 := hrel1.same rfl rfl rfl rfl rfl rfl
    have hrr := ih.self.expr sc r (off + sizeExpr l + 1) pre below s1 τ2 hcr (by simp [τ2, Vm.advance, hp1]) hrel2 hwr
    simp only
    generalize ProcJ.Ref.eval W.P fuel r s1 = rr at hrr ⊢
    obtain ⟨s2, rv2⟩ := rr
    have pre12 : Steps W.code σ τ2 := st1.trans (Steps.one spush)
    cases rv2 with
    | error o => exact ErrPost.of_steps pre12 hrr
    | ok bv =>
      obtain ⟨τ3, st3, hp3, ha3, hrel3, hss3, htag3⟩ := hrr
      have hv3 : τ3.vals = a :: σ.vals := by
        rw [hss3.vals]; simp only [τ2, Vm.advance]; rw [ha1, hss1.vals]
      have tail := ex_bin_tail W.code op t p _ τ3 a bv σ.vals hct hp3 ha3 hv3
      have pre13 : Steps W.code σ τ3 := pre12.trans st3
      simp only
      cases hb : RbModel.Proc.Ref.binStep op t a bv with
      | ok w =>
        simp only [hb] at tail
        simp only [ProcJ.Ref.liftV, ExprPost]
        refine ⟨_, pre13.trans tail, ?_, rfl, hrel3.same rfl rfl rfl rfl rfl rfl, ?_,
          RbThm.ProcSim.binStep_tag op l r t a bv w htag1 htag3 hop hb⟩
        · simp only; omega
        · refine ⟨by simp [hss1.vals], ?_, ?_, ?_, ?_, ?_, ?_, ?_⟩
          · simp only; rw [hss3.paths]; simp only [τ2, Vm.advance]; exact hss1.paths
          · simp only; rw [hss3.regStack]; simp only [τ2, Vm.advance]; exact hss1.regStack
          · simp only; rw [hss3.rets]; simp only [τ2, Vm.advance]; exact hss1.rets
          · simp only; rw [hss3.marks]; simp only [τ2, Vm.advance]; exact hss1.marks
          · simp only; rw [hss3.gosubs]; simp only [τ2, Vm.advance]; exact hss1.gosubs
          · simp only; rw [hss3.trace]; simp only [τ2, Vm.advance]; exact hss1.trace
          · intro hk; exact hss3.skip (hss1.skip hk)
      | err e =>
        simp only [hb] at tail
        simp only [ProcJ.Ref.liftV, ExprPost, ErrPost]
        rw [← hrel3.out]
        exact ErrsWith.of_steps pre13 tail
      | inexact => simp only [ProcJ.Ref.liftV, ExprPost, ErrPost]

theorem ex_case_callFn (W : World) (fuel : Nat) (ih : IHle W fuel) (f : Nat) (args : Args) (t : Ty) (p : Pos)
    (sc : Scope) (off : Nat) (pre below : List CtxState) (s : St) (σ : Vm)
    (hc : CodeAt W.code off (compileExpr W.lay off (.callFn f args t p))) (hpc : σ.pc = off)
    (hr : Rel W sc pre below s σ) (hw : EWf W.sg sc.slots (.callFn f args t p)) :
    ExprPost W sc pre below (sizeExpr (.callFn f args t p)) (Proc.Expr.callFn f args t p).ty off σ
      (ProcJ.Ref.eval W.P (fuel + 1) (.callFn f args t p) s) := by
  simp only [EWf] at hw
  rw [callCode_fn] at hc
  have h := ih.self.call sc f args p (some t) off pre below s σ hc hpc hr hw.1 hw.2
  rw [sizeCall_fn]
  simp only [ProcJ.Ref.eval, Proc.Expr.ty]
  generalize ProcJ.Ref.call W.P fuel f args s = r at h ⊢
  obtain ⟨s1, rv⟩ := r
  cases rv with
  | error o => exact h
  | ok v =>
    obtain ⟨τ, st, hp, hrel, hss, hres⟩ := h
    obtain ⟨ha, htag⟩ := hres t rfl
    exact ⟨τ, st, hp, ha, hrel, hss, htag⟩

/-- the expression part of the induction step -/
theorem expr_correct (W : World) (fuel : Nat) (ih : IHle W fuel) : ExprIH W (fuel + 1) := by
  intro sc e off pre below s σ hc hpc hr hw
  cases e with
  | lit v p => exact ex_case_lit W fuel v p sc off pre below s σ hc hpc hr
  | var x t p => exact ex_case_var W fuel x t p sc off pre below s σ hc hpc hr hw
  | un op e p => exact ex_case_un W fuel ih op e p sc off pre below s σ hc hpc hr hw
  | bin op l r t p => exact ex_case_bin W fuel ih op l r t p sc off pre below s σ hc hpc hr hw
  | paren e p => exact ex_case_paren W fuel ih e p sc off pre below s σ hc hpc hr hw
  | callFn f args t p => exact ex_case_callFn W fuel ih f args t p sc off pre below s σ hc hpc hr hw

/-! ### moving the collecting prefix -/

/-- the same activation under another collecting prefix (an argument-collecting state was pushed, filled or dropped) -/
theorem Rel.repre {W : World} {sc : Scope} {pre pre' below : List CtxState} {s : St} {σ τ : Vm}
    (h : Rel W sc pre below s σ) (hcoll : Collecting pre')
    (hctx : ∀ fr, σ.ctx = pre ++ topState sc fr :: below → τ.ctx = pre' ++ topState sc fr :: below)
    (ho : τ.out = σ.out) (hd : τ.data = σ.data) (hi : τ.dataIdx = σ.dataIdx) (hq : τ.queue = σ.queue)
    (hf : τ.funRes = σ.funRes) (hg : τ.glob = σ.glob) (hs : τ.statics = σ.statics) : Rel W sc pre' below s τ := by
  obtain ⟨fr, h1, h2, h3⟩ := h.ctx
  have hc' := hctx fr h1
  have hcf : τ.curFrame = some fr := by
    have e := h2
    unfold Vm.curFrame at e ⊢
    rw [h1, RbThm.ProcSim.curVars_coll _ h.coll] at e
    rw [hc', hs, RbThm.ProcSim.curVars_coll _ hcoll]; exact e
  exact ⟨hcoll, h.self, ⟨fr, hc', hcf, h3⟩, h.typed, h.gl, by rw [hg]; exact h.glob, h.gtyped,
    by rw [hs]; exact h.stat, h.scok, by rw [ho, h.out], by rw [hd, h.data], by rw [hi, h.dataIdx],
    by rw [hq, h.queue], by rw [hf, h.funRes]⟩

/-! ### argument lists -/

/-- `PushNamed`: the value in A joins the collecting state on top -/
theorem ex_pushNamed_step (W : World) (sc : Scope) (pre below : List CtxState) (s : St) (τ : Vm) (vs : List Val)
    (pn : String) (pt : Ty) (p : Pos) (hi : W.code[τ.pc]? = some (CInstr.pushNamed pn pt, p))
    (hr : Rel W sc (.args vs :: pre) below s τ) :
    ∃ υ, Vm.step W.code τ = .next υ ∧ υ.pc = τ.pc + 1 ∧ Rel W sc (.args (vs ++ [τ.regs.a]) :: pre) below s υ ∧
      SameStacks τ υ := by
  obtain ⟨fr, h1, h2, h3⟩ := hr.ctx
  have h1' : τ.ctx = .args vs :: (pre ++ topState sc fr :: below) := by simpa using h1
  refine ⟨Vm.advance { τ with ctx := .args (vs ++ [τ.regs.a]) :: (pre ++ topState sc fr :: below) }, ?_, rfl, ?_,
    ⟨rfl, rfl, rfl, rfl, rfl, rfl, rfl, id⟩⟩
  · simp only [Vm.step, hi, pushArg, h1']
  · refine hr.repre (pre' := .args (vs ++ [τ.regs.a]) :: pre) hr.coll ?_ rfl rfl rfl rfl rfl rfl rfl
    intro fr' hfr'
    have : pre ++ topState sc fr :: below = pre ++ topState sc fr' :: below := by
      have e := h1.symm.trans hfr'
      simpa using e
    simp only [Vm.advance, List.cons_append, this]

/-- the argument part of the induction step: the arguments are evaluated left to right into the collecting state (by value
with `Cast`, a by-reference actual with the variable's current value) -/
theorem args_correct (W : World) (fuel : Nat) (ih : IHle W fuel) : ArgsIH W (fuel + 1) := by
  intro sc args off pre below vs0 s σ hc hpc hr hw
  cases args with
  | nil =>
    simp only [ProcJ.Ref.evalArgs, ArgsPost, sizePush, Args.params, List.map_nil, List.append_nil, Nat.add_zero]
    exact ⟨σ, Steps.refl σ, hpc, hr, SameStacks.refl σ, trivial⟩
  | cons e pn pt rest =>
    simp only [AWf] at hw
    obtain ⟨hwe, hwr, hwrest⟩ := hw
    simp only [pushArgs] at hc
    have hce : CodeAt W.code off (compileExprTo W.lay off e pt) := hc.append_left.append_left
    have he := exprTo_correct' W fuel ih sc e pt off (.args vs0 :: pre) below s σ hce hpc hr hwe
    simp only [ProcJ.Ref.evalArgs, sizePush]
    generalize ProcJ.Ref.evalTo W.P fuel e pt s = r at he ⊢
    obtain ⟨s1, rv⟩ := r
    cases rv with
    | error o => exact he
    | ok v =>
      obtain ⟨τ, st, hp, hav, hrel, hss, htag⟩ := he
      have hi : W.code[τ.pc]? = some (CInstr.pushNamed pn pt, e.pos) := by
        have := hc.append_left.append_right.head
        simp only [List.length_append, len_expr] at this
        rw [hp]; simp only [sizeExprTo]
        rw [← this]; congr 1
        by_cases h : e.ty = pt <;> simp [h]
      obtain ⟨υ, sυ, hpυ, hrelυ, hssυ⟩ := ex_pushNamed_step W sc pre below s1 τ vs0 pn pt e.pos hi hrel
      rw [hav] at hrelυ
      have hcr : CodeAt W.code υ.pc (pushArgs W.lay υ.pc rest) := by
        have := hc.append_right
        simp only [List.length_append, List.length_singleton, len_expr] at this
        have e1 : υ.pc = off + sizeExpr e + (if e.ty = pt then 0 else 1) + 1 := by
          rw [hpυ, hp]; simp only [sizeExprTo]; omega
        have e2 : off + (sizeExpr e + (if e.ty = pt then [] else [(CInstr.cast pt, e.pos)]).length + 1) = υ.pc := by
          rw [e1]; by_cases h : e.ty = pt <;> simp [h] <;> omega
        rw [e1]; rw [e1] at e2
        exact this.at e2
      have hrest := (ih.self.args) sc rest υ.pc pre below (vs0 ++ [v]) s1 υ hcr rfl hrelυ hwrest
      simp only
      generalize ProcJ.Ref.evalArgs W.P fuel rest s1 = r2 at hrest ⊢
      obtain ⟨s2, rv2⟩ := r2
      have pre1 : Steps W.code σ υ := st.trans (Steps.one sυ)
      cases rv2 with
      | error o => exact ErrPost.of_steps pre1 hrest
      | ok vals =>
        obtain ⟨ω, st2, hp2, hrel2, hss2, htags⟩ := hrest
        refine ⟨ω, pre1.trans st2, ?_, ?_, (hss.trans hssυ).trans hss2, ?_⟩
        · rw [hp2, hpυ, hp]; simp only [sizeExprTo, sizePush]; omega
        · rw [List.append_assoc] at hrel2; exact hrel2
        · simp only [Args.params, List.map_cons, htag, htags]

end RbThm.ProcJSim
