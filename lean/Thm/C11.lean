import RbModel.RowCol
/-!
C11 — every diagnostic names the right place in the source (the proved part).

1. The row/column table (`create_row_col_view`, `StringView::position`) is the human row/column of the
   text under every mixture of LF, CRLF and CR line endings — for all texts, by induction on the text:
   `rowcol_characterisation` (texts given as lines + terminators), `every_text_is_lines` (every text is one),
   `position_is_human` (pointwise form against the independent reference `humanRowCol`), `eof_*`.
2. The list of positions of a run-time error is `[error position, call sites innermost first …]`:
   `stacktrace_is_callsites` over the model of the `PushStack` / `PopStack` / error bookkeeping.

Not proved here (carried by the fault-injection run `harness/src/bin/c11.rs`): that the grammar, the
checker and the instruction generator hand the *right* index / `Position` to this machinery.
-/
namespace RbThm.C11
open RbModel.RowCol

/-! ## The index loop is the structural table -/

theorem drop_eq_getD_cons (l : List Nat) (i : Nat) (h : i < l.length) :
    l.drop i = l.getD i 0 :: l.drop (i + 1) := by
  induction l generalizing i with
  | nil => simp at h
  | cons a t ih =>
    cases i with
    | zero => simp
    | succ i =>
      simp only [List.length_cons] at h
      have := ih i (by omega)
      simpa using this

theorem head?_drop (l : List Nat) (i : Nat) :
    (l.drop i).head? = some LF ↔ (i < l.length ∧ l.getD i 0 = LF) := by
  induction l generalizing i with
  | nil => simp
  | cons a t ih =>
    cases i with
    | zero => simp
    | succ i =>
      have := ih i
      simpa using this

theorem loop_eq (chars : List Nat) (fuel i row col : Nat) (data : List (Nat × Nat))
    (hf : chars.length - i ≤ fuel) :
    loop chars fuel i row col data = data ++ tableFrom (chars.drop i) row col := by
  induction fuel generalizing i row col data with
  | zero =>
    have : chars.length ≤ i := by omega
    simp [loop, List.drop_eq_nil_of_le this, tableFrom]
  | succ fuel ih =>
    unfold loop
    by_cases hi : i < chars.length
    · have hd := drop_eq_getD_cons chars i hi
      have hh := head?_drop chars (i + 1)
      have hlt : (i < chars.length - 1) ↔ (i + 1 < chars.length) := by omega
      simp only [hi, if_true]
      rw [hd]
      unfold tableFrom
      by_cases hcr : chars.getD i 0 = CR
      · simp only [hcr, if_true]
        by_cases hlf : (i + 1 < chars.length ∧ chars.getD (i + 1) 0 = LF)
        · have h1 : i < chars.length - 1 ∧ chars.getD (i + 1) 0 = LF := ⟨hlt.mpr hlf.1, hlf.2⟩
          have h2 : (List.drop (i + 1) chars).head? = some LF := hh.mpr hlf
          simp only [h1, h2, and_self, if_true]
          rw [ih (i + 1) row col _ (by omega)]
          simp
        · have h1 : ¬ (i < chars.length - 1 ∧ chars.getD (i + 1) 0 = LF) := by
            intro h; exact hlf ⟨hlt.mp h.1, h.2⟩
          have h2 : ¬ (List.drop (i + 1) chars).head? = some LF := by
            intro h; exact hlf (hh.mp h)
          simp only [h1, h2, if_false]
          rw [ih (i + 1) (row + 1) 1 _ (by omega)]
          simp
      · simp only [hcr, if_false]
        by_cases hl : chars.getD i 0 = LF
        · simp only [hl, if_true]
          rw [ih (i + 1) (row + 1) 1 _ (by omega)]
          simp
        · simp only [hl, if_false]
          rw [ih (i + 1) row (col + 1) _ (by omega)]
          simp
    · have : chars.length ≤ i := by omega
      simp [hi, List.drop_eq_nil_of_le this, tableFrom]

/-- `create_row_col_view` (index loop with look-ahead, as coded) is the structural table. -/
theorem createRowColView_eq (chars : List Nat) : createRowColView chars = tableFrom chars 1 1 := by
  unfold createRowColView
  rw [loop_eq chars chars.length 0 1 1 [] (by omega)]
  simp

theorem tableFrom_length (chars : List Nat) (row col : Nat) :
    (tableFrom chars row col).length = chars.length := by
  induction chars generalizing row col with
  | nil => simp [tableFrom]
  | cons c rest ih =>
    unfold tableFrom
    simp only [List.length_cons]
    repeat' split
    all_goals simp [ih]

theorem tableFrom_cons_plain (c : Nat) (rest : List Nat) (row col : Nat) (h1 : c ≠ CR) (h2 : c ≠ LF) :
    tableFrom (c :: rest) row col = (row, col) :: tableFrom rest row (col + 1) := by
  simp [tableFrom, h1, h2]

theorem tableFrom_cons_lf (rest : List Nat) (row col : Nat) :
    tableFrom (LF :: rest) row col = (row, col) :: tableFrom rest (row + 1) 1 := by
  have : LF ≠ CR := by decide
  simp [tableFrom, this]

theorem tableFrom_cons_cr (rest : List Nat) (row col : Nat) (h : rest.head? ≠ some LF) :
    tableFrom (CR :: rest) row col = (row, col) :: tableFrom rest (row + 1) 1 := by
  simp [tableFrom, h]

theorem tableFrom_cons_crlf (rest : List Nat) (row col : Nat) :
    tableFrom (CR :: LF :: rest) row col = (row, col) :: (row, col) :: tableFrom rest (row + 1) 1 := by
  have : LF ≠ CR := by decide
  simp [tableFrom, this]

/-- One entry per character. -/
theorem createRowColView_length (chars : List Nat) : (createRowColView chars).length = chars.length := by
  rw [createRowColView_eq, tableFrom_length]

/-! ## Texts as lines joined by terminators -/

/-- A character that is neither CR nor LF. -/
def Plain (cs : List Nat) : Prop := ∀ c ∈ cs, c ≠ CR ∧ c ≠ LF

/-- `(lines, last)` is *the* reading of its text as lines: line contents contain no CR/LF, and a lone
CR terminator is not directly followed by an LF (that pair would be one CRLF terminator). -/
def WF : List Line → List Nat → Prop
  | [], last => Plain last
  | (cs, e) :: ls, last => Plain cs ∧ (e = Eol.cr → (render ls last).head? ≠ some LF) ∧ WF ls last

/-- Offset of the first character of line `k` in `render ls last`. -/
def lineStart : List Line → Nat → Nat
  | [], _ => 0
  | _, 0 => 0
  | (cs, e) :: ls, k + 1 => cs.length + e.chars.length + lineStart ls k

theorem render_length (ls : List Line) (last : List Nat) :
    (render ls last).length = lineStart ls ls.length + last.length := by
  induction ls with
  | nil => simp [render, lineStart]
  | cons l ls ih =>
    obtain ⟨cs, e⟩ := l
    simp [render, lineStart, ih]; omega

/-- Table of a line's content followed by `rest`: the characters of a content `cs` keep the row and
take consecutive columns. -/
theorem tableFrom_plain (cs rest : List Nat) (row col idx : Nat) (hp : Plain cs) :
    (tableFrom (cs ++ rest) row col)[idx]? =
      if idx < cs.length then some (row, col + idx)
      else (tableFrom rest row (col + cs.length))[idx - cs.length]? := by
  induction cs generalizing col idx with
  | nil => simp
  | cons c cs ih =>
    have hc := hp c (by simp)
    have hp' : Plain cs := fun d hd => hp d (by simp [hd])
    simp only [List.cons_append]
    rw [tableFrom_cons_plain _ _ _ _ hc.1 hc.2]
    cases idx with
    | zero => simp
    | succ idx =>
      simp only [List.getElem?_cons_succ, List.length_cons]
      rw [ih (col + 1) idx hp']
      have e1 : col + 1 + idx = col + (idx + 1) := by omega
      have e2 : col + 1 + cs.length = col + (cs.length + 1) := by omega
      have e3 : idx + 1 - (cs.length + 1) = idx - cs.length := by omega
      simp only [e1, e2, e3, Nat.add_lt_add_iff_right]

theorem head?_plain_append (cs rest : List Nat) (hp : Plain cs) (hr : rest.head? ≠ some LF) :
    (cs ++ rest).head? ≠ some LF := by
  cases cs with
  | nil => simpa using hr
  | cons c cs =>
    have := (hp c (by simp)).2
    simpa using this

/-- **Table = human row/column**, on texts given as lines: the entry for offset `idx` of
`render ls last` (first line = row `row`) is `humanAt ls last row idx`. -/
theorem tableFrom_render (ls : List Line) (last : List Nat) (row idx : Nat) (h : WF ls last) :
    (tableFrom (render ls last) row 1)[idx]? = humanAt ls last row idx := by
  induction ls generalizing row idx with
  | nil =>
    have := tableFrom_plain last [] row 1 idx h
    simp only [List.append_nil] at this
    simp only [render, humanAt, this]
    split
    · simp; omega
    · simp [tableFrom]
  | cons l ls ih =>
    obtain ⟨cs, e⟩ := l
    obtain ⟨hp, hcr, hwf⟩ := h
    simp only [render, humanAt, List.append_assoc]
    rw [tableFrom_plain cs _ row 1 idx hp]
    by_cases h1 : idx < cs.length
    · simp [h1]; omega
    · simp only [h1, if_false]
      have ihh := fun i => ih (row + 1) i hwf
      cases e with
      | lf =>
        simp only [Eol.chars, List.cons_append, List.nil_append, List.length_cons, List.length_nil]
        rw [tableFrom_cons_lf]
        by_cases h2 : idx < cs.length + (0 + 1)
        · have : idx - cs.length = 0 := by omega
          simp [this, h2]; omega
        · have : idx - cs.length = (idx - (cs.length + (0 + 1))) + 1 := by omega
          rw [this]
          simp only [List.getElem?_cons_succ, h2, if_false]
          exact ihh _
      | cr =>
        simp only [Eol.chars, List.cons_append, List.nil_append, List.length_cons, List.length_nil]
        rw [tableFrom_cons_cr _ _ _ (hcr rfl)]
        by_cases h2 : idx < cs.length + (0 + 1)
        · have : idx - cs.length = 0 := by omega
          simp [this, h2]; omega
        · have : idx - cs.length = (idx - (cs.length + (0 + 1))) + 1 := by omega
          rw [this]
          simp only [List.getElem?_cons_succ, h2, if_false]
          exact ihh _
      | crlf =>
        simp only [Eol.chars, List.cons_append, List.nil_append, List.length_cons, List.length_nil]
        rw [tableFrom_cons_crlf]
        by_cases h2 : idx < cs.length + (0 + 1 + 1)
        · simp only [h2, if_true]
          by_cases h3 : idx - cs.length = 0
          · simp [h3]; omega
          · have : idx - cs.length = 0 + 1 := by omega
            simp [this]; omega
        · have : idx - cs.length = (idx - (cs.length + (0 + 1 + 1))) + 1 + 1 := by omega
          rw [this]
          simp only [List.getElem?_cons_succ, h2, if_false]
          exact ihh _

/-! ## Every text is a sequence of lines -/

theorem render_consChar (c : Nat) (d : List Line × List Nat) :
    render (consChar c d).1 (consChar c d).2 = c :: render d.1 d.2 := by
  obtain ⟨ls, last⟩ := d
  cases ls with
  | nil => simp [consChar, render]
  | cons l ls => obtain ⟨cs, e⟩ := l; simp [consChar, render]

theorem wf_consChar (c : Nat) (d : List Line × List Nat) (hc : c ≠ CR ∧ c ≠ LF) (h : WF d.1 d.2) :
    WF (consChar c d).1 (consChar c d).2 := by
  obtain ⟨ls, last⟩ := d
  cases ls with
  | nil =>
    simp only [consChar, WF, Plain] at *
    intro x hx
    rcases List.mem_cons.mp hx with rfl | hx
    · exact hc
    · exact h x hx
  | cons l ls =>
    obtain ⟨cs, e⟩ := l
    simp only [consChar, WF, Plain] at *
    refine ⟨?_, h.2.1, h.2.2⟩
    intro x hx
    rcases List.mem_cons.mp hx with rfl | hx
    · exact hc
    · exact h.1 x hx

/-- The text of the decomposition is the text. -/
theorem render_decompose (t : List Nat) : render (decompose t).1 (decompose t).2 = t := by
  fun_induction decompose t with
  | case1 => simp [render]
  | case2 rest ih => simp [render, Eol.chars, ih]
  | case3 _ => simp [render, Eol.chars]
  | case4 rest' _ ih => simp [render, Eol.chars, ih]
  | case5 d rest' hd _ ih => simp [render, Eol.chars, ih]
  | case6 d rest' hlf hcr ih => rw [render_consChar, ih]

theorem wf_decompose (t : List Nat) : WF (decompose t).1 (decompose t).2 := by
  fun_induction decompose t with
  | case1 => simp [WF, Plain]
  | case2 rest ih => simp [WF, Plain, ih]
  | case3 _ => simp [WF, Plain, render]
  | case4 rest' _ ih => simp [WF, Plain, ih]
  | case5 d rest' hd _ ih =>
    refine ⟨by simp [Plain], ?_, ih⟩
    intro _
    rw [render_decompose]
    simpa using hd
  | case6 d rest' hlf hcr ih => exact wf_consChar d _ ⟨hcr, hlf⟩ ih

/-- Every text is a sequence of lines joined by LF / CRLF / CR terminators (plus a final,
possibly empty, unterminated line): the hypothesis of `rowcol_characterisation` covers all texts. -/
theorem every_text_is_lines (t : List Nat) : ∃ ls last, WF ls last ∧ render ls last = t :=
  ⟨(decompose t).1, (decompose t).2, wf_decompose t, render_decompose t⟩

/-! ## Pointwise form, for all texts -/

theorem table_is_human (text : List Nat) (idx : Nat) :
    (createRowColView text)[idx]? = humanRowCol text idx := by
  rw [createRowColView_eq]
  conv => lhs; rw [← render_decompose text]
  exact tableFrom_render _ _ 1 idx (wf_decompose text)

/-- For every text and every index inside it, `StringView::position()` is the human row/column of
that character (as read off the list of lines). -/
theorem position_is_human (text : List Nat) (idx : Nat) (h : idx < text.length) :
    humanRowCol text idx = some (position text idx) := by
  have hl := createRowColView_length text
  unfold position
  simp only [ge_iff_le, show ¬ text.length ≤ idx by omega, if_false]
  rw [← table_is_human, List.getD_eq_getElem?_getD]
  have : idx < (createRowColView text).length := by omega
  simp [List.getElem?_eq_getElem this]

/-! ## The characterisation in the words of the property -/

theorem humanAt_lineStart (ls : List Line) (last : List Nat) (row k : Nat) (cs : List Nat) (e : Eol)
    (hk : ls[k]? = some (cs, e)) :
    (∀ j, j < cs.length → humanAt ls last row (lineStart ls k + j) = some (row + k, j + 1)) ∧
    (∀ j, j < e.chars.length →
      humanAt ls last row (lineStart ls k + cs.length + j) = some (row + k, cs.length + 1)) := by
  induction ls generalizing row k with
  | nil => simp at hk
  | cons l ls ih =>
    obtain ⟨cs0, e0⟩ := l
    cases k with
    | zero =>
      simp only [List.getElem?_cons_zero, Option.some.injEq, Prod.mk.injEq] at hk
      obtain ⟨rfl, rfl⟩ := hk
      constructor
      · intro j hj; simp [humanAt, lineStart, hj]
      · intro j hj
        have h1 : ¬ (cs0.length + j < cs0.length) := by omega
        have h2 : cs0.length + j < cs0.length + e0.chars.length := by omega
        simp [humanAt, lineStart, h1, h2]
    | succ k =>
      simp only [List.getElem?_cons_succ] at hk
      obtain ⟨a, b⟩ := ih (row + 1) k hk
      constructor
      · intro j hj
        have h1 : ¬ (cs0.length + e0.chars.length + lineStart ls k + j < cs0.length) := by omega
        have h2 : ¬ (cs0.length + e0.chars.length + lineStart ls k + j < cs0.length + e0.chars.length) := by
          omega
        have h3 : cs0.length + e0.chars.length + lineStart ls k + j - (cs0.length + e0.chars.length)
            = lineStart ls k + j := by omega
        simp only [humanAt, lineStart, h1, h2, h3, if_false]
        rw [a j hj]; congr 2; omega
      · intro j hj
        have h1 : ¬ (cs0.length + e0.chars.length + lineStart ls k + cs.length + j < cs0.length) := by omega
        have h2 : ¬ (cs0.length + e0.chars.length + lineStart ls k + cs.length + j
            < cs0.length + e0.chars.length) := by omega
        have h3 : cs0.length + e0.chars.length + lineStart ls k + cs.length + j
            - (cs0.length + e0.chars.length) = lineStart ls k + cs.length + j := by omega
        simp only [humanAt, lineStart, h1, h2, h3, if_false]
        rw [b j hj]; congr 2; omega

theorem humanAt_last (ls : List Line) (last : List Nat) (row j : Nat) (hj : j < last.length) :
    humanAt ls last row (lineStart ls ls.length + j) = some (row + ls.length, j + 1) := by
  induction ls generalizing row with
  | nil => simp [humanAt, lineStart, hj]
  | cons l ls ih =>
    obtain ⟨cs0, e0⟩ := l
    have h1 : ¬ (cs0.length + e0.chars.length + lineStart ls ls.length + j < cs0.length) := by omega
    have h2 : ¬ (cs0.length + e0.chars.length + lineStart ls ls.length + j
        < cs0.length + e0.chars.length) := by omega
    have h3 : cs0.length + e0.chars.length + lineStart ls ls.length + j
        - (cs0.length + e0.chars.length) = lineStart ls ls.length + j := by omega
    simp only [humanAt, lineStart, List.length_cons, h1, h2, h3, if_false]
    rw [ih (row + 1)]; congr 2; omega

theorem lineStart_lt (ls : List Line) (last : List Nat) (k : Nat) (cs : List Nat) (e : Eol)
    (hk : ls[k]? = some (cs, e)) :
    lineStart ls k + cs.length + e.chars.length ≤ (render ls last).length := by
  induction ls generalizing k with
  | nil => simp at hk
  | cons l ls ih =>
    obtain ⟨cs0, e0⟩ := l
    cases k with
    | zero =>
      simp only [List.getElem?_cons_zero, Option.some.injEq, Prod.mk.injEq] at hk
      obtain ⟨rfl, rfl⟩ := hk
      simp [render, lineStart]
    | succ k =>
      simp only [List.getElem?_cons_succ] at hk
      have := ih k hk
      simp [render, lineStart]; omega

theorem position_of_table (text : List Nat) (idx : Nat) (p : Nat × Nat)
    (h : (createRowColView text)[idx]? = some p) : position text idx = p := by
  have hl := createRowColView_length text
  have hlt : idx < (createRowColView text).length := by
    rcases Nat.lt_or_ge idx (createRowColView text).length with h' | h'
    · exact h'
    · rw [List.getElem?_eq_none h'] at h; cases h
  unfold position
  simp only [ge_iff_le, show ¬ text.length ≤ idx by omega, if_false]
  rw [List.getD_eq_getElem?_getD, h]; rfl

theorem table_render (ls : List Line) (last : List Nat) (idx : Nat) (h : WF ls last) :
    (createRowColView (render ls last))[idx]? = humanAt ls last 1 idx := by
  rw [createRowColView_eq]; exact tableFrom_render ls last 1 idx h

/-- **`rowcol_characterisation`.** Let a text be lines `0 … n-1`, each a run of characters other than
CR/LF followed by one of the terminators LF, CRLF, CR (any mixture), followed by a last line without
terminator. Then, in the table the parser builds (`StringView::position` at the character's index):

* character `j` (0-based) of line `k` (0-based) has position `(k + 1, j + 1)`;
* the terminator of line `k` is at the column after the line's last character, and both characters
  of a CRLF terminator have that same position (the LF shares the CR's position);
* character `j` of the last (unterminated) line has position `(n + 1, j + 1)`. -/
theorem rowcol_characterisation (ls : List Line) (last : List Nat) (h : WF ls last) :
    (∀ k cs e j, ls[k]? = some (cs, e) → j < cs.length →
        position (render ls last) (lineStart ls k + j) = (k + 1, j + 1)) ∧
    (∀ k cs e, ls[k]? = some (cs, e) →
        position (render ls last) (lineStart ls k + cs.length) = (k + 1, cs.length + 1)) ∧
    (∀ k cs, ls[k]? = some (cs, Eol.crlf) →
        position (render ls last) (lineStart ls k + cs.length + 1)
          = position (render ls last) (lineStart ls k + cs.length)) ∧
    (∀ j, j < last.length →
        position (render ls last) (lineStart ls ls.length + j) = (ls.length + 1, j + 1)) := by
  refine ⟨?_, ?_, ?_, ?_⟩
  · intro k cs e j hk hj
    apply position_of_table
    rw [table_render _ _ _ h, (humanAt_lineStart ls last 1 k cs e hk).1 j hj]
    congr 2; omega
  · intro k cs e hk
    apply position_of_table
    have he : 0 < e.chars.length := by cases e <;> simp [Eol.chars]
    have := (humanAt_lineStart ls last 1 k cs e hk).2 0 he
    rw [table_render _ _ _ h, Nat.add_zero] at *
    rw [this]; congr 2; omega
  · intro k cs hk
    have h0 := (humanAt_lineStart ls last 1 k cs Eol.crlf hk).2 0 (by simp [Eol.chars])
    have h1 := (humanAt_lineStart ls last 1 k cs Eol.crlf hk).2 1 (by simp [Eol.chars])
    rw [Nat.add_zero] at h0
    rw [position_of_table _ _ _ (by rw [table_render _ _ _ h]; exact h1),
        position_of_table _ _ _ (by rw [table_render _ _ _ h]; exact h0)]
  · intro j hj
    apply position_of_table
    rw [table_render _ _ _ h, humanAt_last ls last 1 j hj]
    congr 2; omega

/-! ## End of input -/

theorem getLast?_eq_getElem?_pred {α} (l : List α) : l.getLast? = l[l.length - 1]? := by
  cases l with
  | nil => simp
  | cons a t => simp [List.getLast?_eq_getElem?]

/-- `eof` is one column past the last character (and `(1, 1)` for the empty text). -/
theorem eof_is_one_past_last (text : List Nat) :
    position text text.length =
      if text = [] then (1, 1)
      else ((position text (text.length - 1)).1, (position text (text.length - 1)).2 + 1) := by
  have hl := createRowColView_length text
  by_cases ht : text = []
  · subst ht; simp [position, createRowColView, loop, eofRowCol]
  · have hpos : 0 < text.length := List.length_pos_iff.mpr ht
    simp only [ht, if_false]
    have hlt : text.length - 1 < (createRowColView text).length := by omega
    have hp : position text (text.length - 1) = (createRowColView text)[text.length - 1] := by
      apply position_of_table
      exact List.getElem?_eq_getElem hlt
    rw [hp]
    unfold position
    simp only [ge_iff_le, Nat.le_refl, if_true, eofRowCol]
    rw [getLast?_eq_getElem?_pred, hl, List.getElem?_eq_getElem hlt]

/-- End of a text whose last line is not empty: one column past that line, on its row. -/
theorem eof_after_last_line (ls : List Line) (last : List Nat) (h : WF ls last) (hne : last ≠ []) :
    position (render ls last) (render ls last).length = (ls.length + 1, last.length + 1) := by
  have hpos : 0 < last.length := List.length_pos_iff.mpr hne
  have hlen := render_length ls last
  have hne' : render ls last ≠ [] := by
    intro h0; rw [h0] at hlen; simp at hlen; omega
  rw [eof_is_one_past_last]
  simp only [hne', if_false]
  have : (render ls last).length - 1 = lineStart ls ls.length + (last.length - 1) := by omega
  rw [this, (rowcol_characterisation ls last h).2.2.2 (last.length - 1) (by omega)]
  simp; omega

/-- End of a text that ends with a line terminator (the last, unterminated line is empty): the code
reports the row of the terminated line and the column *two* past its last character (one past the
terminator's own position) — not column 1 of the following row. -/
theorem eof_after_terminator (ls : List Line) (cs : List Nat) (e : Eol) (h : WF (ls ++ [(cs, e)]) []) :
    position (render (ls ++ [(cs, e)]) []) (render (ls ++ [(cs, e)]) []).length
      = (ls.length + 1, cs.length + 2) := by
  have hk : (ls ++ [(cs, e)])[ls.length]? = some (cs, e) := by simp
  have hlen := render_length (ls ++ [(cs, e)]) []
  have hle := lineStart_lt (ls ++ [(cs, e)]) [] ls.length cs e hk
  have he : 0 < e.chars.length := by cases e <;> simp [Eol.chars]
  have hne' : render (ls ++ [(cs, e)]) [] ≠ [] := by
    intro h0; rw [h0] at hle; simp only [List.length_nil] at hle; omega
  -- the text ends exactly after line `ls.length`
  have hend : (render (ls ++ [(cs, e)]) []).length
      = lineStart (ls ++ [(cs, e)]) ls.length + cs.length + e.chars.length := by
    have : ∀ (l : List Line), lineStart (l ++ [(cs, e)]) (l ++ [(cs, e)]).length
        = lineStart (l ++ [(cs, e)]) l.length + cs.length + e.chars.length := by
      intro l
      induction l with
      | nil => simp [lineStart]
      | cons a l ih => obtain ⟨c0, e0⟩ := a; simp [lineStart] at *; omega
    rw [hlen, this]; simp
  rw [eof_is_one_past_last]
  simp only [hne', if_false]
  have hidx : (render (ls ++ [(cs, e)]) []).length - 1
      = lineStart (ls ++ [(cs, e)]) ls.length + cs.length + (e.chars.length - 1) := by omega
  have hp := position_of_table (render (ls ++ [(cs, e)]) []) _ _
    (by rw [table_render _ _ _ h]
        exact (humanAt_lineStart (ls ++ [(cs, e)]) [] 1 ls.length cs e hk).2 (e.chars.length - 1) (by omega))
  rw [hidx, hp]
  simp; omega

/-! ## Run-time errors: the reported list is [error position, call sites innermost first …] -/

/-- A run of instructions in which every `PushStack` is matched by its `PopStack`: calls that have
returned. -/
inductive Balanced : List Ev → Prop
  | nil : Balanced []
  | other {es} : Balanced es → Balanced (Ev.other :: es)
  | call {p body rest} : Balanced body → Balanced rest → Balanced (Ev.push p :: (body ++ Ev.pop :: rest))

/-- `Active es sites`: after the run `es` (from program start) the SUB/FUNCTION/built-in calls made at
the positions `sites` — innermost first — have been entered and not yet left; every other call has
returned. -/
inductive Active : List Ev → List Pos → Prop
  | main {es} : Balanced es → Active es []
  | enter {es sites p body} : Active es sites → Balanced body → Active (es ++ Ev.push p :: body) (p :: sites)

theorem runStack_append (st : List Pos) (a b : List Ev) :
    runStack st (a ++ b) = (runStack st a).bind (fun st' => runStack st' b) := by
  induction a generalizing st with
  | nil => simp [runStack]
  | cons e a ih =>
    simp only [List.cons_append, runStack]
    cases stepStack st e with
    | none => simp
    | some st' => simp [ih]

theorem balanced_runStack {es : List Ev} (h : Balanced es) (st : List Pos) : runStack st es = some st := by
  induction h generalizing st with
  | nil => rfl
  | other _ ih => simp [runStack, stepStack, ih]
  | call _ _ ihb ihr =>
    simp only [runStack, stepStack]
    rw [runStack_append, ihb]
    simp [runStack, stepStack, ihr]

/-- VM invariant: the `stacktrace` vector is the list of call sites of the active frames,
innermost first. -/
theorem stack_is_active_callsites {es : List Ev} {sites : List Pos} (h : Active es sites) :
    runStack [] es = some sites := by
  induction h with
  | main hb => exact balanced_runStack hb []
  | enter _ hb ih =>
    rw [runStack_append, ih]
    simp [runStack, stepStack, balanced_runStack hb]

/-- **`stacktrace_is_callsites`.** With no error handler installed, an instruction failing at `pos`
while the calls made at `sites` (innermost first; the last one is the call made from the main module)
are active is reported as `[pos, sites…]`; a failing built-in (whose own `PushStack` position is the
innermost site `p`) is reported as `[p, sites…]`. -/
theorem stacktrace_is_callsites {es : List Ev} {sites : List Pos} (h : Active es sites) :
    (∀ pos, reported es (Fault.instr pos) = some (pos :: sites)) ∧
    (∀ p rest, sites = p :: rest → reported es Fault.builtIn = some (p :: rest)) := by
  have hs := stack_is_active_callsites h
  constructor
  · intro pos; simp [reported, hs]
  · intro p rest hp; subst hp; simp [reported, hs]

/-- **After `RESUME label`.** Whatever ran before (`pre`, including calls that were never returned from
because an error inside them was handled), once `ResumeLabel` has executed the trace of a later unhandled
error lists exactly the call sites entered *since*: the abandoned procedures' call sites are gone. -/
theorem stacktrace_after_resume_label {pre es : List Ev} {st sites : List Pos}
    (hpre : runStack [] pre = some st) (h : Active es sites) :
    (∀ pos, reported (pre ++ Ev.clear :: es) (Fault.instr pos) = some (pos :: sites)) ∧
    (∀ p rest, sites = p :: rest → reported (pre ++ Ev.clear :: es) Fault.builtIn = some (p :: rest)) := by
  have hs := stack_is_active_callsites h
  have hrun : runStack [] (pre ++ Ev.clear :: es) = some sites := by
    rw [runStack_append, hpre]
    simp [runStack, stepStack, hs]
  constructor
  · intro pos; simp [reported, hrun]
  · intro p rest hp; subst hp; simp [reported, hrun]

/-- **A handled built-in failure** leaves the trace as it was before the built-in was entered: its own
`PushStack` entry is dropped (`abandon_failed_call`), so later errors do not list it. -/
theorem handled_builtin_failure_leaves_no_entry (st : List Pos) (p : Pos) (body : List Ev) (hb : Balanced body) :
    runStack st (Ev.push p :: (body ++ [Ev.dropFront])) = some st := by
  simp only [runStack, stepStack]
  rw [runStack_append, balanced_runStack hb]
  simp [runStack, stepStack]

/-- main calls at (6,1) → (18,5); the error there is handled by `RESUME label`; then main calls at (10,1)
and the statement at (27,11) fails: only the second call site is listed. -/
example : reported [Ev.push (6, 1), Ev.other, Ev.push (18, 5), Ev.other, Ev.other, Ev.clear, Ev.other,
    Ev.push (10, 1), Ev.other] (Fault.instr (27, 11)) = some [(27, 11), (10, 1)] := by decide

/-- A `PopStack` never meets an empty vector in a run where calls are properly nested. -/
theorem pop_never_underflows {es : List Ev} {sites : List Pos} (h : Active es sites) :
    runStack [] es ≠ none := by
  rw [stack_is_active_callsites h]; simp

/-! ## Hypotheses are satisfiable -/

/-- `"ab" CRLF "c" CR "d" LF LF`: four terminated lines (the last one empty) and an empty final line. -/
example : WF [([97, 98], Eol.crlf), ([99], Eol.cr), ([100], Eol.lf), ([], Eol.lf)] [] ∧
    render [([97, 98], Eol.crlf), ([99], Eol.cr), ([100], Eol.lf), ([], Eol.lf)] []
      = [97, 98, 13, 10, 99, 13, 100, 10, 10] ∧
    createRowColView [97, 98, 13, 10, 99, 13, 100, 10, 10]
      = [(1, 1), (1, 2), (1, 3), (1, 3), (2, 1), (2, 2), (3, 1), (3, 2), (4, 1)] ∧
    position [97, 98, 13, 10, 99, 13, 100, 10, 10] 9 = (4, 2) := by
  refine ⟨?_, by decide, by decide, by decide⟩
  simp [WF, Plain, render, Eol.chars, CR, LF]

/-- main calls at (4,5), that SUB calls at (8,13) (after an inner call that returned), the failing
statement is at (10,13). -/
example : Active [Ev.other, Ev.push (4, 5), Ev.other, Ev.push (9, 1), Ev.other, Ev.pop, Ev.push (8, 13), Ev.other]
    [(8, 13), (4, 5)] ∧
    reported [Ev.other, Ev.push (4, 5), Ev.other, Ev.push (9, 1), Ev.other, Ev.pop, Ev.push (8, 13), Ev.other]
      (Fault.instr (10, 13)) = some [(10, 13), (8, 13), (4, 5)] := by
  constructor
  · have b1 : Balanced [Ev.other] := Balanced.other Balanced.nil
    have b2 : Balanced [Ev.other, Ev.push (9, 1), Ev.other, Ev.pop] :=
      Balanced.other (Balanced.call (body := [Ev.other]) (rest := []) b1 Balanced.nil)
    have a1 : Active ([Ev.other] ++ Ev.push (4, 5) :: [Ev.other, Ev.push (9, 1), Ev.other, Ev.pop]) [(4, 5)] :=
      Active.enter (Active.main b1) b2
    exact Active.enter (body := [Ev.other]) a1 b1
  · decide

end RbThm.C11
