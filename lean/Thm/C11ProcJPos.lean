import Thm.C11Layers
import Thm.ProcJSimProg
/-!
# C11 (run-time half) for the layer "procedures ∪ jumps" (`RbModel.ProcJ`) — the position induction over `ProcJ.Ref`

`Thm/C11Layers.lean` (procedures), `Thm/C11ProcArr.lean` (procedures + arrays) and `Thm/C11Layers2.lean` (jumps) prove that the
position the reference semantics prescribes for a run-time error is a position carried by a node of the program, and — jump
layer — that error 3 (RETURN without GOSUB) is reported at a RETURN statement.  This file does both for the layer `ProcJ`
(SUB / FUNCTION + label / GOTO / GOSUB / RETURN in every scope), by ONE induction on fuel over the thirteen mutually recursive
functions of `ProcJ.Ref` (`inv_all`).

The invariant (`Good Q R Rp`), for predicates `Q` (any node position), `R` (RETURN position of the piece that runs) and `Rp`
(RETURN position inside a procedure body):

* an outcome `error c p` has either a statement code (`c ∈ stmtCodes` = 4, 6, 11, 13, 258) and `Q p`, or `c = 3` and `Rp p`
  (error 3 is only made by `call`, out of a `ret p` that came out of the callee's body: `callFail`);
* an outcome `ret p` has `R p`; the expression-level functions (`eval` … `anyMatches`, `printItems`) never answer `ret`
  (`R := NoRet`);
* standing hypothesis on the program (`hG`): every position of every procedure body has `Q`, every RETURN position of every
  procedure body has `Rp`; on the activation: every position of the body a GOSUB runs again has `Q` (its RETURNs need nothing:
  `gosubEnd` answers `normal` for `ret`).

Consequences (no premise on the program):
* `ref_error_pos_within_program` — the position of an error of `run` is carried by a node of the main module or of a procedure;
* `return_without_gosub_at_return` — error 3 of `run` is at a RETURN statement (of the main module or of a procedure);
* `error3_in_main_exec_is_procedure_return` / `exec_error3_at_proc_return` — when `exec` itself answers `error 3 p` (not
  `ret p`), `p` is a RETURN inside a procedure body; `exec_ret_at_return` — a `ret p` that comes out of a statement is a RETURN
  of that very statement (never of a GOSUB routine, never of a callee);
* `call_ret_is_error3_at_return` — a callee body that answers `ret p` makes the call fail with error 3 at `p`.

The position lists of expressions, argument lists, PRINT items and CASE items are those of the procedures layer
(`RbThm.C11Layers.Procs`: `ProcJ` imports `Proc.Expr`, `Proc.Args`, … unchanged).
-/

namespace RbThm.C11ProcJPos
set_option linter.unusedVariables false
open RbModel RbModel.ProcJ RbModel.ProcJ.Ref
open RbModel.Num hiding Expr
open RbModel.Ast (Pos)
open RbModel.Proc (Var Expr Args PrintItem CaseExpr ProcDecl zeroOf)
open RbModel.Proc.Ref (St codeOf codeOutOfData codeZeroStep StepSign)
open RbThm.C11Layers.Procs (exprPosns argsPosns itemPosns caseExprPosns optExprPosns pos_mem_exprPosns)

/-! ### positions that occur in a piece of the reference syntax -/

mutual
/-- every position that occurs in a statement of the reference syntax (`label`, `goto`, `gosub` carry none there) -/
def stmtPosns : Stmt → List Pos
  | .skip => []
  | .seq a b => stmtPosns a ++ stmtPosns b
  | .assign _ _ e p => p :: exprPosns e
  | .print items p => p :: items.flatMap itemPosns
  | .read _ _ p => [p]
  | .ifs c thn els p => p :: (exprPosns c ++ stmtPosns thn ++ stmtPosns els)
  | .select e cs p => p :: (exprPosns e ++ casesPosns cs)
  | .forLoop _ _ lo hi step body p => p :: (exprPosns lo ++ exprPosns hi ++ optExprPosns step ++ stmtPosns body)
  | .while c body p => p :: (exprPosns c ++ stmtPosns body)
  | .doLoop c _ _ body p => p :: (exprPosns c ++ stmtPosns body)
  | .end_ p => [p]
  | .callSub _ args p => p :: argsPosns args
  | .exitProc p => [p]
  | .label _ => []
  | .goto _ => []
  | .gosub _ => []
  | .ret p => [p]
def casesPosns : Cases → List Pos
  | .nil => []
  | .else_ body => stmtPosns body
  | .case conds body rest => conds.flatMap caseExprPosns ++ stmtPosns body ++ casesPosns rest
end

mutual
/-- the positions of the RETURN statements only -/
def stmtRetPosns : Stmt → List Pos
  | .seq a b => stmtRetPosns a ++ stmtRetPosns b
  | .ifs _ thn els _ => stmtRetPosns thn ++ stmtRetPosns els
  | .select _ cs _ => casesRetPosns cs
  | .forLoop _ _ _ _ _ body _ => stmtRetPosns body
  | .while _ body _ => stmtRetPosns body
  | .doLoop _ _ _ body _ => stmtRetPosns body
  | .ret p => [p]
  | .skip => []
  | .assign .. => []
  | .print .. => []
  | .read .. => []
  | .end_ _ => []
  | .callSub .. => []
  | .exitProc _ => []
  | .label _ => []
  | .goto _ => []
  | .gosub _ => []
def casesRetPosns : Cases → List Pos
  | .nil => []
  | .else_ body => stmtRetPosns body
  | .case _ body rest => stmtRetPosns body ++ casesRetPosns rest
end

mutual
/-- a RETURN's position is one of the statement's positions -/
theorem stmtRetPosns_sub (q : Pos) : ∀ st : Stmt, q ∈ stmtRetPosns st → q ∈ stmtPosns st
  | .seq a b, h => by
    simp only [stmtRetPosns, List.mem_append] at h
    rcases h with h | h
    · simp [stmtPosns, stmtRetPosns_sub q a h]
    · simp [stmtPosns, stmtRetPosns_sub q b h]
  | .ifs _ thn els _, h => by
    simp only [stmtRetPosns, List.mem_append] at h
    rcases h with h | h
    · simp [stmtPosns, stmtRetPosns_sub q thn h]
    · simp [stmtPosns, stmtRetPosns_sub q els h]
  | .select _ cs _, h => by
    simp only [stmtRetPosns] at h
    simp [stmtPosns, casesRetPosns_sub q cs h]
  | .forLoop _ _ _ _ _ body _, h => by
    simp only [stmtRetPosns] at h
    simp [stmtPosns, stmtRetPosns_sub q body h]
  | .while _ body _, h => by
    simp only [stmtRetPosns] at h
    simp [stmtPosns, stmtRetPosns_sub q body h]
  | .doLoop _ _ _ body _, h => by
    simp only [stmtRetPosns] at h
    simp [stmtPosns, stmtRetPosns_sub q body h]
  | .ret p, h => by simpa [stmtRetPosns, stmtPosns] using h
  | .skip, h => by simp [stmtRetPosns] at h
  | .assign .., h => by simp [stmtRetPosns] at h
  | .print .., h => by simp [stmtRetPosns] at h
  | .read .., h => by simp [stmtRetPosns] at h
  | .end_ _, h => by simp [stmtRetPosns] at h
  | .callSub .., h => by simp [stmtRetPosns] at h
  | .exitProc _, h => by simp [stmtRetPosns] at h
  | .label _, h => by simp [stmtRetPosns] at h
  | .goto _, h => by simp [stmtRetPosns] at h
  | .gosub _, h => by simp [stmtRetPosns] at h
theorem casesRetPosns_sub (q : Pos) : ∀ cs : Cases, q ∈ casesRetPosns cs → q ∈ casesPosns cs
  | .nil, h => by simp [casesRetPosns] at h
  | .else_ body, h => by
    simp only [casesRetPosns] at h
    simp [casesPosns, stmtRetPosns_sub q body h]
  | .case _ body rest, h => by
    simp only [casesRetPosns, List.mem_append] at h
    rcases h with h | h
    · simp [casesPosns, stmtRetPosns_sub q body h]
    · simp [casesPosns, casesRetPosns_sub q rest h]
end

/-! ### error codes -/

/-- the error codes an expression or a statement of this layer fails with by itself: Out of DATA (4), Overflow (6), Division
by zero (11), Type mismatch (13), the zero-STEP code (258).  3 is not among them: it is only made by `call` (and by `run`) out
of a RETURN that no GOSUB of its activation answered. -/
def stmtCodes : List Nat := [4, 6, 11, 13, 258]

theorem codeOf_mem (e : Err) : codeOf e ∈ stmtCodes := by cases e <;> decide

theorem three_not_stmtCode : 3 ∉ stmtCodes := by decide

/-! ### what the invariant says of an outcome -/

/-- an error has a statement code and a position with `Q`, or is error 3 at a position with `Rp`; a `ret` has a position with
`R`; nothing about the other outcomes -/
def Good (Q R Rp : Pos → Prop) : Outcome → Prop
  | .error c p => (c ∈ stmtCodes ∧ Q p) ∨ (c = 3 ∧ Rp p)
  | .ret p => R p
  | _ => True

/-- "never answers `ret`" -/
def NoRet : Pos → Prop := fun _ => False

/-- the invariant for the functions that answer `Except Outcome _`: a failure is `Good` and is not a `ret` -/
def GoodE (Q Rp : Pos → Prop) {α : Type} : Except Outcome α → Prop
  | .error o => Good Q NoRet Rp o
  | .ok _ => True

section good
variable {Q R R' Rp : Pos → Prop}

theorem Good.mono {o : Outcome} (h : Good Q R Rp o) (hR : ∀ p, R p → R' p) : Good Q R' Rp o := by
  cases o <;> first | exact h | exact hR _ h

theorem Good.lift {o : Outcome} (h : Good Q NoRet Rp o) : Good Q R Rp o := h.mono (fun _ hf => hf.elim)

theorem good_err {c : Nat} {p : Pos} (h1 : c ∈ stmtCodes) (h2 : Q p) : Good Q R Rp (.error c p) := .inl ⟨h1, h2⟩

/-- a failed evaluation, passed on as the outcome of a statement -/
theorem goodE_err {α : Type} {r : St × Except Outcome α} {s1 : St} {o : Outcome} (heq : r = (s1, .error o))
    (h : GoodE Q Rp r.2) : Good Q R Rp o := by
  subst heq; exact Good.lift h

theorem good_eq {r : St × Outcome} {s1 : St} {o : Outcome} (heq : r = (s1, o)) (h : Good Q R Rp r.2) : Good Q R Rp o := by
  subst heq; exact h

/-- `call`: the callee's body ran as an outermost run of its activation — a `ret p` that comes out of it is error 3 at `p` -/
theorem callFail_good {o : Outcome} (h : Good Q Rp Rp o) : Good Q NoRet Rp (callFail o) := by
  cases o <;> first | exact h | trivial | exact .inr ⟨rfl, h⟩

/-- `GOSUB`: the `ret` of the routine is answered, everything else that matters is passed on -/
theorem gosubEnd_good {o : Outcome} (b : Bool) (h : Good Q R' Rp o) : Good Q R Rp (gosubEnd b o) := by
  cases o <;> cases b <;> first | exact h | trivial

/-! ### the leaves -/

theorem liftV_good {s : St} {q : Pos} (r : Res Val) (hq : Q q) : GoodE Q Rp (liftV s q r).2 := by
  cases r
  · trivial
  · exact .inl ⟨codeOf_mem _, hq⟩
  · trivial

theorem relTest_good {q : Pos} (op : Op) (a b : Val) (hq : Q q) : GoodE Q Rp (relTest q op a b) := by
  unfold relTest
  split
  · trivial
  · exact .inl ⟨codeOf_mem _, hq⟩
  · trivial

theorem relTest_err_good {q : Pos} {op : Op} {a b : Val} {o : Outcome} (h : relTest q op a b = .error o) (hq : Q q) :
    Good Q R Rp o := by
  have := relTest_good (Q := Q) (Rp := Rp) op a b hq
  rw [h] at this
  exact Good.lift this

theorem stepSign_err_good {q : Pos} {v : Val} {o : Outcome} (h : stepSign q v = .error o) (hq : Q q) :
    Good Q R Rp o := by
  unfold stepSign at h
  split at h
  · rename_i o1 h1; cases h; exact relTest_err_good h1 hq
  · cases h
  · split at h
    · rename_i o2 h2; cases h; exact relTest_err_good h2 hq
    · cases h
    · cases h

end good

/-- every position of the statement has `Q`, every position of a RETURN in it has `R` -/
def Cov (Q R : Pos → Prop) (st : Stmt) : Prop := (∀ q ∈ stmtPosns st, Q q) ∧ (∀ q ∈ stmtRetPosns st, R q)

def CovC (Q R : Pos → Prop) (cs : Cases) : Prop := (∀ q ∈ casesPosns cs, Q q) ∧ (∀ q ∈ casesRetPosns cs, R q)

/-- every position of the body the activation runs (what a GOSUB runs again) has `Q` -/
def CovA (Q : Pos → Prop) (A : Act) : Prop := ∀ q ∈ stmtPosns A.body, Q q

/-! ### the thirteen mutually recursive functions -/

/-- the claim at a given amount of fuel -/
structure Inv (P : Program) (Q Rp : Pos → Prop) (fuel : Nat) : Prop where
  eval : ∀ e s, (∀ q ∈ exprPosns e, Q q) → GoodE Q Rp (eval P fuel e s).2
  evalTo : ∀ e t s, (∀ q ∈ exprPosns e, Q q) → GoodE Q Rp (evalTo P fuel e t s).2
  evalArgs : ∀ args s, (∀ q ∈ argsPosns args, Q q) → GoodE Q Rp (evalArgs P fuel args s).2
  call : ∀ f args s, (∀ q ∈ argsPosns args, Q q) → GoodE Q Rp (call P fuel f args s).2
  printItems : ∀ items s, (∀ q ∈ items.flatMap itemPosns, Q q) → Good Q NoRet Rp (printItems P fuel items s).2
  evalCond : ∀ e s, (∀ q ∈ exprPosns e, Q q) → GoodE Q Rp (evalCond P fuel e s).2
  caseMatches : ∀ q0 subj ce s, Q q0 → (∀ q ∈ caseExprPosns ce, Q q) → GoodE Q Rp (caseMatches P fuel q0 subj ce s).2
  anyMatches : ∀ q0 subj conds s, Q q0 → (∀ q ∈ conds.flatMap caseExprPosns, Q q) →
    GoodE Q Rp (anyMatches P fuel q0 subj conds s).2
  exec : ∀ (R : Pos → Prop) A st m s, CovA Q A → Cov Q R st → Good Q R Rp (exec P fuel A st m s).2
  execCases : ∀ (R : Pos → Prop) A q0 subj cs s, CovA Q A → Q q0 → CovC Q R cs →
    Good Q R Rp (execCases P fuel A q0 subj cs s).2
  seekCases : ∀ (R : Pos → Prop) A cs L s, CovA Q A → CovC Q R cs → Good Q R Rp (seekCases P fuel A cs L s).2
  selectSeek : ∀ (R : Pos → Prop) A cs L s, CovA Q A → CovC Q R cs → Good Q R Rp (selectSeek P fuel A cs L s).2
  forIter : ∀ (R : Pos → Prop) A x t h sv up body q0 m s, CovA Q A → Q q0 → Cov Q R body →
    Good Q R Rp (forIter P fuel A x t h sv up body q0 m s).2

theorem inv_zero (P : Program) (Q Rp : Pos → Prop) : Inv P Q Rp 0 := by
  refine ⟨?_, ?_, ?_, ?_, ?_, ?_, ?_, ?_, ?_, ?_, ?_, ?_, ?_⟩ <;> intros <;>
    simp [ProcJ.Ref.eval, ProcJ.Ref.evalTo, ProcJ.Ref.evalArgs, ProcJ.Ref.call, ProcJ.Ref.printItems,
      ProcJ.Ref.evalCond, ProcJ.Ref.caseMatches, ProcJ.Ref.anyMatches, ProcJ.Ref.exec, ProcJ.Ref.execCases,
      ProcJ.Ref.seekCases, ProcJ.Ref.selectSeek, ProcJ.Ref.forIter, Good, GoodE]

section succ
variable {P : Program} {Q Rp : Pos → Prop} (hG : ∀ d, d ∈ P.procs → Cov Q Rp d.body)
variable {n : Nat} (ih : Inv P Q Rp n)
include ih

theorem succ_eval : ∀ e s, (∀ q ∈ exprPosns e, Q q) → GoodE Q Rp (ProcJ.Ref.eval P (n + 1) e s).2 := by
  intro e s hQ
  cases e with
  | lit v q => simp [ProcJ.Ref.eval, GoodE]
  | var x t q => simp [ProcJ.Ref.eval, GoodE]
  | un op e q =>
    have hq : Q q := hQ _ (by simp [exprPosns])
    have i1 := fun s => ih.eval e s (fun x hx => hQ x (by simp [exprPosns, hx]))
    simp only [ProcJ.Ref.eval]
    split
    · exact liftV_good _ hq
    · exact i1 _
  | bin op l r t q =>
    have hq : Q q := hQ _ (by simp [exprPosns])
    have i1 := fun s => ih.eval l s (fun x hx => hQ x (by simp [exprPosns, hx]))
    have i2 := fun s => ih.eval r s (fun x hx => hQ x (by simp [exprPosns, hx]))
    simp only [ProcJ.Ref.eval]
    split
    · split
      · exact liftV_good _ hq
      · exact i2 _
    · exact i1 _
  | paren e q =>
    simp only [ProcJ.Ref.eval]
    exact ih.eval e s (fun x hx => hQ x (by simp [exprPosns, hx]))
  | callFn f args t q =>
    simp only [ProcJ.Ref.eval]
    exact ih.call f args s (fun x hx => hQ x (by simp [exprPosns, hx]))

theorem succ_evalTo : ∀ e t s, (∀ q ∈ exprPosns e, Q q) → GoodE Q Rp (ProcJ.Ref.evalTo P (n + 1) e t s).2 := by
  intro e t s hQ
  simp only [ProcJ.Ref.evalTo]
  split
  · exact liftV_good _ (hQ _ (pos_mem_exprPosns e))
  · exact ih.eval e s hQ

theorem succ_evalArgs : ∀ args s, (∀ q ∈ argsPosns args, Q q) → GoodE Q Rp (ProcJ.Ref.evalArgs P (n + 1) args s).2 := by
  intro args s hQ
  cases args with
  | nil => simp [ProcJ.Ref.evalArgs, GoodE]
  | cons e pn pt rest =>
    have i1 := fun s => ih.evalTo e pt s (fun x hx => hQ x (by simp [argsPosns, hx]))
    have i2 := fun s => ih.evalArgs rest s (fun x hx => hQ x (by simp [argsPosns, hx]))
    simp only [ProcJ.Ref.evalArgs]
    split
    · rename_i heq; exact goodE_err heq (i1 _)
    · split
      · rename_i heq; exact goodE_err heq (i2 _)
      · trivial

include hG in
theorem succ_call : ∀ f args s, (∀ q ∈ argsPosns args, Q q) → GoodE Q Rp (ProcJ.Ref.call P (n + 1) f args s).2 := by
  intro f args s hQ
  simp only [ProcJ.Ref.call]
  split
  · trivial
  · rename_i d hd
    have hd' : Cov Q Rp d.body := hG d (List.mem_of_getElem? hd)
    split
    · rename_i heq; exact goodE_err heq (ih.evalArgs args s hQ)
    · split
      · trivial
      · exact callFail_good (ih.exec Rp ⟨true, d.body⟩ d.body .run _ hd'.1 hd')

theorem succ_printItems : ∀ items s, (∀ q ∈ items.flatMap itemPosns, Q q) →
    Good Q NoRet Rp (ProcJ.Ref.printItems P (n + 1) items s).2 := by
  intro items s hQ
  cases items with
  | nil => simp [ProcJ.Ref.printItems, Good]
  | cons it rest =>
    have i1 := fun s => ih.printItems rest s (fun x hx => hQ x (by simp [hx]))
    cases it with
    | comma => simp only [ProcJ.Ref.printItems]; exact i1 _
    | semicolon => simp only [ProcJ.Ref.printItems]; exact i1 _
    | expr e =>
      simp only [ProcJ.Ref.printItems]
      split
      · rename_i heq
        exact goodE_err heq (ih.eval e s (fun x hx => hQ x (by simp [itemPosns, hx])))
      · split
        · trivial
        · exact i1 _

theorem succ_evalCond : ∀ e s, (∀ q ∈ exprPosns e, Q q) → GoodE Q Rp (ProcJ.Ref.evalCond P (n + 1) e s).2 := by
  intro e s hQ
  simp only [ProcJ.Ref.evalCond]
  split
  · rename_i heq; exact goodE_err heq (ih.eval e s hQ)
  · split
    · trivial
    · exact .inl ⟨by decide, hQ _ (pos_mem_exprPosns e)⟩

theorem succ_caseMatches : ∀ q0 subj ce s, Q q0 → (∀ q ∈ caseExprPosns ce, Q q) →
    GoodE Q Rp (ProcJ.Ref.caseMatches P (n + 1) q0 subj ce s).2 := by
  intro q0 subj ce s h0 hQ
  cases ce with
  | simple e =>
    simp only [ProcJ.Ref.caseMatches]
    split
    · rename_i heq; exact goodE_err heq (ih.eval e s (fun x hx => hQ x (by simpa [caseExprPosns] using hx)))
    · exact relTest_good _ _ _ h0
  | is op e =>
    simp only [ProcJ.Ref.caseMatches]
    split
    · rename_i heq; exact goodE_err heq (ih.eval e s (fun x hx => hQ x (by simpa [caseExprPosns] using hx)))
    · exact relTest_good _ _ _ h0
  | range lo hi =>
    have i1 := fun s => ih.eval lo s (fun x hx => hQ x (by simp [caseExprPosns, hx]))
    have i2 := fun s => ih.eval hi s (fun x hx => hQ x (by simp [caseExprPosns, hx]))
    simp only [ProcJ.Ref.caseMatches]
    split
    · rename_i heq; exact goodE_err heq (i1 _)
    · split
      · rename_i heq; exact relTest_err_good heq h0
      · trivial
      · split
        · rename_i heq; exact goodE_err heq (i2 _)
        · exact relTest_good _ _ _ h0

theorem succ_anyMatches : ∀ q0 subj conds s, Q q0 → (∀ q ∈ conds.flatMap caseExprPosns, Q q) →
    GoodE Q Rp (ProcJ.Ref.anyMatches P (n + 1) q0 subj conds s).2 := by
  intro q0 subj conds s h0 hQ
  cases conds with
  | nil => simp [ProcJ.Ref.anyMatches, GoodE]
  | cons ce rest =>
    simp only [ProcJ.Ref.anyMatches]
    split
    · rename_i heq
      exact goodE_err heq (ih.caseMatches q0 subj ce s h0 (fun x hx => hQ x (by simp [hx])))
    · trivial
    · exact ih.anyMatches q0 subj rest _ h0 (fun x hx => hQ x (by simp [hx]))

/-- positions of a sub-piece from those of the piece -/
local macro "sub" h:ident : term =>
  `(⟨fun q hq => ($h).1 q (by simp [stmtPosns, casesPosns, hq]),
     fun q hq => ($h).2 q (by simp [stmtRetPosns, casesRetPosns, hq])⟩)

theorem succ_exec : ∀ (R : Pos → Prop) A st m s, CovA Q A → Cov Q R st →
    Good Q R Rp (ProcJ.Ref.exec P (n + 1) A st m s).2 := by
  intro R A st m s hA hc
  cases st with
  | skip => simp only [ProcJ.Ref.exec]; split <;> simp [Good]
  | end_ p => simp only [ProcJ.Ref.exec]; split <;> simp [Good]
  | exitProc p => simp only [ProcJ.Ref.exec]; split <;> simp [Good]
  | label L =>
    simp only [ProcJ.Ref.exec]
    split
    · simp [Good]
    · split <;> simp [Good]
  | goto L => simp only [ProcJ.Ref.exec]; split <;> simp [Good]
  | ret p =>
    simp only [ProcJ.Ref.exec]
    split
    · exact hc.2 p (by simp [stmtRetPosns])
    · simp [Good]
  | gosub L =>
    simp only [ProcJ.Ref.exec]
    split
    · simp [Good]
    · exact gosubEnd_good (R' := fun _ => True) _
        (ih.exec (fun _ => True) A A.body _ _ hA ⟨hA, fun _ _ => trivial⟩)
  | callSub f args p =>
    have i1 := fun s => ih.call f args s (fun q hq => hc.1 q (by simp [stmtPosns, hq]))
    simp only [ProcJ.Ref.exec]
    split
    · simp [Good]
    · split
      · simp [Good]
      · rename_i heq; exact goodE_err heq (i1 _)
  | seq a b =>
    have ha : Cov Q R a := sub hc
    have hb : Cov Q R b := sub hc
    have i1 := fun m s => ih.exec R A a m s hA ha
    have i2 := fun m s => ih.exec R A b m s hA hb
    have i3 := fun m s => ih.exec R A (.seq a b) m s hA hc
    simp only [ProcJ.Ref.exec]
    repeat' split
    all_goals first | exact i1 _ _ | exact i2 _ _ | exact i3 _ _ | simp [Good]
  | assign x t e p =>
    have i1 := fun s => ih.evalTo e t s (fun q hq => hc.1 q (by simp [stmtPosns, hq]))
    simp only [ProcJ.Ref.exec]
    split
    · simp [Good]
    · split
      · simp [Good]
      · rename_i heq; exact goodE_err heq (i1 _)
  | print items p =>
    have i1 := fun s => ih.printItems items s (fun q hq => hc.1 q (by simp [stmtPosns, hq]))
    simp only [ProcJ.Ref.exec]
    split
    · simp [Good]
    · split
      · split <;> simp [Good]
      · exact (i1 _).lift
  | read x t p =>
    have hp : Q p := hc.1 p (by simp [stmtPosns])
    simp only [ProcJ.Ref.exec]
    repeat' split
    all_goals first
      | (simp [Good]; done)
      | exact good_err (by decide) hp
      | exact good_err (codeOf_mem _) hp
  | ifs c thn els p =>
    have hthn : Cov Q R thn := sub hc
    have hels : Cov Q R els := sub hc
    have i0 := fun s => ih.evalCond c s (fun q hq => hc.1 q (by simp [stmtPosns, hq]))
    have i1 := fun m s => ih.exec R A thn m s hA hthn
    have i2 := fun m s => ih.exec R A els m s hA hels
    have i3 := fun m s => ih.exec R A (.ifs c thn els p) m s hA hc
    simp only [ProcJ.Ref.exec]
    repeat' split
    all_goals first
      | exact i1 _ _ | exact i2 _ _ | exact i3 _ _
      | (simp [Good]; done)
      | exact goodE_err (by assumption) (i0 _)
  | select e cs p =>
    have hcs : CovC Q R cs := sub hc
    have hp : Q p := hc.1 p (by simp [stmtPosns])
    have i0 := fun s => ih.eval e s (fun q hq => hc.1 q (by simp [stmtPosns, hq]))
    have i1 := fun subj s => ih.execCases R A p subj cs s hA hp hcs
    have i2 := fun L s => ih.selectSeek R A cs L s hA hcs
    simp only [ProcJ.Ref.exec]
    repeat' split
    all_goals first
      | exact i1 _ _ | exact i2 _ _
      | (simp [Good]; done)
      | exact goodE_err (by assumption) (i0 _)
  | forLoop x t lo hi step body p =>
    have hbody : Cov Q R body := sub hc
    have hp : Q p := hc.1 p (by simp [stmtPosns])
    have ilo := fun s => ih.evalTo lo t s (fun q hq => hc.1 q (by simp [stmtPosns, hq]))
    have ihi := fun s => ih.evalTo hi t s (fun q hq => hc.1 q (by simp [stmtPosns, hq]))
    have i1 := fun h sv up m s => ih.forIter R A x t h sv up body p m s hA hp hbody
    simp only [ProcJ.Ref.exec]
    split
    · split <;> simp [Good]
    · split
      · rename_i heq; exact goodE_err heq (ilo _)
      · split
        · rename_i heq; exact goodE_err heq (ihi _)
        · split
          · exact i1 _ _ _ _ _
          · rename_i se
            have ise := fun s => ih.eval se s (fun q hq => hc.1 q (by simp [stmtPosns, optExprPosns, hq]))
            split
            · rename_i heq; exact goodE_err heq (ise _)
            · split
              · rename_i heq; exact stepSign_err_good heq hp
              · exact i1 _ _ _ _ _
              · exact i1 _ _ _ _ _
              · exact good_err (by decide) (hc.1 _ (by simp [stmtPosns, optExprPosns, pos_mem_exprPosns]))
  | «while» c body p =>
    have hbody : Cov Q R body := sub hc
    have i0 := fun s => ih.evalCond c s (fun q hq => hc.1 q (by simp [stmtPosns, hq]))
    have i1 := fun m s => ih.exec R A body m s hA hbody
    have i3 := fun m s => ih.exec R A (.while c body p) m s hA hc
    simp only [ProcJ.Ref.exec]
    split
    · split
      · rename_i heq
        split at heq
        · exact goodE_err heq (i0 _)
        · cases heq
      · simp [Good]
      · repeat' split
        all_goals first | exact i1 _ _ | exact i3 _ _ | simp [Good]
    · simp [Good]
  | doLoop c top u body p =>
    have hbody : Cov Q R body := sub hc
    have i0 := fun s => ih.evalCond c s (fun q hq => hc.1 q (by simp [stmtPosns, hq]))
    have i1 := fun m s => ih.exec R A body m s hA hbody
    have i3 := fun m s => ih.exec R A (.doLoop c top u body p) m s hA hc
    simp only [ProcJ.Ref.exec]
    split
    · split
      · split
        · rename_i heq
          split at heq
          · exact goodE_err heq (i0 _)
          · cases heq
        · repeat' split
          all_goals first | exact i1 _ _ | exact i3 _ _ | simp [Good]
      · repeat' split
        all_goals first
          | exact i1 _ _ | exact i3 _ _
          | (simp [Good]; done)
          | exact goodE_err (by assumption) (i0 _)
    · simp [Good]

theorem succ_execCases : ∀ (R : Pos → Prop) A q0 subj cs s, CovA Q A → Q q0 → CovC Q R cs →
    Good Q R Rp (ProcJ.Ref.execCases P (n + 1) A q0 subj cs s).2 := by
  intro R A q0 subj cs s hA h0 hc
  cases cs with
  | nil => simp [ProcJ.Ref.execCases, Good]
  | else_ body =>
    simp only [ProcJ.Ref.execCases]
    exact ih.exec R A body _ _ hA (sub hc)
  | case conds body rest =>
    have hbody : Cov Q R body := sub hc
    have hrest : CovC Q R rest := sub hc
    simp only [ProcJ.Ref.execCases]
    split
    · rename_i heq
      exact goodE_err heq (ih.anyMatches q0 subj conds s h0 (fun x hx => hc.1 x (by
        simp only [casesPosns, List.mem_append]; exact .inl (.inl hx))))
    · exact ih.exec R A body _ _ hA hbody
    · exact ih.execCases R A q0 subj rest _ hA h0 hrest

theorem succ_seekCases : ∀ (R : Pos → Prop) A cs L s, CovA Q A → CovC Q R cs →
    Good Q R Rp (ProcJ.Ref.seekCases P (n + 1) A cs L s).2 := by
  intro R A cs L s hA hc
  cases cs with
  | nil => simp [ProcJ.Ref.seekCases, Good]
  | else_ body =>
    simp only [ProcJ.Ref.seekCases]
    exact ih.exec R A body _ _ hA (sub hc)
  | case conds body rest =>
    have hbody : Cov Q R body := sub hc
    have hrest : CovC Q R rest := sub hc
    simp only [ProcJ.Ref.seekCases]
    split
    · exact ih.exec R A body _ _ hA hbody
    · exact ih.seekCases R A rest L s hA hrest

theorem succ_selectSeek : ∀ (R : Pos → Prop) A cs L s, CovA Q A → CovC Q R cs →
    Good Q R Rp (ProcJ.Ref.selectSeek P (n + 1) A cs L s).2 := by
  intro R A cs L s hA hc
  simp only [ProcJ.Ref.selectSeek]
  repeat' split
  all_goals first | exact ih.selectSeek R A cs _ _ hA hc | exact ih.seekCases R A cs _ _ hA hc | simp [Good]

theorem succ_forIter : ∀ (R : Pos → Prop) A x t h sv up body q0 m s, CovA Q A → Q q0 → Cov Q R body →
    Good Q R Rp (ProcJ.Ref.forIter P (n + 1) A x t h sv up body q0 m s).2 := by
  intro R A x t h sv up body q0 m s hA h0 hc
  have i1 := fun m s => ih.exec R A body m s hA hc
  have i2 := fun m s => ih.forIter R A x t h sv up body q0 m s hA h0 hc
  simp only [ProcJ.Ref.forIter]
  split
  · rename_i heq
    split at heq
    · exact relTest_err_good heq h0
    · cases heq
  · simp [Good]
  · repeat' split
    all_goals first
      | exact i1 _ _ | exact i2 _ _
      | (simp [Good]; done)
      | exact good_err (codeOf_mem _) h0

end succ

/-- the invariant at every amount of fuel, for a program all of whose procedure bodies have their positions in `Q` and their
RETURN positions in `Rp` -/
theorem inv_all {P : Program} {Q Rp : Pos → Prop} (hG : ∀ d, d ∈ P.procs → Cov Q Rp d.body) : ∀ n, Inv P Q Rp n
  | 0 => inv_zero P Q Rp
  | n + 1 =>
    have ih := inv_all hG n
    ⟨succ_eval ih, succ_evalTo ih, succ_evalArgs ih, succ_call hG ih, succ_printItems ih, succ_evalCond ih,
      succ_caseMatches ih, succ_anyMatches ih, succ_exec ih, succ_execCases ih, succ_seekCases ih, succ_selectSeek ih,
      succ_forIter ih⟩

/-! ### the invariant read off one outcome -/

/-- the RETURN positions of the procedure bodies of the program (reference syntax) -/
def ProcRet (P : Program) (p : Pos) : Prop := ∃ d, d ∈ P.procs ∧ p ∈ stmtRetPosns d.body

/-- **error 3 out of `exec` is a procedure's RETURN.**  Whatever statement of whatever activation runs: when `exec` answers
`error 3 p` (rather than `ret p`), the error was made by a call whose callee's body answered `ret p` — `p` is the position of
a RETURN statement in the body of a procedure of the program. -/
theorem exec_error3_at_proc_return (P : Program) (fuel : Nat) (A : Act) (st : Stmt) (m : Mode) (s s' : St) (p : Pos)
    (h : ProcJ.Ref.exec P fuel A st m s = (s', .error 3 p)) : ProcRet P p := by
  have := (inv_all (P := P) (Q := fun _ => True) (Rp := ProcRet P)
    (fun d hd => ⟨fun _ _ => trivial, fun q hq => ⟨d, hd, hq⟩⟩) fuel).exec (fun _ => True) A st m s
    (fun _ _ => trivial) ⟨fun _ _ => trivial, fun _ _ => trivial⟩
  rw [h] at this
  rcases this with ⟨h3, _⟩ | ⟨_, hp⟩
  · exact absurd h3 three_not_stmtCode
  · exact hp

/-- the error codes of `exec`: a statement code, or 3 (a RETURN of a callee that no GOSUB of the callee answered) -/
theorem exec_error_code (P : Program) (fuel : Nat) (A : Act) (st : Stmt) (m : Mode) (s s' : St) (c : Nat) (p : Pos)
    (h : ProcJ.Ref.exec P fuel A st m s = (s', .error c p)) : c ∈ 3 :: stmtCodes := by
  have := (inv_all (P := P) (Q := fun _ => True) (Rp := fun _ => True)
    (fun d hd => ⟨fun _ _ => trivial, fun _ _ => trivial⟩) fuel).exec (fun _ => True) A st m s
    (fun _ _ => trivial) ⟨fun _ _ => trivial, fun _ _ => trivial⟩
  rw [h] at this
  rcases this with ⟨h3, _⟩ | ⟨rfl, _⟩
  · exact List.mem_cons_of_mem _ h3
  · exact List.mem_cons_self ..

/-- **a `ret p` that comes out of a statement is a RETURN of that statement**: a `ret` is never produced by a GOSUB (it answers
the routine's `ret` with `normal`) nor by a call (it answers the callee's `ret` with error 3), so — unlike in the jump layer's
`exec_ret_at_return` — the body of the activation is not an alternative. -/
theorem exec_ret_at_return (P : Program) (fuel : Nat) (A : Act) (st : Stmt) (m : Mode) (s s' : St) (p : Pos)
    (h : ProcJ.Ref.exec P fuel A st m s = (s', .ret p)) : p ∈ stmtRetPosns st := by
  have := (inv_all (P := P) (Q := fun _ => True) (Rp := fun _ => True)
    (fun d hd => ⟨fun _ _ => trivial, fun _ _ => trivial⟩) fuel).exec (· ∈ stmtRetPosns st) A st m s
    (fun _ _ => trivial) ⟨fun _ _ => trivial, fun q hq => hq⟩
  rw [h] at this
  exact this

/-- the expression level never answers `ret`: `eval` -/
theorem eval_not_ret (P : Program) (fuel : Nat) (e : Expr) (s s' : St) (p : Pos) :
    ProcJ.Ref.eval P fuel e s ≠ (s', .error (.ret p)) := by
  intro h
  have := (inv_all (P := P) (Q := fun _ => True) (Rp := fun _ => True)
    (fun d hd => ⟨fun _ _ => trivial, fun _ _ => trivial⟩) fuel).eval e s (fun _ _ => trivial)
  rw [h] at this
  exact this

/-- … and `call` -/
theorem call_not_ret (P : Program) (fuel f : Nat) (args : Args) (s s' : St) (p : Pos) :
    ProcJ.Ref.call P fuel f args s ≠ (s', .error (.ret p)) := by
  intro h
  have := (inv_all (P := P) (Q := fun _ => True) (Rp := fun _ => True)
    (fun d hd => ⟨fun _ _ => trivial, fun _ _ => trivial⟩) fuel).call f args s (fun _ _ => trivial)
  rw [h] at this
  exact this

/-- **`call_ret_is_error3_at_return`** — a callee whose body answers `ret p` (a RETURN that no GOSUB *of the callee's
activation* answered, whatever GOSUBs the callers have pending) makes the call fail with error 3 at `p`, and `p` is the
position of a RETURN statement of the callee's own body. -/
theorem call_ret_is_error3_at_return (P : Program) (fuel f : Nat) (args : Args) (s s1 s2 : St) (d : ProcDecl Stmt)
    (vals : List Val) (p : Pos)
    (hd : P.procs[f]? = some d) (ha : ProcJ.Ref.evalArgs P fuel args s = (s1, .ok vals))
    (hb : ProcJ.Ref.exec P fuel ⟨true, d.body⟩ d.body .run (enter d f vals s1) = (s2, .ret p)) :
    ProcJ.Ref.call P (fuel + 1) f args s = (s2, .error (.error 3 p)) ∧ p ∈ stmtRetPosns d.body := by
  refine ⟨?_, exec_ret_at_return P fuel _ _ _ _ _ p hb⟩
  simp [ProcJ.Ref.call, hd, ha, hb, returns, callFail, codeReturnWithoutGoSub]

/-- an error raised while the body of a procedure runs is reported by the call with the same code at the same position — not
at the call site — and that position occurs in the body of a procedure of the program -/
theorem error_in_procedure_at_body_pos (P : Program) (fuel f : Nat) (args : Args) (s s1 s2 : St) (d : ProcDecl Stmt)
    (vals : List Val) (c : Nat) (p : Pos)
    (hd : P.procs[f]? = some d) (ha : ProcJ.Ref.evalArgs P fuel args s = (s1, .ok vals))
    (hb : ProcJ.Ref.exec P fuel ⟨true, d.body⟩ d.body .run (enter d f vals s1) = (s2, .error c p)) :
    ProcJ.Ref.call P (fuel + 1) f args s = (s2, .error (.error c p)) ∧ ∃ d', d' ∈ P.procs ∧ p ∈ stmtPosns d'.body := by
  refine ⟨by simp [ProcJ.Ref.call, hd, ha, hb, returns, callFail], ?_⟩
  have hdm : d ∈ P.procs := List.mem_of_getElem? hd
  have := (inv_all (P := P) (Q := fun p => ∃ d', d' ∈ P.procs ∧ p ∈ stmtPosns d'.body)
    (Rp := fun p => ∃ d', d' ∈ P.procs ∧ p ∈ stmtPosns d'.body)
    (fun d' hd' => ⟨fun q hq => ⟨d', hd', hq⟩, fun q hq => ⟨d', hd', stmtRetPosns_sub q _ hq⟩⟩) fuel).exec
    (fun _ => True) ⟨true, d.body⟩ d.body .run (enter d f vals s1) (fun q hq => ⟨d, hdm, hq⟩)
    ⟨fun q hq => ⟨d, hdm, hq⟩, fun _ _ => trivial⟩
  rw [hb] at this
  rcases this with ⟨_, hp⟩ | ⟨_, hp⟩ <;> exact hp

/-! ### the source tree (`SStmt`, what the front end delivers) and its desugaring -/

mutual
/-- every position that occurs in a statement of the source syntax (there `label`, `GOTO`, `GOSUB` carry one too) -/
def sstmtPosns : SStmt → List Pos
  | .skip => []
  | .seq a b => sstmtPosns a ++ sstmtPosns b
  | .comment => []
  | .dim _ _ p => [p]
  | .sdim _ _ p => [p]
  | .assign _ _ e p => p :: exprPosns e
  | .print items p => p :: items.flatMap itemPosns
  | .data items p => p :: items.map (·.2)
  | .read vars p => p :: vars.map (·.2.2)
  | .ifBlock c thn elifs _ els p => p :: (exprPosns c ++ sstmtPosns thn ++ elifsPosns elifs ++ sstmtPosns els)
  | .select e cases _ els p => p :: (exprPosns e ++ scasesPosns cases ++ sstmtPosns els)
  | .forLoop _ _ lo hi step body p => p :: (exprPosns lo ++ exprPosns hi ++ optExprPosns step ++ sstmtPosns body)
  | .while c body p => p :: (exprPosns c ++ sstmtPosns body)
  | .doLoop c _ _ body p => p :: (exprPosns c ++ sstmtPosns body)
  | .end_ p => [p]
  | .callSub _ args p => p :: argsPosns args
  | .exitProc p => [p]
  | .label _ _ p => [p]
  | .goto _ p => [p]
  | .gosub _ p => [p]
  | .ret p => [p]
def elifsPosns : ElseIfs → List Pos
  | .nil => []
  | .cons c body rest => exprPosns c ++ sstmtPosns body ++ elifsPosns rest
def scasesPosns : SCases → List Pos
  | .nil => []
  | .cons conds body rest => conds.flatMap caseExprPosns ++ sstmtPosns body ++ scasesPosns rest
end

mutual
/-- the positions of the RETURN statements of the source tree -/
def retPosns : SStmt → List Pos
  | .seq a b => retPosns a ++ retPosns b
  | .ifBlock _ thn elifs _ els _ => retPosns thn ++ elifsRetPosns elifs ++ retPosns els
  | .select _ cases _ els _ => scasesRetPosns cases ++ retPosns els
  | .forLoop _ _ _ _ _ body _ => retPosns body
  | .while _ body _ => retPosns body
  | .doLoop _ _ _ body _ => retPosns body
  | .ret p => [p]
  | .skip => []
  | .comment => []
  | .dim .. => []
  | .sdim .. => []
  | .assign .. => []
  | .print .. => []
  | .data .. => []
  | .read .. => []
  | .end_ _ => []
  | .callSub .. => []
  | .exitProc _ => []
  | .label .. => []
  | .goto .. => []
  | .gosub .. => []
def elifsRetPosns : ElseIfs → List Pos
  | .nil => []
  | .cons _ body rest => retPosns body ++ elifsRetPosns rest
def scasesRetPosns : SCases → List Pos
  | .nil => []
  | .cons _ body rest => retPosns body ++ scasesRetPosns rest
end

mutual
/-- a RETURN's position is one of the positions of the source statement -/
theorem retPosns_sub (q : Pos) : ∀ s : SStmt, q ∈ retPosns s → q ∈ sstmtPosns s
  | .seq a b, h => by
    simp only [retPosns, List.mem_append] at h
    rcases h with h | h
    · simp [sstmtPosns, retPosns_sub q a h]
    · simp [sstmtPosns, retPosns_sub q b h]
  | .ifBlock _ thn elifs _ els _, h => by
    simp only [retPosns, List.mem_append] at h
    rcases h with (h | h) | h
    · simp [sstmtPosns, retPosns_sub q thn h]
    · simp [sstmtPosns, elifsRetPosns_sub q elifs h]
    · simp [sstmtPosns, retPosns_sub q els h]
  | .select _ cases _ els _, h => by
    simp only [retPosns, List.mem_append] at h
    rcases h with h | h
    · simp [sstmtPosns, scasesRetPosns_sub q cases h]
    · simp [sstmtPosns, retPosns_sub q els h]
  | .forLoop _ _ _ _ _ body _, h => by
    simp only [retPosns] at h
    simp [sstmtPosns, retPosns_sub q body h]
  | .while _ body _, h => by
    simp only [retPosns] at h
    simp [sstmtPosns, retPosns_sub q body h]
  | .doLoop _ _ _ body _, h => by
    simp only [retPosns] at h
    simp [sstmtPosns, retPosns_sub q body h]
  | .ret p, h => by simpa [retPosns, sstmtPosns] using h
  | .skip, h => by simp [retPosns] at h
  | .comment, h => by simp [retPosns] at h
  | .dim .., h => by simp [retPosns] at h
  | .sdim .., h => by simp [retPosns] at h
  | .assign .., h => by simp [retPosns] at h
  | .print .., h => by simp [retPosns] at h
  | .data .., h => by simp [retPosns] at h
  | .read .., h => by simp [retPosns] at h
  | .end_ _, h => by simp [retPosns] at h
  | .callSub .., h => by simp [retPosns] at h
  | .exitProc _, h => by simp [retPosns] at h
  | .label .., h => by simp [retPosns] at h
  | .goto .., h => by simp [retPosns] at h
  | .gosub .., h => by simp [retPosns] at h
theorem elifsRetPosns_sub (q : Pos) : ∀ e : ElseIfs, q ∈ elifsRetPosns e → q ∈ elifsPosns e
  | .nil, h => by simp [elifsRetPosns] at h
  | .cons _ body rest, h => by
    simp only [elifsRetPosns, List.mem_append] at h
    rcases h with h | h
    · simp [elifsPosns, retPosns_sub q body h]
    · simp [elifsPosns, elifsRetPosns_sub q rest h]
theorem scasesRetPosns_sub (q : Pos) : ∀ cs : SCases, q ∈ scasesRetPosns cs → q ∈ scasesPosns cs
  | .nil, h => by simp [scasesRetPosns] at h
  | .cons _ body rest, h => by
    simp only [scasesRetPosns, List.mem_append] at h
    rcases h with h | h
    · simp [scasesPosns, retPosns_sub q body h]
    · simp [scasesPosns, scasesRetPosns_sub q rest h]
end

theorem readSeq_posns (p q : Pos) : ∀ vars : List (Var × Ty × Pos), q ∈ stmtPosns (readSeq p vars) → q = p
  | [], h => by simp [readSeq, stmtPosns] at h
  | (x, t, r) :: rest, h => by
    simp only [readSeq, stmtPosns, List.mem_append, List.mem_cons, List.not_mem_nil, or_false] at h
    rcases h with h | h
    · exact h
    · exact readSeq_posns p q rest h

theorem readSeq_retPosns (p : Pos) : ∀ vars : List (Var × Ty × Pos), stmtRetPosns (readSeq p vars) = []
  | [] => by simp [readSeq, stmtRetPosns]
  | (x, t, r) :: rest => by simp [readSeq, stmtRetPosns, readSeq_retPosns p rest]

mutual
/-- desugaring adds no positions -/
theorem desugar_posns (q : Pos) : ∀ s : SStmt, q ∈ stmtPosns (desugar s) → q ∈ sstmtPosns s
  | .skip, h => by simp [desugar, stmtPosns] at h
  | .comment, h => by simp [desugar, stmtPosns] at h
  | .data _ _, h => by simp [desugar, stmtPosns] at h
  | .sdim _ _ _, h => by simp [desugar, stmtPosns] at h
  | .label _ _ _, h => by simp [desugar, stmtPosns] at h
  | .goto _ _, h => by simp [desugar, stmtPosns] at h
  | .gosub _ _, h => by simp [desugar, stmtPosns] at h
  | .seq a b, h => by
    simp only [desugar, stmtPosns, List.mem_append] at h
    rcases h with h | h
    · simp [sstmtPosns, desugar_posns q a h]
    · simp [sstmtPosns, desugar_posns q b h]
  | .dim x t p, h => by simpa [desugar, stmtPosns, exprPosns, sstmtPosns] using h
  | .assign x t e p, h => by simpa [desugar, stmtPosns, sstmtPosns] using h
  | .print items p, h => by simpa [desugar, stmtPosns, sstmtPosns] using h
  | .read vars p, h => by
    simp only [desugar] at h
    simp [sstmtPosns, readSeq_posns p q vars h]
  | .ifBlock c thn elifs he els p, h => by
    simp only [desugar, stmtPosns, List.mem_append, List.mem_cons] at h
    rcases h with h | (h | h) | h
    · simp [sstmtPosns, h]
    · simp [sstmtPosns, h]
    · simp [sstmtPosns, desugar_posns q thn h]
    · rcases desugarElifs_posns q elifs (desugar els) p h with h1 | h1 | h1
      · simp [sstmtPosns, h1]
      · simp [sstmtPosns, h1]
      · simp [sstmtPosns, desugar_posns q els h1]
  | .select e cases he els p, h => by
    simp only [desugar, stmtPosns, List.mem_append, List.mem_cons] at h
    rcases h with h | h | h
    · simp [sstmtPosns, h]
    · simp [sstmtPosns, h]
    · rcases desugarCases_posns q cases _ h with h1 | h1
      · simp [sstmtPosns, h1]
      · cases he with
        | true =>
          simp only [if_true, casesPosns] at h1
          simp [sstmtPosns, desugar_posns q els h1]
        | false => simp [casesPosns] at h1
  | .forLoop x t lo hi step body p, h => by
    simp only [desugar, stmtPosns, List.mem_append, List.mem_cons] at h
    rcases h with h | ((h | h) | h) | h
    · simp [sstmtPosns, h]
    · simp [sstmtPosns, h]
    · simp [sstmtPosns, h]
    · simp [sstmtPosns, h]
    · simp [sstmtPosns, desugar_posns q body h]
  | .while c body p, h => by
    simp only [desugar, stmtPosns, List.mem_append, List.mem_cons] at h
    rcases h with h | h | h
    · simp [sstmtPosns, h]
    · simp [sstmtPosns, h]
    · simp [sstmtPosns, desugar_posns q body h]
  | .doLoop c top u body p, h => by
    simp only [desugar, stmtPosns, List.mem_append, List.mem_cons] at h
    rcases h with h | h | h
    · simp [sstmtPosns, h]
    · simp [sstmtPosns, h]
    · simp [sstmtPosns, desugar_posns q body h]
  | .end_ p, h => by simpa [desugar, stmtPosns, sstmtPosns] using h
  | .callSub f args p, h => by simpa [desugar, stmtPosns, sstmtPosns] using h
  | .exitProc p, h => by simpa [desugar, stmtPosns, sstmtPosns] using h
  | .ret p, h => by simpa [desugar, stmtPosns, sstmtPosns] using h
theorem desugarElifs_posns (q : Pos) : ∀ (e : ElseIfs) (els : Stmt) (p : Pos),
    q ∈ stmtPosns (desugarElifs e els p) → q = p ∨ q ∈ elifsPosns e ∨ q ∈ stmtPosns els
  | .nil, els, p, h => by simp only [desugarElifs] at h; exact .inr (.inr h)
  | .cons c body rest, els, p, h => by
    simp only [desugarElifs, stmtPosns, List.mem_append, List.mem_cons] at h
    rcases h with h | (h | h) | h
    · exact .inl h
    · exact .inr (.inl (by simp [elifsPosns, h]))
    · exact .inr (.inl (by simp [elifsPosns, desugar_posns q body h]))
    · rcases desugarElifs_posns q rest els p h with h1 | h1 | h1
      · exact .inl h1
      · exact .inr (.inl (by simp [elifsPosns, h1]))
      · exact .inr (.inr h1)
theorem desugarCases_posns (q : Pos) : ∀ (cs : SCases) (tail : Cases),
    q ∈ casesPosns (desugarCases cs tail) → q ∈ scasesPosns cs ∨ q ∈ casesPosns tail
  | .nil, tail, h => by simp only [desugarCases] at h; exact .inr h
  | .cons conds body rest, tail, h => by
    simp only [desugarCases, casesPosns, List.mem_append] at h
    rcases h with (h | h) | h
    · exact .inl (by simp [scasesPosns, h])
    · exact .inl (by simp [scasesPosns, desugar_posns q body h])
    · rcases desugarCases_posns q rest tail h with h1 | h1
      · exact .inl (by simp [scasesPosns, h1])
      · exact .inr h1
end

mutual
/-- desugaring adds no RETURN -/
theorem desugar_retPosns (q : Pos) : ∀ s : SStmt, q ∈ stmtRetPosns (desugar s) → q ∈ retPosns s
  | .skip, h => by simp [desugar, stmtRetPosns] at h
  | .comment, h => by simp [desugar, stmtRetPosns] at h
  | .data _ _, h => by simp [desugar, stmtRetPosns] at h
  | .sdim _ _ _, h => by simp [desugar, stmtRetPosns] at h
  | .label _ _ _, h => by simp [desugar, stmtRetPosns] at h
  | .goto _ _, h => by simp [desugar, stmtRetPosns] at h
  | .gosub _ _, h => by simp [desugar, stmtRetPosns] at h
  | .dim x t p, h => by simp [desugar, stmtRetPosns] at h
  | .assign x t e p, h => by simp [desugar, stmtRetPosns] at h
  | .print items p, h => by simp [desugar, stmtRetPosns] at h
  | .end_ p, h => by simp [desugar, stmtRetPosns] at h
  | .callSub f args p, h => by simp [desugar, stmtRetPosns] at h
  | .exitProc p, h => by simp [desugar, stmtRetPosns] at h
  | .read vars p, h => by simp [desugar, readSeq_retPosns] at h
  | .ret p, h => by simpa [desugar, stmtRetPosns, retPosns] using h
  | .seq a b, h => by
    simp only [desugar, stmtRetPosns, List.mem_append] at h
    rcases h with h | h
    · simp [retPosns, desugar_retPosns q a h]
    · simp [retPosns, desugar_retPosns q b h]
  | .ifBlock c thn elifs he els p, h => by
    simp only [desugar, stmtRetPosns, List.mem_append] at h
    rcases h with h | h
    · simp [retPosns, desugar_retPosns q thn h]
    · rcases desugarElifs_retPosns q elifs (desugar els) p h with h1 | h1
      · simp [retPosns, h1]
      · simp [retPosns, desugar_retPosns q els h1]
  | .select e cases he els p, h => by
    simp only [desugar, stmtRetPosns] at h
    rcases desugarCases_retPosns q cases _ h with h1 | h1
    · simp [retPosns, h1]
    · cases he with
      | true =>
        simp only [if_true, casesRetPosns] at h1
        simp [retPosns, desugar_retPosns q els h1]
      | false => simp [casesRetPosns] at h1
  | .forLoop x t lo hi step body p, h => by
    simp only [desugar, stmtRetPosns] at h
    simp [retPosns, desugar_retPosns q body h]
  | .while c body p, h => by
    simp only [desugar, stmtRetPosns] at h
    simp [retPosns, desugar_retPosns q body h]
  | .doLoop c top u body p, h => by
    simp only [desugar, stmtRetPosns] at h
    simp [retPosns, desugar_retPosns q body h]
theorem desugarElifs_retPosns (q : Pos) : ∀ (e : ElseIfs) (els : Stmt) (p : Pos),
    q ∈ stmtRetPosns (desugarElifs e els p) → q ∈ elifsRetPosns e ∨ q ∈ stmtRetPosns els
  | .nil, els, p, h => by simp only [desugarElifs] at h; exact .inr h
  | .cons c body rest, els, p, h => by
    simp only [desugarElifs, stmtRetPosns, List.mem_append] at h
    rcases h with h | h
    · exact .inl (by simp [elifsRetPosns, desugar_retPosns q body h])
    · rcases desugarElifs_retPosns q rest els p h with h1 | h1
      · exact .inl (by simp [elifsRetPosns, h1])
      · exact .inr h1
theorem desugarCases_retPosns (q : Pos) : ∀ (cs : SCases) (tail : Cases),
    q ∈ casesRetPosns (desugarCases cs tail) → q ∈ scasesRetPosns cs ∨ q ∈ casesRetPosns tail
  | .nil, tail, h => by simp only [desugarCases] at h; exact .inr h
  | .cons conds body rest, tail, h => by
    simp only [desugarCases, casesRetPosns, List.mem_append] at h
    rcases h with h | h
    · exact .inl (by simp [scasesRetPosns, desugar_retPosns q body h])
    · rcases desugarCases_retPosns q rest tail h with h1 | h1
      · exact .inl (by simp [scasesRetPosns, h1])
      · exact .inr h1
end

/-! ### the program-level predicates -/

/-- the positions of a program: those carried by a node of the main module or of the body of one of its procedures -/
def InProgram (prog : SProgram) (p : Pos) : Prop :=
  p ∈ sstmtPosns prog.body ∨ ∃ d, d ∈ prog.procs ∧ p ∈ sstmtPosns d.body

/-- `p` is the position of a RETURN statement inside the body of one of the procedures -/
def AtProcReturn (prog : SProgram) (p : Pos) : Prop := ∃ d, d ∈ prog.procs ∧ p ∈ retPosns d.body

/-- `p` is the position of a RETURN statement of the main module or of a procedure body -/
def AtReturn (prog : SProgram) (p : Pos) : Prop := p ∈ retPosns prog.body ∨ AtProcReturn prog p

theorem AtProcReturn.atReturn {prog : SProgram} {p : Pos} (h : AtProcReturn prog p) : AtReturn prog p := .inr h

theorem AtReturn.inProgram {prog : SProgram} {p : Pos} (h : AtReturn prog p) : InProgram prog p := by
  rcases h with h | ⟨d, hd, h⟩
  · exact .inl (retPosns_sub p _ h)
  · exact .inr ⟨d, hd, retPosns_sub p _ h⟩

/-- the RETURN positions of the procedure bodies of the desugared program are RETURN positions of the source procedures -/
theorem procRet_toAst {prog : SProgram} {p : Pos} (h : ProcRet prog.toAst p) : AtProcReturn prog p := by
  obtain ⟨d, hd, hp⟩ := h
  simp only [SProgram.toAst, List.mem_map] at hd
  obtain ⟨d0, hd0, rfl⟩ := hd
  exact ⟨d0, hd0, desugar_retPosns p d0.body hp⟩

/-- the standing hypothesis of the induction holds of every desugared program, with `Q` = carried by a node of the program and
`Rp` = RETURN inside a procedure body -/
theorem toAst_procs_cov (prog : SProgram) :
    ∀ d, d ∈ prog.toAst.procs → Cov (InProgram prog) (AtProcReturn prog) d.body := by
  intro d hd
  simp only [SProgram.toAst, List.mem_map] at hd
  obtain ⟨d0, hd0, rfl⟩ := hd
  exact ⟨fun q hq => .inr ⟨d0, hd0, desugar_posns q d0.body hq⟩, fun q hq => ⟨d0, hd0, desugar_retPosns q d0.body hq⟩⟩

/-! ### the property theorems -/

open RbThm.ProcJSim (startSt run_eq)

/-- where an error of `run` comes from: an error of the main module's `exec`, passed on, or — code 3 — a `ret` that reached
the top -/
theorem run_error (prog : SProgram) (fuel c : Nat) (p : Pos) (h : (ProcJ.Ref.run fuel prog.toAst).2 = .error c p) :
    (∃ s', ProcJ.Ref.exec prog.toAst fuel ⟨false, desugar prog.body⟩ (desugar prog.body) .run (startSt prog)
        = (s', .error c p)) ∨
    (c = 3 ∧ ∃ s', ProcJ.Ref.exec prog.toAst fuel ⟨false, desugar prog.body⟩ (desugar prog.body) .run (startSt prog)
        = (s', .ret p)) := by
  rw [run_eq] at h
  generalize hr : ProcJ.Ref.exec prog.toAst fuel ⟨false, desugar prog.body⟩ (desugar prog.body) .run (startSt prog) = r
    at h
  obtain ⟨s', o⟩ := r
  cases o <;> simp only [topOutcome, codeReturnWithoutGoSub, Outcome.error.injEq, reduceCtorEq] at h
  · obtain ⟨rfl, rfl⟩ := h
    exact .inr ⟨rfl, s', rfl⟩
  · obtain ⟨rfl, rfl⟩ := h
    exact .inl ⟨s', rfl⟩

/-- the invariant instantiated at the main module of a source program -/
theorem main_good (prog : SProgram) (fuel : Nat) :
    Good (InProgram prog) (· ∈ retPosns prog.body) (AtProcReturn prog)
      (ProcJ.Ref.exec prog.toAst fuel ⟨false, desugar prog.body⟩ (desugar prog.body) .run (startSt prog)).2 :=
  (inv_all (toAst_procs_cov prog) fuel).exec _ ⟨false, desugar prog.body⟩ (desugar prog.body) .run (startSt prog)
    (fun q hq => .inl (desugar_posns q prog.body hq))
    ⟨fun q hq => .inl (desugar_posns q prog.body hq), fun q hq => desugar_retPosns q prog.body hq⟩

/-- **`ref_error_pos_within_program`** (layer ProcJ) — the position the reference semantics prescribes for a run-time error —
error 3 of a RETURN that no GOSUB of its activation is waiting for included — is a position carried by a node of the program:
of the main module, or of the body of one of its procedures.  No premise. -/
theorem ref_error_pos_within_program (prog : SProgram) (fuel c : Nat) (p : Pos)
    (h : (ProcJ.Ref.run fuel prog.toAst).2 = .error c p) : InProgram prog p := by
  have hg := main_good prog fuel
  rcases run_error prog fuel c p h with ⟨s', hr⟩ | ⟨_, s', hr⟩
  · rw [hr] at hg
    rcases hg with ⟨_, hq⟩ | ⟨_, hp⟩
    · exact hq
    · exact hp.atReturn.inProgram
  · rw [hr] at hg
    exact .inl (retPosns_sub p _ hg)

/-- the error codes of a reference run: 3, or one of the statement codes -/
theorem ref_error_code (prog : SProgram) (fuel c : Nat) (p : Pos)
    (h : (ProcJ.Ref.run fuel prog.toAst).2 = .error c p) : c ∈ 3 :: stmtCodes := by
  rcases run_error prog fuel c p h with ⟨s', hr⟩ | ⟨rfl, _⟩
  · exact exec_error_code _ _ _ _ _ _ _ c p hr
  · exact List.mem_cons_self ..

/-- **`return_without_gosub_at_return`** (layer ProcJ) — error 3 (RETURN without GOSUB) is reported at the position of a
RETURN statement of the program — of the main module (the `ret` reached the top) or of a procedure body (the `ret` came out
of the callee's body) — and by nothing else: no expression and no other statement of the layer fails with code 3.
No premise. -/
theorem return_without_gosub_at_return (prog : SProgram) (fuel : Nat) (p : Pos)
    (h : (ProcJ.Ref.run fuel prog.toAst).2 = .error 3 p) : AtReturn prog p := by
  have hg := main_good prog fuel
  rcases run_error prog fuel 3 p h with ⟨s', hr⟩ | ⟨_, s', hr⟩
  · rw [hr] at hg
    rcases hg with ⟨h3, _⟩ | ⟨_, hp⟩
    · exact absurd h3 three_not_stmtCode
    · exact .inr hp
  · rw [hr] at hg
    exact .inl hg

/-- **`error3_in_main_exec_is_procedure_return`** — when the main module's own `exec` answers `error 3 p` (rather than
`ret p`, which `topOutcome` turns into error 3), the error was raised by a call whose callee's body answered `ret p`: `p` is
a RETURN inside a procedure body. -/
theorem error3_in_main_exec_is_procedure_return (prog : SProgram) (fuel : Nat) (s' : St) (p : Pos)
    (h : ProcJ.Ref.exec prog.toAst fuel ⟨false, desugar prog.body⟩ (desugar prog.body) .run (startSt prog)
      = (s', .error 3 p)) : AtProcReturn prog p :=
  procRet_toAst (exec_error3_at_proc_return _ _ _ _ _ _ _ p h)

/-- … and when it answers `ret p` (error 3 of `run`), `p` is a RETURN of the main module -/
theorem ret_in_main_exec_is_main_return (prog : SProgram) (fuel : Nat) (s' : St) (p : Pos)
    (h : ProcJ.Ref.exec prog.toAst fuel ⟨false, desugar prog.body⟩ (desugar prog.body) .run (startSt prog)
      = (s', .ret p)) : p ∈ retPosns prog.body :=
  desugar_retPosns p prog.body (exec_ret_at_return _ _ _ _ _ _ _ p h)

/-- the same with the start state and the body spelled through `toAst` (`startSt prog` is `St.init prog.toAst`,
`prog.toAst.body` is `desugar prog.body`, by definition) -/
theorem error3_in_main_exec_is_procedure_return' (prog : SProgram) (fuel : Nat) (s' : St) (p : Pos)
    (h : ProcJ.Ref.exec prog.toAst fuel ⟨false, prog.toAst.body⟩ prog.toAst.body .run (ProcJ.Ref.St.init prog.toAst)
      = (s', .error 3 p)) : AtProcReturn prog p :=
  error3_in_main_exec_is_procedure_return prog fuel s' p h

/-! ### non-vacuity -/

/-- `GOSUB R : END : R: CALL S : RETURN` with `SUB S : RETURN : END SUB`: the RETURN inside the SUB (row 7) finds no GOSUB of
the SUB's activation pending — the main module's GOSUB does not count -/
def demoRet : SProgram :=
  { slots := [],
    gslots := [],
    body :=
      .seq (.gosub 0 ⟨1, 1⟩)
      (.seq (.end_ ⟨2, 1⟩)
      (.seq (.label 0 "R" ⟨3, 1⟩)
      (.seq (.callSub 0 .nil ⟨4, 1⟩)
      (.seq (.ret ⟨5, 1⟩) .skip)))),
    procs :=
      [ { result := none, name := "S", params := [], slots := [],
          body := .seq (.ret ⟨7, 3⟩) .skip,
          pos := ⟨6, 1⟩ } ] }

/-- `X% = 1 : RETURN` in the main module: the `ret` reaches the top -/
def demoTop : SProgram :=
  { slots := [.int],
    gslots := [],
    body := .seq (.assign ⟨false, 0⟩ .int (.lit (.int 1) ⟨1, 6⟩) ⟨1, 1⟩) (.seq (.ret ⟨2, 1⟩) .skip),
    procs := [] }

/-- `CALL S` with `SUB S : X% = 32767 : X% = X% + 1 : END SUB`: Overflow (6) inside the SUB -/
def demoOvf : SProgram :=
  { slots := [],
    gslots := [],
    body := .seq (.callSub 0 .nil ⟨1, 1⟩) .skip,
    procs :=
      [ { result := none, name := "S", params := [], slots := [.int],
          body :=
            .seq (.assign ⟨false, 0⟩ .int (.lit (.int 32767) ⟨3, 8⟩) ⟨3, 3⟩)
            (.seq (.assign ⟨false, 0⟩ .int
              (.bin .plus (.var ⟨false, 0⟩ .int ⟨4, 8⟩) (.lit (.int 1) ⟨4, 13⟩) .int ⟨4, 11⟩) ⟨4, 3⟩) .skip),
          pos := ⟨2, 1⟩ } ] }

/-- the run of `demoRet` answers error 3 at ⟨7, 3⟩ — the hypothesis of `ref_error_pos_within_program` and of
`return_without_gosub_at_return` is met with a RETURN inside a procedure … -/
example : (ProcJ.Ref.run 30 demoRet.toAst).2 = .error 3 ⟨7, 3⟩ := by decide
example : InProgram demoRet ⟨7, 3⟩ := ref_error_pos_within_program demoRet 30 3 _ (by decide)
example : AtReturn demoRet ⟨7, 3⟩ := return_without_gosub_at_return demoRet 30 _ (by decide)
/-- … which is not a position of the main module (where the call site ⟨4, 1⟩ and the main module's own RETURN ⟨5, 1⟩ are) -/
example : (⟨7, 3⟩ : Pos) ∉ sstmtPosns demoRet.body ∧ (⟨4, 1⟩ : Pos) ∈ sstmtPosns demoRet.body ∧
    retPosns demoRet.body = [⟨5, 1⟩] := by decide

/-- the hypothesis of `error3_in_main_exec_is_procedure_return` is met: the main module's `exec` itself answers `error 3`
(not `ret`) -/
example : (ProcJ.Ref.exec demoRet.toAst 30 ⟨false, desugar demoRet.body⟩ (desugar demoRet.body) .run (startSt demoRet)).2
    = .error 3 ⟨7, 3⟩ := by decide
example : AtProcReturn demoRet ⟨7, 3⟩ :=
  error3_in_main_exec_is_procedure_return demoRet 30 _ _ (Prod.ext rfl (by decide))
example : AtProcReturn demoRet ⟨7, 3⟩ := ⟨_, List.mem_cons_self .., by decide⟩

/-- `demoTop`: the main module's `exec` answers `ret ⟨2, 1⟩`, `run` error 3 at ⟨2, 1⟩: a RETURN of the main module, and no
procedure RETURN (there is no procedure) -/
example : (ProcJ.Ref.exec demoTop.toAst 30 ⟨false, desugar demoTop.body⟩ (desugar demoTop.body) .run (startSt demoTop)).2
    = .ret ⟨2, 1⟩ ∧ (ProcJ.Ref.run 30 demoTop.toAst).2 = .error 3 ⟨2, 1⟩ := by decide
example : AtReturn demoTop ⟨2, 1⟩ := return_without_gosub_at_return demoTop 30 _ (by decide)
example : (⟨2, 1⟩ : Pos) ∈ retPosns demoTop.body :=
  ret_in_main_exec_is_main_return demoTop 30 _ _ (Prod.ext rfl (by decide))
example : ¬ AtProcReturn demoTop ⟨2, 1⟩ := by rintro ⟨d, hd, _⟩; cases hd

/-- `demoOvf`: Overflow at the `+` inside the SUB (⟨4, 11⟩), not at the call site ⟨1, 1⟩: a statement code at a position of
a procedure body -/
example : (ProcJ.Ref.run 30 demoOvf.toAst).2 = .error 6 ⟨4, 11⟩ := by decide
example : InProgram demoOvf ⟨4, 11⟩ := ref_error_pos_within_program demoOvf 30 6 _ (by decide)
example : (⟨4, 11⟩ : Pos) ∉ sstmtPosns demoOvf.body ∧ 6 ∈ stmtCodes := by decide

/-- the hypotheses of `call_ret_is_error3_at_return` are met by the call of `S` in `demoRet` -/
example : ∃ s2, ProcJ.Ref.call demoRet.toAst 11 0 .nil (startSt demoRet) = (s2, .error (.error 3 ⟨7, 3⟩)) ∧
    (⟨7, 3⟩ : Pos) ∈ stmtRetPosns (desugar (.seq (.ret ⟨7, 3⟩) .skip)) :=
  ⟨_, call_ret_is_error3_at_return demoRet.toAst 10 0 .nil (startSt demoRet) (startSt demoRet) _
    { result := none, name := "S", params := [], slots := [], body := desugar (.seq (.ret ⟨7, 3⟩) .skip), pos := ⟨6, 1⟩ }
    [] ⟨7, 3⟩ rfl rfl (Prod.ext rfl (by decide))⟩

end RbThm.C11ProcJPos
