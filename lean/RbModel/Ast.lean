import RbModel.Sexp
import RbModel.Num
/-!
Abstract syntax of the *core language* of property C01, as the linter hands it to the code
generator (`rusty_parser::{Statement, Expression}` after `rusty_linter::core::lint`): numeric /
string expressions, assignment, PRINT, DATA/READ, IF, SELECT CASE, FOR, WHILE, DO.
Variables are numbered slots (the serialiser in `harness/src/ast_sx.rs` assigns one slot per
resolved `(bare name, qualifier)`); every node keeps its source position.

Statement lists are `seq`/`skip` (no nested `List Stmt`), CASE blocks a mutual inductive, so that
all recursion over the syntax is structural.
-/
namespace RbModel.Ast
open RbModel RbModel.Num

structure Pos where
  row : Nat
  col : Nat
  deriving DecidableEq, Repr, Inhabited

inductive Expr where
  | lit (v : Val) (p : Pos)
  | var (x : Nat) (t : Ty) (p : Pos)
  | un (op : UnOp) (e : Expr) (p : Pos)
  /-- `t` is the static type the linter resolved for the node (`expression_type()`) -/
  | bin (op : Op) (l r : Expr) (t : Ty) (p : Pos)
  | paren (e : Expr) (p : Pos)
  deriving Inhabited

def Expr.pos : Expr → Pos
  | .lit _ p => p | .var _ _ p => p | .un _ _ p => p | .bin _ _ _ _ p => p | .paren _ p => p

/-- `expression_type()` of the linted node -/
def Expr.ty : Expr → Ty
  | .lit v _ => v.tag
  | .var _ t _ => t
  | .un _ e _ => e.ty
  | .bin _ _ _ t _ => t
  | .paren e _ => e.ty

inductive PrintItem where
  | expr (e : Expr)
  | comma
  | semicolon
  deriving Inhabited

inductive CaseExpr where
  | simple (e : Expr)
  | is (op : Op) (e : Expr)
  | range (lo hi : Expr)
  deriving Inhabited

mutual
inductive Stmt where
  | skip
  | seq (a b : Stmt)
  | assign (x : Nat) (t : Ty) (e : Expr) (p : Pos)
  | print (items : List PrintItem) (p : Pos)
  | read (x : Nat) (t : Ty) (p : Pos)
  | ifs (c : Expr) (thn els : Stmt) (p : Pos)
  | select (e : Expr) (cases : Cases) (p : Pos)
  | forLoop (x : Nat) (t : Ty) (lo hi : Expr) (step : Option Expr) (body : Stmt) (p : Pos)
  | while (c : Expr) (body : Stmt) (p : Pos)
  /-- `top`: condition after DO (else after LOOP); `until_`: UNTIL (else WHILE) -/
  | doLoop (c : Expr) (top until_ : Bool) (body : Stmt) (p : Pos)
  | end_ (p : Pos)
inductive Cases where
  | nil
  | else_ (body : Stmt)
  | case (conds : List CaseExpr) (body : Stmt) (rest : Cases)
end

instance : Inhabited Stmt := ⟨.skip⟩

/-- A program: number of variable slots with their types, the DATA items (hoisted), the body. -/
structure Program where
  slots : List Ty
  data : List Val
  body : Stmt

/-! ### reader of the serialised linted AST -/

def ty? : Sexp → Option Ty
  | .atom "int" => some .int | .atom "long" => some .long | .atom "sgl" => some .sgl
  | .atom "dbl" => some .dbl | .atom "str" => some .str | _ => none

def op? : Sexp → Option Op
  | .atom "plus" => some .plus | .atom "minus" => some .minus | .atom "multiply" => some .multiply
  | .atom "divide" => some .divide | .atom "modulo" => some .modulo
  | .atom "less" => some .less | .atom "lessOrEqual" => some .lessOrEqual | .atom "equal" => some .equal
  | .atom "greaterOrEqual" => some .greaterOrEqual | .atom "greater" => some .greater
  | .atom "notEqual" => some .notEqual | .atom "and" => some .and | .atom "or" => some .or
  | _ => none

/-- `(q num den)`: an exact rational -/
def rat? (n d : Sexp) : Option Rat := do
  let n ← n.int?
  let d ← d.nat?
  if d = 0 then none else pure ((n : Rat) / (d : Rat))

def val? : Sexp → Option Val
  | .list [.atom "int", n] => do pure (.int (← n.int?))
  | .list [.atom "long", n] => do pure (.long (← n.int?))
  | .list [.atom "sgl", n, d] => do pure (.sgl (← rat? n d))
  | .list [.atom "dbl", n, d] => do pure (.dbl (← rat? n d))
  | .list [.atom "str", cs] => do pure (.str ((← cs.nats?).map Char.ofNat))
  | _ => none

def pos? (r c : Sexp) : Option Pos := do pure ⟨← r.nat?, ← c.nat?⟩

partial def expr? : Sexp → Option Expr
  | .list [.atom "lit", v, r, c] => do pure (.lit (← val? v) (← pos? r c))
  | .list [.atom "var", x, t, r, c] => do pure (.var (← x.nat?) (← ty? t) (← pos? r c))
  | .list [.atom "neg", e, r, c] => do pure (.un .neg (← expr? e) (← pos? r c))
  | .list [.atom "not", e, r, c] => do pure (.un .not (← expr? e) (← pos? r c))
  | .list [.atom "bin", o, l, rr, t, r, c] => do
      pure (.bin (← op? o) (← expr? l) (← expr? rr) (← ty? t) (← pos? r c))
  | .list [.atom "paren", e, r, c] => do pure (.paren (← expr? e) (← pos? r c))
  | _ => none

def item? : Sexp → Option PrintItem
  | .atom "comma" => some .comma
  | .atom "semi" => some .semicolon
  | .list [.atom "e", e] => do pure (.expr (← expr? e))
  | _ => none

def caseExpr? : Sexp → Option CaseExpr
  | .list [.atom "simple", e] => do pure (.simple (← expr? e))
  | .list [.atom "is", o, e] => do pure (.is (← op? o) (← expr? e))
  | .list [.atom "range", a, b] => do pure (.range (← expr? a) (← expr? b))
  | _ => none

mutual
partial def stmt? : Sexp → Option Stmt
  | .list [.atom "assign", x, t, e, r, c] => do
      pure (.assign (← x.nat?) (← ty? t) (← expr? e) (← pos? r c))
  | .list [.atom "print", .list items, r, c] => do
      pure (.print (← items.mapM item?) (← pos? r c))
  | .list [.atom "read", x, t, r, c] => do pure (.read (← x.nat?) (← ty? t) (← pos? r c))
  | .list [.atom "if", cnd, thn, els, r, c] => do
      pure (.ifs (← expr? cnd) (← block? thn) (← block? els) (← pos? r c))
  | .list [.atom "select", e, .list cs, els, r, c] => do
      pure (.select (← expr? e) (← cases? cs els) (← pos? r c))
  | .list [.atom "for", x, t, lo, hi, st, body, r, c] => do
      let step ← match st with
        | .atom "none" => pure none
        | s => do pure (some (← expr? s))
      pure (.forLoop (← x.nat?) (← ty? t) (← expr? lo) (← expr? hi) step (← block? body) (← pos? r c))
  | .list [.atom "while", cnd, body, r, c] => do
      pure (.while (← expr? cnd) (← block? body) (← pos? r c))
  | .list [.atom "do", cnd, top, unt, body, r, c] => do
      pure (.doLoop (← expr? cnd) (← top.bool?) (← unt.bool?) (← block? body) (← pos? r c))
  | .list [.atom "end", r, c] => do pure (.end_ (← pos? r c))
  | _ => none
/-- `(s1 s2 …)` as a right-nested `seq` -/
partial def block? : Sexp → Option Stmt
  | .list [] => some .skip
  | .list (s :: rest) => do pure (.seq (← stmt? s) (← block? (.list rest)))
  | _ => none
partial def cases? : List Sexp → Sexp → Option Cases
  | [], .atom "none" => some .nil
  | [], els => do pure (.else_ (← block? els))
  | .list [.list conds, body] :: rest, els => do
      pure (.case (← conds.mapM caseExpr?) (← block? body) (← cases? rest els))
  | _, _ => none
end

/-- `(program (<ty>…) (<val>…) (<stmt>…))` -/
def program? : Sexp → Option Program
  | .list [.atom "program", .list slots, .list data, body] => do
      pure ⟨← slots.mapM ty?, ← data.mapM val?, ← block? body⟩
  | _ => none

end RbModel.Ast
