import RbModel.Wf
/-!
C15, the *restoring* exits of the VM — checker and executable global machine.

Since fa4a0f0 / 64a41ef / 8f09b9b the VM (`Interpreter::interpret_one`,
`rusty_basic/src/interpreter/main.rs`) records stack heights when it enters a procedure or a GOSUB
routine and cuts the stacks back to them when it leaves:

* `PushRet(a)` (main.rs 489–498): `return_address_stack.push(a)`;
  `return_marks.push((register_stack.len(), go_sub_address_stack.len(), value_stack.len(), var_path_stack.len()))`;
* `PopRet` (499–512): `address = return_address_stack.pop().unwrap()`; with the popped marks
  `(registers, go_subs, values, var_paths)`: `register_stack.truncate(registers)`,
  `go_sub_address_stack.truncate(go_subs)`, `go_sub_marks.truncate(go_subs)`,
  `value_stack.truncate(values)`, `var_path_stack.truncate(var_paths)`; continue at `address`;
* `GoSub(t)` at `i` (513–518): `go_sub_address_stack.push(i)`;
  `go_sub_marks.push((register_stack.len(), value_stack.len()))`; continue at `t`;
* `Return(opt)` (519–535): `go_sub_address_stack.pop()`: `None` is the run-time error
  `ReturnWithoutGoSub`; `Some(i)`: with the popped marks `(registers, values)`:
  `register_stack.truncate(registers)`, `value_stack.truncate(values)`; continue at the label, or `i + 1`.

`Vec::truncate(n)` only ever *cuts*: a stack lower than the mark stays as it is.  So "the heights are
restored" is a theorem (Thm/C15Marks.lean), not a definition: `restoreCall` / `restoreGosub` below are
the componentwise `min`.

NOT restored by the code, at either exit: the by-ref queue (`by_ref_stack`), the context (`context`:
argument-collecting states and memory blocks, the `ctx` component of `H`), the stacktrace; `Return`
does not restore the variable-path stack either.  For those components the checker below keeps the
static balance condition of `RbModel.Wf`.

Consequently the code generator no longer has to pop what `RETURN` leaves (`statement.rs`:
`Statement::Return` emits the bare instruction, also inside a FOR body or a SELECT CASE block of the
routine), and `RbModel.Wf.checkCert` — which wants *every* relative depth zero at `Return` — rejects such
lists.  `checkCertM` is `checkCert` with the exit condition the restoring VM needs:

* at `Return`: relative depth zero on context, variable paths, by-ref (value / register depths free);
* at `PopRet`: relative depth zero on context, by-ref (value / register / variable-path depths free);
* at `GoSub`: relative depth zero on context, variable paths, by-ref (a `PopRet` or a `RETURN label`
  executed in the routine leaves the GOSUB's activation for good; what that activation had pending on the
  stacks that nobody restores would stay behind).

The second half of the file is the executable form of the global machine of Thm/C15Marks.lean
(`next`), run by the driver (`wfm.run`) on the real instruction list along the pcs the real VM visited,
with the machine's *absolute* depths compared with the real ones before every executed instruction.
-/
namespace RbModel.WfMarks
open RbModel RbModel.Wf

/-! ### the checker -/

/-- what an instruction that leaves the current activation demands of the certified relative depths:
zero on every stack the VM does not cut back itself -/
def exitOk : Instr → H → Bool
  | .ret _, rel => rel.ctx == 0 && rel.path == 0 && rel.byref == 0
  | .popRet, rel => rel.ctx == 0 && rel.byref == 0
  | _, _ => true

/-- a GOSUB is issued with nothing pending on the stacks that no exit restores -/
def siteOk : Instr → H → Bool
  | .goSub _, rel => rel.ctx == 0 && rel.path == 0 && rel.byref == 0
  | _, _ => true

/-- the per-pc condition (`RbModel.Wf.checkPc` with `exitOk` / `siteOk` for `isBalancedExit`) -/
def checkPcM (code : Code) (cert : Cert) (pc : Nat) : Bool :=
  match cert[pc]? with
  | some (some rel) =>
    match instrAt code pc with
    | none => false
    | some i =>
      match apply rel (eff i) with
      | none => false
      | some rel' =>
        (succs code pc i).all (fun s => cert[s]? == some (some rel')) && exitOk i rel && siteOk i rel
  | _ => true

def checkCertM (code : Code) (cert : Cert) : Bool :=
  cert.size == code.size &&
  (roots code).all (fun r => cert[r]? == some (some H.zero)) &&
  (List.range code.size).all (checkPcM code cert)

/-- not needed by any theorem, kept as an oracle on the generator: `EXIT SUB / FUNCTION` still pops
what its procedure pushed (`statement.rs`, `Statement::Exit`), so every covered `PopRet` sits at relative
depth zero on all five stacks -/
def popRetStrict (code : Code) (cert : Cert) : Bool :=
  (List.range code.size).all fun pc =>
    match instrAt code pc, cert[pc]? with
    | some .popRet, some (some rel) => rel == H.zero
    | _, _ => true

/-- number of covered `Return` instructions that rely on the VM's restoring (non-zero relative depth) -/
def reliantReturns (code : Code) (cert : Cert) : Nat :=
  ((List.range code.size).filter fun pc =>
    match instrAt code pc, cert[pc]? with
    | some (.ret _), some (some rel) => rel != H.zero
    | _, _ => false).length

/-! ### untrusted certificate inference (the worklist of `RbModel.Wf.infer` with the new conditions) -/

def inferLoopM (code : Code) : Nat → List Nat → Cert → Except (String × Nat) Cert
  | 0, _, cert => .ok cert
  | _, [], cert => .ok cert
  | fuel + 1, pc :: work, cert =>
    match cert[pc]? with
    | some (some rel) =>
      match instrAt code pc with
      | none => .error ("pc-out-of-range", pc)
      | some i =>
        match apply rel (eff i) with
        | none => .error ("stack-underflow", pc)
        | some rel' =>
          if !exitOk i rel then .error ("unbalanced-exit", pc) else
          if !siteOk i rel then .error ("gosub-site-not-flat", pc) else
          let rec go (ss : List Nat) (work : List Nat) (cert : Cert) : Except (String × Nat) (List Nat × Cert) :=
            match ss with
            | [] => .ok (work, cert)
            | s :: ss =>
              match cert[s]? with
              | none => .error ("successor-out-of-range", pc)
              | some none => go ss (s :: work) (cert.set! s (some rel'))
              | some (some old) => if old == rel' then go ss work cert else .error ("depth-conflict", s)
          match go (succs code pc i) work cert with
          | .error e => .error e
          | .ok (work, cert) => inferLoopM code fuel work cert
    | _ => inferLoopM code fuel work cert

def inferM (code : Code) : Except (String × Nat) Cert :=
  let rs := roots code
  if rs.any (fun r => r ≥ code.size) then .error ("root-out-of-range", 0) else
  let cert : Cert := rs.foldl (fun c r => c.set! r (some H.zero)) (Array.replicate code.size none)
  inferLoopM code (code.size * 8 + 16) rs cert

/-- the whole static verdict: the structural checks of `RbModel.Wf` and the new certificate check -/
def wfCheckM (code : Code) (addrs : List Nat) (cert : Cert) : Bool :=
  targetsResolved code && labelsUnique code && terminatorsOk code && branchesLocal code &&
    addrsOk code addrs && checkCertM code cert

/-! ### the global machine with recorded heights, executable form -/

inductive FKind where
  | call | gosub
  deriving DecidableEq, Repr

/-- a pending `PushRet` (`call`) or `GoSub` (`gosub`).

What the VM stores: `addr` (`PushRet`'s operand on `return_address_stack`, resp. the `GoSub`'s own address
on `go_sub_address_stack`); of `marks` the components `reg`, `value`, `path` and the number `gs` for a call
frame (`return_marks`), the components `reg`, `value` for a GOSUB frame (`go_sub_marks`).  Ghost (used only
to state the invariant): the other components of `marks` (the depths of the suspended activation at the
site), `gs` of a GOSUB frame, `root` and `h0` (root and entry depths of the suspended activation). -/
structure MFrame where
  kind : FKind
  addr : Nat
  /-- the five depths at the `PushRet` / `GoSub` -/
  marks : H
  /-- height of `go_sub_address_stack` at the `PushRet` / `GoSub` -/
  gs : Nat
  root : Nat
  h0 : H
  deriving DecidableEq, Repr

/-- where the suspended activation continues -/
def MFrame.retPc (f : MFrame) : Nat :=
  match f.kind with
  | .call => f.addr
  | .gosub => f.addr + 1

structure MState where
  pc : Nat
  /-- absolute depths of the five stacks -/
  h : H
  /-- pending frames, innermost first -/
  frames : List MFrame
  /-- root of the current activation (ghost) -/
  root : Nat
  /-- entry depths of the current activation (ghost) -/
  h0 : H
  /-- a `PushRet` has been executed and its `Jump` has not (ghost) -/
  pending : Bool
  deriving DecidableEq, Repr

/-- the VM starts with the stacks at `hinit` (`Interpreter::new`: one register frame, the value,
variable-path and by-ref stacks empty, the context in its global state; the driver takes `hinit` from the
first observation), at pc 0, nothing pending -/
def MState.init (hinit : H) : MState := ⟨0, hinit, [], 0, hinit, false⟩

/-- the VM's `return_address_stack` / `return_marks` (top first) -/
def retAddrs (fs : List MFrame) : List Nat := (fs.filter (·.kind == .call)).map (·.addr)

/-- the VM's `go_sub_address_stack` / `go_sub_marks` (top first) -/
def gosubAddrs (fs : List MFrame) : List Nat := (fs.filter (·.kind == .gosub)).map (·.addr)

/-- `PopRet`: `truncate` of the register, value and variable-path stacks to the recorded heights -/
def restoreCall (h m : H) : H := ⟨min h.value m.value, min h.reg m.reg, h.ctx, min h.path m.path, h.byref⟩

/-- `Return`: `truncate` of the register and value stacks to the recorded heights -/
def restoreGosub (h m : H) : H := ⟨min h.value m.value, min h.reg m.reg, h.ctx, h.path, h.byref⟩

/-- the frames from the innermost call frame downwards: `PopRet` pops the top of `return_address_stack`
and cuts `go_sub_address_stack` back to the height recorded with it, i.e. drops every GOSUB frame
pushed after that `PushRet` (Thm/C15Marks.lean, `popRet_truncates_gosub_stack`) -/
def dropGosubs : List MFrame → List MFrame
  | [] => []
  | f :: fs => match f.kind with
    | .gosub => dropGosubs fs
    | .call => f :: fs

/-- `Vec::truncate(n)` on a stack listed top first -/
def truncTo (n : Nat) (l : List Nat) : List Nat := l.drop (l.length - n)

/-- instructions that touch the frame list -/
def frameOp (code : Code) (pc : Nat) : Instr → Bool
  | .pushRet _ => true
  | .popRet => true
  | .goSub _ => true
  | .ret _ => true
  | .jump _ => isCall code pc
  | _ => false

/-- one instruction of the machine; `obs` is the pc the real VM went to (it decides `JumpIfFalse`,
everything else is determined).  `.error` = the modelled run ends here (`Blocked`, Thm/C15Marks.lean)
or `obs` is not a successor. -/
def next (code : Code) (s : MState) (obs : Nat) : Except String MState :=
  match instrAt code s.pc with
  | none => .error "pc-out-of-range"
  | some i =>
    if frameOp code s.pc i = false then
      match apply s.h (eff i) with
      | none => .error "underflow"
      | some h' =>
        if (succs code s.pc i).contains obs then .ok ⟨obs, h', s.frames, s.root, s.h0, s.pending⟩
        else if (succs code s.pc i).isEmpty then .error "end-of-modelled-run"
        else .error "not-a-successor"
    else
      match i with
      | .pushRet a =>
        match instrAt code (s.pc + 1) with
        | some (.jump (.addr _)) =>
          if a = s.pc + 2 then
            .ok ⟨s.pc + 1, s.h, ⟨.call, a, s.h, (gosubAddrs s.frames).length, s.root, s.h0⟩ :: s.frames,
              s.root, s.h0, true⟩
          else .error "stray-pushret"
        | _ => .error "stray-pushret"
      | .jump (.addr t) => .ok ⟨t, s.h, s.frames, t, s.h, false⟩
      | .popRet =>
        match dropGosubs s.frames with
        | c :: fs => .ok ⟨c.addr, restoreCall s.h c.marks, fs, c.root, c.h0, false⟩
        | [] => .error "popret-without-call-frame"
      | .goSub (.addr t) =>
        .ok ⟨t, s.h, ⟨.gosub, s.pc, s.h, (gosubAddrs s.frames).length, s.root, s.h0⟩ :: s.frames, t, s.h, false⟩
      | .ret none =>
        match s.frames with
        | g :: fs =>
          if g.kind = .gosub then .ok ⟨g.addr + 1, restoreGosub s.h g.marks, fs, g.root, g.h0, false⟩
          else .error "return-without-gosub-frame"
        | [] => .error "return-without-gosub-frame"
      | .ret (some (.addr a)) =>
        match s.frames with
        | g :: fs =>
          if g.kind = .gosub then .ok ⟨a, restoreGosub s.h g.marks, fs, a, restoreGosub s.h g.marks, false⟩
          else .error "return-without-gosub-frame"
        | [] => .error "return-without-gosub-frame"
      | _ => .error "unresolved-target"

/-- the VM's `return_marks` (top first): for every pending `PushRet` the recorded heights of the register
stack, of `go_sub_address_stack`, of the value stack and of the variable-path stack -/
def retMarks (fs : List MFrame) : List (Nat × Nat × Nat × Nat) :=
  (fs.filter (·.kind == .call)).map fun f => (f.marks.reg, f.gs, f.marks.value, f.marks.path)

/-- the VM's `go_sub_marks` (top first): for every pending `GoSub` the recorded heights of the register
stack and of the value stack -/
def gosubMarks (fs : List MFrame) : List (Nat × Nat) :=
  (fs.filter (·.kind == .gosub)).map fun f => (f.marks.reg, f.marks.value)

/-- what the real VM showed before one executed instruction -/
structure Obs where
  pc : Nat
  h : H
  /-- `return_address_stack`, top first -/
  rets : List Nat
  /-- `go_sub_address_stack`, top first -/
  gosubs : List Nat
  /-- `return_marks`, top first (hook: `Snapshot.return_marks`) -/
  retMarks : List (Nat × Nat × Nat × Nat)
  /-- `go_sub_marks`, top first (hook: `Snapshot.go_sub_marks`) -/
  gosubMarks : List (Nat × Nat)

inductive Verdict where
  /-- every observation agreed with the machine -/
  | ok (steps : Nat)
  /-- the modelled run ended at observation `k` while the real one went on -/
  | blocked (k : Nat) (why : String)
  /-- machine and VM disagree at observation `k` -/
  | differ (k : Nat) (what : String) (s : MState)

def sameDepths (s : MState) (o : Obs) : Bool := s.h == o.h

def sameAddrs (s : MState) (o : Obs) : Bool :=
  retAddrs s.frames == o.rets && gosubAddrs s.frames == o.gosubs

/-- the recorded heights: the stored components of the pending frames are what the VM keeps in
`return_marks` / `go_sub_marks` (same length as the address stacks, entry by entry) -/
def sameMarks (s : MState) (o : Obs) : Bool :=
  retMarks s.frames == o.retMarks && gosubMarks s.frames == o.gosubMarks

/-- runs the machine along a list of pcs (`none`: some step was not possible) -/
def runPcs (code : Code) : MState → List Nat → Option MState
  | s, [] => some s
  | s, pc :: rest =>
    match next code s pc with
    | .ok s' => runPcs code s' rest
    | .error _ => none

/-- runs the machine along the observed pcs, comparing pc, the five absolute depths, the contents of
the two address stacks and the recorded heights before every instruction -/
def replay (code : Code) : MState → List Obs → Nat → Verdict
  | _, [], k => .ok k
  | s, o :: rest, k =>
    if s.pc != o.pc then .differ k "pc" s
    else if !sameDepths s o then .differ k "depths" s
    else if !sameAddrs s o then .differ k "address-stacks" s
    else if !sameMarks s o then .differ k "marks" s
    else match rest with
      | [] => .ok (k + 1)
      | o' :: _ =>
        match next code s o'.pc with
        | .ok s' => replay code s' rest (k + 1)
        | .error "not-a-successor" => .differ k "not-a-successor" s
        | .error "underflow" => .differ k "underflow" s
        | .error "pc-out-of-range" => .differ k "pc-out-of-range" s
        | .error why => .blocked k why

end RbModel.WfMarks
