import RbModel.Num
/-!
# The constant folder (C14)

Port of the linter's treatment of `CONST`, over the shared numeric model `RbModel.Num`:

* `fold` — `rusty_linter/src/core/const_value_resolver.rs`, `ConstEvaluator<ExpressionPos>::eval_const`:
  a tree walk over the *same* `Variant` operations the VM uses.  Modelled for the repaired code: `/`
  converts the quotient to the floating point type the linter resolves for a division (`divide`), `AND` /
  `OR` convert both operands to INTEGER first (`logical`), exactly as the generated code does.
* `declarePre` — `rusty_linter/src/pre_linter/constant_map.rs` (`ConstantMap::visit`): the first
  evaluation site (global constants, needed for `STRING * n` in `TYPE`).
* `declareConv` — `rusty_linter/src/converter/statement/const_rules.rs` (`new_const`): the second
  evaluation site (every `CONST`, at global and at subprogram level).
* `toExpr` — what the converter makes of a *use* of a constant inside an expression
  (`converter/expr_rules/variable.rs`, `ExistingConst::resolve` + `const_variant_to_expression`): the
  reference becomes a literal of the folded value's type; `Parenthesis(e)` generates the code of `e`.
* `stringLength` — `core/string_length.rs` (`STRING * c` in a `TYPE` element).
* `CONST` statements generate no instructions (`instruction_generator/statement.rs`, `Statement::Const`),
  so the run-time meaning of a program with constants is the meaning of its converted expressions.
-/
namespace RbModel.ConstEval
open RbModel.Num

/-- The `LintError`s a constant definition or a use of a constant can be rejected with. -/
inductive LErr where
  | invalidConstant | duplicateDefinition | typeMismatch | overflow | divisionByZero
  deriving DecidableEq, Repr, Inhabited

/-- `From<VariantError> for LintError`; `QBNumberCast` raises the same three. -/
def LErr.ofErr : Err → LErr
  | .divisionByZero => .divisionByZero
  | .overflow => .overflow
  | .typeMismatch => .typeMismatch

/-- Outcome of a linter step: a value, a lint error, or "outside the exact float domain" (no claim). -/
inductive FRes (α : Type) where
  | ok (a : α)
  | err (e : LErr)
  | inexact
  deriving DecidableEq, Repr

def FRes.bind {α β : Type} : FRes α → (α → FRes β) → FRes β
  | .ok a, f => f a
  | .err e, _ => .err e
  | .inexact, _ => .inexact

/-- `.map_err(LintError::from)`. -/
def ofRes {α : Type} : Res α → FRes α
  | .ok a => .ok a
  | .err e => .err (LErr.ofErr e)
  | .inexact => .inexact

/-- Constant expressions: `rusty_parser::Expression` restricted to what `eval_const` accepts
(literals, names of constants with an optional type suffix, unary and binary operators, parentheses).
`var x` is a name that is not a constant (an ordinary, already qualified variable: `InvalidConstant`
for the folder, a variable at a use site); every other alternative (`FunctionCall`, `ArrayElement`,
`Property`, `BuiltInFunctionCall`) is `other`: `InvalidConstant`. -/
inductive CExpr where
  | lit (v : Val)
  | cref (x : Nat) (q : Option Ty)
  | var (x : Nat)
  | un (op : UnOp) (e : CExpr)
  | bin (op : Op) (l r : CExpr)
  | paren (e : CExpr)
  | other
  deriving DecidableEq, Inhabited

/-- `ConstLookup::get_const_value`. -/
abbrev Env := Nat → Option Val

/-- The predicate the folder applies to the ordering, written as in `eval_const`
(the VM's handlers write it differently: `relHolds`). -/
def foldRel : Op → Ordering → Bool
  | .less, o => o == .lt
  | .lessOrEqual, o => o == .lt || o == .eq
  | .equal, o => o == .eq
  | .greaterOrEqual, o => o == .gt || o == .eq
  | .greater, o => o == .gt
  | .notEqual, o => o == .lt || o == .gt
  | _, _ => false

/-- The helper `divide` of `const_value_resolver.rs`: DOUBLE if an operand is a DOUBLE, else SINGLE. -/
def quotientTy (a b : Val) : Ty := if a.isDbl || b.isDbl then .dbl else .sgl

/-- The `BinaryExpression` arm of `eval_const` on the two operand values. -/
def foldBin (op : Op) (a b : Val) : Res Val :=
  match op with
  | .plus => plus a b
  | .minus => minus a b
  | .multiply => multiply a b
  | .divide => (divide a b).bind fun q => cast q (quotientTy a b)
  | .modulo => modulo a b
  | .and => (cast a .int).bind fun x => (cast b .int).bind fun y => Num.and x y
  | .or => (cast a .int).bind fun x => (cast b .int).bind fun y => Num.or x y
  | rel => (tryCmp a b).bind fun o => .ok (ofBool (foldRel rel o))

/-- The `Variable` arm of `eval_const`: the value of the constant; a suffix must be the value's own. -/
def foldRef (env : Env) (x : Nat) (q : Option Ty) : FRes Val :=
  match env x with
  | none => .err .invalidConstant
  | some v =>
    match q with
    | none => .ok v
    | some t => if v.tag = t then .ok v else .err .typeMismatch

/-- `ConstEvaluator<ExpressionPos>::eval_const`. -/
def fold (env : Env) : CExpr → FRes Val
  | .lit v => .ok v
  | .cref x q => foldRef env x q
  | .var _ => .err .invalidConstant
  | .un .neg e => (fold env e).bind fun v => ofRes (negate v)
  | .un .not e => (fold env e).bind fun v => ofRes (unaryNot v)
  | .bin op l r => (fold env l).bind fun a => (fold env r).bind fun b => ofRes (foldBin op a b)
  | .paren e => fold env e
  | .other => .err .invalidConstant

/-! ### The two evaluation sites -/

/-- `ConstantMap::visit` after the duplicate test: evaluate, then
`cast_resolved_value_to_declared_type` (cast whenever the name carries a suffix). -/
def declarePre (env : Env) (suffix : Option Ty) (e : CExpr) : FRes Val :=
  (fold env e).bind fun v =>
    match suffix with
    | some q => ofRes (cast v q)
    | none => .ok v

/-- `const_rules.rs new_const`: evaluate, keep the value if the name is bare or carries the value's
own suffix (`is_bare_or_of_type`), else cast to the suffix. -/
def declareConv (env : Env) (suffix : Option Ty) (e : CExpr) : FRes Val :=
  (fold env e).bind fun v =>
    match suffix with
    | none => .ok v
    | some q => if q = v.tag then .ok v else ofRes (cast v q)

/-- `CONST name[suffix] = e`. -/
structure Decl where
  name : Nat
  suffix : Option Ty
  e : CExpr

/-- Association list of resolved constants, newest first (`HashMap<BareName, Variant>`; names are
never overwritten, so the order is immaterial). -/
abbrev Consts := List (Nat × Val)

def lookup : Consts → Env
  | [], _ => none
  | (y, v) :: m, x => if x = y then some v else lookup m x

/-- `ConstLookup for Names`: the current scope first, then the global scope. -/
def scopeEnv (loc glob : Consts) : Env := fun x =>
  match lookup loc x with
  | some v => some v
  | none => lookup glob x

/-- The pre-linter's pass over the global `CONST` statements, in program order. -/
def preLint : List Decl → Consts → FRes Consts
  | [], m => .ok m
  | d :: ds, m =>
    match lookup m d.name with
    | some _ => .err .duplicateDefinition
    | none => (declarePre (lookup m) d.suffix d.e).bind fun v => preLint ds ((d.name, v) :: m)

/-- The converter's pass over the `CONST` statements of one scope (`on_const`), in program order;
`glob` is the finished global scope when the statements are those of a subprogram, `[]` at global
level. (Clashes with variables and subprogram names are not modelled.) -/
def convert (glob : Consts) : List Decl → Consts → FRes Consts
  | [], m => .ok m
  | d :: ds, m =>
    match lookup m d.name with
    | some _ => .err .duplicateDefinition
    | none => (declareConv (scopeEnv m glob) d.suffix d.e).bind fun v => convert glob ds ((d.name, v) :: m)

/-! ### Uses of constants -/

/-- `ExistingConst::resolve`: a use of constant `x` (bare, or with the suffix of its value) becomes a
literal; any other suffix is `DuplicateDefinition`.  A name that is no constant is not part of the
language of constant expressions. -/
def useRef (env : Env) (x : Nat) (q : Option Ty) : Option Expr :=
  match env x with
  | none => none
  | some v =>
    match q with
    | none => some (.lit v)
    | some t => if t = v.tag then some (.lit v) else none

/-- The converted form of an expression over constants: every reference replaced by its literal,
parentheses transparent (`Parenthesis(child)` generates `child`'s code and has `child`'s type). -/
def toExpr (env : Env) : CExpr → Option Expr
  | .lit v => some (.lit v)
  | .cref x q => useRef env x q
  | .var x => some (.var x)
  | .un op e => (toExpr env e).map (.un op)
  | .bin op l r =>
    match toExpr env l, toExpr env r with
    | some l', some r' => some (.bin op l' r')
    | _, _ => none
  | .paren e => toExpr env e
  | .other => none

/-- Replaces every use of constant `c` by `(e)`. -/
def subst (c : Nat) (e : CExpr) : CExpr → CExpr
  | .lit v => .lit v
  | .cref x q => if x = c then .paren e else .cref x q
  | .var x => .var x
  | .un op k => .un op (subst c e k)
  | .bin op l r => .bin op (subst c e l) (subst c e r)
  | .paren k => .paren (subst c e k)
  | .other => .other

/-- The environment with one more constant. -/
def upd (env : Env) (c : Nat) (v : Val) : Env := fun x => if x = c then some v else env x

def CExpr.LitsInRange : CExpr → Prop
  | .lit v => v.InRange
  | .cref _ _ => True
  | .var _ => True
  | .un _ e => e.LitsInRange
  | .bin _ l r => l.LitsInRange ∧ r.LitsInRange
  | .paren e => e.LitsInRange
  | .other => True

/-- No ordinary variables and nothing `eval_const` has no arm for: a constant expression over literals
and constants. -/
def CExpr.Closed : CExpr → Prop
  | .lit _ => True
  | .cref _ _ => True
  | .var _ => False
  | .un _ e => e.Closed
  | .bin _ l r => l.Closed ∧ r.Closed
  | .paren e => e.Closed
  | .other => False

/-- Every stored constant is a value of its own type, in range. -/
def EnvInRange (env : Env) : Prop := ∀ x v, env x = some v → v.InRange

/-- `ValidateStringLength for Expression` on a name: the constant must be an INTEGER in 1..32767
(and the name bare or suffixed `%`). -/
def stringLength (env : Env) (x : Nat) (q : Option Ty) : Option Int :=
  if q = none ∨ q = some .int then
    match env x with
    | some (.int i) => if 1 ≤ i ∧ i ≤ 32767 then some i else none
    | _ => none
  else none

end RbModel.ConstEval
