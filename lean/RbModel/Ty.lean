import RbModel.Num
import Gen.NumTables
import Gen.TyTables
/-!
# The static checker for types (C12): a typed model of a fragment of `rusty_linter`

Ported code (all of `rusty_linter/src`, tree after the `fix:` commits fe566ae / f02bd36):

* `converter/expr_rules/{main, binary, unary, function, built_in_function}.rs` + `core/casting.rs`
  (`typeOf`: the converter computes the type of every expression bottom-up and fails with
  `TypeMismatch`; the operator table is the extracted `Gen.NumTables.binType`, the result types of the
  built-in functions the extracted `Gen.TyTables.biRet`; array indices must be numeric),
* `post_linter/post_conversion_linter.rs` `visit_nested_expressions` + the `visit_expression` of
  `built_in_linter.rs` and `user_defined_function_linter.rs` (`nodes`: the expressions a walker
  visits, arguments before the call, left operand before right; `biCheck`, `fnCheck`: what is checked
  at a node),
* `built_ins/*.rs` `lint` for 14 built-in functions (the extracted `Gen.TyTables.biRows`),
* `post_linter/user_defined_function_linter.rs` (`lint_call_args`, `lint_call_arg`, by-reference arguments
  need the exact type, by-value ones a castable type, undefined functions numeric arguments) and
  `user_defined_sub_linter.rs`,
* `converter/statement/assignment.rs` (assignability), `converter/dim_rules/array_dimension.rs`
  (numeric bounds), `converter/statement/for_loop.rs` (numeric counter, bounds and step), `post_linter/{for_next_counter_match_linter, select_case_linter,
  condition_type_linter, label_linter}.rs`, `post_linter/main.rs` (`apply_linters`: the order of the passes).

Identifiers are *resolved names* (a key type `κ` with decidable equality and a type `Env.ty`); name
resolution itself is the subject of C13 (`RbModel.Names`).  A program is a list of program units (main
module first), each a flat list of lines in source order; the block structure the checks need is
carried by the lines (`condEnd` closes the block guarded by a condition and is where
`ConditionTypeLinter` tests the condition: after the block; `forHead` carries the `NEXT` counter;
`case` carries the selector of its `SELECT CASE`).  Positions are rows.
-/
namespace RbModel.Ty
open RbModel.Num Gen.NumTables Gen.TyTables

inductive Kind where
  | num | str
  deriving DecidableEq, Repr

def kindOf : Ty → Kind
  | .str => .str
  | _ => .num

/-- `rusty_linter::core::LintError` (the variants the fragment can produce). -/
inductive LintErr where
  | typeMismatch | argCount | argType | varRequired | nextWithoutFor | labelNotDefined
  | duplicateLabel | duplicateDefinition | subNotDefined
  deriving DecidableEq, Repr

mutual
/-- `rusty_parser::Expression` (after conversion). `call` is an array element, a user defined function
call or a call of an undefined function, depending on the environment. -/
inductive Expr (κ : Type) where
  | lit (v : Val)
  | var (x : κ)
  | paren (e : Expr κ)
  | un (op : UnOp) (e : Expr κ)
  | bin (op : Op) (l r : Expr κ)
  | call (f : κ) (args : Exprs κ)
  | bi (b : BuiltIn) (args : Exprs κ)
inductive Exprs (κ : Type) where
  | nil
  | cons (e : Expr κ) (es : Exprs κ)
end

/-- What the checker knows about names: `LinterContext` (`functions`, `subs`, the arrays in `names`)
and the resolved type of every name. Parameters are scalars of built-in types. -/
structure Env (κ : Type) where
  ty : κ → Ty
  arrays : List κ
  fns : List (κ × List Ty)
  subs : List (κ × List Ty)

variable {κ : Type} [DecidableEq κ]

def Exprs.length : Exprs κ → Nat
  | .nil => 0
  | .cons _ es => es.length + 1

def Exprs.toList : Exprs κ → List (Expr κ)
  | .nil => []
  | .cons e es => e :: es.toList

def lookup (k : κ) : List (κ × List Ty) → Option (List Ty)
  | [] => none
  | (k', v) :: rest => if k' = k then some v else lookup k rest

def isArray (Γ : Env κ) (f : κ) : Bool := Γ.arrays.contains f

/-! ### The converter: types (`None` = `TypeMismatch`) -/

mutual
/-- `Expression::convert_in` followed by `expression_type()`. -/
def typeOf (Γ : Env κ) : Expr κ → Option Ty
  | .lit v => some v.tag
  | .var x => some (Γ.ty x)
  | .paren e => typeOf Γ e
  | .un _ e =>
    match typeOf Γ e with
    | some t => if t = .str then none else some t
    | none => none
  | .bin op l r =>
    match typeOf Γ l, typeOf Γ r with
    | some a, some b => binType op a b
    | _, _ => none
  | .call f args =>
    match typesOf Γ args with
    | some ts =>
      if isArray Γ f then (if ts.all (fun t => t != .str) then some (Γ.ty f) else none)
      else some (Γ.ty f)
    | none => none
  | .bi b args =>
    match typesOf Γ args with
    | some _ => some (biRet b)
    | none => none
def typesOf (Γ : Env κ) : Exprs κ → Option (List Ty)
  | .nil => some []
  | .cons e es =>
    match typeOf Γ e, typesOf Γ es with
    | some t, some ts => some (t :: ts)
    | _, _ => none
end

/-! ### The walkers -/

mutual
/-- The expressions a post-conversion walker visits inside (and including) an expression, in the order of
the visit: `visit_nested_expressions` first, then the node itself. -/
def nodes : Expr κ → List (Expr κ)
  | .lit v => [.lit v]
  | .var x => [.var x]
  | .paren e => nodes e ++ [.paren e]
  | .un op e => nodes e ++ [.un op e]
  | .bin op l r => nodes l ++ (nodes r ++ [.bin op l r])
  | .call f args => nodesL args ++ [.call f args]
  | .bi b args => nodesL args ++ [.bi b args]
def nodesL : Exprs κ → List (Expr κ)
  | .nil => []
  | .cons e es => nodes e ++ nodesL es
end

mutual
/-- The walkers before the repair (F10): only operands of unary and binary operators were visited (and
the arguments of the kind of call the walker was looking for). -/
def nodesOld : Expr κ → List (Expr κ)
  | .lit v => [.lit v]
  | .var x => [.var x]
  | .paren e => [.paren e]
  | .un op e => nodesOld e ++ [.un op e]
  | .bin op l r => nodesOld l ++ (nodesOld r ++ [.bin op l r])
  | .call f args => [.call f args]
  | .bi b args => nodesOldL args ++ [.bi b args]
def nodesOldL : Exprs κ → List (Expr κ)
  | .nil => []
  | .cons e es => nodesOld e ++ nodesOldL es
end

mutual
/-- The sub-expression at a path (child indices from the root). -/
def subAt : Expr κ → List Nat → Option (Expr κ)
  | e, [] => some e
  | .paren e, 0 :: p => subAt e p
  | .un _ e, 0 :: p => subAt e p
  | .bin _ l _, 0 :: p => subAt l p
  | .bin _ _ r, 1 :: p => subAt r p
  | .call _ args, i :: p => subAtL args i p
  | .bi _ args, i :: p => subAtL args i p
  | _, _ :: _ => none
def subAtL : Exprs κ → Nat → List Nat → Option (Expr κ)
  | .nil, _, _ => none
  | .cons e _, 0, p => subAt e p
  | .cons _ es, i + 1, p => subAtL es i p
end

def firstSome {α β : Type} (f : α → Option β) : List α → Option β
  | [] => none
  | a :: as => match f a with
    | some b => some b
    | none => firstSome f as

/-- Is the argument passed by reference (`lint_call_arg`: `Variable | ArrayElement | Property`)? -/
def isRef (Γ : Env κ) : Expr κ → Bool
  | .var _ => true
  | .call f _ => isArray Γ f
  | _ => false

def firstIsRef (Γ : Env κ) : Exprs κ → Bool
  | .cons e _ => isRef Γ e
  | .nil => false

def codeErr : BiCode → Option LintErr
  | .ok => none
  | .argCount => some .argCount
  | .argType => some .argType
  | .varRequired => some .varRequired

/-- The built-in linter of `b` on arguments of the given types (extracted tables). Only `LEN` looks at the
shape of its argument. More than three arguments are rejected by all 14 linters. -/
def biLint (b : BuiltIn) (ts : List Ty) (byRef : Bool) : BiCode :=
  if arityOk b ts.length then
    match biLookup b ts (if b = .len then byRef else false) with
    | some c => c
    | none => .argCount
  else .argCount

/-- `BuiltInLinter::visit_expression` at one node. -/
def biCheck (Γ : Env κ) : Expr κ → Option LintErr
  | .bi b args =>
    match typesOf Γ args with
    | some ts => codeErr (biLint b ts (firstIsRef Γ args))
    | none => some .typeMismatch
  | _ => none

/-- `lint_call_arg`: by reference → the exact type, by value → a castable type. -/
def argOk (Γ : Env κ) (e : Expr κ) (p : Ty) : Bool :=
  match typeOf Γ e with
  | some t => if isRef Γ e then t == p else canCast t p
  | none => false

def argsOk (Γ : Env κ) : Exprs κ → List Ty → Bool
  | .nil, [] => true
  | .cons e es, p :: ps => argOk Γ e p && argsOk Γ es ps
  | _, _ => false

/-- `lint_call_args`. -/
def callArgsCheck (Γ : Env κ) (args : Exprs κ) (params : List Ty) : Option LintErr :=
  if args.length ≠ params.length then some .argCount
  else if argsOk Γ args params then none else some .argType

/-- `handle_undefined_function`: every argument numeric. -/
def allNumeric (Γ : Env κ) : Exprs κ → Bool
  | .nil => true
  | .cons e es => (match typeOf Γ e with | some t => t != .str | none => false) && allNumeric Γ es

/-- `UserDefinedFunctionLinter::visit_expression` at one node. -/
def fnCheck (Γ : Env κ) : Expr κ → Option LintErr
  | .call f args =>
    if isArray Γ f then none
    else match lookup f Γ.fns with
      | some params => callArgsCheck Γ args params
      | none => if allNumeric Γ args then none else some .argType
  | _ => none

/-- A walker with the node check `chk` over one expression. -/
def walk (chk : Expr κ → Option LintErr) (e : Expr κ) : Option LintErr := firstSome chk (nodes e)

def walkL (chk : Expr κ → Option LintErr) (es : Exprs κ) : Option LintErr := firstSome chk (nodesL es)

/-! ### Lines, units, programs -/

inductive Line (κ : Type) where
  | assign (row : Nat) (lhs rhs : Expr κ)
  | print (row : Nat) (items : Exprs κ)
  | callSub (row : Nat) (s : κ) (args : Exprs κ)
  | jump (row : Nat) (l : κ)
  | label (row : Nat) (l : κ)
  | cond (row : Nat) (c : Expr κ)
  | condEnd (row : Nat) (c : Expr κ)
  | forHead (row : Nat) (v : κ) (bounds : Exprs κ) (nextRow : Nat) (next : Option κ)
  | select (row : Nat) (e : Expr κ)
  | case (row : Nat) (sel : Expr κ) (items : Exprs κ)
  | dim (row : Nat) (a : κ) (bounds : Exprs κ)

abbrev Verdict := Option (LintErr × Nat)

def at? (row : Nat) : Option LintErr → Verdict
  | some e => some (e, row)
  | none => none

def tyErr (row : Nat) : Option Ty → Verdict
  | some _ => none
  | none => some (.typeMismatch, row)

def allTyped (Γ : Env κ) (row : Nat) (es : Exprs κ) : Verdict :=
  match typesOf Γ es with
  | some _ => none
  | none => some (.typeMismatch, row)

def orElse (a : Verdict) (b : Verdict) : Verdict :=
  match a with
  | some e => some e
  | none => b

/-- The converter on one line (`Statement::convert_in`). -/
def convLine (Γ : Env κ) : Line κ → Verdict
  | .assign row lhs rhs =>
    -- right side first, then the left side, then `right.can_cast_to(left)`
    match typeOf Γ rhs, typeOf Γ lhs with
    | some r, some l => if canCast r l then none else some (.typeMismatch, row)
    | _, _ => some (.typeMismatch, row)
  | .print row items => allTyped Γ row items
  | .callSub row _ args => allTyped Γ row args
  | .jump _ _ => none
  | .label _ _ => none
  | .cond row c => tyErr row (typeOf Γ c)
  | .condEnd _ _ => none
  | .forHead row v bounds _ _ =>
    -- `for_loop.rs` `ensure_numeric` (fix 634b5a4): the counter, the bounds and the step are numeric
    match typesOf Γ bounds with
    | some ts =>
      if Γ.ty v != .str && ts.all (fun t => t != .str) then none else some (.typeMismatch, row)
    | none => some (.typeMismatch, row)
  | .select row e => tyErr row (typeOf Γ e)
  | .case row _ items => allTyped Γ row items
  | .dim row _ bounds =>
    match typesOf Γ bounds with
    | some ts => if ts.all (fun t => t != .str) then none else some (.typeMismatch, row)
    | none => some (.typeMismatch, row)

/-- `ForNextCounterMatch`: the counter is numeric, `NEXT v` names the counter. -/
def forNextLine (Γ : Env κ) : Line κ → Verdict
  | .forHead row v _ nextRow next =>
    if Γ.ty v = .str then some (.typeMismatch, row)
    else match next with
      | some n => if n = v then none else some (.nextWithoutFor, nextRow)
      | none => none
  | _ => none

/-- A walker over the expressions of one line, in the order of `PostConversionLinter`. -/
def walkLine (chk : Expr κ → Option LintErr) : Line κ → Verdict
  | .assign row lhs rhs =>
    -- `visit_assignment`: the nested expressions of the left side, then the right side
    orElse (at? row (match lhs with | .call _ idx => walkL chk idx | _ => none)) (at? row (walk chk rhs))
  | .print row items => at? row (walkL chk items)
  | .callSub row _ args => at? row (walkL chk args)
  | .jump _ _ => none
  | .label _ _ => none
  | .cond row c => at? row (walk chk c)
  | .condEnd _ _ => none
  | .forHead row _ bounds _ _ => at? row (walkL chk bounds)
  | .select row e => at? row (walk chk e)
  | .case row _ items => at? row (walkL chk items)
  | .dim row _ bounds => at? row (walkL chk bounds)

/-- `UserDefinedSubLinter::visit_sub_call`. -/
def subLine (Γ : Env κ) : Line κ → Verdict
  | .callSub row s args =>
    match lookup s Γ.subs with
    | some params => at? row (callArgsCheck Γ args params)
    | none => some (.subNotDefined, row)
  | _ => none

def castableAll (Γ : Env κ) (sel : Ty) : Exprs κ → Bool
  | .nil => true
  | .cons e es => (match typeOf Γ e with | some t => canCast t sel | none => false) && castableAll Γ sel es

/-- `SelectCaseLinter::visit_case_expression`. -/
def selectLine (Γ : Env κ) : Line κ → Verdict
  | .case row sel items =>
    match typeOf Γ sel with
    | some s => if castableAll Γ s items then none else some (.typeMismatch, row)
    | none => some (.typeMismatch, row)
  | _ => none

/-- `ConditionTypeLinter`: the condition is numeric; tested after the statements of the block. -/
def condLine (Γ : Env κ) : Line κ → Verdict
  | .condEnd row c =>
    match typeOf Γ c with
    | some t => if t = .str then some (.typeMismatch, row) else none
    | none => some (.typeMismatch, row)
  | _ => none

def firstV {α : Type} (f : α → Verdict) : List α → Verdict
  | [] => none
  | a :: as => orElse (f a) (firstV f as)

/-- A program unit: the main module, or the body of a SUB / FUNCTION. -/
structure Part (κ : Type) where
  lines : List (Line κ)

/-- `LabelCollector`: labels are unique across all units. -/
def dupLabels : List κ → List (Line κ) → Verdict × List κ
  | seen, [] => (none, seen)
  | seen, .label row l :: rest =>
    if seen.contains l then (some (.duplicateLabel, row), seen) else dupLabels (l :: seen) rest
  | seen, _ :: rest => dupLabels seen rest

def dupLabelsU : List κ → List (Part κ) → Verdict
  | _, [] => none
  | seen, u :: us =>
    match dupLabels seen u.lines with
    | (some e, _) => some e
    | (none, seen') => dupLabelsU seen' us

def labelsOf : List (Line κ) → List κ
  | [] => []
  | .label _ l :: rest => l :: labelsOf rest
  | _ :: rest => labelsOf rest

/-- `LabelLinter`: GOTO / GOSUB targets are labels of the same unit. -/
def jumpLine (labels : List κ) : Line κ → Verdict
  | .jump row l => if labels.contains l then none else some (.labelNotDefined, row)
  | _ => none

/-- `DIM` of an array that was declared before (`DuplicateDefinition`, raised by the converter). -/
def dupDims : List κ → List (Line κ) → Verdict
  | _, [] => none
  | seen, .dim row a _ :: rest =>
    if seen.contains a then some (.duplicateDefinition, row) else dupDims (a :: seen) rest
  | seen, _ :: rest => dupDims seen rest

/-- One pass over all units. -/
def pass (f : Line κ → Verdict) (us : List (Part κ)) : Verdict := firstV (fun u => firstV f u.lines) us

/-- The converter over one unit: the conversion of the line; for a `DIM` the bounds are converted first
(`dim_type_rules.rs` `array_to_dim_type`: `array_dimensions.convert(ctx)?`, a TypeMismatch), then the name is
tested against the names defined so far (`on_dim_type` → `require_compact_can_be_defined`: DuplicateDefinition) —
`DIM A(5) : DIM A("x")` is a TypeMismatch. -/
def convUnit (Γ : Env κ) : List κ → List (Line κ) → Verdict
  | _, [] => none
  | seen, l :: rest =>
    match l with
    | .dim row a _ =>
      orElse (convLine Γ l)
        (if seen.contains a then some (.duplicateDefinition, row) else convUnit Γ (a :: seen) rest)
    | _ => orElse (convLine Γ l) (convUnit Γ seen rest)

/-- `rusty_linter::core::lint` on the fragment: converter, then `apply_linters` in its order. -/
def lint (Γ : Env κ) (us : List (Part κ)) : Verdict :=
  orElse (firstV (fun u => convUnit Γ [] u.lines) us) <|
  orElse (pass (forNextLine Γ) us) <|
  orElse (pass (walkLine (biCheck Γ)) us) <|
  orElse (pass (walkLine (fnCheck Γ)) us) <|
  orElse (pass (subLine Γ) us) <|
  orElse (pass (selectLine Γ) us) <|
  orElse (pass (condLine Γ) us) <|
  orElse (dupLabelsU [] us)
         (firstV (fun u => firstV (jumpLine (labelsOf u.lines)) u.lines) us)

/-! ### Evaluation at the level of kinds

The run-time side of the soundness statement. Values are `RbModel.Num.Val`; operators are the VM's
(`vmBin`, `negate`, `unaryNot`). Calls are abstract: the result of an array read, of a user defined
function and of a built-in function is given by an oracle (`Sem`), but the *operands* are consumed as
the real code consumes them — a built-in applied to an operand of the wrong kind is `Type mismatch`
(`to_str_unchecked` panics, `try_cast` / `to_positive_int` raise TypeMismatch: the model does not tell the
two apart), an argument bound to a parameter or used as an index is converted to the parameter's type
(`Num.cast`, which raises TypeMismatch between strings and numbers). -/

/-- The kinds of operands a built-in function consumes at run time
(`rusty_basic/src/interpreter/built_ins/*.rs`, hand-written). -/
def rtAccepts : BuiltIn → List Kind → Bool
  | .chr, [.num] => true
  | .lcase, [.str] => true
  | .ucase, [.str] => true
  | .ltrim, [.str] => true
  | .rtrim, [.str] => true
  | .space, [.num] => true
  | .str, [.num] => true
  | .val, [.str] => true
  | .left, [.str, .num] => true
  | .right, [.str, .num] => true
  | .mid, [.str, .num] => true
  | .mid, [.str, .num, .num] => true
  | .instr, [.str, .str] => true
  | .instr, [.num, .str, .str] => true
  | .string, [.num, _] => true
  | .len, [_] => true
  | _, _ => false

/-- The oracles. -/
structure Sem (κ : Type) where
  var : κ → Val
  call : κ → List Val → Val
  bi : BuiltIn → List Val → Val

/-- Parameter types of a call target as the run time sees them: an array takes numeric indices (cast to
INTEGER), a user defined function its parameters; an undefined function was replaced by the literal 0, or "" for a `$` name
(`undefined_function_reducer`) and its arguments are never evaluated. -/
inductive Target where
  | array | fn (params : List Ty) | undefined

def target (Γ : Env κ) (f : κ) : Target :=
  if isArray Γ f then .array
  else match lookup f Γ.fns with
    | some ps => .fn ps
    | none => .undefined

def bindArgs : List Val → List Ty → Res Unit
  | [], [] => .ok ()
  | v :: vs, p :: ps => (cast v p).bind fun _ => bindArgs vs ps
  | _, _ => .err .typeMismatch

def indexArgs : List Val → Res Unit
  | [] => .ok ()
  | v :: vs => if v.tag = .str then .err .typeMismatch else indexArgs vs

mutual
def eval (Γ : Env κ) (σ : Sem κ) : Expr κ → Res Val
  | .lit v => .ok v
  | .var x => .ok (σ.var x)
  | .paren e => eval Γ σ e
  | .un .neg e => (eval Γ σ e).bind negate
  | .un .not e => (eval Γ σ e).bind unaryNot
  | .bin op l r => (eval Γ σ l).bind fun a => (eval Γ σ r).bind fun b => vmBin binType op a b
  | .call f args =>
    match target Γ f with
    | .undefined => .ok (if Γ.ty f = .str then .str [] else .int 0)
    | .array => (evalL Γ σ args).bind fun vs => (indexArgs vs).bind fun _ => .ok (σ.call f vs)
    | .fn ps => (evalL Γ σ args).bind fun vs => (bindArgs vs ps).bind fun _ => .ok (σ.call f vs)
  | .bi b args =>
    (evalL Γ σ args).bind fun vs =>
      if rtAccepts b (vs.map fun v => kindOf v.tag) then .ok (σ.bi b vs) else .err .typeMismatch
def evalL (Γ : Env κ) (σ : Sem κ) : Exprs κ → Res (List Val)
  | .nil => .ok []
  | .cons e es => (eval Γ σ e).bind fun v => (evalL Γ σ es).bind fun vs => .ok (v :: vs)
end

/-! ### Renaming -/

mutual
def Expr.map {κ' : Type} (ρ : κ → κ') : Expr κ → Expr κ'
  | .lit v => .lit v
  | .var x => .var (ρ x)
  | .paren e => .paren (e.map ρ)
  | .un op e => .un op (e.map ρ)
  | .bin op l r => .bin op (l.map ρ) (r.map ρ)
  | .call f args => .call (ρ f) (args.map ρ)
  | .bi b args => .bi b (args.map ρ)
def Exprs.map {κ' : Type} (ρ : κ → κ') : Exprs κ → Exprs κ'
  | .nil => .nil
  | .cons e es => .cons (e.map ρ) (es.map ρ)
end

def Line.map {κ' : Type} (ρ : κ → κ') : Line κ → Line κ'
  | .assign row lhs rhs => .assign row (lhs.map ρ) (rhs.map ρ)
  | .print row items => .print row (items.map ρ)
  | .callSub row s args => .callSub row (ρ s) (args.map ρ)
  | .jump row l => .jump row (ρ l)
  | .label row l => .label row (ρ l)
  | .cond row c => .cond row (c.map ρ)
  | .condEnd row c => .condEnd row (c.map ρ)
  | .forHead row v bounds nextRow next => .forHead row (ρ v) (bounds.map ρ) nextRow (next.map ρ)
  | .select row e => .select row (e.map ρ)
  | .case row sel items => .case row (sel.map ρ) (items.map ρ)
  | .dim row a bounds => .dim row (ρ a) (bounds.map ρ)

def Part.map {κ' : Type} (ρ : κ → κ') (u : Part κ) : Part κ' := ⟨u.lines.map (Line.map ρ)⟩

/-- The environment of the renamed program. -/
def Env.map {κ' : Type} (ρ : κ → κ') (ty' : κ' → Ty) (Γ : Env κ) : Env κ' :=
  { ty := ty', arrays := Γ.arrays.map ρ,
    fns := Γ.fns.map (fun p => (ρ p.1, p.2)), subs := Γ.subs.map (fun p => (ρ p.1, p.2)) }

/-! ### Source identifiers

A source identifier: first letter (0..25), the rest of the bare name (opaque), optional type suffix.
`resolve` is the rule of C13 (`bare_is_default_type`) for the fragment: the qualifier is the suffix, or
the DEFtype of the first letter. -/
structure Ident where
  letter : Nat
  rest : Nat
  sfx : Option Ty
  deriving DecidableEq, Repr

/-- A resolved name: bare name and qualifier. -/
abbrev Key := (Nat × Nat) × Ty

def resolve (deft : Nat → Ty) (x : Ident) : Key :=
  ((x.letter, x.rest), match x.sfx with | some t => t | none => deft x.letter)

def keyTy (k : Key) : Ty := k.2

end RbModel.Ty
