/-
C18 — model of the file built-ins of rusty_basic (the tree with the `fix:` commits 6917649, 5776048,
e3361f3, 8e87b36 applied).

Ported code (rusty_basic/src/interpreter):
* `io.rs`            `FileManager` (open / close / close_all / try_get_file_info{,_input,_output} /
                     add_field_list / mark_current_field_list), `FileInfo` (get_record / put_record /
                     ensure_random)
* `read_input.rs`    `ReadInputSource` (peek / read / skip_while / read_until / eof / input / line_input)
* `error.rs`         `From<std::io::Error> for RuntimeError`, `RuntimeError::get_code`
* `built_ins/`       open, close, eof, input, line_input, kill, name, field, lset, put, get
* `main.rs`          `choose_printer` + the PRINT instructions, for `PRINT #n, item; item[;]` with string items
                     (`write_printer.rs` `print`/`println` only; print zones are not modelled)

ASSUMED, not modelled code: the host file system.  `Fs` below is the POSIX contract the code relies on
(open with O_CREAT/O_TRUNC/O_APPEND, open of a missing name = ENOENT, rename, unlink, read/write at an
offset with zero filled gaps, open files survive unlink/rename because handles refer to inodes).

Bytes are `Nat`s (< 256 by construction of the callers); text bytes are assumed ASCII (< 128): the UTF-8
validation of `read_until`/`skip_while` is outside the model.  Files are assumed shorter than the 8 KiB
`BufReader` capacity (one refill reads a file to its end).
-/
namespace RbModel.Files

/-! ## Association lists (finite maps) -/

def alGet {β : Type} : List (Nat × β) → Nat → Option β
  | [], _ => none
  | (k, v) :: rest, key => if k = key then some v else alGet rest key

def alDel {β : Type} : List (Nat × β) → Nat → List (Nat × β)
  | [], _ => []
  | (k, v) :: rest, key => if k = key then alDel rest key else (k, v) :: alDel rest key

/-- Replaces in place when the key is bound (keeps the position), appends otherwise. -/
def alSet {β : Type} : List (Nat × β) → Nat → β → List (Nat × β)
  | [], key, v => [(key, v)]
  | (k, w) :: rest, key, v => if k = key then (key, v) :: rest else (k, w) :: alSet rest key v

/-! ## Errors -/

/-- `std::io::ErrorKind` as far as `From<std::io::Error>` distinguishes kinds. -/
inductive IoErr where
  | notFound | unexpectedEof | other
  deriving Repr, DecidableEq

/-- The `RuntimeError` variants the file built-ins can produce. -/
inductive Err where
  | variableRequired | fieldOverflow | badFileNameOrNumber | fileNotFound | badFileMode | fileAlreadyOpen
  | deviceIO | badRecordLength | inputPastEnd | badRecordNumber | other
  deriving Repr, DecidableEq

/-- `RuntimeError::get_code`. -/
def Err.code : Err → Nat
  | .variableRequired => 40
  | .fieldOverflow => 50
  | .badFileNameOrNumber => 52
  | .fileNotFound => 53
  | .badFileMode => 54
  | .fileAlreadyOpen => 55
  | .deviceIO => 57
  | .badRecordLength => 59
  | .inputPastEnd => 62
  | .badRecordNumber => 63
  | .other => 257

/-- `From<std::io::Error> for RuntimeError`. -/
def Err.ofIo : IoErr → Err
  | .notFound => .fileNotFound
  | .unexpectedEof => .inputPastEnd
  | .other => .deviceIO

/-! ## The store (assumed POSIX contract) -/

inductive Node where
  | file (ino : Nat)
  | dir
  deriving Repr, DecidableEq

/-- A path: a plain name in the working directory, or a path below a directory that does not exist. -/
inductive Name where
  | plain (k : Nat)
  | orphan (k : Nat)
  deriving Repr, DecidableEq

/-- `inodes[i]` = contents of inode `i` (inodes are never reclaimed: an unlinked file lives on for the
handles that have it open); `dir` = the working directory. -/
structure Fs where
  inodes : List (List Nat)
  dir : List (Nat × Node)
  deriving Repr

def Fs.data (fs : Fs) (ino : Nat) : List Nat := fs.inodes.getD ino []

def Fs.setData (fs : Fs) (ino : Nat) (b : List Nat) : Fs := { fs with inodes := fs.inodes.set ino b }

/-- Path resolution: `ENOENT` below a missing directory. -/
def Fs.resolve (fs : Fs) : Name → Except IoErr (Nat × Option Node)
  | .plain k => .ok (k, alGet fs.dir k)
  | .orphan _ => .error .notFound

/-- `File::open` (O_RDONLY).  On Linux a directory opens fine and fails on `read`: `none`. -/
def Fs.openRead (fs : Fs) (n : Name) : Except IoErr (Option Nat) :=
  match fs.resolve n with
  | .error e => .error e
  | .ok (_, none) => .error .notFound
  | .ok (_, some (.file i)) => .ok (some i)
  | .ok (_, some .dir) => .ok none

/-- `O_CREAT` with or without `O_TRUNC` (`File::create`, the RANDOM and APPEND `OpenOptions`). -/
def Fs.openCreate (fs : Fs) (n : Name) (trunc : Bool) : Except IoErr (Fs × Nat) :=
  match fs.resolve n with
  | .error e => .error e
  | .ok (k, none) =>
      .ok ({ inodes := fs.inodes ++ [[]], dir := alSet fs.dir k (.file fs.inodes.length) }, fs.inodes.length)
  | .ok (_, some (.file i)) => .ok (if trunc then fs.setData i [] else fs, i)
  | .ok (_, some .dir) => .error .other

/-- `std::fs::remove_file` (unlink). -/
def Fs.unlink (fs : Fs) (n : Name) : Except IoErr Fs :=
  match fs.resolve n with
  | .error e => .error e
  | .ok (_, none) => .error .notFound
  | .ok (_, some .dir) => .error .other
  | .ok (k, some (.file _)) => .ok { fs with dir := alDel fs.dir k }

/-- `std::fs::rename` (directories in the model are always empty). -/
def Fs.rename (fs : Fs) (o n : Name) : Except IoErr Fs :=
  match fs.resolve o with
  | .error e => .error e
  | .ok (_, none) => .error .notFound
  | .ok (ko, some src) =>
    match fs.resolve n with
    | .error e => .error e
    | .ok (kn, dst) =>
      if ko = kn then .ok fs
      else
        match src, dst with
        | .file _, some .dir => .error .other
        | .dir, some (.file _) => .error .other
        | _, _ => .ok { fs with dir := alSet (alDel fs.dir ko) kn src }

/-- `write` of `bs` at offset `off`: a gap is zero filled; a zero-length write changes nothing. -/
def writeAt (data : List Nat) (off : Nat) (bs : List Nat) : List Nat :=
  if bs.isEmpty then data
  else
    let padded := data ++ List.replicate (off - data.length) 0
    padded.take off ++ bs ++ padded.drop (off + bs.length)

/-! ## `ReadInputSource`: field and line splitting over a byte stream -/

def CR : Nat := 13
def LF : Nat := 10

def isCrLf (c : Nat) : Bool := c == 13 || c == 10
def isFieldEnd (c : Nat) : Bool := c == 44 || c == 13 || c == 10
/-- `char::is_whitespace` on ASCII. -/
def isWs (c : Nat) : Bool := c == 32 || (9 ≤ c && c ≤ 13)

/-- Result of a scan over the visible stream: the value (or I/O error), the stream that is left, and how
many stream positions were asked for (including a request past the end) — a request beyond the buffered
bytes is what triggers a refill from the file. -/
structure Scan where
  val : Except IoErr (List Nat)
  rest : List Nat
  looked : Nat
  deriving Repr

/-- `skip_while(pred)`: returns what is left and the positions asked for. -/
def skipWhile (p : Nat → Bool) : List Nat → List Nat × Nat
  | [] => ([], 1)
  | c :: cs => if p c then let r := skipWhile p cs; (r.1, r.2 + 1) else (c :: cs, 1)

/-- `read_until(pred)`: collects up to the first stop byte, which is consumed; a CR stop byte also
consumes a directly following LF (one byte of look-ahead). -/
def readUntil (stop : Nat → Bool) : List Nat → List Nat × List Nat × Nat
  | [] => ([], [], 1)
  | c :: cs =>
    if stop c then
      if c = 13 then
        match cs with
        | 10 :: cs' => ([], cs', 2)
        | _ => ([], cs, 2)
      else ([], cs, 1)
    else
      let r := readUntil stop cs
      (c :: r.1, r.2.1, r.2.2 + 1)

/-- `str::trim` on ASCII. -/
def trim (v : List Nat) : List Nat := ((v.dropWhile isWs).reverse.dropWhile isWs).reverse

/-- `Input::eof`: one byte of look-ahead. -/
def scanEof (s : List Nat) : Scan := { val := .ok (if s.isEmpty then [1] else []), rest := s, looked := 1 }

/-- `Input::input`: end of input is an error; skip blanks; read up to comma / CR / LF; trim. -/
def scanField (s : List Nat) : Scan :=
  if s.isEmpty then { val := .error .unexpectedEof, rest := s, looked := 1 }
  else
    let a := skipWhile (· == 32) s
    let b := readUntil isFieldEnd a.1
    { val := .ok (trim b.1), rest := b.2.1, looked := a.2 - 1 + b.2.2 }

/-- `Input::line_input`: end of input is an error; read up to CR / LF / CRLF. -/
def scanLine (s : List Nat) : Scan :=
  if s.isEmpty then { val := .error .unexpectedEof, rest := s, looked := 1 }
  else
    let b := readUntil isCrLf s
    { val := .ok b.1, rest := b.2.1, looked := b.2.2 }

/-! ## Handles -/

/-- `ReadInputSource<BufReader<File>>`: `buf` = look-ahead byte + `BufReader` buffer, `pos` = file offset
of the descriptor, `src = none` = the descriptor is a directory (every read fails). -/
structure Reader where
  src : Option Nat
  pos : Nat
  buf : List Nat
  deriving Repr

/-- `WritePrinter<File>` as far as bytes go (the print-zone column is not modelled). -/
structure Writer where
  ino : Nat
  pos : Nat
  append : Bool
  deriving Repr

inductive Kind where
  | input (r : Reader)
  | output (w : Writer)
  | random (ino : Nat) (recLen : Nat)
  deriving Repr

/-- `FileInfo`.  A field is `(width, variable)`. -/
structure FileInfo where
  kind : Kind
  fieldLists : List (List (Nat × Nat))
  current : Option Nat
  deriving Repr

def FileInfo.new (k : Kind) : FileInfo := { kind := k, fieldLists := [], current := none }

/-- `rec_len` field (0 unless RANDOM). -/
def FileInfo.recLen (fi : FileInfo) : Nat :=
  match fi.kind with
  | .random _ l => l
  | _ => 0

structure State where
  fs : Fs
  handles : List (Nat × FileInfo)
  vars : List (Nat × List Nat)
  stdin : List Nat
  deriving Repr

def State.var (s : State) (v : Nat) : List Nat := (alGet s.vars v).getD []
def State.setVar (s : State) (v : Nat) (b : List Nat) : State := { s with vars := alSet s.vars v b }

/-- Runs a scan on a reader: on the buffered bytes when that suffices, else after one refill that brings
in the file from `pos` to its end. -/
def Reader.scan (sc : List Nat → Scan) (r : Reader) (file : List Nat) : Except IoErr (List Nat) × Reader :=
  let a := sc r.buf
  if a.looked ≤ r.buf.length then (a.val, { r with buf := a.rest })
  else
    let more := file.drop r.pos
    let b := sc (r.buf ++ more)
    (b.val, { r with buf := b.rest, pos := r.pos + more.length })

/-! ## Operations -/

inductive Mode where
  | input | output | append | random
  deriving Repr, DecidableEq

inductive Op where
  | open (h : Nat) (name : Name) (mode : Mode) (recLen : Nat)
  | print (h : Nat) (items : List (List Nat)) (newline : Bool)
  | input (h : Nat) (v : Nat)
  | lineInput (h : Nat) (v : Nat)
  | eof (h : Nat)
  | close (hs : List Nat)
  | kill (name : Name)
  | name (old new : Name)
  | field (h : Nat) (fields : List (Nat × Nat))
  | lset (v : Nat) (val : List Nat)
  | put (h : Nat) (rec : Nat)
  | get (h : Nat) (rec : Nat)
  | show (v : Nat)
  | conInput (v : Nat)
  | conLineInput (v : Nat)
  deriving Repr

inductive Out where
  | ok
  | err (e : Err)
  | val (b : List Nat)
  | flag (b : Bool)
  deriving Repr, DecidableEq

/-- `FileHandle::try_from`. -/
def validHandle (h : Nat) : Bool := 1 ≤ h && h ≤ 255

/-- `FileManager::try_get_file_info`. -/
def getInfo (s : State) (h : Nat) : Except Err FileInfo :=
  match alGet s.handles h with
  | none => .error .fileNotFound
  | some fi => .ok fi

def setInfo (s : State) (h : Nat) (fi : FileInfo) : State := { s with handles := alSet s.handles h fi }

/-- `FileManager::try_get_file_info_input`. -/
def getReader (s : State) (h : Nat) : Except Err (FileInfo × Reader) :=
  match getInfo s h with
  | .error e => .error e
  | .ok fi =>
    match fi.kind with
    | .input r => .ok (fi, r)
    | _ => .error .badFileMode

/-- `FileManager::try_get_file_info_output`. -/
def getWriter (s : State) (h : Nat) : Except Err (FileInfo × Writer) :=
  match getInfo s h with
  | .error e => .error e
  | .ok fi =>
    match fi.kind with
    | .output w => .ok (fi, w)
    | _ => .error .badFileMode

/-- `FileManager::open`. -/
def doOpen (s : State) (h : Nat) (n : Name) (m : Mode) (recLen : Nat) : State × Out :=
  if !validHandle h then (s, .err .badFileNameOrNumber)
  else if (alGet s.handles h).isSome then (s, .err .fileAlreadyOpen)
  else
    match m with
    | .input =>
      match s.fs.openRead n with
      | .error e => (s, .err (Err.ofIo e))
      | .ok src => (setInfo s h (FileInfo.new (.input { src := src, pos := 0, buf := [] })), .ok)
    | .output =>
      match s.fs.openCreate n true with
      | .error e => (s, .err (Err.ofIo e))
      | .ok (fs, i) => (setInfo { s with fs := fs } h (FileInfo.new (.output { ino := i, pos := 0, append := false })), .ok)
    | .append =>
      match s.fs.openCreate n false with
      | .error e => (s, .err (Err.ofIo e))
      | .ok (fs, i) => (setInfo { s with fs := fs } h (FileInfo.new (.output { ino := i, pos := 0, append := true })), .ok)
    | .random =>
      match s.fs.openCreate n true with
      | .error e => (s, .err (Err.ofIo e))
      | .ok (fs, i) => (setInfo { s with fs := fs } h (FileInfo.new (.random i recLen)), .ok)

/-- `WritePrinter::print`: every CR and every LF of the text becomes CR LF. -/
def expandCrLf (b : List Nat) : List Nat := b.flatMap fun c => if isCrLf c then [13, 10] else [c]

/-- The bytes of `PRINT #n, i1; i2; ...[;]`. -/
def printBytes (items : List (List Nat)) (newline : Bool) : List Nat :=
  (items.map expandCrLf).flatten ++ (if newline then [13, 10] else [])

/-- One `write` through a `Writer` (consecutive writes of one PRINT are one write of the concatenation). -/
def Writer.write (w : Writer) (data : List Nat) (bs : List Nat) : List Nat × Writer :=
  if w.append then (data ++ bs, w)
  else (writeAt data w.pos bs, { w with pos := w.pos + bs.length })

def doPrint (s : State) (h : Nat) (items : List (List Nat)) (nl : Bool) : State × Out :=
  match getWriter s h with
  | .error e => (s, .err e)
  | .ok (fi, w) =>
    let r := w.write (s.fs.data w.ino) (printBytes items nl)
    (setInfo { s with fs := s.fs.setData w.ino r.1 } h { fi with kind := .output r.2 }, .ok)

/-- Shared by EOF / INPUT # / LINE INPUT #: run a scan on the handle's reader. -/
def doScan (s : State) (h : Nat) (sc : List Nat → Scan) : State × Except Err (List Nat) :=
  match getReader s h with
  | .error e => (s, .error e)
  | .ok (fi, r) =>
    match r.src with
    | none => (s, .error (Err.ofIo .other))
    | some i =>
      let x := r.scan sc (s.fs.data i)
      (setInfo s h { fi with kind := .input x.2 },
        match x.1 with
        | .ok v => .ok v
        | .error e => .error (Err.ofIo e))

def doRead (s : State) (h : Nat) (sc : List Nat → Scan) (v : Nat) : State × Out :=
  if !validHandle h then (s, .err .badFileNameOrNumber)
  else
    match doScan s h sc with
    | (s', .ok b) => (s'.setVar v b, .val b)
    | (s', .error e) => (s', .err e)

def doEof (s : State) (h : Nat) : State × Out :=
  if !validHandle h then (s, .err .badFileNameOrNumber)
  else
    match doScan s h scanEof with
    | (s', .ok b) => (s', .flag (!b.isEmpty))
    | (s', .error e) => (s', .err e)

/-- Console forms: the same scans on the stdin stream (a `Cursor`: nobody else writes to it). -/
def doConRead (s : State) (sc : List Nat → Scan) (v : Nat) : State × Out :=
  let x := sc s.stdin
  match x.val with
  | .ok b => ({ s with stdin := x.rest }.setVar v b, .val b)
  | .error e => ({ s with stdin := x.rest }, .err (Err.ofIo e))

def closeAll (s : State) (hs : List Nat) : State := { s with handles := hs.foldl alDel s.handles }

def doClose (s : State) (hs : List Nat) : State × Out :=
  if !(hs.all validHandle) then (s, .err .badFileNameOrNumber)
  else if hs.isEmpty then ({ s with handles := [] }, .ok)
  else (closeAll s hs, .ok)

def doKill (s : State) (n : Name) : State × Out :=
  match s.fs.unlink n with
  | .error e => (s, .err (Err.ofIo e))
  | .ok fs => ({ s with fs := fs }, .ok)

def doName (s : State) (o n : Name) : State × Out :=
  match s.fs.rename o n with
  | .error e => (s, .err (Err.ofIo e))
  | .ok fs => ({ s with fs := fs }, .ok)

def sumWidths (fields : List (Nat × Nat)) : Nat := (fields.map (·.1)).sum

/-- `built_ins/field.rs` + `FileManager::add_field_list` (with the FIELD overflow check). -/
def doField (s : State) (h : Nat) (fields : List (Nat × Nat)) : State × Out :=
  if !validHandle h then (s, .err .badFileNameOrNumber)
  else if fields.any (·.1 == 0) then (s, .err .fieldOverflow)
  else
    match getInfo s h with
    | .error e => (s, .err e)
    | .ok fi =>
      if 0 < fi.recLen && fi.recLen < sumWidths fields then (s, .err .fieldOverflow)
      else (setInfo s h { fi with fieldLists := fi.fieldLists ++ [fields], current := some fi.fieldLists.length }, .ok)

/-- Index of the first field list that uses the variable. -/
def findList (v : Nat) : List (List (Nat × Nat)) → Nat → Option Nat
  | [], _ => none
  | l :: ls, i => if l.any (·.2 == v) then some i else findList v ls (i + 1)

/-- `FileManager::mark_current_field_list` — the real code walks a `HashMap`; the model walks the handle
list in order, which is the same whenever at most one open handle uses the variable (`lsetAmbiguous`). -/
def markCurrent (v : Nat) : List (Nat × FileInfo) → Option (List (Nat × FileInfo))
  | [] => none
  | (h, fi) :: rest =>
    match findList v fi.fieldLists 0 with
    | some i => some ((h, { fi with current := some i }) :: rest)
    | none =>
      match markCurrent v rest with
      | some rest' => some ((h, fi) :: rest')
      | none => none

/-- More than one open handle has the variable in a FIELD list: the real code's choice depends on the
hash map's iteration order (not modelled). -/
def lsetAmbiguous (s : State) (v : Nat) : Bool :=
  1 < (s.handles.filter fun p => (findList v p.2.fieldLists 0).isSome).length

def doLset (s : State) (v : Nat) (val : List Nat) : State × Out :=
  match markCurrent v s.handles with
  | none => (s, .err .other)
  | some hs => ({ s with handles := hs }.setVar v val, .ok)

/-- `put.rs` `fix_length`: pad with zero bytes or cut. -/
def fixLength (b : List Nat) (w : Nat) : List Nat := (b ++ List.replicate (w - b.length) 0).take w

def recordOf (s : State) (fields : List (Nat × Nat)) : List Nat :=
  (fields.map fun f => fixLength (s.var f.2) f.1).flatten

/-- `FileInfo::put_record` on the bytes of the file. -/
def putRecord (data : List Nat) (recLen n : Nat) (bytes : List Nat) : List Nat :=
  writeAt data ((n - 1) * recLen) bytes

/-- `FileInfo::get_record` on the bytes of the file: `recLen` bytes from `(n-1)*recLen`, zero filled. -/
def getRecord (data : List Nat) (recLen n : Nat) : List Nat :=
  let got := (data.drop ((n - 1) * recLen)).take recLen
  got ++ List.replicate (recLen - got.length) 0

/-- `FileInfo::ensure_random`. -/
def ensureRandom (fi : FileInfo) : Except Err (Nat × Nat) :=
  match fi.kind with
  | .random i l => if 0 < l then .ok (i, l) else .error .badRecordLength
  | _ => .error .badFileMode

def doPut (s : State) (h : Nat) (n : Nat) : State × Out :=
  if !validHandle h then (s, .err .badFileNameOrNumber)
  else if n = 0 then (s, .err .badRecordNumber)
  else
    match getInfo s h with
    | .error e => (s, .err e)
    | .ok fi =>
      match fi.current.bind (fun i => fi.fieldLists[i]?) with
      | none => (s, .err .badFileMode)
      | some fields =>
        match ensureRandom fi with
        | .error e => (s, .err e)
        | .ok (i, l) => ({ s with fs := s.fs.setData i (putRecord (s.fs.data i) l n (recordOf s fields)) }, .ok)

/-- Assigns the slices of the record to the variables of one field list. -/
def assignFields (bytes : List Nat) : List (Nat × Nat) → Nat → List (Nat × List Nat) → List (Nat × List Nat)
  | [], _, vars => vars
  | (w, v) :: fs, start, vars => assignFields bytes fs (start + w) (alSet vars v ((bytes.drop start).take w))

def doGet (s : State) (h : Nat) (n : Nat) : State × Out :=
  if !validHandle h then (s, .err .badFileNameOrNumber)
  else if n = 0 then (s, .err .badRecordNumber)
  else
    match getInfo s h with
    | .error e => (s, .err e)
    | .ok fi =>
      match ensureRandom fi with
      | .error e => (s, .err e)
      | .ok (i, l) =>
        let bytes := getRecord (s.fs.data i) l n
        ({ s with vars := fi.fieldLists.foldl (fun vars fl => assignFields bytes fl 0 vars) s.vars }, .ok)

def step (s : State) : Op → State × Out
  | .open h n m l => doOpen s h n m l
  | .print h items nl => if !validHandle h then (s, .err .badFileNameOrNumber) else doPrint s h items nl
  | .input h v => doRead s h scanField v
  | .lineInput h v => doRead s h scanLine v
  | .eof h => doEof s h
  | .close hs => doClose s hs
  | .kill n => doKill s n
  | .name o n => doName s o n
  | .field h fields => doField s h fields
  | .lset v val => doLset s v val
  | .put h n => doPut s h n
  | .get h n => doGet s h n
  | .show v => (s, .val (s.var v))
  | .conInput v => doConRead s scanField v
  | .conLineInput v => doConRead s scanLine v

/-- Runs a history, collecting the observations. -/
def run (s : State) : List Op → State × List Out
  | [] => (s, [])
  | op :: ops =>
    let r := step s op
    let q := run r.1 ops
    (q.1, r.2 :: q.2)

/-- The observable store: for each bound name, `none` = directory, `some bytes` = file contents. -/
def Fs.listing (fs : Fs) : List (Nat × Option (List Nat)) :=
  fs.dir.map fun p => (p.1, match p.2 with | .file i => some (fs.data i) | .dir => none)

end RbModel.Files
