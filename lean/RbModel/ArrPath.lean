import RbModel.Arr
import RbModel.Num
/-!
Model of the *composed* storage that C04 is about: a variable holds a tree of containers
(`Variant::VArray` of `Variant::VUserDefined` of … of scalars), a location is a path
(`instruction_generator::Path`: `Root` / `ArrayElement(parent, indices)` / `Property(parent, name)`), and
`interpreter/handlers/var_path.rs` navigates it: `resolve_some_name_ptr_mut` resolves the parent first and
then takes one step (`resolve_array_mut` = `VArray::get_element_mut`, `resolve_property_mut` =
`UserDefinedTypeValue::get_mut`), `copy_a_to_var_path` stores through the resolved `&mut Variant`,
`copy_var_path_to_a` reads it.

Also the value conversion in front of a store (`generate_expression_instructions_casting`: `Cast(q)` /
`FixLength(n)` when the static type of the expression differs from the target's; `handlers/cast.rs`) and in
front of the write-back of a by-reference argument (`calls.rs::generate_fix_string_length`).

Core imports only (linked into the driver).  Scalars are `RbModel.Num.Val`.
-/
namespace RbModel.ArrPath
open RbModel RbModel.Arr

/-- `Variant` as a tree: scalars, `VArray { dimensions, elements }`, `UserDefinedTypeValue` (fields in
declaration order, keyed by the case-folded name). -/
inductive Val where
  | leaf (v : Num.Val)
  | arr (dims : List (Int × Int)) (elems : List Val)
  | udt (fields : List (List Char × Val))

/-- One navigation step of `resolve_some_name_ptr_mut`. -/
inductive Step where
  | idx (i : List Int)
  | fld (n : List Char)

/-- `instruction_generator::Path` (`RootPath.shared` only selects which variable map is used; one map here). -/
inductive Path where
  | root (name : List Char)
  | elem (p : Path) (idx : List Int)
  | prop (p : Path) (name : List Char)

/-- `Path::append_array_element` (`var_path_index`, one call per subscript): the first subscript wraps a root,
the next ones are pushed onto the index vector; on a `Property` the code panics ("unexpected NamePtr"). -/
def Path.appendIndex : Path → Int → Option Path
  | .root n, i => some (.elem (.root n) [i])
  | .elem p is, i => some (.elem p (is ++ [i]))
  | .prop _ _, _ => none

def Path.rootName : Path → List Char
  | .root n => n
  | .elem p _ => p.rootName
  | .prop p _ => p.rootName

/-- The steps from the root variable to the location, outermost first. -/
def Path.steps : Path → List Step
  | .root _ => []
  | .elem p i => p.steps ++ [.idx i]
  | .prop p n => p.steps ++ [.fld n]

/-- `resolve_array_mut` / `resolve_property_mut` as a read: `none` = Subscript out of range (array step) or
one of the panics ("Expected array", "Expected user defined type", "Property not defined"). -/
def stepGet : Val → Step → Option Val
  | .arr d es, .idx i => Arr.getElem ⟨d, es⟩ i
  | .udt fs, .fld n => getField ⟨fs⟩ n
  | _, _ => none

/-- The same step followed by `*slot = child`. -/
def stepSet : Val → Step → Val → Option Val
  | .arr d es, .idx i, c => (setElem ⟨d, es⟩ i c).map fun a => .arr a.dims a.elems
  | .udt fs, .fld n, c => (setField ⟨fs⟩ n c).map fun r => .udt r.fields
  | _, _, _ => none

/-- The variable map (`Variables`), keyed by the resolved name.  A missing root answers `none`
(`get_or_create` would create a default scalar; arrays and records always exist after their `DIM`). -/
abbrev Vars := List (List Char × Val)

/-- `resolve_some_name_ptr_mut` followed by a read (`copy_var_path_to_a`): parent first, then one step. -/
def resolve (vars : Vars) : Path → Option Val
  | .root n => lookupField vars n
  | .elem p i =>
    match resolve vars p with
    | some pv => stepGet pv (.idx i)
    | none => none
  | .prop p n =>
    match resolve vars p with
    | some pv => stepGet pv (.fld n)
    | none => none

/-- What "take one more step `s`, then apply `f` to the slot" does to the parent value. -/
def liftStep (s : Step) (f : Val → Option Val) : Val → Option Val := fun pv =>
  match stepGet pv s with
  | none => none
  | some c =>
    match f c with
    | none => none
    | some c' => stepSet pv s c'

/-- `resolve_some_name_ptr_mut` followed by an in-place update `f` of the resolved `&mut Variant`
(functional rendering of the mutable borrow chain: the parent is resolved first, the step is taken inside). -/
def modifyPath (vars : Vars) : Path → (Val → Option Val) → Option Vars
  | .root n, f =>
    match lookupField vars n with
    | none => none
    | some old =>
      match f old with
      | none => none
      | some new => updateField vars n new
  | .elem p i, f => modifyPath vars p (liftStep (.idx i) f)
  | .prop p n, f => modifyPath vars p (liftStep (.fld n) f)

/-- `copy_a_to_var_path`: `*resolve(path) = a`. -/
def store (vars : Vars) (p : Path) (v : Val) : Option Vars := modifyPath vars p (fun _ => some v)

/-- Navigation from a value along a list of steps (outermost first). -/
def getAt : Val → List Step → Option Val
  | v, [] => some v
  | v, s :: ss =>
    match stepGet v s with
    | none => none
    | some c => getAt c ss

/-- In-place update at the end of a list of steps. -/
def modAt : Val → List Step → (Val → Option Val) → Option Val
  | v, [], f => f v
  | v, s :: ss, f =>
    match stepGet v s with
    | none => none
    | some c =>
      match modAt c ss f with
      | none => none
      | some c' => stepSet v s c'

/-! ### Conversion in front of a store -/

/-- The static type of an expression / of a location as far as stores care: a built-in qualifier or
`STRING * n` (`ExpressionType::{BuiltIn, FixedLengthString}`). -/
inductive ETy where
  | num (t : Num.Ty)
  | fix (n : Nat)
  deriving DecidableEq, Repr

/-- `handlers/cast.rs::fix_length_in_a`: cast A to `$`, then `fix_length` if it is a string. -/
def fixLengthInA (n : Nat) (v : Num.Val) : Num.Res Num.Val :=
  (Num.cast v .str).bind fun w =>
    match w with
    | .str cs => .ok (.str (fixLength cs n))
    | other => .ok other

/-- `generate_expression_instructions_casting`: nothing when the static type equals the target type, else
`Cast(q)` for a built-in target and `FixLength(n)` for a `STRING * n` target. -/
def storeConv (static target : ETy) (v : Num.Val) : Num.Res Num.Val :=
  if static = target then .ok v
  else
    match target with
    | .num t => Num.cast v t
    | .fix n => fixLengthInA n v

/-- `target = expr`: evaluate (value `v` of static type `static`), convert, `CopyAToVarPath`.
The inner `none` = the store failed (Subscript out of range). -/
def assign (vars : Vars) (p : Path) (static target : ETy) (v : Num.Val) : Num.Res (Option Vars) :=
  (storeConv static target v).bind fun w => .ok (store vars p (.leaf w))

/-- Write-back of a by-reference argument after the call (`generate_un_stash_by_ref_args`):
`DequeueFromReturnStack…`, `FixLength(n)` iff the argument expression is a `STRING * n`
(`generate_fix_string_length`; unconditional, the parameter is a plain string), then the store. -/
def writeBack (vars : Vars) (p : Path) (target : ETy) (v : Num.Val) : Num.Res (Option Vars) :=
  match target with
  | .fix n => (fixLengthInA n v).bind fun w => .ok (store vars p (.leaf w))
  | .num _ => .ok (store vars p (.leaf v))

end RbModel.ArrPath
