import RbModel.Expr
/-
Model of numeric literals with a fraction (`rusty_parser/src/expr/single_or_double_literal.rs`, and the
`SingleLiteral` / `DoubleLiteral` branch of `unary_expression::negative_number_literal`).

The code reads `[digits] "." digits ["#"]`, substitutes `"0"` for missing integer digits, joins the two
digit runs with a point and hands the text to `str::parse::<f32>` (no `#`) or `str::parse::<f64>` (`#`).
The type is decided by the presence of `#` alone (not by the number of digits, and there is no `!`, `%`,
`&` suffix and no exponent part in this grammar).  The value is modelled as the exact rational
`digits / 10^k` rounded to nearest, ties to even, in binary32 / binary64 (`roundNearestEven`, defined
here with core `Rat` / `Int` / `Nat` only); a magnitude that rounds to `2^(emax+1)` or more is an
infinity (Rust's `parse` returns `Ok(inf)`), and the parser answers the parse error `Overflow` for it
(`Ok(f) if f.is_finite()` / `Ok(_) => Err(ParserError::Overflow)`).  A minus sign directly in front of
the literal negates the float (`SingleLiteral(-f)`), i.e. flips the sign and keeps the magnitude; `-.0`
is the negative zero; an `Overflow` stays an `Overflow`.
-/
namespace RbModel.FloatLit
open RbModel.Expr

/-- A binary floating-point format: `prec` significand bits (hidden bit included), exponent of the
smallest normal number `emin` and of the largest binade `emax`. -/
structure Fmt where
  prec : Nat
  emin : Int
  emax : Int
  deriving Repr, DecidableEq

/-- IEEE 754 binary32 (`f32`, SINGLE). -/
def single : Fmt := ⟨24, -126, 127⟩
/-- IEEE 754 binary64 (`f64`, DOUBLE). -/
def double : Fmt := ⟨53, -1022, 1023⟩

/-- `⌊log2 a⌋` for a positive rational: the difference of the bit lengths of numerator and denominator,
or one less (`RbThm.C10Float.ilog2_bracket`). -/
def ilog2 (a : Rat) : Int :=
  let e0 : Int := (a.num.natAbs.log2 : Int) - (a.den.log2 : Int)
  if (2 : Rat) ^ e0 ≤ a then e0 else e0 - 1

/-- Exponent of the unit in the last place at magnitude `a`: the binade of `a`, not below `emin`
(subnormal range), minus `prec - 1`. -/
def qexp (f : Fmt) (a : Rat) : Int := max (ilog2 a) f.emin - ((f.prec : Int) - 1)

/-- The unit in the last place at magnitude `a`. -/
def ulp (f : Fmt) (a : Rat) : Rat := (2 : Rat) ^ qexp f a

/-- Round a rational to the nearest integer, ties to the even one. -/
def rne (s : Rat) : Int :=
  if s - (s.floor : Rat) < 1 / 2 then s.floor
  else if 1 / 2 < s - (s.floor : Rat) then s.floor + 1
  else if s.floor % 2 = 0 then s.floor else s.floor + 1

/-- The integer significand chosen for the magnitude `a` (in units of `ulp f a`). -/
def sigOf (f : Fmt) (a : Rat) : Int := rne (a / ulp f a)

/-- Round a non-negative rational to nearest-even in the format (unbounded above; see `value`). -/
def roundMag (f : Fmt) (a : Rat) : Rat := (sigOf f a : Rat) * ulp f a

/-- Round to nearest, ties to even: sign and magnitude. -/
def roundNearestEven (q : Rat) (f : Fmt) : Rat :=
  if q < 0 then -(roundMag f (-q)) else roundMag f q

/-- A float value: sign and finite magnitude, or an infinity. -/
inductive FVal where
  | fin (neg : Bool) (mag : Rat)
  | inf (neg : Bool)
  deriving Repr, DecidableEq

/-- The float `parse::<f32/f64>` returns for the non-negative decimal `a`: the correctly rounded magnitude,
or `+inf` when that is `2^(emax+1)` or more. -/
def value (f : Fmt) (a : Rat) : FVal :=
  if (2 : Rat) ^ (f.emax + 1) ≤ roundMag f a then .inf false else .fin false (roundMag f a)

/-- Float negation (`-f`): the sign flips, nothing else changes. -/
def FVal.neg : FVal → FVal
  | .fin s m => .fin (!s) m
  | .inf s => .inf (!s)

/-- `f32::is_finite` / `f64::is_finite` (a parsed decimal is never a NaN). -/
def FVal.isFinite : FVal → Bool
  | .fin _ _ => true
  | .inf _ => false

/-- The rational a finite float denotes. -/
def FVal.toRat? : FVal → Option Rat
  | .fin false m => some m
  | .fin true m => some (-m)
  | .inf _ => none

/-- The tokens of a literal with a fraction: the digit values before the point (empty for `.25`), the
digit values after it (the parser demands at least one), and whether `#` follows. -/
structure FracTok where
  intDigits : List Nat
  fracDigits : List Nat
  pound : Bool
  deriving Repr, DecidableEq

/-- A parsed literal with a fraction: `Expression::SingleLiteral` or `Expression::DoubleLiteral`. -/
inductive FLit where
  | single (v : FVal)
  | double (v : FVal)
  deriving Repr, DecidableEq

/-- What the literal parser answers: a literal, or the parse error `ParserError::Overflow`. -/
inductive FRes where
  | ok (l : FLit)
  | overflow
  deriving Repr, DecidableEq

/-- The format the suffix selects: `#` → binary64, none → binary32. -/
def fmtOf (t : FracTok) : Fmt := if t.pound then double else single

/-- The exact decimal the text denotes: all digits read as one number, over `10^k` for `k` fraction digits
(`format!("{}.{}", left, frac)`; the `"0"` substituted for a missing integer part does not change it). -/
def exact (t : FracTok) : Rat :=
  (digitsVal 10 (t.intDigits ++ t.fracDigits) : Rat) / ((10 ^ t.fracDigits.length : Nat) : Rat)

/-- `single_or_double_literal::parser`: `#` present → `parse::<f64>` → `DoubleLiteral`, otherwise
`parse::<f32>` → `SingleLiteral`; a result that is not finite → `Err(ParserError::Overflow)`. -/
def fracLit (t : FracTok) : FRes :=
  if t.pound then
    (if (value double (exact t)).isFinite then .ok (.double (value double (exact t))) else .overflow)
  else
    (if (value single (exact t)).isFinite then .ok (.single (value single (exact t))) else .overflow)

/-- `negative_number_literal`: a minus sign directly followed by a literal with a fraction negates the float
and keeps the type; the error of the literal parser passes through. -/
def negFracLit (t : FracTok) : FRes :=
  match fracLit t with
  | .ok (.single v) => .ok (.single v.neg)
  | .ok (.double v) => .ok (.double v.neg)
  | .overflow => .overflow

def FLit.isDouble : FLit → Bool
  | .single _ => false
  | .double _ => true

def FLit.val : FLit → FVal
  | .single v => v
  | .double v => v

/-- The format of a literal's type. -/
def FLit.fmt : FLit → Fmt
  | .single _ => FloatLit.single
  | .double _ => FloatLit.double

end RbModel.FloatLit
