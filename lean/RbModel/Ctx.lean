/-
Model of the bookkeeping of `rusty_basic/src/interpreter/context.rs` (`Context`: `states`,
`memory_blocks`, `static_memory_blocks`, `MemoryBlock::{increase,decrease}_ref_count`, `do_pop`,
`do_push_new`, `do_push_existing`, `begin_collecting_arguments`, `stop_collecting_arguments`,
`stop_collecting_arguments_static`, `pop`, `push_error_handler_context`, `drop_collecting_arguments`,
`drop_arguments_for_array_allocation`, `variables_mut`, `global_variables_mut`), of the part of
`variables.rs`/`indexed_map.rs` the bookkeeping depends on (`IndexedMap::insert`/`get_or_create`,
`Variables::apply_arguments`, `From<Arguments> for Variables`) and of `arguments.rs` (`push_*`).

The model is written for the tree AFTER the F5 repair: `do_pop` decrements every index stored in
`static_memory_blocks` that lies above a removed block (`shiftStatics`).

Conventions
* `states` is kept with the TOP of the Rust `Vec` at the HEAD of the list (`Vec::push` = cons,
  `Vec::pop` = tail); the driver prints it bottom first, as the hook does.
* `blocks` is in index order; `Vec::remove i` = `List.eraseIdx i`, `Vec::push` = `++ [b]`.
* `statics` is the `HashMap<ScopeName, usize>` as an association list (new keys appended; keys are
  never re-inserted by the code, see `stopCollectStatic`).
* names (variables, parameters, scope names) are natural numbers, values are integers: the
  bookkeeping never looks inside a value. An argument is a pair (parameter name, value); unnamed
  arguments carry their dummy name (`insert_unnamed` uses the running count, which is fresh).
* every place where the Rust code would panic returns an explicit `Fail`.
-/
namespace RbModel.Ctx

/-- `Variables` / `IndexedMap<Name, _>`: entries in insertion order. -/
abbrev Vars := List (Nat × Int)

/-- `IndexedMap::insert`: overwrite in place if the key exists, else append. -/
def Vars.insert : Vars → Nat → Int → Vars
  | [], k, v => [(k, v)]
  | (k', v') :: r, k, v => if k' = k then (k, v) :: r else (k', v') :: Vars.insert r k v

/-- `IndexedMap::get` (value by key). -/
def Vars.get? : Vars → Nat → Option Int
  | [], _ => none
  | (k', v') :: r, k => if k' = k then some v' else Vars.get? r k

/-- `Variables::get_or_create` (default value 0; only the creation matters for the bookkeeping). -/
def Vars.touch (vs : Vars) (k : Nat) : Vars :=
  match vs.get? k with
  | some _ => vs
  | none => vs ++ [(k, 0)]

/-- `Variables::apply_arguments`: the arguments are inserted in order. -/
def Vars.applyArgs : Vars → List (Nat × Int) → Vars
  | vs, [] => vs
  | vs, (p, v) :: r => Vars.applyArgs (Vars.insert vs p v) r

/-- `impl From<Arguments> for Variables`. -/
def Vars.ofArgs (a : List (Nat × Int)) : Vars := Vars.applyArgs [] a

/-- `State`: `memory_block_index`, `arguments` (`Some` = collecting arguments). -/
structure St where
  blk : Nat
  args : Option (List (Nat × Int))
  deriving DecidableEq, Repr

/-- `MemoryBlock`. -/
structure Blk where
  rc : Nat
  isStatic : Bool
  vars : Vars
  deriving DecidableEq, Repr

structure Ctx where
  /-- head = top of the Rust vector -/
  states : List St
  blocks : List Blk
  statics : List (Nat × Nat)
  deriving DecidableEq, Repr

/-- The panics of the Rust code. -/
inductive Fail where
  /-- `states.pop().expect("States underflow")`, `states.last().expect("Empty states!")` -/
  | statesUnderflow
  /-- `self.memory_blocks[i]` out of bounds -/
  | indexOOB
  /-- `.expect("Expected argument state")` / `"Expected state with arguments"` -/
  | expectedArgumentState
  /-- `panic!("Expected normal state")` -/
  | expectedNormalState
  /-- `.expect("Not collecting arguments!")` -/
  | notCollecting
  /-- `.expect("internal error")` in `variables_mut` -/
  | internalError
  deriving DecidableEq, Repr

/-- `Context::new`. -/
def init : Ctx := ⟨[⟨0, none⟩], [⟨1, false, []⟩], []⟩

/-- `MemoryBlock::decrease_ref_count`: the block afterwards and "can be removed". -/
def Blk.decRc (b : Blk) : Blk × Bool :=
  if 1 < b.rc then ({ b with rc := b.rc - 1 }, false) else (b, !b.isStatic)

/-- `MemoryBlock::increase_ref_count`. -/
def Blk.incRc (b : Blk) : Blk := { b with rc := b.rc + 1 }

/-- The repair of F5 inside `do_pop`: indices above the removed block follow the shift. -/
def shiftStatics (i : Nat) (m : List (Nat × Nat)) : List (Nat × Nat) :=
  m.map fun e => (e.1, if i < e.2 then e.2 - 1 else e.2)

/-- `Context::do_pop`. -/
def doPop (c : Ctx) : Except Fail (St × Ctx) :=
  match c.states with
  | [] => .error .statesUnderflow
  | s :: rest =>
    match c.blocks[s.blk]? with
    | none => .error .indexOOB
    | some b =>
      if (Blk.decRc b).2 then
        .ok (s, ⟨rest, c.blocks.eraseIdx s.blk, shiftStatics s.blk c.statics⟩)
      else
        .ok (s, ⟨rest, c.blocks.set s.blk (Blk.decRc b).1, c.statics⟩)

/-- `Context::do_push_existing`. -/
def doPushExisting (c : Ctx) (i : Nat) (collecting : Bool) : Except Fail Ctx :=
  match c.blocks[i]? with
  | none => .error .indexOOB
  | some b =>
    .ok ⟨⟨i, if collecting then some [] else none⟩ :: c.states, c.blocks.set i (Blk.incRc b), c.statics⟩

/-- `Context::do_push_new` (the new index is `c.blocks.length`). -/
def doPushNew (c : Ctx) (vars : Vars) (isStatic : Bool) : Ctx :=
  ⟨⟨c.blocks.length, none⟩ :: c.states, c.blocks ++ [⟨1, isStatic, vars⟩], c.statics⟩

/-- `HashMap::get` on `static_memory_blocks`. -/
def lookupStatic : List (Nat × Nat) → Nat → Option Nat
  | [], _ => none
  | (n', i) :: r, n => if n' = n then some i else lookupStatic r n

/-- `Context::begin_collecting_arguments`. -/
def beginCollect (c : Ctx) : Except Fail Ctx :=
  match c.states with
  | [] => .error .statesUnderflow
  | s :: _ => doPushExisting c s.blk true

/-- `Context::stop_collecting_arguments`. -/
def stopCollect (c : Ctx) : Except Fail Ctx :=
  match doPop c with
  | .error e => .error e
  | .ok (s, c') =>
    match s.args with
    | none => .error .expectedArgumentState
    | some a => .ok (doPushNew c' (Vars.ofArgs a) false)

/-- `Context::stop_collecting_arguments_static`. -/
def stopCollectStatic (n : Nat) (c : Ctx) : Except Fail Ctx :=
  match doPop c with
  | .error e => .error e
  | .ok (s, c') =>
    match s.args with
    | none => .error .expectedArgumentState
    | some a =>
      match lookupStatic c'.statics n with
      | some i =>
        match c'.blocks[i]? with
        | none => .error .indexOOB
        | some b =>
          doPushExisting { c' with blocks := c'.blocks.set i { b with vars := Vars.applyArgs b.vars a } } i false
      | none =>
        let c'' := doPushNew c' (Vars.ofArgs a) true
        .ok { c'' with statics := c''.statics ++ [(n, c'.blocks.length)] }

/-- `Context::pop`. -/
def pop (c : Ctx) : Except Fail Ctx :=
  match doPop c with
  | .error e => .error e
  | .ok (s, c') =>
    match s.args with
    | some _ => .error .expectedNormalState
    | none => .ok c'

/-- `Context::drop_collecting_arguments`: the loop
`while self.states.last().unwrap().arguments.is_some() { self.do_pop(); }`
(called by `push_error_handler_context` and, since the repair of the error path, by
`Interpreter::abandon_failed_call`). `fuel` = number of states (every iteration pops one). -/
def dropCollecting : Nat → Ctx → Except Fail Ctx
  | fuel, c =>
    match c.states with
    | [] => .error .statesUnderflow
    | s :: _ =>
      match s.args with
      | none => .ok c
      | some _ =>
        match fuel with
        | 0 => .error .statesUnderflow
        | f + 1 =>
          match doPop c with
          | .error e => .error e
          | .ok (_, c') => dropCollecting f c'

/-- `Context::drop_collecting_arguments` with the fuel it needs. -/
def dropCollectingArguments (c : Ctx) : Except Fail Ctx := dropCollecting c.states.length c

/-- `Context::push_error_handler_context`. -/
def pushErrorHandler (c : Ctx) : Except Fail Ctx :=
  match dropCollecting c.states.length c with
  | .error e => .error e
  | .ok c' => doPushExisting c' 0 false

/-- `Context::drop_arguments_for_array_allocation` (the arguments themselves are returned to the
caller in Rust; the context afterwards is what matters here). -/
def dropArgumentsForArray (c : Ctx) : Except Fail Ctx :=
  match doPop c with
  | .error e => .error e
  | .ok (s, c') =>
    match s.args with
    | none => .error .expectedArgumentState
    | some _ => .ok c'

/-- `arguments_mut().push_named / push_unnamed_by_val / push_unnamed_by_ref`. -/
def pushArg (p : Nat) (v : Int) (c : Ctx) : Except Fail Ctx :=
  match c.states with
  | [] => .error .statesUnderflow
  | s :: rest =>
    match s.args with
    | none => .error .notCollecting
    | some a => .ok { c with states := { s with args := some (a ++ [(p, v)]) } :: rest }

/-- The block a root path resolves to: `global_variables_mut` (shared) or `variables_mut`. -/
def targetBlock (shared : Bool) (c : Ctx) : Except Fail Nat :=
  if shared then .ok 0
  else match c.states with
    | [] => .error .statesUnderflow
    | s :: _ => .ok s.blk

/-- Applies `f` to the variables of the block a root path resolves to. -/
def modifyVars (shared : Bool) (f : Vars → Vars) (c : Ctx) : Except Fail Ctx :=
  match targetBlock shared c with
  | .error e => .error e
  | .ok i =>
    match c.blocks[i]? with
    | none => .error .internalError
    | some b => .ok { c with blocks := c.blocks.set i { b with vars := f b.vars } }

/-- The variables of block `i` (empty when out of range; in range in every reachable context). -/
def varsAt (c : Ctx) (i : Nat) : Vars :=
  match c.blocks[i]? with
  | some b => b.vars
  | none => []

/-- `Context::variables()` — what the running code sees as "its" variables. -/
def curVars (c : Ctx) : Vars :=
  match c.states with
  | [] => []
  | s :: _ => varsAt c s.blk

/-- The operations of a call history. -/
inductive Op where
  | beginCollect
  | pushArg (p : Nat) (v : Int)
  | stopCollect
  | stopCollectStatic (n : Nat)
  | pop
  | pushErrorHandler
  | dropArgumentsForArray
  /-- `drop_collecting_arguments` (a handled error abandons the calls whose arguments were being
  evaluated) -/
  | dropCollecting
  /-- store through a root path (`resolve_some_name_ptr_mut` + assignment) -/
  | setVar (shared : Bool) (k : Nat) (v : Int)
  /-- `get_or_create` through a root path without assignment (reads, `StashFunctionReturnValue`) -/
  | touch (shared : Bool) (k : Nat)
  deriving DecidableEq, Repr

def step : Op → Ctx → Except Fail Ctx
  | .beginCollect, c => beginCollect c
  | .pushArg p v, c => pushArg p v c
  | .stopCollect, c => stopCollect c
  | .stopCollectStatic n, c => stopCollectStatic n c
  | .pop, c => pop c
  | .pushErrorHandler, c => pushErrorHandler c
  | .dropArgumentsForArray, c => dropArgumentsForArray c
  | .dropCollecting, c => dropCollectingArguments c
  | .setVar sh k v, c => modifyVars sh (fun vs => Vars.insert vs k v) c
  | .touch sh k, c => modifyVars sh (fun vs => Vars.touch vs k) c

def run : List Op → Ctx → Except Fail Ctx
  | [], c => .ok c
  | op :: ops, c =>
    match step op c with
    | .error e => .error e
    | .ok c' => run ops c'

/-! ### Well-bracketed histories

What the instruction generator guarantees about the ORDER of context operations, stated on the
stack of state kinds alone (`true` = argument-collecting state), independently of `Ctx`:
`PushStack`/`PushStaticStack`/`AllocateArrayIntoA`/`PushNamed` only follow a
`BeginCollectArguments` of the same call, `PopStack`/`Resume*`/the pop of a failed built-in's frame only pop a normal state and never
the root state. -/

def wbStep : Op → List Bool → Option (List Bool)
  | .beginCollect, k => some (true :: k)
  | .pushArg _ _, true :: k => some (true :: k)
  | .stopCollect, true :: k => some (false :: k)
  | .stopCollectStatic _, true :: k => some (false :: k)
  | .pop, false :: k => if k = [] then none else some k
  | .pushErrorHandler, k => some (false :: k.dropWhile id)
  | .dropArgumentsForArray, true :: k => some k
  | .dropCollecting, k => some (k.dropWhile id)
  | .setVar _ _ _, k => some k
  | .touch _ _, k => some k
  | _, _ => none

def wbRun : List Op → List Bool → Option (List Bool)
  | [], k => some k
  | op :: ops, k =>
    match wbStep op k with
    | none => none
    | some k' => wbRun ops k'

/-- Well-bracketed from the initial context (one normal root state). -/
def WB (ops : List Op) : Prop := (wbRun ops [false]).isSome = true

instance (ops : List Op) : Decidable (WB ops) := by unfold WB; infer_instance

/-! ### The abstract specification -/

/-- One activation as the language sees it. -/
inductive AFrame where
  /-- the main module, or an error handler running on the global frame -/
  | global
  /-- a call whose arguments are being evaluated; it runs on the frame below it -/
  | collect (args : List (Nat × Int))
  /-- an activation of an ordinary subprogram, owning its variables -/
  | «local» (vars : Vars)
  /-- an activation of STATIC subprogram `n`; its variables live in `AbsCtx.statics` -/
  | static (n : Nat)
  deriving DecidableEq, Repr

structure AbsCtx where
  /-- head = innermost activation -/
  stack : List AFrame
  /-- the persistent frame of every STATIC subprogram entered so far -/
  statics : List (Nat × Vars)
  /-- the global frame (main module, DIM SHARED, error handlers) -/
  global : Vars
  deriving DecidableEq, Repr

/-- Reverse lookup: the STATIC subprogram owning block `i`. -/
def ownerOf : List (Nat × Nat) → Nat → Option Nat
  | [], _ => none
  | (n, j) :: r, i => if j = i then some n else ownerOf r i

def absFrame (c : Ctx) (s : St) : AFrame :=
  match s.args with
  | some a => .collect a
  | none =>
    if s.blk = 0 then .global
    else match ownerOf c.statics s.blk with
      | some n => .static n
      | none => .local (varsAt c s.blk)

def abs (c : Ctx) : AbsCtx :=
  { stack := c.states.map (absFrame c)
    statics := c.statics.map fun e => (e.1, varsAt c e.2)
    global := varsAt c 0 }

def alookup : List (Nat × Vars) → Nat → Option Vars
  | [], _ => none
  | (n', v) :: r, n => if n' = n then some v else alookup r n

/-- Replace the frame of `n` (which exists). -/
def aupdate : List (Nat × Vars) → Nat → Vars → List (Nat × Vars)
  | [], _, _ => []
  | (n', v') :: r, n, v => if n' = n then (n, v) :: r else (n', v') :: aupdate r n v

/-- Apply `f` to the frame the innermost activation runs on (collecting frames run on the frame
below them). -/
def aModifyCur (f : Vars → Vars) (a : AbsCtx) : List AFrame → Option AbsCtx
  | [] => none
  | .collect _ :: r => (aModifyCur f a r).map fun a' => a'
  | .global :: _ => some { a with global := f a.global }
  | .local _ :: _ => none   -- handled by `aModifyStack` (needs the position)
  | .static n :: _ =>
    match alookup a.statics n with
    | some v => some { a with statics := aupdate a.statics n (f v) }
    | none => none

/-- Rewrites the first non-collecting frame if it is local. -/
def modifyFirstLocal (f : Vars → Vars) : List AFrame → List AFrame
  | [] => []
  | .collect x :: r => .collect x :: modifyFirstLocal f r
  | .local v :: r => .local (f v) :: r
  | fr :: r => fr :: r

/-- The first non-collecting frame. -/
def firstNormal : List AFrame → Option AFrame
  | [] => none
  | .collect _ :: r => firstNormal r
  | fr :: _ => some fr

def aModify (shared : Bool) (f : Vars → Vars) (a : AbsCtx) : Option AbsCtx :=
  if shared then some { a with global := f a.global }
  else match firstNormal a.stack with
    | none => none
    | some .global => some { a with global := f a.global }
    | some (.local _) => some { a with stack := modifyFirstLocal f a.stack }
    | some (.static n) =>
      (match alookup a.statics n with
       | some v => some { a with statics := aupdate a.statics n (f v) }
       | none => none)
    | some (.collect _) => none

def isCollect : AFrame → Bool
  | .collect _ => true
  | _ => false

/-- The specification of every operation on the abstract context (`none` = not allowed). -/
def aStep : Op → AbsCtx → Option AbsCtx
  | .beginCollect, a => some { a with stack := .collect [] :: a.stack }
  | .pushArg p v, a =>
    match a.stack with
    | .collect x :: r => some { a with stack := .collect (x ++ [(p, v)]) :: r }
    | _ => none
  | .stopCollect, a =>
    match a.stack with
    | .collect x :: r => some { a with stack := .local (Vars.ofArgs x) :: r }
    | _ => none
  | .stopCollectStatic n, a =>
    match a.stack with
    | .collect x :: r =>
      (match alookup a.statics n with
       | some v => some { a with stack := .static n :: r, statics := aupdate a.statics n (Vars.applyArgs v x) }
       | none => some { a with stack := .static n :: r, statics := a.statics ++ [(n, Vars.ofArgs x)] })
    | _ => none
  | .pop, a =>
    match a.stack with
    | .collect _ :: _ => none
    | _ :: r => some { a with stack := r }
    | [] => none
  | .pushErrorHandler, a => some { a with stack := .global :: a.stack.dropWhile isCollect }
  | .dropArgumentsForArray, a =>
    match a.stack with
    | .collect _ :: r => some { a with stack := r }
    | _ => none
  | .dropCollecting, a => some { a with stack := a.stack.dropWhile isCollect }
  | .setVar sh k v, a => aModify sh (fun vs => Vars.insert vs k v) a
  | .touch sh k, a => aModify sh (fun vs => Vars.touch vs k) a

/-- The variables the innermost activation runs on, read off the abstract context. -/
def aCurVars (a : AbsCtx) : Vars :=
  match firstNormal a.stack with
  | some .global => a.global
  | some (.local v) => v
  | some (.static n) => (alookup a.statics n).getD []
  | _ => []

/-! ### The pinned (unrepaired) `do_pop`, kept for the F5 witness -/

/-- `do_pop` as it was before the repair: `Vec::remove` without touching `static_memory_blocks`. -/
def doPopOld (c : Ctx) : Except Fail (St × Ctx) :=
  match c.states with
  | [] => .error .statesUnderflow
  | s :: rest =>
    match c.blocks[s.blk]? with
    | none => .error .indexOOB
    | some b =>
      if (Blk.decRc b).2 then .ok (s, ⟨rest, c.blocks.eraseIdx s.blk, c.statics⟩)
      else .ok (s, ⟨rest, c.blocks.set s.blk (Blk.decRc b).1, c.statics⟩)

/-- `step` with the pinned `do_pop` in `pop`/`stopCollect*`/`dropArgumentsForArray`
(the F5 witness; `pushErrorHandler`/`dropArgumentsForArray` are not needed for it). -/
def stepOld : Op → Ctx → Except Fail Ctx
  | .pop, c =>
    match doPopOld c with
    | .error e => .error e
    | .ok (s, c') => (match s.args with | some _ => .error .expectedNormalState | none => .ok c')
  | .stopCollect, c =>
    match doPopOld c with
    | .error e => .error e
    | .ok (s, c') =>
      (match s.args with
       | none => .error .expectedArgumentState
       | some a => .ok (doPushNew c' (Vars.ofArgs a) false))
  | .stopCollectStatic n, c =>
    match doPopOld c with
    | .error e => .error e
    | .ok (s, c') =>
      (match s.args with
       | none => .error .expectedArgumentState
       | some a =>
         match lookupStatic c'.statics n with
         | some i =>
           (match c'.blocks[i]? with
            | none => .error .indexOOB
            | some b =>
              doPushExisting { c' with blocks := c'.blocks.set i { b with vars := Vars.applyArgs b.vars a } } i false)
         | none =>
           let c'' := doPushNew c' (Vars.ofArgs a) true
           .ok { c'' with statics := c''.statics ++ [(n, c'.blocks.length)] })
  | op, c => step op c

def runOld : List Op → Ctx → Except Fail Ctx
  | [], c => .ok c
  | op :: ops, c =>
    match stepOld op c with
    | .error e => .error e
    | .ok c' => runOld ops c'

end RbModel.Ctx
