/-!
C08 — outcome classes of a run, and the shape of the two extracted tables.

* `RtErr` transcribes the variants of `rusty_basic::RuntimeError` (interpreter/error.rs); the graph of
  `RuntimeError::get_code` over them is extracted into `Gen/ErrorCodes.lean` (every variant is
  constructed and `get_code` is called under `catch_unwind`; a panic gives `none`).
* `BI` names every built-in function and sub (`rusty_parser::{BuiltInFunction, BuiltInSub}` plus the
  file forms of INPUT / LINE INPUT; INKEY$ is left out: it needs a keyboard).  For each of them
  `Gen/BuiltinTables.lean` lists every argument tuple (type x shape, arity <= 3) that the real
  parser + linter accept, with the classes of run-time outcome seen on the representative values.

Nothing here is a model of an algorithm: the definitions are the record types of the tables and the
lookups the theorems of `Thm/C08.lean` are stated with.  Core imports only.
-/
namespace RbModel.Outcome

/-- variants of `rusty_basic::RuntimeError` -/
inductive RtErr where
  | badFileMode | badFileNameOrNumber | badRecordLength | badRecordNumber | divisionByZero
  | elementNotDefined | fieldOverflow | fileAlreadyOpen | fileNotFound | forLoopZeroStep
  | deviceIOError | illegalFunctionCall | inputPastEndOfFile | linterError | outOfData | outOfMemory | overflow
  | returnWithoutGoSub | subscriptOutOfRange | typeMismatch | variableRequired | other
  | resumeWithoutError
  deriving DecidableEq, Repr, Inhabited

/-- every variant, in declaration order -/
def RtErr.all : List RtErr :=
  [.badFileMode, .badFileNameOrNumber, .badRecordLength, .badRecordNumber, .divisionByZero,
   .elementNotDefined, .fieldOverflow, .fileAlreadyOpen, .fileNotFound, .forLoopZeroStep,
   .deviceIOError, .illegalFunctionCall, .inputPastEndOfFile, .linterError, .outOfData, .outOfMemory,
   .overflow,
   .returnWithoutGoSub, .subscriptOutOfRange, .typeMismatch, .variableRequired, .other,
   .resumeWithoutError]

/-- name as printed by Rust's `Debug` (used by the line protocol) -/
def RtErr.name : RtErr → String
  | .badFileMode => "BadFileMode" | .badFileNameOrNumber => "BadFileNameOrNumber"
  | .badRecordLength => "BadRecordLength" | .badRecordNumber => "BadRecordNumber"
  | .divisionByZero => "DivisionByZero" | .elementNotDefined => "ElementNotDefined"
  | .fieldOverflow => "FieldOverflow" | .fileAlreadyOpen => "FileAlreadyOpen"
  | .fileNotFound => "FileNotFound" | .forLoopZeroStep => "ForLoopZeroStep"
  | .deviceIOError => "DeviceIOError" | .illegalFunctionCall => "IllegalFunctionCall"
  | .inputPastEndOfFile => "InputPastEndOfFile" | .linterError => "LinterError"
  | .outOfData => "OutOfData" | .outOfMemory => "OutOfMemory" | .overflow => "Overflow"
  | .returnWithoutGoSub => "ReturnWithoutGoSub" | .subscriptOutOfRange => "SubscriptOutOfRange"
  | .typeMismatch => "TypeMismatch" | .variableRequired => "VariableRequired" | .other => "Other"
  | .resumeWithoutError => "ResumeWithoutError"

/-- how a run ends -/
inductive Class where
  /-- normal termination -/
  | ok
  /-- BASIC run-time error with its numeric code -/
  | basicError (code : Nat)
  /-- the instruction budget ran out -/
  | timeout
  /-- panic / abort inside generator or interpreter -/
  | internalFailure
  deriving DecidableEq, Repr, Inhabited

/-- the two outcomes the property allows (a run cut by the budget is neither) -/
def Class.isBasicLevel : Class → Bool
  | .ok => true
  | .basicError _ => true
  | _ => false

/-- built-in functions and subs -/
inductive BI where
  | chr | cvd | environFn | eof | err | instr | lbound | lcase | left | len | ltrim | mid | mkd | peek
  | right | rtrim | space | str | string | ubound | ucase | val | varptr | varseg
  | beep | callAbsolute | close | cls | color | defSeg | environSub | field | get | input | inputFile
  | kill | lineInput | lineInputFile | locate | lset | name | open | poke | put | read | screen
  | viewPrint | width
  deriving DecidableEq, Repr, Inhabited

/-- what stands in an argument position: a scalar of one of the five built-in types, or one of the
non-scalar kinds of `harness/src/builtins.rs::odd_kinds` (record variable, record-typed array element,
record-valued field, whole array with and without `()`, fixed-length string, record field of each type,
call of an undefined function, variable never assigned) -/
inductive Ty where
  | int | long | sgl | dbl | str
  | recordVariable | recordArrayElement | nestedRecordVariable | recordValuedField | recordValuedFieldOfArrayElement | wholeArrayInt | wholeArrayIntParens | wholeArrayStr | wholeArrayStrParens | wholeArrayDbl2 | wholeArrayDbl2Parens | wholeArrayRecord | wholeArrayRecordParens | wholeArrayFixedStringParens | fixedStringVariable | fixedStringArrayElement | fieldInt | fieldLong | fieldSingle | fieldDouble | fieldFixedString | fieldOfArrayElement | nestedField | undefinedFunction | undefinedFunctionStr | undefinedFunctionInt2 | unassignedVariable | unassignedVariableStr
  deriving DecidableEq, Repr, Inhabited

/-- argument shape: a variable, or a literal / constant expression; for the non-scalar kinds `var` is the
bare form and `lit` the same in parentheses -/
inductive Sh where
  | var | lit
  deriving DecidableEq, Repr, Inhabited

/-- what is open on file handle 1 when the statement runs -/
inductive Ctx where
  | noFile | fileIn | fileOut | fileRnd
  deriving DecidableEq, Repr, Inhabited

/-- one accepted call form with what running it on the representative values gave -/
structure Row where
  ctx : Ctx
  args : List (Ty × Sh)
  /-- number of runs (value combinations / console inputs / DATA lines) -/
  runs : Nat
  oks : Nat
  /-- distinct BASIC error codes seen -/
  codes : List Nat
  errs : Nat
  timeouts : Nat
  panics : Nat
  deriving Repr, Inhabited

/-- the outcome classes seen for the row -/
def Row.classes (r : Row) : List Class :=
  (if r.oks > 0 then [Class.ok] else []) ++ r.codes.map Class.basicError ++
  (if r.timeouts > 0 then [Class.timeout] else []) ++ (if r.panics > 0 then [Class.internalFailure] else [])

/-- the table of one built-in: `tried` argument tuples were given to the real parser + linter,
`rows` are the accepted ones -/
structure Table where
  bi : BI
  tried : Nat
  rows : List Row
  deriving Repr, Inhabited

def Row.matches (r : Row) (ctx : Ctx) (args : List (Ty × Sh)) : Bool :=
  decide (r.ctx = ctx) && decide (r.args = args)

def findRow (tables : List Table) (bi : BI) (ctx : Ctx) (args : List (Ty × Sh)) : Option Row :=
  match tables.find? (fun t => decide (t.bi = bi)) with
  | some t => t.rows.find? (fun r => r.matches ctx args)
  | none => none

/-- the real parser + linter accepted the call form (`false` outside the extracted domain as well) -/
def lintAccepts (tables : List Table) (bi : BI) (ctx : Ctx) (args : List (Ty × Sh)) : Bool :=
  (findRow tables bi ctx args).isSome

/-- run-time outcome classes seen for the call form -/
def runtimeClasses (tables : List Table) (bi : BI) (ctx : Ctx) (args : List (Ty × Sh)) : List Class :=
  match findRow tables bi ctx args with
  | some r => r.classes
  | none => []

/-- the row-wise condition the contract theorem is decided with -/
def Row.clean (r : Row) : Bool := r.panics == 0

def Row.terminates (r : Row) : Bool := r.timeouts == 0

def Row.consistent (r : Row) : Bool :=
  r.runs == r.oks + r.errs + r.timeouts + r.panics && (r.errs == 0) == r.codes.isEmpty && r.runs > 0

/-- the numeric code of a `RuntimeError` variant according to a table (`none`: `get_code` panicked
or the variant is missing) -/
def codeOf (rows : List (RtErr × Option Nat)) (e : RtErr) : Option Nat :=
  match rows.find? (fun r => decide (r.1 = e)) with
  | some r => r.2
  | none => none

end RbModel.Outcome
