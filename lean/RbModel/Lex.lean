import Gen.Keywords
/-!
C09 — the lexical layer of rusty-basic.

Characters and bytes are natural numbers (`char as u32`, `u8`); every predicate below only looks at the
ASCII range, exactly like the `is_ascii_*` / `to_ascii_uppercase` calls of the code.

Ports:
* `upper`                   — `u8::to_ascii_uppercase` / `char::to_ascii_uppercase`
* `cmpStr`                  — `rusty_common::cmp_str` (`cmp_bytes` loop) in case_insensitive_utils.rs
* `hashStr`                 — `rusty_common::hash_str`: the sequence of bytes written to the `Hasher`
* `bsearch`, `kwLookup`     — `Keyword::try_from(&str)` = `SORTED_KEYWORDS_STR.binary_search_by(|p| cmp_str(p, s))`
                              over the extracted table `RbGen.keywords` (rusty_parser/src/core/keyword.rs)
* `lexOne`                  — `rusty_parser::tokens::any_token()` (any_token.rs: eol, whitespace, digits,
                              any_keyword, identifier, oct_digits, hex_digits, gt_or_ge, lt_or_le_or_ne, equals,
                              any_symbol, in this order, first success wins, soft failures backtrack)
* `lex`                     — repeated `any_token()` until end of input (the tokenizer has no fatal error:
                              identifier tokens have any length)
* `nameTooLong`             — the length check of `rusty_parser/src/core/name.rs::identifier` (names only)
* `commonSeparator`         — `common_separator()` of rusty_parser/src/core/statement_separator.rs, on tokens
* `charToAlphabetIndex`     — `char_to_alphabet_index` of rusty_linter/src/core/type_resolver_impl.rs
* `norm`                    — NOT a port: the token-level normal form the property is stated with.
-/
namespace RbModel.Lex

/-! ### characters -/

def upper (c : Nat) : Nat := if 97 ≤ c ∧ c ≤ 122 then c - 32 else c
def lower (c : Nat) : Nat := if 65 ≤ c ∧ c ≤ 90 then c + 32 else c

def isLetter (c : Nat) : Bool := (65 ≤ c && c ≤ 90) || (97 ≤ c && c ≤ 122)
def isDigit (c : Nat) : Bool := 48 ≤ c && c ≤ 57
def isWs (c : Nat) : Bool := c == 32 || c == 9
def isOct (c : Nat) : Bool := 48 ≤ c && c ≤ 55
def isHex (c : Nat) : Bool := isDigit c || (65 ≤ c && c ≤ 70) || (97 ≤ c && c ≤ 102)
def isAlnum (c : Nat) : Bool := isLetter c || isDigit c
/-- `is_allowed_char_in_identifier` -/
def isIdentChar (c : Nat) : Bool := isAlnum c || c == 46

/-! ### rusty_common: case-insensitive comparison and hashing -/

/-- `cmp_bytes`: compare the folded bytes position by position; the shorter string is smaller. -/
def cmpStr : List Nat → List Nat → Ordering
  | [], [] => .eq
  | [], _ :: _ => .lt
  | _ :: _, [] => .gt
  | a :: as, b :: bs =>
    match compare (upper a) (upper b) with
    | .eq => cmpStr as bs
    | o => o

/-- `hash_str`: the bytes fed to the hasher, one `write_u8` per byte, nothing else. -/
def hashStr (s : List Nat) : List Nat := s.map upper

/-- `CaseInsensitiveString::eq` -/
def ciEq (a b : List Nat) : Bool := cmpStr a b == .eq

/-! ### keyword lookup -/

/-- Binary search of `s` in `t` with the comparator `fun probe => cmpStr probe s`
(`Less` → continue to the right of the probe). `fuel` bounds the number of probes. -/
def bsearch (t : List (List Nat)) (s : List Nat) : Nat → Nat → Nat → Option Nat
  | 0, _, _ => none
  | fuel + 1, lo, hi =>
    if lo < hi then
      let mid := lo + (hi - lo) / 2
      match t[mid]? with
      | none => none
      | some p =>
        match cmpStr p s with
        | .eq => some mid
        | .lt => bsearch t s fuel (mid + 1) hi
        | .gt => bsearch t s fuel lo mid
    else none

/-- `Keyword::try_from(s).ok()` as the row number in the keyword table. -/
def kwLookup (s : List Nat) : Option Nat :=
  bsearch RbGen.keywords s (RbGen.keywords.length + 1) 0 RbGen.keywords.length

def isKeyword (s : List Nat) : Bool := (kwLookup s).isSome

/-! ### tokens -/

inductive Kind where
  | eol | ws | digits | ge | gt | le | lt | eq | ne | keyword | ident | oct | hex | symbol
  deriving DecidableEq, Repr, Inhabited

structure Tok where
  kind : Kind
  text : List Nat
  deriving DecidableEq, Repr, Inhabited

/-- Result of one `any_token()` call. -/
inductive Step where
  | eof
  | tok (k : Kind) (n : Nat)
  deriving DecidableEq, Repr

/-- `is_allowed_char_after_keyword`, applied to the peeked character (`none` = end of input). -/
def allowedAfterKeyword : Option Nat → Bool
  | none => true
  | some c => c != 46 && c != 36 && !isAlnum c

/-- `oct_or_hex_digits` after `&` and the radix letter: optional `-`, then at least one digit. -/
def radixLen (p : Nat → Bool) (ds : List Nat) : Option Nat :=
  match ds with
  | d :: t =>
    if d = 45 then
      (if (t.takeWhile p).length = 0 then none else some (3 + (t.takeWhile p).length))
    else
      (if (ds.takeWhile p).length = 0 then none else some (2 + (ds.takeWhile p).length))
  | [] => none

def nextIs (cs : List Nat) (d : Nat) : Bool := cs.head? == some d

/-- The token `&…` starts: `&O` octal, `&H` hexadecimal (radix letter in either case), else the symbol `&`. -/
def ampersand (cs : List Nat) : Step :=
  match cs with
  | r :: ds =>
    if upper r = 79 then
      match radixLen isOct ds with
      | some n => .tok .oct n
      | none => .tok .symbol 1
    else if upper r = 72 then
      match radixLen isHex ds with
      | some n => .tok .hex n
      | none => .tok .symbol 1
    else .tok .symbol 1
  | [] => .tok .symbol 1

/-- A run of letters starts here: keyword if the whole run is one and the next character allows it,
otherwise an identifier (letter, then letters / digits / dots; any length). -/
def word (c : Nat) (cs : List Nat) : Step :=
  if isKeyword (c :: cs.takeWhile isLetter) && allowedAfterKeyword (cs.dropWhile isLetter).head? then
    .tok .keyword (1 + (cs.takeWhile isLetter).length)
  else .tok .ident (1 + (cs.takeWhile isIdentChar).length)

/-- One call of `any_token()`: kind and length of the token at the front of the input. -/
def lexOne : List Nat → Step
  | [] => .eof
  | c :: cs =>
    if c = 13 then (if nextIs cs 10 then .tok .eol 2 else .tok .eol 1)
    else if c = 10 then .tok .eol 1
    else if isWs c then .tok .ws (1 + (cs.takeWhile isWs).length)
    else if isDigit c then .tok .digits (1 + (cs.takeWhile isDigit).length)
    else if isLetter c then word c cs
    else if c = 38 then ampersand cs
    else if c = 62 then (if nextIs cs 61 then .tok .ge 2 else .tok .gt 1)
    else if c = 60 then
      (if nextIs cs 62 then .tok .ne 2 else if nextIs cs 61 then .tok .le 2 else .tok .lt 1)
    else if c = 61 then .tok .eq 1
    else .tok .symbol 1

/-- All tokens, with explicit fuel (one unit per token). -/
def lexF : Nat → List Nat → List Tok
  | 0, _ => []
  | n + 1, s =>
    match lexOne s with
    | .eof => []
    | .tok k m => ⟨k, s.take m⟩ :: lexF n (s.drop m)

/-- Every token consumes at least one character, so `s.length` units of fuel are enough. -/
def lex (s : List Nat) : List Tok := lexF s.length s

/-- `core::name::identifier`: an identifier token used as a name (variable, label, SUB, FUNCTION, TYPE, element)
is rejected with `IdentifierTooLong` when it has more than 40 characters. -/
def nameTooLong (t : Tok) : Bool := 40 < t.text.length

/-! ### the separator between statements (`common_separator`) -/

def Tok.isWsTok (t : Tok) : Bool := t.kind == .ws
def Tok.isEolTok (t : Tok) : Bool := t.kind == .eol
def Tok.isSym (t : Tok) (c : Nat) : Bool := t.kind == .symbol && t.text == [c]
/-- `any_token_of!(TokenType::Eol ; symbols = ':')` -/
def Tok.isSepStart (t : Tok) : Bool := t.isEolTok || t.isSym 58
/-- `any_token_of!(TokenType::Eol, TokenType::Whitespace)` -/
def Tok.isEolWs (t : Tok) : Bool := t.isEolTok || t.isWsTok

/-- `opt_ws` -/
def skipWs : List Tok → List Tok
  | t :: r => if t.isWsTok then r else t :: r
  | [] => []

/-- `common_separator()`: the remaining tokens on success, `none` on (soft) failure.
`ws? (eol | ':') (ws | eol)*`, or `ws?` in front of a `'` that is left unread. -/
def commonSeparator (ts : List Tok) : Option (List Tok) :=
  match skipWs ts with
  | t :: r =>
    if t.isSepStart then some (r.dropWhile Tok.isEolWs)
    else if t.isSym 39 then some (t :: r)
    else none
  | [] => none

/-! ### DEFtype letter index -/

/-- `char_to_alphabet_index`; `none` = the `panic!("Not a latin letter")` branch. -/
def charToAlphabetIndex (c : Nat) : Option Nat :=
  if 65 ≤ upper c ∧ upper c ≤ 90 then some (upper c - 65) else none

/-! ### the normal form (specification side) -/

def Tok.fold (t : Tok) : Tok := ⟨t.kind, t.text.map upper⟩

/-- Where the token stream is: ordinary code, inside a string literal, inside a `'` comment. -/
inductive Mode where
  | code | str | comment
  deriving DecidableEq, Repr

/-- Normalised tokens. -/
inductive NTok where
  /-- a token of ordinary code: kind and case-folded text -/
  | word (k : Kind) (text : List Nat)
  /-- a token inside a string literal (or one of its quotes): kind and exact text -/
  | raw (k : Kind) (text : List Nat)
  /-- any run of blanks and tabs -/
  | blank
  /-- any end of line (CR LF, CR or LF), also the one that ends a comment -/
  | eol
  deriving DecidableEq, Repr

/-- quote / apostrophe test on the folded text (folding never touches `"` or `'`) -/
def Tok.isQuote (t : Tok) : Bool := t.kind == .symbol && t.text.map upper == [34]
def Tok.isApos (t : Tok) : Bool := t.kind == .symbol && t.text.map upper == [39]

def Mode.next (m : Mode) (t : Tok) : Mode :=
  if t.kind == .eol then .code
  else match m with
    | .code => if t.isQuote then .str else if t.isApos then .comment else .code
    | .str => if t.isQuote then .code else .str
    | .comment => .comment

/-- What one token contributes to the normal form in mode `m`. -/
def normTok (m : Mode) (t : Tok) : List NTok :=
  if t.kind == .eol then [.eol]
  else match m with
    | .code =>
      if t.isQuote then [.raw t.kind (t.text.map upper)]
      else if t.isApos then []
      else if t.kind == .ws then [.blank]
      else [.word t.kind (t.text.map upper)]
    | .str => [.raw t.kind t.text]
    | .comment => []

def normM : Mode → List Tok → List NTok
  | _, [] => []
  | m, t :: ts => normTok m t ++ normM (m.next t) ts

/-- Collapses runs of blanks / ends of line: a run containing an end of line becomes one `eol`
(blank lines, trailing blanks, indentation), a run of blanks becomes one `blank`. -/
def squeeze : List NTok → List NTok
  | [] => []
  | [x] => [x]
  | x :: y :: r =>
    if (x = .eol ∨ x = .blank) ∧ y = .eol then squeeze (.eol :: r)
    else if x = .eol ∧ y = .blank then squeeze (.eol :: r)
    else if x = .blank ∧ y = .blank then squeeze (.blank :: r)
    else x :: squeeze (y :: r)
termination_by l => l.length

/-- The normal form of a token stream: case of keywords / identifiers / radix prefixes folded,
blank runs collapsed, every end-of-line spelling unified, comments dropped, string literals verbatim. -/
def norm (ts : List Tok) : List NTok := squeeze (normM .code ts)

end RbModel.Lex
