import RbModel.Num
import RbModel.Bits
/-!
# What a numeric built-in function hands to the store

The static result type of a built-in function is `TypeQualifier::from(&BuiltInFunction)`
(`rusty_parser/src/built_ins/built_in_function.rs`): INTEGER for `EOF ERR INSTR LBOUND LEN PEEK UBOUND VARPTR
VARSEG`, DOUBLE for `CVD VAL`, STRING for the rest. A call is an expression of that static type, so
`generate_expression_instructions_casting` emits **no** `Cast` when the target has the same type: what
`Context::set_built_in_function_result` receives is what is stored. This file models the last step of
every numeric built-in of `rusty_basic/src/interpreter/built_ins/*.rs` — the conversion of the machine
value the body computed (`usize`, `i32`, `u8`, `bool`, `f64`) into the tagged value handed over — as the
code stands after the repairs 3b0d7d8 (LEN), c1cad33 (INSTR), 2162ea0 (VARPTR), 00f80df (VARSEG),
181b08f (CVD), 1b55932 (VAL).

* `LEN`, `INSTR`, `VARPTR`, `VARSEG`: `(n as i64).try_cast()?` — `QBNumberCast<i32> for i64`, the
  range-checked narrowing, i.e. `Num.cast (.long n) .int` (`countResult`).
* `LBOUND`, `UBOUND`: `Variant::VInteger(bound)`, unchecked; the bounds of an array were converted by
  `QBNumberCast<i32>` when the array was allocated (`Instruction::AllocateArrayIntoA`).
* `EOF`: `Variant::from(bool)`; `ERR`: the code of the last error, a value of `RuntimeError::get_code`
  or 0; `PEEK`: a `u8`.
* `CVD`, `VAL`: the `f64` the body computed, Overflow when it is an infinity or a NaN, else `VDouble`.

What the bodies compute *before* that step is modelled where it is simple (`byteSize`, `instrRaw`, the IEEE-754
decoding of `CVD` over `RbModel.Bits`); `calculate_varptr` / `calculate_varseg` (sums over the memory
blocks) and the digit loop of `VAL` are arguments of the model (any `Nat`, any `f64`).
-/
namespace RbModel.BuiltinRes
open RbModel RbModel.Num

/-! ### The range-checked hand-over of a machine count -/

/-- `(n as i64).try_cast()?` with `QBNumberCast<i32> for i64`: the count as an INTEGER, Overflow when it
does not fit (`len.rs`, `instr.rs`, `varptr.rs`, `varseg.rs` after the repairs). -/
def countResult (n : Nat) : Res Val := Num.cast (.long (n : Int)) .int

/-- The `f64` a body computed (`none`: an infinity or a NaN) as a DOUBLE: `if !f.is_finite() { Overflow }`
(`cvd.rs`, `val.rs` after the repairs). A finite number outside the exact domain of the float model
answers `inexact` (no claim). -/
def finiteResult : Option Rat → Res Val
  | none => .err .overflow
  | some q => mkDbl q

/-! ### `LEN` -/

/-- `QByteSize for Variant`, scalar and string alternatives (a string counts its characters). -/
def byteSize : Val → Nat
  | .int _ => 2
  | .long _ => 4
  | .sgl _ => 4
  | .dbl _ => 8
  | .str s => s.length

/-- `QByteSize for UserDefinedTypeValue`: the sum over the fields; nested records add up the same way,
so a record is given by the list of its scalar and string leaves. -/
def recordSize : List Val → Nat
  | [] => 0
  | v :: rest => byteSize v + recordSize rest

/-! ### `INSTR` -/

/-- The `while` loop of `do_instr` for a non-empty needle: `rest` is `hay[i..]`; the first `i` at which the
needle is a prefix of what is left. -/
def scan (needle : List Char) : List Char → Nat → Option Nat
  | [], _ => none
  | c :: rest, i => if needle.isPrefixOf (c :: rest) then some i else scan needle rest (i + 1)

/-- `do_instr` as a number (1-based position, 0 = not found). -/
def instrRaw (start : Nat) (hay needle : List Char) : Nat :=
  if hay.isEmpty then 0
  else if needle.isEmpty then 1
  else match scan needle (hay.drop (start - 1)) (start - 1) with
    | some i => i + 1
    | none => 0

/-- `do_instr` as repaired: the literal answers 0 and 1 are INTEGERs, a found position is narrowed with
the range check. -/
def instr (start : Nat) (hay needle : List Char) : Res Val :=
  if hay.isEmpty then .ok (.int 0)
  else if needle.isEmpty then .ok (.int 1)
  else match scan needle (hay.drop (start - 1)) (start - 1) with
    | some i => countResult (i + 1)
    | none => .ok (.int 0)

/-! ### `ERR` -/

/-- The values of `RuntimeError::get_code` (`interpreter/error.rs`). -/
def errCodes : List Nat :=
  [3, 4, 5, 6, 7, 9, 11, 13, 20, 40, 50, 52, 53, 54, 55, 57, 59, 62, 63, 257, 258, 259, 260]

/-- `get_last_error_code().unwrap_or_default()`: the `k`-th code, 0 when no error happened yet. -/
def errCode (k : Nat) : Nat := errCodes.getD k 0

/-! ### `CVD`: the IEEE-754 binary64 reading of a 64-bit word -/

/-- The exact value of a finite binary64 word. -/
def f64ToRat (w : Nat) : Rat :=
  let e := Bits.f64Exponent w
  let f := Bits.f64Fraction w
  let m : Rat :=
    if e = 0 then (f : Rat) / 2 ^ 1074
    else if 1075 ≤ e then ((2 ^ 52 + f) * 2 ^ (e - 1075) : Nat)
    else ((2 ^ 52 + f : Nat) : Rat) / 2 ^ (1075 - e)
  if Bits.f64Sign w = 1 then -m else m

/-- The decoded word as the body of `cvd.rs` sees it (`Bits.f64IsFinite` = `f64::is_finite` on the word). -/
def f64Decode (w : Nat) : Option Rat := if Bits.f64IsFinite w then some (f64ToRat w) else none

/-! ### The calls -/

/-- A call of a numeric built-in function, given by what its result depends on. -/
inductive Call where
  /-- `LEN(x)`, `x` a scalar or a string of any length -/
  | lenVal (v : Val)
  /-- `LEN(r)`, `r` a record with these leaves -/
  | lenRecord (leaves : List Val)
  /-- `INSTR([start,] hay$, needle$)`; `start` already a positive `usize` (`to_positive_int`) -/
  | instr (start : Nat) (hay needle : List Char)
  /-- `VARPTR(x)`: `calculate_varptr` returned `offset` -/
  | varptr (offset : Nat)
  /-- `VARSEG(x)`: `x` an array element with `arraysBefore` arrays in front of its array, or a plain variable -/
  | varseg (element : Bool) (arraysBefore : Nat)
  /-- `LBOUND(a [, d])` of a dimension with bounds `lo TO hi` -/
  | lbound (lo hi : Int)
  /-- `UBOUND(a [, d])` -/
  | ubound (lo hi : Int)
  /-- `EOF(n)` -/
  | eof (atEnd : Bool)
  /-- `ERR` when the last error was the `k`-th alternative of `RuntimeError` (any other `k`: none yet) -/
  | err (k : Nat)
  /-- `PEEK(a)` read this byte -/
  | peek (byte : Fin 256)
  /-- `CVD(s$)`, `w` the 64-bit word of the eight bytes (least significant first) -/
  | cvd (w : Nat)
  /-- `VAL(s$)`: the digit loop produced this `f64` (`none` = an infinity or a NaN) -/
  | val (x : Option Rat)

/-- `TypeQualifier::from(&BuiltInFunction)`. -/
def Call.ty : Call → Ty
  | .cvd _ => .dbl
  | .val _ => .dbl
  | _ => .int

/-- `VAR_SEG_BASE`. -/
def varSegBase : Nat := 4096

/-- The value handed to `set_built_in_function_result`, or the error the call raises instead. -/
def Call.run : Call → Res Val
  | .lenVal v => countResult (byteSize v)
  | .lenRecord leaves => countResult (recordSize leaves)
  | .instr start hay needle => BuiltinRes.instr start hay needle
  | .varptr offset => countResult offset
  | .varseg element arraysBefore =>
      countResult (if element then arraysBefore + 1 + varSegBase else varSegBase)
  | .lbound lo _ => .ok (.int lo)
  | .ubound _ hi => .ok (.int hi)
  | .eof atEnd => .ok (ofBool atEnd)
  | .err k => .ok (.int (errCode k))
  | .peek byte => .ok (.int (byte.val : Int))
  | .cvd w => finiteResult (f64Decode w)
  | .val x => finiteResult x

/-- What the rest of the interpreter guarantees about the arguments: the bounds of an array are
INTEGERs (`AllocateArrayIntoA` converts them with `QBNumberCast<i32>`; `Thm/C06ArrL.lean` carries it
as part of `Good`). Nothing is asked of the other calls. -/
def Call.ArgsWf : Call → Prop
  | .lbound lo hi => inIntRange lo = true ∧ inIntRange hi = true
  | .ubound lo hi => inIntRange lo = true ∧ inIntRange hi = true
  | _ => True

/-! ### Expressions with built-in calls, and the store step

`Num.Expr` extended by one leaf. `BExpr.ty` / `BExpr.eval` / `bstore` are `Expr.ty` / `Expr.eval` /
`Num.store` with a call typed by `Call.ty` and evaluated by `Call.run`: the store step still emits the
`Cast` only when the static type differs from the target's, so `L% = LEN(A$)` stores what `LEN` handed over. -/

inductive BExpr where
  | lit (v : Val)
  | var (x : Nat)
  | call (c : Call)
  | un (op : UnOp) (e : BExpr)
  | bin (op : Op) (l r : BExpr)

def BExpr.ty (st : Op → Ty → Ty → Option Ty) (decl : Nat → Ty) : BExpr → Option Ty
  | .lit v => some v.tag
  | .var x => some (decl x)
  | .call c => some c.ty
  | .un _ e => e.ty st decl
  | .bin op l r =>
    match l.ty st decl, r.ty st decl with
    | some a, some b => st op a b
    | _, _ => none

def BExpr.eval (st : Op → Ty → Ty → Option Ty) (env : Nat → Val) : BExpr → Res Val
  | .lit v => .ok v
  | .var x => .ok (env x)
  | .call c => c.run
  | .un .neg e => (e.eval st env).bind negate
  | .un .not e => (e.eval st env).bind unaryNot
  | .bin op l r => (l.eval st env).bind fun a => (r.eval st env).bind fun b => vmBin st op a b

def BExpr.LitsInRange : BExpr → Prop
  | .lit v => v.InRange
  | .var _ => True
  | .call _ => True
  | .un _ e => e.LitsInRange
  | .bin _ l r => l.LitsInRange ∧ r.LitsInRange

def BExpr.CallsWf : BExpr → Prop
  | .lit _ => True
  | .var _ => True
  | .call c => c.ArgsWf
  | .un _ e => e.CallsWf
  | .bin _ l r => l.CallsWf ∧ r.CallsWf

/-- The expressions of `Num.Expr` are the ones without a call. -/
def BExpr.ofExpr : Expr → BExpr
  | .lit v => .lit v
  | .var x => .var x
  | .un op e => .un op (ofExpr e)
  | .bin op l r => .bin op (ofExpr l) (ofExpr r)

/-- `x = e` for an expression that may call built-in functions (`Num.store` otherwise). -/
def bstore (st : Op → Ty → Ty → Option Ty) (decl : Nat → Ty) (env : Nat → Val) (x : Nat) (e : BExpr) :
    Res (Nat → Val) :=
  match e.ty st decl with
  | none => .err .typeMismatch
  | some s =>
    (e.eval st env).bind fun v =>
    (storeCast s (decl x) v).bind fun w =>
    .ok (fun y => if y = x then w else env y)

end RbModel.BuiltinRes
