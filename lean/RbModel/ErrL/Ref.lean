import RbModel.ErrL.Syntax
import RbModel.JmpL.Ref
/-!
# RbModel.ErrL.Ref — reference semantics of the error layer (the specification of the ON ERROR / RESUME half of C05)

Big-step, fuelled and structured like `RbModel.JmpL.Ref` (seek mode, one jump-handling rule per construct, GOSUB as a nested
run of the whole program): **no addresses, no stacks**.  Expressions, conversions, PRINT layout and the variable state
`Ref.St` are those of the core language.  Written from the language rules and `tools/JMPL_GUIDE.md` (phase C).

* **State.**  `ESt` = the core state + the *handler mode* (`none | goto L | resumeNext`: what the last `ON ERROR` statement
  said) + the flag `inH` ("inside a handler": an error was handled by `ON ERROR GOTO` and no RESUME has run yet) + `err`
  (the code of that error: what ERR reads).
* **Resume units.**  Every simple statement and every *header* of a compound statement (IF / ELSEIF condition, WHILE / DO
  condition, the bounds + step of a FOR, the increment of NEXT, the SELECT CASE selector, the items of one CASE) is a
  *resume unit* `u` with two continuations:
    - `again(u)`: run the unit once more;
    - `next(u)`: a simple statement → whatever follows it (the `seq` rule; after the last statement of a block that is the
      block's continuation: loop test, after END IF, …); IF / ELSEIF condition → **enter that block**; WHILE condition / DO
      condition at the top → **enter the body**; DO condition at the bottom (`LOOP WHILE / UNTIL`) → **leave the loop**; FOR
      bounds / step (also a zero step) → **after NEXT**; the increment of NEXT → **after NEXT**; SELECT CASE selector →
      **after END SELECT**; the items of a CASE → **enter that CASE block**.
* **A unit fails** with code `c` at `p` (`raise`):
    - mode `none` → outcome `error c p` (the program ends, reported with its position);
    - inside a handler (`inH`) with a handler mode other than `none` → `unspec`: the property does not say what an error
      inside an active handler does (QBasic ends the program; the code under test dispatches again);
    - mode `resumeNext` → continue with `next(u)`;
    - mode `goto L` → a **nested run of the whole program in `seek L` mode** with `inH := true`, `err := c`, until it answers
      `resumed again` → `again(u)`; `resumed next` → `next(u)`; `resumed (label L')` → the unit answers `jump L'` (handled by
      the jump rule: every loop and SELECT between `u` and the label is left); the nested run reaching the end of the
      program text or END → the program ends; a RETURN that leaves the handler run → `unspec`.
* **RESUME / RESUME NEXT / RESUME label** with `inH` → `inH := false`, `err := none`, outcome `resumed …` (passed on by every
  construct up to the handler's nested run); without `inH` they are units that fail with error 20.
* **RETURN** with no GOSUB pending (`gd = 0`: the number of nested GOSUB runs around) is a unit that fails with error 3.
  (In the jump layer the `ret` outcome became error 3 at the top of the program; a handler needs it raised at the RETURN.)
* A multi-variable `READ` is one unit; an item that cannot be converted is consumed.
-/
namespace RbModel.ErrL.Ref
open RbModel RbModel.Num RbModel.Ast RbModel.ErrL
open RbModel.Ref (St eval evalTo codeOf codeOutOfData codeZeroStep zeroOf truthy printValue endsInSeparator StepSign)

def codeReturnWithoutGoSub : Nat := 3
def codeResumeWithoutError : Nat := 20

/-- what the last ON ERROR statement said -/
inductive HMode where
  | none
  | goto (L : Nat)
  | resumeNext
  deriving Inhabited, DecidableEq

structure ESt where
  st : St
  mode : HMode
  /-- inside a handler: an error was handled by ON ERROR GOTO and no RESUME has run yet -/
  inH : Bool
  /-- the code of the error being handled (what ERR reads) -/
  err : Option Nat

def ESt.set (s : ESt) (x : Nat) (v : Val) : ESt := { s with st := s.st.set x v }

/-- how a RESUME statement ended the handler -/
inductive Resumed where
  | again
  | next
  | label (L : Nat)
  deriving Inhabited, DecidableEq

inductive Outcome where
  | normal
  | halted
  | jump (L : Nat)
  | ret (p : Pos)
  /-- a RESUME statement ran inside a handler: passed on up to the handler's nested run -/
  | resumed (k : Resumed)
  | error (code : Nat) (p : Pos)
  | inexact
  | outOfFuel
  /-- outside the modelled language: a jump to a label that does not exist, a jump into a FOR body or a SELECT block -/
  | illFormed
  /-- the specification does not define the behaviour: an error inside an active handler, a RETURN that leaves a handler
  run, a RESUME inside a routine called from the handler -/
  | unspec
  /-- internal to seeking: the label is not inside this statement -/
  | notHere
  deriving Inhabited, DecidableEq

inductive Mode where
  | run
  | seek (L : Nat)
  deriving Inhabited, DecidableEq

def Mode.enters (m : Mode) (s : Stmt) : Bool :=
  match m with
  | .run => true
  | .seek L => s.hasLabel L

/-- how a failed unit goes on -/
inductive Disp where
  | again
  | next
  | out (o : Outcome)
  deriving Inhabited

/-- what the answer of the handler's nested run means for the unit that failed -/
def dispOfHandler : Outcome → Disp
  | .resumed .again => .again
  | .resumed .next => .next
  | .resumed (.label L) => .out (.jump L)
  | .normal => .out .halted
  | .halted => .out .halted
  | .ret _ => .out .unspec
  | .jump _ => .out .illFormed
  | .notHere => .out .illFormed
  | o => .out o

/-- the decision of a condition unit -/
inductive Dec where
  | go (b : Bool)
  | again
  | out (o : Outcome)
  deriving Inhabited

/-- a failure of the statement-independent pieces -/
inductive Fail where
  | err (c : Nat) (p : Pos)
  | inexact

def failOf : JmpL.Ref.Outcome → Fail
  | .error c p => .err c p
  | _ => .inexact

def evalCond (env : List Val) (c : Ast.Expr) : Except Fail Bool :=
  match JmpL.Ref.evalCond env c with
  | .ok b => .ok b
  | .error o => .error (failOf o)

def evalE (env : List Val) (e : Ast.Expr) : Except Fail Val :=
  match eval env e with
  | .ok v => .ok v
  | .err c p => .error (.err c p)
  | .inexact => .error .inexact

def anyMatches (env : List Val) (p : Pos) (subject : Val) (conds : List CaseExpr) : Except Fail Bool :=
  match JmpL.Ref.anyMatches env p subject conds with
  | .ok b => .ok b
  | .error o => .error (failOf o)

/-- `READ v1, v2, …`: every variable, in order, receives the next DATA item converted to its type; an item that cannot be
converted is consumed -/
def readVars (p : Pos) : St → List (Nat × Ty) → St × Option Fail
  | s, [] => (s, none)
  | s, (x, t) :: rest =>
    match s.data[s.dataIdx]? with
    | none => (s, some (.err codeOutOfData p))
    | some v =>
      match cast v t with
      | .ok w => readVars p { s.set x w with dataIdx := s.dataIdx + 1 } rest
      | .err e => ({ s with dataIdx := s.dataIdx + 1 }, some (.err (codeOf e) p))
      | .inexact => (s, some .inexact)

/-- the header of a FOR: the counter receives the lower bound, then the upper bound and the step are evaluated; answers the
limit, the step and the direction (`true` = upwards) -/
def forHeader (x : Nat) (t : Ty) (lo hi : Ast.Expr) (step : Option Ast.Expr) (p : Pos) (s : St) :
    St × Except Fail (Val × Val × Bool) :=
  match evalTo s.env lo t with
  | .err c q => (s, .error (.err c q))
  | .inexact => (s, .error .inexact)
  | .ok l =>
    let s := s.set x l
    match evalTo s.env hi t with
    | .err c q => (s, .error (.err c q))
    | .inexact => (s, .error .inexact)
    | .ok h =>
      match step with
      | none => (s, .ok (h, .int 1, true))
      | some se =>
        match evalE s.env se with
        | .error f => (s, .error f)
        | .ok sv =>
          match JmpL.Ref.stepSign p sv with
          | .error o => (s, .error (failOf o))
          | .ok .neg => (s, .ok (h, sv, false))
          | .ok .pos => (s, .ok (h, sv, true))
          | .ok .zero => (s, .error (.err codeZeroStep se.pos))

/-! ### statements -/

mutual
/-- `exec fuel P gd stmt mode state`: `P` is the whole program body (what a GOSUB and a handler run), `gd` the number of
nested GOSUB runs around (0 = no GOSUB pending) -/
def exec : Nat → Stmt → Nat → Stmt → Mode → ESt → ESt × Outcome
  | 0, _, _, _, _, s => (s, .outOfFuel)
  | _ + 1, _, _, .skip, m, s =>
    match m with
    | .run => (s, .normal)
    | .seek _ => (s, .notHere)
  | fuel + 1, P, gd, .seq a b, m, s =>
    if m.enters (.seq a b) then
      match (if m.enters a then
               match exec fuel P gd a m s with
               | (s', .normal) => exec fuel P gd b .run s'
               | r => r
             else exec fuel P gd b m s) with
      | (s', .jump L) =>
        if (Stmt.seq a b).hasLabel L then exec fuel P gd (.seq a b) (.seek L) s' else (s', .jump L)
      | r => r
    else (s, .notHere)
  | fuel + 1, P, gd, .assign x t e p, m, s =>
    match m with
    | .seek _ => (s, .notHere)
    | .run =>
      match evalTo s.st.env e t with
      | .ok v => (s.set x v, .normal)
      | .inexact => (s, .inexact)
      | .err c q =>
        match raise fuel P gd c q s with
        | (s', .again) => exec fuel P gd (.assign x t e p) .run s'
        | (s', .next) => (s', .normal)
        | (s', .out o) => (s', o)
  | fuel + 1, P, gd, .print items p, m, s =>
    match m with
    | .seek _ => (s, .notHere)
    | .run =>
      match JmpL.Ref.printItems s.st items with
      | (st', .normal) =>
        if endsInSeparator items then ({ s with st := st' }, .normal)
        else ({ s with st := { st' with out := st'.out.println } }, .normal)
      | (st', .error c q) =>
        -- what was printed before the failing item stays printed
        match raise fuel P gd c q { s with st := st' } with
        | (s', .again) => exec fuel P gd (.print items p) .run s'
        | (s', .next) => (s', .normal)
        | (s', .out o) => (s', o)
      | (st', _) => ({ s with st := st' }, .inexact)
  | fuel + 1, P, gd, .read vars p, m, s =>
    match m with
    | .seek _ => (s, .notHere)
    | .run =>
      match readVars p s.st vars with
      | (st', none) => ({ s with st := st' }, .normal)
      | (st', some .inexact) => ({ s with st := st' }, .inexact)
      | (st', some (.err c q)) =>
        match raise fuel P gd c q { s with st := st' } with
        | (s', .again) => exec fuel P gd (.read vars p) .run s'
        | (s', .next) => (s', .normal)
        | (s', .out o) => (s', o)
  | fuel + 1, P, gd, .ifs c thn els p, m, s =>
    if m.enters (.ifs c thn els p) then
      match (match m with
             | .run =>
               -- RESUME NEXT after a failed condition enters the block
               match condUnit fuel P gd c true s with
               | (s1, .go true) => exec fuel P gd thn .run s1
               | (s1, .go false) => exec fuel P gd els .run s1
               | (s1, .again) => exec fuel P gd (.ifs c thn els p) .run s1
               | (s1, .out o) => (s1, o)
             | .seek L => if thn.hasLabel L then exec fuel P gd thn (.seek L) s else exec fuel P gd els (.seek L) s) with
      | (s', .jump L) =>
        if (Stmt.ifs c thn els p).hasLabel L then exec fuel P gd (.ifs c thn els p) (.seek L) s' else (s', .jump L)
      | r => r
    else (s, .notHere)
  | fuel + 1, P, gd, .select e cases p, m, s =>
    match m with
    | .seek L => if cases.hasLabel L then (s, .illFormed) else (s, .notHere)
    | .run =>
      match evalE s.st.env e with
      | .error .inexact => (s, .inexact)
      | .error (.err c q) =>
        -- RESUME NEXT after a failed selector continues after END SELECT
        match raise fuel P gd c q s with
        | (s', .again) => exec fuel P gd (.select e cases p) .run s'
        | (s', .next) => (s', .normal)
        | (s', .out o) => (s', o)
      | .ok subject =>
        match execCases fuel P gd p subject cases s with
        | (s', .jump L) => if cases.hasLabel L then selectSeek fuel P gd cases L s' else (s', .jump L)
        | r => r
  | fuel + 1, P, gd, .forLoop x t lo hi step body p, m, s =>
    match m with
    | .seek L => if body.hasLabel L then (s, .illFormed) else (s, .notHere)
    | .run =>
      match forHeader x t lo hi step p s.st with
      | (st', .ok (h, sv, up)) => forIter fuel P gd x t h sv up body p .run false { s with st := st' }
      | (st', .error .inexact) => ({ s with st := st' }, .inexact)
      | (st', .error (.err c q)) =>
        -- RESUME NEXT after a failed bound or step continues after NEXT
        match raise fuel P gd c q { s with st := st' } with
        | (s', .again) => exec fuel P gd (.forLoop x t lo hi step body p) .run s'
        | (s', .next) => (s', .normal)
        | (s', .out o) => (s', o)
  | fuel + 1, P, gd, .while c body p, m, s =>
    if m.enters (.while c body p) then
      match (match m with
             -- RESUME NEXT after a failed condition enters the body
             | .run => condUnit fuel P gd c true s
             | .seek _ => (s, .go true)) with
      | (s1, .out (.jump L)) => if body.hasLabel L then exec fuel P gd (.while c body p) (.seek L) s1 else (s1, .jump L)
      | (s1, .out o) => (s1, o)
      | (s1, .again) => exec fuel P gd (.while c body p) .run s1
      | (s1, .go false) => (s1, .normal)
      | (s1, .go true) =>
        match exec fuel P gd body m s1 with
        | (s', .normal) => exec fuel P gd (.while c body p) .run s'
        | (s', .jump L) => if body.hasLabel L then exec fuel P gd (.while c body p) (.seek L) s' else (s', .jump L)
        | r => r
    else (s, .notHere)
  | fuel + 1, P, gd, .doLoop c top until_ body p, m, s =>
    if m.enters (.doLoop c top until_ body p) then
      if top then
        match (match m with
               -- RESUME NEXT after a failed condition enters the body
               | .run => condUnit fuel P gd c (!until_) s
               | .seek _ => (s, .go (!until_))) with
        | (s1, .out (.jump L)) =>
          if body.hasLabel L then exec fuel P gd (.doLoop c top until_ body p) (.seek L) s1 else (s1, .jump L)
        | (s1, .out o) => (s1, o)
        | (s1, .again) => exec fuel P gd (.doLoop c top until_ body p) .run s1
        | (s1, .go b) =>
          if b != until_ then
            match exec fuel P gd body m s1 with
            | (s', .normal) => exec fuel P gd (.doLoop c top until_ body p) .run s'
            | (s', .jump L) =>
              if body.hasLabel L then exec fuel P gd (.doLoop c top until_ body p) (.seek L) s' else (s', .jump L)
            | r => r
          else (s1, .normal)
      else
        match exec fuel P gd body m s with
        | (s', .normal) => doBottom fuel P gd c until_ body p s'
        | (s', .jump L) =>
          if body.hasLabel L then exec fuel P gd (.doLoop c top until_ body p) (.seek L) s' else (s', .jump L)
        | r => r
    else (s, .notHere)
  | _ + 1, _, _, .end_ _, m, s =>
    match m with
    | .run => (s, .halted)
    | .seek _ => (s, .notHere)
  | _ + 1, _, _, .label L', m, s =>
    match m with
    | .run => (s, .normal)
    | .seek L => if L = L' then (s, .normal) else (s, .notHere)
  | _ + 1, _, _, .goto L, m, s =>
    match m with
    | .run => (s, .jump L)
    | .seek _ => (s, .notHere)
  | fuel + 1, P, gd, .gosub L, m, s =>
    match m with
    | .seek _ => (s, .notHere)
    | .run =>
      -- a nested run of the whole program, entered at the label
      match exec fuel P (gd + 1) P (.seek L) s with
      | (s', .ret _) => (s', .normal)
      | (s', .normal) => (s', .halted)
      | (s', .halted) => (s', .halted)
      | (s', .jump _) => (s', .illFormed)
      | (s', .notHere) => (s', .illFormed)
      | (s', .resumed _) => (s', .unspec)
      | r => r
  | fuel + 1, P, gd, .ret p, m, s =>
    match m with
    | .seek _ => (s, .notHere)
    | .run =>
      if gd = 0 then
        -- RETURN without GOSUB
        match raise fuel P gd codeReturnWithoutGoSub p s with
        | (s', .again) => exec fuel P gd (.ret p) .run s'
        | (s', .next) => (s', .normal)
        | (s', .out o) => (s', o)
      else (s, .ret p)
  | _ + 1, _, _, .onErrorGoto L, m, s =>
    match m with
    | .seek _ => (s, .notHere)
    | .run => ({ s with mode := .goto L }, .normal)
  | _ + 1, _, _, .onErrorResumeNext, m, s =>
    match m with
    | .seek _ => (s, .notHere)
    | .run => ({ s with mode := .resumeNext }, .normal)
  | _ + 1, _, _, .onErrorGoto0, m, s =>
    match m with
    | .seek _ => (s, .notHere)
    | .run => ({ s with mode := .none }, .normal)
  | fuel + 1, P, gd, .resume p, m, s =>
    match m with
    | .seek _ => (s, .notHere)
    | .run =>
      if s.inH then ({ s with inH := false, err := none }, .resumed .again)
      else
        match raise fuel P gd codeResumeWithoutError p s with
        | (s', .again) => exec fuel P gd (.resume p) .run s'
        | (s', .next) => (s', .normal)
        | (s', .out o) => (s', o)
  | fuel + 1, P, gd, .resumeNext p, m, s =>
    match m with
    | .seek _ => (s, .notHere)
    | .run =>
      if s.inH then ({ s with inH := false, err := none }, .resumed .next)
      else
        match raise fuel P gd codeResumeWithoutError p s with
        | (s', .again) => exec fuel P gd (.resumeNext p) .run s'
        | (s', .next) => (s', .normal)
        | (s', .out o) => (s', o)
  | fuel + 1, P, gd, .resumeLabel L p, m, s =>
    match m with
    | .seek _ => (s, .notHere)
    | .run =>
      if s.inH then ({ s with inH := false, err := none }, .resumed (.label L))
      else
        match raise fuel P gd codeResumeWithoutError p s with
        | (s', .again) => exec fuel P gd (.resumeLabel L p) .run s'
        | (s', .next) => (s', .normal)
        | (s', .out o) => (s', o)
/-- a unit failed with code `c` at `p`: what the handler mode says -/
def raise : Nat → Stmt → Nat → Nat → Pos → ESt → ESt × Disp
  | 0, _, _, _, _, s => (s, .out .outOfFuel)
  | fuel + 1, P, gd, c, p, s =>
    match s.mode with
    | .none => (s, .out (.error c p))
    | .resumeNext => if s.inH then (s, .out .unspec) else (s, .next)
    | .goto L =>
      if s.inH then (s, .out .unspec)
      else
        -- the handler: a nested run of the whole program, entered at the handler's label
        match exec fuel P gd P (.seek L) { s with inH := true, err := some c } with
        | (s', o) => (s', dispOfHandler o)
/-- a condition as a resume unit; `skipAs`: the value the condition counts as when RESUME NEXT continues behind it -/
def condUnit : Nat → Stmt → Nat → Ast.Expr → Bool → ESt → ESt × Dec
  | 0, _, _, _, _, s => (s, .out .outOfFuel)
  | fuel + 1, P, gd, c, skipAs, s =>
    match evalCond s.st.env c with
    | .ok b => (s, .go b)
    | .error .inexact => (s, .out .inexact)
    | .error (.err code q) =>
      match raise fuel P gd code q s with
      | (s', .again) => (s', .again)
      | (s', .next) => (s', .go skipAs)
      | (s', .out o) => (s', .out o)
/-- the test at `LOOP WHILE / UNTIL c`, then the next round or the end of the loop; RESUME runs the test again, RESUME NEXT
leaves the loop -/
def doBottom : Nat → Stmt → Nat → Ast.Expr → Bool → Stmt → Pos → ESt → ESt × Outcome
  | 0, _, _, _, _, _, _, s => (s, .outOfFuel)
  | fuel + 1, P, gd, c, until_, body, p, s =>
    match condUnit fuel P gd c until_ s with
    | (s1, .go b) => if b != until_ then exec fuel P gd (.doLoop c false until_ body p) .run s1 else (s1, .normal)
    | (s1, .again) => doBottom fuel P gd c until_ body p s1
    | (s1, .out (.jump L)) =>
      if body.hasLabel L then exec fuel P gd (.doLoop c false until_ body p) (.seek L) s1 else (s1, .jump L)
    | (s1, .out o) => (s1, o)
/-- run mode: the first CASE block one of whose items matches runs; else the CASE ELSE block; else nothing.  The items of
one CASE are one resume unit: RESUME tests them again, RESUME NEXT enters the block. -/
def execCases : Nat → Stmt → Nat → Pos → Val → Cases → ESt → ESt × Outcome
  | 0, _, _, _, _, _, s => (s, .outOfFuel)
  | _ + 1, _, _, _, _, .nil, s => (s, .normal)
  | fuel + 1, P, gd, _, _, .else_ body, s => exec fuel P gd body .run s
  | fuel + 1, P, gd, p, subject, .case conds body rest, s =>
    match anyMatches s.st.env p subject conds with
    | .ok true => exec fuel P gd body .run s
    | .ok false => execCases fuel P gd p subject rest s
    | .error .inexact => (s, .inexact)
    | .error (.err c q) =>
      match raise fuel P gd c q s with
      | (s', .again) => execCases fuel P gd p subject (.case conds body rest) s'
      | (s', .next) => exec fuel P gd body .run s'
      | (s', .out o) => (s', o)
/-- seek mode: the block that contains the label is entered at the label -/
def seekCases : Nat → Stmt → Nat → Cases → Nat → ESt → ESt × Outcome
  | 0, _, _, _, _, s => (s, .outOfFuel)
  | _ + 1, _, _, .nil, _, s => (s, .notHere)
  | fuel + 1, P, gd, .else_ body, L, s => exec fuel P gd body (.seek L) s
  | fuel + 1, P, gd, .case _ body rest, L, s =>
    if body.hasLabel L then exec fuel P gd body (.seek L) s else seekCases fuel P gd rest L s
/-- a jump between the blocks of one SELECT: the target block is entered, the SELECT is left when it ends -/
def selectSeek : Nat → Stmt → Nat → Cases → Nat → ESt → ESt × Outcome
  | 0, _, _, _, _, s => (s, .outOfFuel)
  | fuel + 1, P, gd, cases, L, s =>
    match seekCases fuel P gd cases L s with
    | (s', .jump L') => if cases.hasLabel L' then selectSeek fuel P gd cases L' s' else (s', .jump L')
    | r => r
/-- one round of a FOR loop whose limit `h`, step `sv` and direction are fixed.  `atNext = false`: test, body, then the
increment; in `seek` mode the round is entered at a label of the body.  `atNext = true`: the increment of NEXT (a resume
unit: RESUME increments again, RESUME NEXT continues after NEXT), then the next round. -/
def forIter : Nat → Stmt → Nat → Nat → Ty → Val → Val → Bool → Stmt → Pos → Mode → Bool → ESt → ESt × Outcome
  | 0, _, _, _, _, _, _, _, _, _, _, _, s => (s, .outOfFuel)
  | fuel + 1, P, gd, x, t, h, sv, up, body, p, m, atNext, s =>
    if atNext then
      let cur := s.st.env.getD x (zeroOf t)
      match (plus cur sv).bind (fun v => cast v t) with
      | .ok v => forIter fuel P gd x t h sv up body p .run false (s.set x v)
      | .inexact => (s, .inexact)
      | .err e =>
        -- (the position is the FOR's: known finding C05-e)
        match raise fuel P gd (codeOf e) p s with
        | (s', .again) => forIter fuel P gd x t h sv up body p .run true s'
        | (s', .next) => (s', .normal)
        | (s', .out (.jump L)) =>
          if body.hasLabel L then forIter fuel P gd x t h sv up body p (.seek L) false s' else (s', .jump L)
        | (s', .out o) => (s', o)
    else
      let cur := s.st.env.getD x (zeroOf t)
      match (match m with
             | .run => JmpL.Ref.relTest p (if up then .lessOrEqual else .greaterOrEqual) cur h
             | .seek _ => .ok true) with
      | .error o =>
        match failOf o with
        | .err c q => (s, .error c q)
        | .inexact => (s, .inexact)
      | .ok false => (s, .normal)
      | .ok true =>
        match exec fuel P gd body m s with
        | (s', .normal) => forIter fuel P gd x t h sv up body p .run true s'
        | (s', .jump L) =>
          if body.hasLabel L then forIter fuel P gd x t h sv up body p (.seek L) false s' else (s', .jump L)
        | r => r
end

def ESt.init (prog : Program) : ESt :=
  { st := { env := prog.slots.map zeroOf, out := Print.WritePrinter.new, data := prog.data, dataIdx := 0 },
    mode := .none, inH := false, err := none }

/-- run a whole program -/
def run (fuel : Nat) (prog : Program) : ESt × Outcome :=
  match exec fuel prog.body 0 prog.body .run (ESt.init prog) with
  | (s, .ret _) => (s, .illFormed)
  | (s, .jump _) => (s, .illFormed)
  | (s, .notHere) => (s, .illFormed)
  | (s, .resumed _) => (s, .illFormed)
  | r => r

end RbModel.ErrL.Ref
