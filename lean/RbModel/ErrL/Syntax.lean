import RbModel.Ast
import RbModel.Src
import RbModel.Instr
import RbModel.JmpL.Syntax
/-!
# RbModel.ErrL.Syntax — the error layer (property C05): the jump layer plus ON ERROR / RESUME

The linted main module as `harness/src/errl_sx.rs` serialises it (`rusty_parser::Statement` after
`rusty_linter::core::lint`): the statements of `RbModel.JmpL.SStmt` plus

* `onErrorGoto L p`      (`Statement::OnError(OnErrorOption::Label)`);
* `onErrorResumeNext p`  (`OnErrorOption::Next`);
* `onErrorGoto0 p`       (`OnErrorOption::Zero`);
* `resume p`, `resumeNext p`, `resumeLabel L p` (`Statement::Resume(ResumeOption::{Bare, Next, Label})`).

`ERR` (a built-in function call) is outside the layer.  Labels are numbered as in the jump layer.

Two syntaxes: `SStmt` (faithful: what the generator model `ErrL.Compile` reads; one node per real statement, because every
real statement gets one entry in the statement-address table) and `Stmt` (lean: `seq` / `skip`, nested IF for ELSEIF chains;
what the reference semantics `ErrL.Ref` runs), related by `desugar`.  Unlike the jump layer a multi-variable `READ` stays ONE
statement of the lean syntax: it is one *resume unit* (RESUME runs the whole READ again, RESUME NEXT continues after it).
-/
namespace RbModel.ErrL
open RbModel RbModel.Num RbModel.Ast

/-! ### lean syntax (reference semantics) -/

mutual
inductive Stmt where
  | skip
  | seq (a b : Stmt)
  | assign (x : Nat) (t : Ty) (e : Ast.Expr) (p : Pos)
  | print (items : List PrintItem) (p : Pos)
  /-- `READ v1, v2, …`: one statement, one resume unit -/
  | read (vars : List (Nat × Ty)) (p : Pos)
  | ifs (c : Ast.Expr) (thn els : Stmt) (p : Pos)
  | select (e : Ast.Expr) (cases : Cases) (p : Pos)
  | forLoop (x : Nat) (t : Ty) (lo hi : Ast.Expr) (step : Option Ast.Expr) (body : Stmt) (p : Pos)
  | while (c : Ast.Expr) (body : Stmt) (p : Pos)
  /-- `top`: condition after DO (else after LOOP); `until_`: UNTIL (else WHILE) -/
  | doLoop (c : Ast.Expr) (top until_ : Bool) (body : Stmt) (p : Pos)
  | end_ (p : Pos)
  | label (L : Nat)
  | goto (L : Nat)
  | gosub (L : Nat)
  | ret (p : Pos)
  | onErrorGoto (L : Nat)
  | onErrorResumeNext
  | onErrorGoto0
  | resume (p : Pos)
  | resumeNext (p : Pos)
  | resumeLabel (L : Nat) (p : Pos)
inductive Cases where
  | nil
  | else_ (body : Stmt)
  | case (conds : List CaseExpr) (body : Stmt) (rest : Cases)
end

instance : Inhabited Stmt := ⟨.skip⟩

/-- A program: the variable slots with their types, the DATA items (hoisted), the body. -/
structure Program where
  slots : List Ty
  data : List Val
  body : Stmt

mutual
/-- the labels defined inside a statement, in program order -/
def Stmt.labels : Stmt → List Nat
  | .seq a b => a.labels ++ b.labels
  | .ifs _ thn els _ => thn.labels ++ els.labels
  | .select _ cases _ => cases.labels
  | .forLoop _ _ _ _ _ body _ => body.labels
  | .while _ body _ => body.labels
  | .doLoop _ _ _ body _ => body.labels
  | .label L => [L]
  | _ => []
def Cases.labels : Cases → List Nat
  | .nil => []
  | .else_ body => body.labels
  | .case _ body rest => body.labels ++ rest.labels
end

/-- `L` is a label defined inside the statement -/
def Stmt.hasLabel (s : Stmt) (L : Nat) : Bool := s.labels.contains L

def Cases.hasLabel (cs : Cases) (L : Nat) : Bool := cs.labels.contains L

/-! ### faithful syntax (generator model) -/

mutual
inductive SStmt where
  | skip
  | seq (a b : SStmt)
  | comment
  | dim (x : Nat) (t : Ty) (p : Pos)
  | assign (x : Nat) (t : Ty) (e : Ast.Expr) (p : Pos)
  | print (items : List PrintItem) (p : Pos)
  /-- every DATA item and READ variable carries its own position (the argument's) -/
  | data (items : List (Val × Pos)) (p : Pos)
  | read (vars : List (Nat × Ty × Pos)) (p : Pos)
  /-- `hasElse = false`: no ELSE part (then `els = skip`) -/
  | ifBlock (c : Ast.Expr) (thn : SStmt) (elifs : ElseIfs) (hasElse : Bool) (els : SStmt) (p : Pos)
  | select (e : Ast.Expr) (cases : SCases) (hasElse : Bool) (els : SStmt) (p : Pos)
  | forLoop (x : Nat) (t : Ty) (lo hi : Ast.Expr) (step : Option Ast.Expr) (body : SStmt) (p : Pos)
  | while (c : Ast.Expr) (body : SStmt) (p : Pos)
  | doLoop (c : Ast.Expr) (top until_ : Bool) (body : SStmt) (p : Pos)
  | end_ (p : Pos)
  /-- `name`: the label as written at its definition (what the `Label` instruction carries) -/
  | label (L : Nat) (name : String) (p : Pos)
  | goto (L : Nat) (p : Pos)
  | gosub (L : Nat) (p : Pos)
  | ret (p : Pos)
  | onErrorGoto (L : Nat) (p : Pos)
  | onErrorResumeNext (p : Pos)
  | onErrorGoto0 (p : Pos)
  | resume (p : Pos)
  | resumeNext (p : Pos)
  | resumeLabel (L : Nat) (p : Pos)
inductive ElseIfs where
  | nil
  | cons (c : Ast.Expr) (body : SStmt) (rest : ElseIfs)
inductive SCases where
  | nil
  | cons (conds : List CaseExpr) (body : SStmt) (rest : SCases)
end

instance : Inhabited SStmt := ⟨.skip⟩

structure SProgram where
  slots : List Ty
  body : SStmt

/-! ### desugaring -/

mutual
def desugar : SStmt → Stmt
  | .skip => .skip
  | .seq a b => .seq (desugar a) (desugar b)
  | .comment => .skip
  | .dim x t p => .assign x t (.lit (Src.zeroOf t) p) p
  | .assign x t e p => .assign x t e p
  | .print items p => .print items p
  | .data _ _ => .skip
  | .read vars p => .read (vars.map fun v => (v.1, v.2.1)) p
  | .ifBlock c thn elifs _ els p => .ifs c (desugar thn) (desugarElifs elifs (desugar els) p) p
  | .select e cases hasElse els p => .select e (desugarCases cases (if hasElse then .else_ (desugar els) else .nil)) p
  | .forLoop x t lo hi step body p => .forLoop x t lo hi step (desugar body) p
  | .while c body p => .while c (desugar body) p
  | .doLoop c top u body p => .doLoop c top u (desugar body) p
  | .end_ p => .end_ p
  | .label L _ _ => .label L
  | .goto L _ => .goto L
  | .gosub L _ => .gosub L
  | .ret p => .ret p
  | .onErrorGoto L _ => .onErrorGoto L
  | .onErrorResumeNext _ => .onErrorResumeNext
  | .onErrorGoto0 _ => .onErrorGoto0
  | .resume p => .resume p
  | .resumeNext p => .resumeNext p
  | .resumeLabel L p => .resumeLabel L p
def desugarElifs : ElseIfs → Stmt → Pos → Stmt
  | .nil, els, _ => els
  | .cons c body rest, els, p => .ifs c (desugar body) (desugarElifs rest els p) p
def desugarCases : SCases → Cases → Cases
  | .nil, tail => tail
  | .cons conds body rest, tail => .case conds (desugar body) (desugarCases rest tail)
end

/-- DATA items in program order (only top-level statements carry DATA) -/
def dataOf : SStmt → List Val
  | .seq a b => dataOf a ++ dataOf b
  | .data items _ => items.map (·.1)
  | _ => []

def SProgram.toAst (sp : SProgram) : Program :=
  ⟨sp.slots, dataOf sp.body, desugar sp.body⟩

/-! ### reader -/

mutual
partial def sstmt? : Sexp → Option SStmt
  | .atom "comment" => some .comment
  | .list [.atom "dim", x, t, r, c] => do pure (.dim (← x.nat?) (← ty? t) (← pos? r c))
  | .list [.atom "assign", x, t, e, r, c] => do
      pure (.assign (← x.nat?) (← ty? t) (← expr? e) (← pos? r c))
  | .list [.atom "print", .list items, r, c] => do
      pure (.print (← items.mapM item?) (← pos? r c))
  | .list [.atom "data", .list items, r, c] => do
      let its ← items.mapM fun it => match it with
        | .list [v, ir, ic] => do pure ((← val? v), (← pos? ir ic))
        | _ => none
      pure (.data its (← pos? r c))
  | .list [.atom "read", .list vars, r, c] => do
      let vs ← vars.mapM fun v => match v with
        | .list [x, t, vr, vc] => do pure ((← x.nat?), (← ty? t), (← pos? vr vc))
        | _ => none
      pure (.read vs (← pos? r c))
  | .list [.atom "if", cnd, thn, .list elifs, els, r, c] => do
      let (he, eb) ← optBlock? els
      pure (.ifBlock (← expr? cnd) (← sblock? thn) (← elifs? elifs) he eb (← pos? r c))
  | .list [.atom "select", e, .list cs, els, r, c] => do
      let (he, eb) ← optBlock? els
      pure (.select (← expr? e) (← scases? cs) he eb (← pos? r c))
  | .list [.atom "for", x, t, lo, hi, st, body, r, c] => do
      let step ← match st with
        | .atom "none" => pure none
        | s => do pure (some (← expr? s))
      pure (.forLoop (← x.nat?) (← ty? t) (← expr? lo) (← expr? hi) step (← sblock? body) (← pos? r c))
  | .list [.atom "while", cnd, body, r, c] => do
      pure (.while (← expr? cnd) (← sblock? body) (← pos? r c))
  | .list [.atom "do", cnd, top, unt, body, r, c] => do
      pure (.doLoop (← expr? cnd) (← top.bool?) (← unt.bool?) (← sblock? body) (← pos? r c))
  | .list [.atom "end", r, c] => do pure (.end_ (← pos? r c))
  | .list [.atom "label", l, name, r, c] => do pure (.label (← l.nat?) (← Instr.str? name) (← pos? r c))
  | .list [.atom "goto", l, r, c] => do pure (.goto (← l.nat?) (← pos? r c))
  | .list [.atom "gosub", l, r, c] => do pure (.gosub (← l.nat?) (← pos? r c))
  | .list [.atom "return", r, c] => do pure (.ret (← pos? r c))
  | .list [.atom "onerrorgoto", l, r, c] => do pure (.onErrorGoto (← l.nat?) (← pos? r c))
  | .list [.atom "onerrornext", r, c] => do pure (.onErrorResumeNext (← pos? r c))
  | .list [.atom "onerrorzero", r, c] => do pure (.onErrorGoto0 (← pos? r c))
  | .list [.atom "resume", r, c] => do pure (.resume (← pos? r c))
  | .list [.atom "resumenext", r, c] => do pure (.resumeNext (← pos? r c))
  | .list [.atom "resumelabel", l, r, c] => do pure (.resumeLabel (← l.nat?) (← pos? r c))
  | _ => none
partial def sblock? : Sexp → Option SStmt
  | .list [] => some .skip
  | .list (s :: rest) => do pure (.seq (← sstmt? s) (← sblock? (.list rest)))
  | _ => none
partial def optBlock? : Sexp → Option (Bool × SStmt)
  | .atom "none" => some (false, .skip)
  | b => do pure (true, ← sblock? b)
partial def elifs? : List Sexp → Option ElseIfs
  | [] => some .nil
  | .list [c, body] :: rest => do pure (.cons (← expr? c) (← sblock? body) (← elifs? rest))
  | _ => none
partial def scases? : List Sexp → Option SCases
  | [] => some .nil
  | .list [.list conds, body] :: rest => do
      pure (.cons (← conds.mapM caseExpr?) (← sblock? body) (← scases? rest))
  | _ => none
end

/-- `(eprogram (<ty>…) (<stmt>…))` -/
def sprogram? : Sexp → Option SProgram
  | .list [.atom "eprogram", .list slots, body] => do
      pure ⟨← slots.mapM ty?, ← sblock? body⟩
  | _ => none

end RbModel.ErrL
