import RbModel.ErrL.Compile
import RbModel.CoreWf
/-!
# RbModel.ErrL.WfB — the executable premise checker of the error layer (`errl.wf`)

`progWfB prog` decides the static premise of the (future) simulation theorem of the error layer: the premise `JmpWf` of the
jump layer (`RbModel.JmpL.WfB`: C01's `WfTop`; labels defined once; every GOTO / GOSUB target defined; the FOR / SELECT
statements that enclose a label enclose every GOTO to it; GOSUB targets at depth 0; no label inside the body of a
`FOR … STEP`, known finding C05-a) and, for the new statements,

* every `ON ERROR GOTO L` and every `RESUME L` names a defined label with no enclosing FOR / SELECT (the handler is entered,
  and the label is continued at, with whatever register frames and selectors the failing statement had: only depth 0 is
  right wherever the error comes from).  A `RESUME L` to a label inside a FOR that also encloses the failing statement works
  in the code and in `ErrL.Ref`, but lies outside this static premise (which statement fails is not a static fact); the
  harness explores such programs and counts them as `progWfB-false`.
-/
namespace RbModel.ErrL
open RbModel RbModel.Num RbModel.Ast RbModel.ErrL.Compile
open RbModel.JmpL.Compile (Dp)
open RbModel.CoreWf (slotsB exprWtB condB itemsB isRelB caseB condsB readB)
open RbModel.Ast (CaseExpr)

mutual
/-- the labels defined inside a statement, in program order -/
def SStmt.labels : SStmt → List Nat
  | .seq a b => a.labels ++ b.labels
  | .ifBlock _ thn elifs _ els _ => thn.labels ++ (elifs.labels ++ els.labels)
  | .select _ cases _ els _ => cases.labels ++ els.labels
  | .forLoop _ _ _ _ _ body _ => body.labels
  | .while _ body _ => body.labels
  | .doLoop _ _ _ body _ => body.labels
  | .label L _ _ => [L]
  | _ => []
def ElseIfs.labels : ElseIfs → List Nat
  | .nil => []
  | .cons _ body rest => body.labels ++ rest.labels
def SCases.labels : SCases → List Nat
  | .nil => []
  | .cons _ body rest => body.labels ++ rest.labels
end

mutual
/-- the targets of the GOTO statements inside a statement -/
def SStmt.gotos : SStmt → List Nat
  | .seq a b => a.gotos ++ b.gotos
  | .ifBlock _ thn elifs _ els _ => thn.gotos ++ (elifs.gotos ++ els.gotos)
  | .select _ cases _ els _ => cases.gotos ++ els.gotos
  | .forLoop _ _ _ _ _ body _ => body.gotos
  | .while _ body _ => body.gotos
  | .doLoop _ _ _ body _ => body.gotos
  | .goto L _ => [L]
  | _ => []
def ElseIfs.gotos : ElseIfs → List Nat
  | .nil => []
  | .cons _ body rest => body.gotos ++ rest.gotos
def SCases.gotos : SCases → List Nat
  | .nil => []
  | .cons _ body rest => body.gotos ++ rest.gotos
end

mutual
/-- the targets of the GOSUB statements inside a statement -/
def SStmt.gosubs : SStmt → List Nat
  | .seq a b => a.gosubs ++ b.gosubs
  | .ifBlock _ thn elifs _ els _ => thn.gosubs ++ (elifs.gosubs ++ els.gosubs)
  | .select _ cases _ els _ => cases.gosubs ++ els.gosubs
  | .forLoop _ _ _ _ _ body _ => body.gosubs
  | .while _ body _ => body.gosubs
  | .doLoop _ _ _ body _ => body.gosubs
  | .gosub L _ => [L]
  | _ => []
def ElseIfs.gosubs : ElseIfs → List Nat
  | .nil => []
  | .cons _ body rest => body.gosubs ++ rest.gosubs
def SCases.gosubs : SCases → List Nat
  | .nil => []
  | .cons _ body rest => body.gosubs ++ rest.gosubs
end

mutual
/-- the labels named by ON ERROR GOTO and RESUME label statements -/
def SStmt.errLabels : SStmt → List Nat
  | .seq a b => a.errLabels ++ b.errLabels
  | .ifBlock _ thn elifs _ els _ => thn.errLabels ++ (elifs.errLabels ++ els.errLabels)
  | .select _ cases _ els _ => cases.errLabels ++ els.errLabels
  | .forLoop _ _ _ _ _ body _ => body.errLabels
  | .while _ body _ => body.errLabels
  | .doLoop _ _ _ body _ => body.errLabels
  | .onErrorGoto L _ => [L]
  | .resumeLabel L _ => [L]
  | _ => []
def ElseIfs.errLabels : ElseIfs → List Nat
  | .nil => []
  | .cons _ body rest => body.errLabels ++ rest.errLabels
def SCases.errLabels : SCases → List Nat
  | .nil => []
  | .cons _ body rest => body.errLabels ++ rest.errLabels
end

def isSkipB : SStmt → Bool
  | .skip => true
  | _ => false

/-- a GOTO that leaves a construct (its label is not among `inner`) names a label that is not deeper than the construct -/
def leavesB (depthOf : Nat → Nat) (depth : Nat) (inner gotos : List Nat) : Bool :=
  gotos.all fun L => inner.contains L || decide (depthOf L ≤ depth)

mutual
/-- decides a sufficient condition for `Wf sl dp d e stmt` -/
def wfB (sl : List Ty) (dp : Dp) (d e : Nat) : SStmt → Bool
  | .skip => true
  | .comment => true
  | .seq a b => wfB sl dp d e a && wfB sl dp d e b
  | .dim x t _ => decide (sl[x]? = some t)
  | .assign x t ex _ => decide (sl[x]? = some t) && slotsB sl.length ex && exprWtB sl ex
  | .print items _ => itemsB sl.length items
  | .ifBlock c thn elifs hasElse els _ =>
    condB sl c && wfB sl dp d e thn && wfElifsB sl dp d e elifs && wfB sl dp d e els && (hasElse || isSkipB els)
  | .while c body _ => condB sl c && wfB sl dp d e body
  | .doLoop c _ _ body _ => condB sl c && wfB sl dp d e body
  | .end_ _ => true
  | .data _ _ => false
  | .read vars _ => readB sl vars
  | .select sel cases hasElse els _ =>
    slotsB sl.length sel && wfCasesB sl dp d (e + 1) cases && wfB sl dp d (e + 1) els && (hasElse || isSkipB els) &&
      leavesB dp.sd e (cases.labels ++ els.labels) (cases.gotos ++ els.gotos)
  | .forLoop x t lo hi step body _ =>
    decide (sl[x]? = some t) && slotsB sl.length lo && exprWtB sl lo && slotsB sl.length hi && exprWtB sl hi &&
      (match step with | none => true | some se => slotsB sl.length se && body.labels.isEmpty) &&
      wfB sl dp (d + 1) e body && leavesB dp.fd d body.labels body.gotos
  | .label _ _ _ => true
  | .goto L _ => decide (dp.fd L ≤ d) && decide (dp.sd L ≤ e)
  | .gosub L _ => decide (dp.fd L = 0) && decide (dp.sd L = 0)
  | .ret _ => true
  | .onErrorGoto L _ => decide (dp.fd L = 0) && decide (dp.sd L = 0)
  | .onErrorResumeNext _ => true
  | .onErrorGoto0 _ => true
  | .resume _ => true
  | .resumeNext _ => true
  | .resumeLabel L _ => decide (dp.fd L = 0) && decide (dp.sd L = 0)
def wfElifsB (sl : List Ty) (dp : Dp) (d e : Nat) : ElseIfs → Bool
  | .nil => true
  | .cons c body rest => condB sl c && wfB sl dp d e body && wfElifsB sl dp d e rest
def wfCasesB (sl : List Ty) (dp : Dp) (d e : Nat) : SCases → Bool
  | .nil => true
  | .cons conds body rest =>
    !conds.isEmpty && condsB sl.length conds && wfB sl dp d e body && wfCasesB sl dp d e rest
end

/-! ### the premise clauses the simulation proof forced (`Thm/ErrLSimBase.lean`, `Wf`) -/

/-- cannot fail: a literal or a variable -/
def atomicB : Ast.Expr → Bool
  | .lit _ _ => true
  | .var _ _ _ => true
  | .paren e _ => atomicB e
  | _ => false

/-- no operand is pending on the value stack when the expression fails: the right operand of every operator is atomic -/
def noPendingB : Ast.Expr → Bool
  | .lit _ _ => true
  | .var _ _ _ => true
  | .paren e _ => noPendingB e
  | .un _ e _ => noPendingB e
  | .bin _ l r _ _ => noPendingB l && atomicB r

def caseNoPendingB : CaseExpr → Bool
  | .simple e => noPendingB e
  | .is _ e => noPendingB e
  | .range lo hi => noPendingB lo && noPendingB hi

/-- the STEP of a FOR is a numeric literal other than zero -/
def stepLitB : Ast.Expr → Bool
  | .lit v _ =>
    match tryCmp v (.int 0) with
    | .ok .lt => true
    | .ok .gt => true
    | _ => false
  | _ => false

mutual
/-- the clauses of the simulation theorem's premise that `wfB` does not check: the items of a CASE have no operand pending
when they fail (open finding C05-h), the STEP of a FOR is a numeric literal other than zero (recorded finding C05-g) -/
def wfXB : SStmt → Bool
  | .seq a b => wfXB a && wfXB b
  | .ifBlock _ thn elifs _ els _ => wfXB thn && wfXElifsB elifs && wfXB els
  | .select _ cases _ els _ => wfXCasesB cases && wfXB els
  | .forLoop _ _ _ _ step body _ => (match step with | none => true | some se => stepLitB se) && wfXB body
  | .while _ body _ => wfXB body
  | .doLoop _ _ _ body _ => wfXB body
  | _ => true
def wfXElifsB : ElseIfs → Bool
  | .nil => true
  | .cons _ body rest => wfXB body && wfXElifsB rest
def wfXCasesB : SCases → Bool
  | .nil => true
  | .cons conds body rest => conds.all caseNoPendingB && wfXB body && wfXCasesB rest
end

/-- DATA statements only at the top level -/
def wfTopB (sl : List Ty) (dp : Dp) : SStmt → Bool
  | .seq a b => wfTopB sl dp a && wfTopB sl dp b
  | .data _ _ => true
  | st => wfB sl dp 0 0 st

def nodupB : List Nat → Bool
  | [] => true
  | x :: rest => !rest.contains x && nodupB rest

/-- the premise of the error layer's simulation theorem, executable -/
def progWfB (prog : SProgram) : Bool :=
  let dp := Dp.ofTable (depthTable 0 0 prog.body)
  wfTopB prog.slots dp prog.body && nodupB prog.body.labels &&
    prog.body.gotos.all prog.body.labels.contains && prog.body.gosubs.all prog.body.labels.contains &&
    prog.body.errLabels.all prog.body.labels.contains

/-- the whole premise of the error layer's simulation theorem (`Thm/ErrLWf.lean`: `progWfB_sound`), executable: what `errl.wf`
answers -/
def progWfXB (prog : SProgram) : Bool := progWfB prog && wfXB prog.body

end RbModel.ErrL
