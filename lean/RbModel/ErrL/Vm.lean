import RbModel.ErrL.Compile
import RbModel.JmpL.Vm
import RbModel.Ctl
/-!
# RbModel.ErrL.Vm — VM model of the error layer

`rusty_basic/src/interpreter/main.rs` restricted to the instructions `ErrL.Compile.EInstr`: the VM model `RbModel.JmpL.Vm`
of the jump layer (used as it is for every instruction of that layer) plus

* the **error dispatch** of `Interpreter::interpret` (`raise`): when `interpret_one` fails at address `i` the code is recorded
  in `last_error_code`; with `ErrorHandler::Address(h)` a handler context is pushed (`push_error_handler_context`),
  `last_error_address := i` and control goes to `h` — *whether or not a handler is already running*; with
  `ErrorHandler::Next` control goes to `find_next(i)`; with `ErrorHandler::None` the run ends with the error;
* `OnErrorGoTo a` / `OnErrorResumeNext` / `OnErrorGoToZero`: set the handler register;
* the dispatch to a handler records the heights of the register stack and of the value stack (`last_error_marks`, dee4bd6)
  and pushes a fresh register frame for the handler (df9ea58); `Resume` / `ResumeNext` cut both stacks back to the recorded
  heights (`leaveHandler`);
* `Resume` / `ResumeNext` / `ResumeLabel a`: `take_last_error_address` (clears the code; error 20 `ResumeWithoutError` at the
  instruction's position when there is none — dispatched like any other error), then `find_current` / `find_next` of the
  recorded address / the label, and the handler context is popped.  `ResumeLabel` also leaves every handler context and
  cuts the register stack back to `registers + for depth` and the value stack to `values + select depth` of the label
  (`label_depths`, 1a4d83d), where `(registers, values)` are the heights recorded at the innermost pending GOSUB (a routine
  runs on top of its caller's frames; 26672d3) and `(1, 0)` when none is pending; in the main module (`return_marks` empty)
  the GOSUB stack is kept;
* `NearestStatementFinder::{find_current, find_next}` over the statement-address table: `RbModel.Ctl.findCurrentWith` /
  `findNextWith` with the binary-search answer `Ctl.bsFirst` (the table of a program of this layer has no duplicates); a
  panic of the real finder is `stuck`;
* `READ`: `DataSegment::pop` advances the index *before* the conversion, so an item that cannot be converted is consumed
  (visible only once the error is handled).
-/
namespace RbModel.ErrL.Vm
open RbModel RbModel.Num RbModel.Ast RbModel.ErrL.Compile
open RbModel.JmpL.Compile (CInstr Code)
open RbModel.JmpL.Vm (Vm truncTop)
open RbModel.JmpL.Vm (Regs)

/-- what the interpreter is given: the instructions, the statement addresses, the label depths -/
structure Prog where
  code : ECode
  /-- the instructions of the jump layer as `JmpL.Vm.step` reads them (an ON ERROR / RESUME instruction shows as a no-op
  label: `step` below never hands one of those to the jump layer's VM) -/
  base : Code
  marks : List Nat
  depths : List (Nat × Nat × Nat)

def baseOf (c : ECode) : Code :=
  c.map fun ip => match ip.1 with
    | .base b => (b, ip.2)
    | _ => (.label "", ip.2)

def Prog.ofProgram (p : SProgram) : Prog :=
  let c := compile p
  ⟨c, baseOf c, Compile.marks p, Compile.labelDepths p⟩

structure EVm where
  b : Vm
  /-- `ctx.error_handler` -/
  handler : Ctl.Handler
  /-- `last_error_address` -/
  errAddr : Option Nat
  /-- `last_error_code` -/
  errCode : Option Nat
  /-- the handler contexts pushed by `push_error_handler_context` and not yet popped -/
  ctx : Nat
  /-- `last_error_marks`: the heights of `register_stack` (the current frame counted) and of `value_stack` when the most
  recent error was handed to a handler (dee4bd6) -/
  errMarks : Nat × Nat := (0, 0)

def EVm.init (slots : List Ty) : EVm := ⟨Vm.init slots, .none, none, none, 0, (0, 0)⟩

inductive StepRes where
  | next (σ : EVm)
  | halt (σ : EVm)
  | error (code : Nat) (p : Pos) (σ : EVm)
  | stuck

def findCurrent (l : List Nat) (a : Nat) : Option Nat := Ctl.findCurrentWith l a (Ctl.bsFirst l a)
def findNext (l : List Nat) (a : Nat) : Option Nat := Ctl.findNextWith l a (Ctl.bsFirst l a)

def codeResumeWithoutError : Nat := 20

/-- the error dispatch of `interpret`: `σ` is the state in which the instruction at `σ.b.pc` failed -/
def raise (P : Prog) (σ : EVm) (c : Nat) (p : Pos) : StepRes :=
  let σ := { σ with errCode := some c }
  match σ.handler with
  | .address h =>
    -- the heights are recorded (dee4bd6) and the handler gets a register frame of its own (df9ea58)
    .next { σ with ctx := σ.ctx + 1, errAddr := some σ.b.pc, errMarks := (1 + σ.b.regStack.length, σ.b.vals.length),
                   b := { σ.b with pc := h, regs := Regs.new, regStack := σ.b.regs :: σ.b.regStack } }
  | .next =>
    match findNext P.marks σ.b.pc with
    | some t => .next { σ with b := { σ.b with pc := t } }
    | none => .stuck
  | .none => .error c p σ

/-- `READ` with the index of the data segment as the real code leaves it: an item that fails to convert is consumed -/
def readArgs : List (Val × Option Nat) → List Val → Nat → Nat × (Except Nat (List (Val × Option Nat)))
  | [], _, idx => (idx, .ok [])
  | (cur, slot) :: rest, data, idx =>
    match data[idx]? with
    | none => (idx, .error RbModel.Ref.codeOutOfData)
    | some v =>
      match cast v cur.tag with
      | .ok w =>
        match readArgs rest data (idx + 1) with
        | (idx', .ok rs) => (idx', .ok ((w, slot) :: rs))
        | r => r
      | .err e => (idx + 1, .error (RbModel.Ref.codeOf e))
      | .inexact => (idx + 1, .error (RbModel.Ref.codeOf .typeMismatch))

/-- `leave_error_handler_blocks`: RESUME / RESUME NEXT cut the register stack and the value stack back to the heights
recorded when the error was handed to the handler (the handler's own frame, the frames of its FOR loops, the selectors of
its SELECT CASE blocks go) -/
def leaveHandler (σ : EVm) : StepRes :=
  match truncTop σ.errMarks.1 (σ.b.regs :: σ.b.regStack) with
  | [] => .stuck
  | r :: rs => .next { σ with b := { σ.b with regs := r, regStack := rs, vals := truncTop σ.errMarks.2 σ.b.vals } }

def step (P : Prog) (σ : EVm) : StepRes :=
  match P.code[σ.b.pc]? with
  | none => .stuck
  | some (i, p) =>
    match i with
    | .base .builtInRead =>
      match readArgs σ.b.args σ.b.data σ.b.dataIdx with
      | (idx', .ok args') => .next { σ with b := { σ.b with pc := σ.b.pc + 1, args := args', dataIdx := idx' } }
      | (idx', .error c) => raise P { σ with b := { σ.b with dataIdx := idx' } } c σ.b.callPos
    | .base _ =>
      match JmpL.Vm.step P.base σ.b with
      | .next b' => .next { σ with b := b' }
      | .halt b' => .halt { σ with b := b' }
      | .error c q b' => raise P { σ with b := b' } c q
      | .stuck => .stuck
    | .onErrorGoto a => .next { σ with handler := .address a, b := { σ.b with pc := σ.b.pc + 1 } }
    | .onErrorResumeNext => .next { σ with handler := .next, b := { σ.b with pc := σ.b.pc + 1 } }
    | .onErrorGoto0 => .next { σ with handler := .none, b := { σ.b with pc := σ.b.pc + 1 } }
    | .resume =>
      match σ.errAddr with
      | none => raise P { σ with errCode := none } codeResumeWithoutError p
      | some a =>
        match findCurrent P.marks a with
        | none => .stuck
        | some t => leaveHandler { σ with errAddr := none, errCode := none, ctx := σ.ctx - 1, b := { σ.b with pc := t } }
    | .resumeNext =>
      match σ.errAddr with
      | none => raise P { σ with errCode := none } codeResumeWithoutError p
      | some a =>
        match findNext P.marks a with
        | none => .stuck
        | some t => leaveHandler { σ with errAddr := none, errCode := none, ctx := σ.ctx - 1, b := { σ.b with pc := t } }
    | .resumeLabel a =>
      match σ.errAddr with
      | none => raise P { σ with errCode := none } codeResumeWithoutError p
      | some _ =>
        let σ := { σ with errAddr := none, errCode := none, ctx := 0 }
        match lookupLabelDepth a P.depths with
        | none => .next { σ with b := { σ.b with pc := a } }
        | some (fd, sd) =>
          -- `register_stack.truncate(registers + for_depth)`, `value_stack.truncate(values + select_depth)` with
          -- `(registers, values)` = the heights recorded at the innermost pending GOSUB, `(1, 0)` when there is none
          let (rh, vh) := match σ.b.gosubs with
            | [] => (1, 0)
            | (_, rh, vh) :: _ => (rh, vh)
          match truncTop (rh + fd) (σ.b.regs :: σ.b.regStack) with
          | [] => .stuck
          | r :: rs => .next { σ with b := { σ.b with pc := a, regs := r, regStack := rs, vals := truncTop (vh + sd) σ.b.vals } }

inductive RunRes where
  | halted (σ : EVm)
  | error (code : Nat) (p : Pos) (σ : EVm)
  | stuck
  | outOfFuel

def run (P : Prog) : Nat → EVm → RunRes
  | 0, _ => .outOfFuel
  | fuel + 1, σ =>
    match step P σ with
    | .next σ' => run P fuel σ'
    | .halt σ' => .halted σ'
    | .error c p σ' => .error c p σ'
    | .stuck => .stuck

end RbModel.ErrL.Vm
