import RbModel.ErrL.Syntax
import RbModel.JmpL.Compile
/-!
# RbModel.ErrL.Compile — generator model of the error layer

`rusty_basic/src/instruction_generator/{main, statement, expression, loops, if_block, select_case, print, calls, dim}.rs`
restricted to the constructs of `ErrL.SStmt`: the generator model `RbModel.JmpL.Compile` of the jump layer (whose
expression-level pieces are reused as they are), plus

* `Statement::OnError(Label L)` → `OnErrorGoTo L`; `OnError(Next)` → `OnErrorResumeNext`; `OnError(Zero)` → `OnErrorGoToZero`;
* `Statement::Resume(Bare | Next | Label L)` → `Resume` | `ResumeNext` | `ResumeLabel L`;
* the **statement-address table** (`InstructionGenerator::statement_addresses`, filled by `mark_statement_address`): `marks`.
  One entry at the first instruction of every statement that is not a comment (`Visitor<StatementPos>::visit`), and the
  extra entries
    - IF: at the `Jump end-if` that closes the THEN block and every ELSEIF block; at the first instruction of every ELSEIF
      condition (after its label);
    - SELECT CASE: at the `Jump select-skip` behind the selector (where RESUME NEXT continues when the selector fails), at the
      instruction after `select-begin`, at the first instruction of the items of every CASE block (after its label), at the
      `Jump end-select` that closes every CASE block;
    - FOR: at the `Jump out-of-for` behind the header (where RESUME NEXT continues when a bound or the step fails), at the
      `PopRegisters` behind the body and at the first instruction of the increment behind it (each copy of the body of a
      FOR … STEP; the NEXT is a statement of its own, 3abb028), and at the `Jump out-of-for` that follows each copy
      (7249205, fe11300);
    - WHILE / DO with the condition on top: at the back-edge `Jump`; DO with the condition at the bottom: at the first
      instruction of the condition;
    - the final `Halt`;
* the **label depth table** (`InstructionGeneratorResult::label_depths`): address of every user `Label` instruction →
  (FOR depth, SELECT depth): `labelDepths`.

`compile p = normalise (real list)`, `marks p = real statement_addresses` and `labelDepths p = real label_depths` are demanded
for every explored program by `harness/src/bin/c05e.rs`.
-/
set_option linter.unusedVariables false

namespace RbModel.ErrL.Compile
open RbModel RbModel.Num RbModel.Ast RbModel.ErrL
open RbModel.JmpL.Compile (CInstr Code labelName compileExpr compileExprTo storeVar loadVar compileItems compileConds
  sizeCaseExpr sizeItems sizeConds Dp lookupNat lookupDepth stepSuffix maxPos)

/-- the instructions of the layer: those of the jump layer and the six of ON ERROR / RESUME (targets are addresses) -/
inductive EInstr where
  | base (c : CInstr)
  | onErrorGoto (a : Nat)
  | onErrorResumeNext
  | onErrorGoto0
  | resume
  | resumeNext
  | resumeLabel (a : Nat)
  deriving DecidableEq, Inhabited

abbrev ECode := List (EInstr × Pos)

def lift (c : Code) : ECode := c.map fun ip => (.base ip.1, ip.2)

@[simp] theorem lift_length (c : Code) : (lift c).length = c.length := by simp [lift]

/-- a `GOTO L` generated at FOR depth `d` and SELECT depth `e` -/
def sizeGoto (dp : Dp) (d e L : Nat) : Nat := (d - dp.fd L) + (e - dp.sd L) + 1

/-! ### sizes -/

mutual
/-- `d` / `e`: the number of FOR bodies / SELECT statements around the statement (`for_depth`, `select_depth`) -/
def sizeStmt (dp : Dp) (d e : Nat) : SStmt → Nat
  | .skip => 0
  | .seq a b => sizeStmt dp d e a + sizeStmt dp d e b
  | .comment => 0
  | .dim _ _ _ => 3
  | .assign _ t e _ => (compileExprTo e t).length + 2
  | .print items _ => 3 + sizeItems items + 1
  | .data items _ => 1 + 2 * items.length + 3
  | .read vars _ => if vars.isEmpty then 4 else 11 * vars.length
  | .ifBlock c thn elifs hasElse els _ =>
    (compileExpr c).length + 1 + sizeStmt dp d e thn + 1 + sizeElifs dp d e elifs +
      (if hasElse then 1 + sizeStmt dp d e els else 0) + 1
  | .select sel cases hasElse els _ =>
    (compileExpr sel).length + 1 + 3 + sizeCases dp d (e + 1) cases +
      (if hasElse then 1 + sizeStmt dp d (e + 1) els else 0) + 3
  | .forLoop x t lo hi step body p =>
    (compileExprTo lo t).length + 2 + (compileExprTo hi t).length +
    (match step with
     | none => 6 + (18 + sizeStmt dp (d + 1) e body) + 1
     | some s => 1 + (compileExpr s).length + 11 + (18 + sizeStmt dp (d + 1) e body) + 2 + 3 +
         (18 + sizeStmt dp (d + 1) e body) + 4)
  | .while c body _ => 1 + (compileExpr c).length + 1 + sizeStmt dp d e body + 2
  | .doLoop c top u body _ =>
    if top then 1 + (compileExpr c).length + (if u then 3 else 1) + sizeStmt dp d e body + 2
    else 1 + sizeStmt dp d e body + (compileExpr c).length + (if u then 1 else 2) + 1
  | .end_ _ => 1
  | .label _ _ _ => 1
  | .goto L _ => sizeGoto dp d e L
  | .gosub _ _ => 1
  | .ret _ => 1
  | .onErrorGoto _ _ => 1
  | .onErrorResumeNext _ => 1
  | .onErrorGoto0 _ => 1
  | .resume _ => 1
  | .resumeNext _ => 1
  | .resumeLabel _ _ => 1
def sizeElifs (dp : Dp) (d e : Nat) : ElseIfs → Nat
  | .nil => 0
  | .cons c body rest => 1 + (compileExpr c).length + 1 + sizeStmt dp d e body + 1 + sizeElifs dp d e rest
/-- `e`: the depth of the blocks (the SELECT counted) -/
def sizeCases (dp : Dp) (d e : Nat) : SCases → Nat
  | .nil => 0
  | .cons conds body rest =>
    1 + sizeConds conds + (if conds.length > 1 then 1 else 0) + sizeStmt dp d e body + 1 + sizeCases dp d e rest
end

/-- loop head (8) + body + increment (10); the body is one FOR deeper -/
def sizeForBody (dp : Dp) (d e : Nat) (body : SStmt) : Nat :=
  18 + sizeStmt dp (d + 1) e body

/-! ### the label tables (`collect_label_depths`, `label_resolver.rs`) -/

mutual
/-- `(L, for depth, select depth)` of every label statement, in program order -/
def depthTable (d e : Nat) : SStmt → List (Nat × Nat × Nat)
  | .seq a b => depthTable d e a ++ depthTable d e b
  | .ifBlock _ thn elifs _ els _ => depthTable d e thn ++ depthElifs d e elifs ++ depthTable d e els
  | .select _ cases _ els _ => depthCases d (e + 1) cases ++ depthTable d (e + 1) els
  | .forLoop _ _ _ _ _ body _ => depthTable (d + 1) e body
  | .while _ body _ => depthTable d e body
  | .doLoop _ _ _ body _ => depthTable d e body
  | .label L _ _ => [(L, d, e)]
  | _ => []
def depthElifs (d e : Nat) : ElseIfs → List (Nat × Nat × Nat)
  | .nil => []
  | .cons _ body rest => depthTable d e body ++ depthElifs d e rest
def depthCases (d e : Nat) : SCases → List (Nat × Nat × Nat)
  | .nil => []
  | .cons _ body rest => depthTable d e body ++ depthCases d e rest
end

mutual
/-- `(L, address of its Label instruction)` for the code of the statement placed at `off` -/
def addrTable (dp : Dp) (d e : Nat) (off : Nat) : SStmt → List (Nat × Nat)
  | .seq a b => addrTable dp d e off a ++ addrTable dp d e (off + sizeStmt dp d e a) b
  | .ifBlock c thn elifs hasElse els _ =>
    let thnOff := off + (compileExpr c).length + 1
    let afterThn := thnOff + sizeStmt dp d e thn + 1
    let elseOff := afterThn + sizeElifs dp d e elifs
    addrTable dp d e thnOff thn ++ addrElifs dp d e afterThn elifs ++
      (if hasElse then addrTable dp d e (elseOff + 1) els else [])
  | .select sel cases hasElse els _ =>
    let casesOff := off + (compileExpr sel).length + 1 + 3
    let elseOff := casesOff + sizeCases dp d (e + 1) cases
    addrCases dp d (e + 1) casesOff cases ++ (if hasElse then addrTable dp d (e + 1) (elseOff + 1) els else [])
  | .forLoop x t lo hi step body _ =>
    let hdr := off + (compileExprTo lo t).length + 2 + (compileExprTo hi t).length
    match step with
    | none => addrTable dp (d + 1) e (hdr + 6 + 8) body
    | some s =>
      -- the body is generated twice; the resolver keeps the later copy (the positive one)
      let negOff := hdr + 1 + (compileExpr s).length + 11
      let posOff := negOff + sizeForBody dp d e body + 1 + 4
      addrTable dp (d + 1) e (posOff + 8) body ++ addrTable dp (d + 1) e (negOff + 8) body
  | .while c body _ => addrTable dp d e (off + 1 + (compileExpr c).length + 1) body
  | .doLoop c top u body _ =>
    if top then addrTable dp d e (off + 1 + (compileExpr c).length + (if u then 3 else 1)) body
    else addrTable dp d e (off + 1) body
  | .label L _ _ => [(L, off)]
  | _ => []
def addrElifs (dp : Dp) (d e : Nat) (off : Nat) : ElseIfs → List (Nat × Nat)
  | .nil => []
  | .cons c body rest =>
    let bodyOff := off + 1 + (compileExpr c).length + 1
    addrTable dp d e bodyOff body ++ addrElifs dp d e (bodyOff + sizeStmt dp d e body + 1) rest
def addrCases (dp : Dp) (d e : Nat) (off : Nat) : SCases → List (Nat × Nat)
  | .nil => []
  | .cons conds body rest =>
    let bodyOff := off + 1 + sizeConds conds + (if conds.length > 1 then 1 else 0)
    addrTable dp d e bodyOff body ++ addrCases dp d e (bodyOff + sizeStmt dp d e body + 1) rest
end

/-! ### the statement-address table (`mark_statement_address`) -/

mutual
/-- the entries recorded while the statement placed at `off` is generated, in generation order (= ascending) -/
def marksStmt (dp : Dp) (d e : Nat) (off : Nat) : SStmt → List Nat
  | .skip => []
  | .comment => []
  | .seq a b => marksStmt dp d e off a ++ marksStmt dp d e (off + sizeStmt dp d e a) b
  | .ifBlock c thn elifs hasElse els _ =>
    let thnOff := off + (compileExpr c).length + 1
    let thnEnd := thnOff + sizeStmt dp d e thn                 -- the `Jump end-if` of the THEN block
    let afterThn := thnEnd + 1
    let elseOff := afterThn + sizeElifs dp d e elifs
    [off] ++ marksStmt dp d e thnOff thn ++ [thnEnd] ++ marksElifs dp d e afterThn elifs ++
      (if hasElse then marksStmt dp d e (elseOff + 1) els else [])
  | .select sel cases hasElse els _ =>
    let ne := (compileExpr sel).length
    let casesOff := off + ne + 1 + 3
    let elseOff := casesOff + sizeCases dp d (e + 1) cases
    -- `sel; PushA; Jump select-begin; [mark] Jump select-skip; Label select-begin; [mark]`
    [off, off + ne + 2, casesOff] ++ marksCases dp d (e + 1) casesOff cases ++
      (if hasElse then marksStmt dp d (e + 1) (elseOff + 1) els else [])
  | .forLoop x t lo hi step body _ =>
    let hdr := off + (compileExprTo lo t).length + 2 + (compileExprTo hi t).length
    match step with
    | none =>
      -- `CopyAToC; LoadA 1; CopyAToD; Jump for-begin; [mark] Jump out-of-for; Label for-begin`
      -- behind the body: `[mark] PopRegisters; [mark] <increment>` (the NEXT has an address of its own: 3abb028)
      let bodyOff := hdr + 6 + 8
      let bodyEnd := bodyOff + sizeStmt dp (d + 1) e body
      [off, hdr + 4] ++ marksStmt dp (d + 1) e bodyOff body ++ [bodyEnd, bodyEnd + 1]
    | some s =>
      let ns := (compileExpr s).length
      let negOff := hdr + 1 + ns + 11
      let posOff := negOff + sizeForBody dp d e body + 1 + 4
      let negEnd := negOff + 8 + sizeStmt dp (d + 1) e body
      let posEnd := posOff + 8 + sizeStmt dp (d + 1) e body
      -- the `Jump out-of-for` that follows each copy has an address: RESUME NEXT after a failed NEXT of the negative copy
      -- continues there, not in the positive copy of the body (7249205); the one behind the positive copy is the nearest
      -- address in front of the zero-step `Throw`: RESUME after a zero step continues behind the loop (fe11300; finding C05-g)
      [off, hdr + 1 + ns + 4] ++
        marksStmt dp (d + 1) e (negOff + 8) body ++ [negEnd, negEnd + 1, negOff + sizeForBody dp d e body] ++
        marksStmt dp (d + 1) e (posOff + 8) body ++ [posEnd, posEnd + 1, posOff + sizeForBody dp d e body]
  | .while c body _ =>
    let bodyOff := off + 1 + (compileExpr c).length + 1
    [off] ++ marksStmt dp d e bodyOff body ++ [bodyOff + sizeStmt dp d e body]
  | .doLoop c top u body _ =>
    if top then
      let bodyOff := off + 1 + (compileExpr c).length + (if u then 3 else 1)
      [off] ++ marksStmt dp d e bodyOff body ++ [bodyOff + sizeStmt dp d e body]
    else
      [off] ++ marksStmt dp d e (off + 1) body ++ [off + 1 + sizeStmt dp d e body]
  | _ => [off]
/-- `off`: the address of the label of the first ELSEIF arm -/
def marksElifs (dp : Dp) (d e : Nat) (off : Nat) : ElseIfs → List Nat
  | .nil => []
  | .cons c body rest =>
    let bodyOff := off + 1 + (compileExpr c).length + 1
    let bodyEnd := bodyOff + sizeStmt dp d e body
    [off + 1] ++ marksStmt dp d e bodyOff body ++ [bodyEnd] ++ marksElifs dp d e (bodyEnd + 1) rest
/-- `off`: the address of the label of the first CASE block -/
def marksCases (dp : Dp) (d e : Nat) (off : Nat) : SCases → List Nat
  | .nil => []
  | .cons conds body rest =>
    let bodyOff := off + 1 + sizeConds conds + (if conds.length > 1 then 1 else 0)
    let bodyEnd := bodyOff + sizeStmt dp d e body
    [off + 1] ++ marksStmt dp d e bodyOff body ++ [bodyEnd] ++ marksCases dp d e (bodyEnd + 1) rest
end

/-- what the generator knows about the user labels while it emits code -/
structure LEnv where
  dp : Dp
  /-- resolved address of a label (`LabelResolver`) -/
  addr : Nat → Nat

/-! ### statements -/

/-- the loop head of `generate_for_loop_instructions_positive_or_negative_step` (8 instructions), placed at `off` -/
def forHead (sfx : String) (x : Nat) (up : Bool) (p : Pos) (outOff : Nat) : Code :=
  [(.label (labelName (if up then "positive-loop" else "negative-loop") p sfx), p), (.copyCToB, p)] ++ loadVar x p ++
    [(.bin (if up then .lessOrEqual else .greaterOrEqual), p), (.jumpIfFalse outOff, p), (.pushRegs, p)]

/-- the increment behind the body (10 instructions); `off` = the address of the loop head -/
def forTail (x : Nat) (t : Ty) (p : Pos) (off : Nat) : Code :=
  [(.popRegs, p)] ++ loadVar x p ++ [(.copyDToB, p), (.bin .plus, p), (.cast t, p)] ++ storeVar x p ++ [(.jump off, p)]

def compileGoto (env : LEnv) (d e L : Nat) (p : Pos) : Code :=
  List.replicate (d - env.dp.fd L) (.popRegs, p) ++ List.replicate (e - env.dp.sd L) (.popA, p) ++ [(.jump (env.addr L), p)]

mutual
def compileStmt (env : LEnv) : String → Nat → Nat → Nat → SStmt → ECode
  | sfx, d, e, _, .skip => []
  | sfx, d, e, off, .seq a b => compileStmt env sfx d e off a ++ compileStmt env sfx d e (off + sizeStmt env.dp d e a) b
  | sfx, d, e, _, .comment => []
  | sfx, d, e, _, .dim x t p => lift [(.allocate t, p), (.varPath x, p), (.copyAToVarPath, p)]
  | sfx, d, e, _, .assign x t ex p => lift (compileExprTo ex t ++ storeVar x p)
  | sfx, d, e, _, .print items p =>
    lift ([(.printSetPrinter, p), (.loadA (.int 0), p), (.printSetFormat, p)] ++ compileItems p items ++ [(.printEnd, p)])
  | sfx, d, e, _, .data items p =>
    lift ([(.beginArgs, p)] ++ items.flatMap (fun (v, q) => [(.loadA v, q), (.pushByVal, q)]) ++
      [(.pushStack, p), (.builtInData, p), (.popStack, p)])
  | sfx, d, e, _, .read vars p =>
    -- `READ a, b` is generated as `READ a : READ b` (one built-in call per variable) under ONE statement mark
    lift (if vars.isEmpty then [(.beginArgs, p), (.pushStack, p), (.builtInRead, p), (.popStack, p)]
    else vars.flatMap (fun (x, _, q) =>
      [(.beginArgs, p), (.varPath x, q), (.copyVarPathToA, q), (.pushByRef, q), (.pushStack, p), (.builtInRead, p),
       (.enqueue 0, q), (.popStack, p), (.dequeue, q), (.varPath x, q), (.copyAToVarPath, q)]))
  | sfx, d, e, off, .ifBlock c thn elifs hasElse els p =>
    let nc := (compileExpr c).length
    let thnOff := off + nc + 1
    let afterThn := thnOff + sizeStmt env.dp d e thn + 1
    let elseOff := afterThn + sizeElifs env.dp d e elifs
    let endOff := elseOff + (if hasElse then 1 + sizeStmt env.dp d e els else 0)
    lift (compileExpr c ++ [(.jumpIfFalse afterThn, p)]) ++ compileStmt env sfx d e thnOff thn ++ lift [(.jump endOff, p)] ++
      compileElifs env sfx d e p endOff elseOff afterThn 0 elifs ++
      (if hasElse then lift [(.label (labelName "else" p sfx), p)] ++ compileStmt env sfx d e (elseOff + 1) els else []) ++
      lift [(.label (labelName "end-if" p sfx), p)]
  | sfx, d, e, off, .select sel cases hasElse els p =>
    let ne := (compileExpr sel).length
    let casesOff := off + ne + 1 + 3
    let elseOff := casesOff + sizeCases env.dp d (e + 1) cases
    let endOff := elseOff + (if hasElse then 1 + sizeStmt env.dp d (e + 1) els else 0)
    lift (compileExpr sel ++ [(.pushA, p)] ++
      [(.jump (casesOff - 1), p), (.jump (endOff + 2), p), (.label (labelName "select-begin" p sfx), p)]) ++
      compileCases env sfx d (e + 1) p endOff elseOff casesOff 0 cases ++
      (if hasElse then lift [(.label (labelName "case-else" p sfx), p)] ++ compileStmt env sfx d (e + 1) (elseOff + 1) els else []) ++
      lift [(.label (labelName "end-select" p sfx), p), (.popA, p), (.label (labelName "select-skip" p sfx), p)]
  | sfx, d, e, off, .forLoop x t lo hi step body p =>
    let nlo := (compileExprTo lo t).length
    let nhi := (compileExprTo hi t).length
    let hdr := off + nlo + 2 + nhi
    lift (compileExprTo lo t ++ storeVar x p ++ compileExprTo hi t) ++
    (match step with
     | none =>
       let bodyOff := hdr + 6
       let outOff := bodyOff + sizeForBody env.dp d e body
       lift ([(.copyAToC, p), (.loadA (.int 1), p), (.copyAToD, p),
        (.jump (hdr + 5), p), (.jump outOff, p), (.label (labelName "for-begin" p sfx), p)] ++ forHead sfx x true p outOff) ++
         compileStmt env (stepSuffix sfx true) (d + 1) e (bodyOff + 8) body ++
         lift (forTail x t p bodyOff ++ [(.label (labelName "out-of-for" p sfx), p)])
     | some s =>
       let ns := (compileExpr s).length
       let negOff := hdr + 1 + ns + 11
       let testPosOff := negOff + sizeForBody env.dp d e body + 1
       let posOff := testPosOff + 4
       let zeroOff := posOff + sizeForBody env.dp d e body + 1
       let outOff := zeroOff + 2
       lift ([(.pushA, p)] ++ compileExpr s ++
         [(.copyAToD, p), (.popA, p), (.copyAToC, p),
          (.jump (hdr + 1 + ns + 5), p), (.jump outOff, p), (.label (labelName "for-begin" p sfx), p),
          (.loadA (.int 0), p), (.copyAToB, p), (.copyDToA, p),
          (.bin .less, p), (.jumpIfFalse testPosOff, p)] ++ forHead sfx x false p outOff) ++
         compileStmt env (stepSuffix sfx false) (d + 1) e (negOff + 8) body ++
         lift (forTail x t p negOff ++
         [(.jump outOff, p), (.label (labelName "test-positive-or-zero" p sfx), p), (.copyDToA, p),
          (.bin .greater, p), (.jumpIfFalse zeroOff, p)] ++ forHead sfx x true p outOff) ++
         compileStmt env (stepSuffix sfx true) (d + 1) e (posOff + 8) body ++
         lift (forTail x t p posOff ++
         [(.jump outOff, p), (.label (labelName "zero" p sfx), p), (.throwZeroStep, s.pos),
          (.label (labelName "out-of-for" p sfx), p)]))
  | sfx, d, e, off, .while c body p =>
    let nc := (compileExpr c).length
    let bodyOff := off + 1 + nc + 1
    let wendOff := bodyOff + sizeStmt env.dp d e body + 1
    lift ([(.label (labelName "while" p sfx), p)] ++ compileExpr c ++ [(.jumpIfFalse wendOff, p)]) ++
      compileStmt env sfx d e bodyOff body ++ lift [(.jump off, p), (.label (labelName "wend" p sfx), p)]
  | sfx, d, e, off, .doLoop c top u body p =>
    let nc := (compileExpr c).length
    if top then
      let bodyOff := off + 1 + nc + (if u then 3 else 1)
      let loopOff := bodyOff + sizeStmt env.dp d e body + 1
      lift ([(.label (labelName "do" p sfx), p)] ++ compileExpr c ++
        (if u then [(.jumpIfFalse (bodyOff - 1), p), (.jump loopOff, p), (.label (labelName "do-body" p sfx), p)]
         else [(.jumpIfFalse loopOff, p)])) ++
        compileStmt env sfx d e bodyOff body ++
        lift [(.jump off, p), (.label (labelName "loop" p sfx), p)]
    else
      let loopOff := off + 1 + sizeStmt env.dp d e body + nc + (if u then 1 else 2)
      lift [(.label (labelName "do" p sfx), p)] ++ compileStmt env sfx d e (off + 1) body ++ lift (compileExpr c ++
        (if u then [(.jumpIfFalse off, p)] else [(.jumpIfFalse loopOff, p), (.jump off, p)]) ++
        [(.label (labelName "loop" p sfx), p)])
  | sfx, d, e, _, .end_ p => lift [(.halt, p)]
  | sfx, d, e, _, .label _ name p => lift [(.label name, p)]
  | sfx, d, e, _, .goto L p => lift (compileGoto env d e L p)
  | sfx, d, e, _, .gosub L p => lift [(.goSub (env.addr L), p)]
  | sfx, d, e, _, .ret p => lift [(.ret, p)]
  | sfx, d, e, _, .onErrorGoto L p => [(.onErrorGoto (env.addr L), p)]
  | sfx, d, e, _, .onErrorResumeNext p => [(.onErrorResumeNext, p)]
  | sfx, d, e, _, .onErrorGoto0 p => [(.onErrorGoto0, p)]
  | sfx, d, e, _, .resume p => [(.resume, p)]
  | sfx, d, e, _, .resumeNext p => [(.resumeNext, p)]
  | sfx, d, e, _, .resumeLabel L p => [(.resumeLabel (env.addr L), p)]
/-- the ELSEIF arms starting at `off` (the address of the label of arm `i`) -/
def compileElifs (env : LEnv) : String → Nat → Nat → Pos → Nat → Nat → Nat → Nat → ElseIfs → ECode
  | _, _, _, _, _, _, _, _, .nil => []
  | sfx, d, e, p, endOff, elseOff, off, i, .cons c body rest =>
    let nc := (compileExpr c).length
    let bodyOff := off + 1 + nc + 1
    let next := bodyOff + sizeStmt env.dp d e body + 1
    lift ([(.label (labelName ("else-if-" ++ toString i) p sfx), p)] ++ compileExpr c ++ [(.jumpIfFalse next, p)]) ++
      compileStmt env sfx d e bodyOff body ++ lift [(.jump endOff, p)] ++
      compileElifs env sfx d e p endOff elseOff next (i + 1) rest
/-- the CASE blocks starting at `off` (the address of the label of block `i`); `e` counts the SELECT -/
def compileCases (env : LEnv) : String → Nat → Nat → Pos → Nat → Nat → Nat → Nat → SCases → ECode
  | _, _, _, _, _, _, _, _, .nil => []
  | sfx, d, e, p, endOff, elseOff, off, i, .cons conds body rest =>
    let multi := decide (conds.length > 1)
    let condsOff := off + 1
    let stmtsLabel := condsOff + sizeConds conds
    let bodyOff := stmtsLabel + (if multi then 1 else 0)
    let next := bodyOff + sizeStmt env.dp d e body + 1
    lift ([(.label (labelName ("case" ++ toString i) p sfx), p)] ++
      compileConds p sfx i next stmtsLabel condsOff 0 conds ++
      (if multi then [(.label (labelName ("case-statements" ++ toString i) p sfx), p)] else [])) ++
      compileStmt env sfx d e bodyOff body ++ lift [(.jump endOff, p)] ++
      compileCases env sfx d e p endOff elseOff next (i + 1) rest
end

/-- `move_data_statements_first`: top-level DATA statements are generated before everything else -/
def topLevel : SStmt → List SStmt
  | .seq a b => topLevel a ++ topLevel b
  | .skip => []
  | s => [s]

def isData : SStmt → Bool
  | .data _ _ => true
  | _ => false

def seqOf : List SStmt → SStmt
  | [] => .skip
  | s :: rest => .seq s (seqOf rest)

def reorder (body : SStmt) : SStmt :=
  let ss := topLevel body
  seqOf (ss.filter isData ++ ss.filter (fun s => !isData s))

def depthsOf (body : SStmt) : Dp := Dp.ofTable (depthTable 0 0 body)

/-- the label environment of a program body: depths by `collect_label_depths`, addresses by the layout -/
def envOf (body : SStmt) : LEnv :=
  let dp := depthsOf body
  let tbl := addrTable dp 0 0 0 body
  ⟨dp, fun L => (lookupNat L tbl).getD 0⟩

/-- `generate_instructions` for a program of the layer (no procedures): the statements, then `Halt` -/
def compile (prog : SProgram) : ECode :=
  let body := reorder prog.body
  compileStmt (envOf body) "" 0 0 0 body ++ [(.base .halt, maxPos)]

/-- `InstructionGeneratorResult::statement_addresses` -/
def marks (prog : SProgram) : List Nat :=
  let body := reorder prog.body
  let dp := depthsOf body
  marksStmt dp 0 0 0 body ++ [sizeStmt dp 0 0 body]

def insertSorted (x : Nat × Nat × Nat) : List (Nat × Nat × Nat) → List (Nat × Nat × Nat)
  | [] => [x]
  | y :: rest => if x.1 ≤ y.1 then x :: y :: rest else y :: insertSorted x rest

/-- `InstructionGeneratorResult::label_depths` as a list sorted by address: `(address, for depth, select depth)` of every
`Label` instruction of a user label (a label inside the body of a FOR … STEP has two addresses with the same depths) -/
def labelDepths (prog : SProgram) : List (Nat × Nat × Nat) :=
  let body := reorder prog.body
  let dt := depthTable 0 0 body
  let dp := Dp.ofTable dt
  let tbl := addrTable dp 0 0 0 body
  (tbl.filterMap fun (L, a) => (lookupDepth L dt).map fun (fd, sd) => (a, fd, sd)).foldr insertSorted []

def lookupLabelDepth (a : Nat) : List (Nat × Nat × Nat) → Option (Nat × Nat)
  | [] => none
  | (k, v) :: rest => if k = a then some v else lookupLabelDepth a rest

/-! ### normalisation of the real instruction list -/

def normInstr (table : List (String × Ty)) : Instr → Option EInstr
  | .onErrorGoTo t => (JmpL.Compile.targetAddr t).map .onErrorGoto
  | .onErrorResumeNext => some .onErrorResumeNext
  | .onErrorGoToZero => some .onErrorGoto0
  | .resume => some .resume
  | .resumeNext => some .resumeNext
  | .resumeLabel t => (JmpL.Compile.targetAddr t).map .resumeLabel
  | i => (JmpL.Compile.normInstr table i).map .base

def normalise (table : List (String × Ty)) (code : Array InstrPos) : Option ECode :=
  code.toList.mapM fun ip => (normInstr table ip.instr).map fun c => (c, ⟨ip.row, ip.col⟩)

/-- index of the first position where two lists differ -/
def firstDiff : ECode → ECode → Nat → Option Nat
  | [], [], _ => none
  | a :: as, b :: bs, i => if a = b then firstDiff as bs (i + 1) else some i
  | _, _, i => some i

end RbModel.ErrL.Compile
