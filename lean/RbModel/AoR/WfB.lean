import RbModel.AoR.Syntax
import RbModel.AoR.Ref
import RbModel.RecL.WfB
import Gen.NumTables
/-!
# RbModel.AoR.WfB — the executable premise checker of `AoR.compile_correct` (property C04, layer AoR)

`progWfB prog` is the decidable form of the static premise of the simulation theorem for the layer of arrays of records;
the driver evaluates it on every program the harness explores (request `aor.wf`), so the evidence says on how many of
them the theorem applies.  No theorem imports.

What it checks (`RecL.WfB` and `ArrL.WfB` put together):
* the type table (`RecL.typesWfB`): field names of one type pairwise distinct and their own case-folded keys; a nested
  record type is an EARLIER type and its inline expansion is that type's entry;
* a variable / field path leads to a declared location whose type is the one the node carries (`RecL.pathTypedB`); an
  element `a(idx).path` names an entry of the array table whose element type expands, the field path below it leads to a
  location of the type the node carries, there is at least one subscript, and every subscript is a NUMBER
  (a built-in type other than STRING) and well formed;
* LBOUND / UBOUND name an entry of the array table; the dimension argument is a number, well formed and NOT a by-reference
  expression (a variable, an element, a field);
* operators as in `RecL.WfB` (scalars; `STRING * n` counts as a string; the type of the checker's table); string literals
  hold no NUL;
* statements: a `DIM` names the slot's declared type, a `DIM a(…)` the array's element type (both expandable), the bounds
  are well-formed numbers; an assignment goes to a declared location of the type the statement carries; READ targets and
  FOR counters are scalar variables at their declared type, a FOR counter is not a string; conditions are numbers;
  `CASE IS` uses a relational operator, a CASE has at least one item; a missing ELSE part is empty; DATA only at the top
  level, no DATA item holds a NUL.
-/
namespace RbModel.AoR
open RbModel RbModel.Num
open RbModel.Ast (Pos)
open RbModel.RecL (ETy FTy FFields expand typesWfB noNulValB pathTypedB isScB numTyB selRelOpB)

def Exprs.isNil : Exprs → Bool
  | .nil => true
  | .cons _ _ => false

/-- the field path below an element of array `a` leads to a location of type `t` -/
def elemTypedB (types : List FFields) (arrs : List ETy) (a : Nat) (path : List String) (t : ETy) : Bool :=
  match arrs[a]? with
  | some et =>
    match expand types et with
    | some root =>
      match root.at path with
      | some ft => decide (ft.flat = t)
      | none => false
    | none => false
  | none => false

mutual
def eWfB (types : List FFields) (slots arrs : List ETy) : AoR.Expr → Bool
  | .lit v _ => noNulValB v
  | .var x path t _ => pathTypedB types slots x path t
  | .un _ e _ => eWfB types slots arrs e && isScB e.ty
  | .bin op l r t _ =>
    eWfB types slots arrs l && eWfB types slots arrs r &&
      (match RecL.Ref.ETy.asTy l.ty, RecL.Ref.ETy.asTy r.ty with
       | some tl, some tr => decide (op = .divide) || decide (Gen.NumTables.binType op tl tr = some t)
       | _, _ => false)
  | .paren e _ => eWfB types slots arrs e
  | .elem a idx path t _ => elemTypedB types arrs a path t && !idx.isNil && idxWfB types slots arrs idx
  | .bound _ a _ _ => decide (a < arrs.length)
  | .boundD _ a _ d _ => decide (a < arrs.length) && eWfB types slots arrs d && numTyB d.ty && !d.isRef
def idxWfB (types : List FFields) (slots arrs : List ETy) : Exprs → Bool
  | .nil => true
  | .cons e rest => eWfB types slots arrs e && numTyB e.ty && idxWfB types slots arrs rest
end

def itemsWfB (types : List FFields) (slots arrs : List ETy) : List PrintItem → Bool
  | [] => true
  | .expr e :: rest => eWfB types slots arrs e && itemsWfB types slots arrs rest
  | _ :: rest => itemsWfB types slots arrs rest

def caseWfB (types : List FFields) (slots arrs : List ETy) : CaseExpr → Bool
  | .simple e => eWfB types slots arrs e
  | .is op e => selRelOpB op && eWfB types slots arrs e
  | .range lo hi => eWfB types slots arrs lo && eWfB types slots arrs hi

def condsWfB (types : List FFields) (slots arrs : List ETy) : List CaseExpr → Bool
  | [] => true
  | c :: rest => caseWfB types slots arrs c && condsWfB types slots arrs rest

def dimsWfB (types : List FFields) (slots arrs : List ETy) : Dims → Bool
  | .nil => true
  | .cons none hi rest => eWfB types slots arrs hi && numTyB hi.ty && dimsWfB types slots arrs rest
  | .cons (some lo) hi rest =>
    eWfB types slots arrs lo && numTyB lo.ty && eWfB types slots arrs hi && numTyB hi.ty && dimsWfB types slots arrs rest

def targetWfB (slots : List ETy) (tg : ReadTarget) : Bool := decide (slots[tg.x]? = some (.sc tg.t))

def isSkipB : SStmt → Bool
  | .skip => true
  | _ => false

mutual
def wfB (types : List FFields) (slots arrs : List ETy) : SStmt → Bool
  | .skip => true
  | .comment => true
  | .seq a b => wfB types slots arrs a && wfB types slots arrs b
  | .dim x t _ => decide (slots[x]? = some t) && (expand types t).isSome
  | .dimArr a t dims _ => decide (arrs[a]? = some t) && (expand types t).isSome && dimsWfB types slots arrs dims
  | .assign x path t e _ => pathTypedB types slots x path t && eWfB types slots arrs e
  | .assignElem a idx path t e _ =>
    elemTypedB types arrs a path t && !idx.isNil && idxWfB types slots arrs idx && eWfB types slots arrs e
  | .print items _ => itemsWfB types slots arrs items
  | .ifBlock c thn elifs hasElse els _ =>
    eWfB types slots arrs c && numTyB c.ty && wfB types slots arrs thn && wfElifsB types slots arrs elifs &&
      wfB types slots arrs els && (hasElse || isSkipB els)
  | .while c body _ => eWfB types slots arrs c && numTyB c.ty && wfB types slots arrs body
  | .doLoop c _ _ body _ => eWfB types slots arrs c && numTyB c.ty && wfB types slots arrs body
  | .end_ _ => true
  | .data _ _ => false
  | .read tgs _ => tgs.all (targetWfB slots)
  | .select e cases hasElse els _ =>
    eWfB types slots arrs e && wfCasesB types slots arrs cases && wfB types slots arrs els && (hasElse || isSkipB els)
  | .forLoop x t lo hi step body _ =>
    decide (slots[x]? = some (.sc t)) && decide (t ≠ .str) && eWfB types slots arrs lo && eWfB types slots arrs hi &&
      (match step with | some se => eWfB types slots arrs se | none => true) && wfB types slots arrs body
def wfElifsB (types : List FFields) (slots arrs : List ETy) : ElseIfs → Bool
  | .nil => true
  | .cons c body rest =>
    eWfB types slots arrs c && numTyB c.ty && wfB types slots arrs body && wfElifsB types slots arrs rest
def wfCasesB (types : List FFields) (slots arrs : List ETy) : SCases → Bool
  | .nil => true
  | .cons conds body rest =>
    !conds.isEmpty && condsWfB types slots arrs conds && wfB types slots arrs body && wfCasesB types slots arrs rest
end

def wfTopB (types : List FFields) (slots arrs : List ETy) : SStmt → Bool
  | .seq a b => wfTopB types slots arrs a && wfTopB types slots arrs b
  | .data _ _ => true
  | st => wfB types slots arrs st

/-- the premise of `AoR.compile_correct`, executable -/
def progWfB (prog : SProgram) : Bool :=
  typesWfB prog.types && wfTopB prog.types prog.slots prog.arrs prog.body && (dataOf prog.body).all noNulValB

end RbModel.AoR
