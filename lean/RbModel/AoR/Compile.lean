import RbModel.AoR.Syntax
import RbModel.Instr
import RbModel.Core
/-!
# RbModel.AoR.Compile — model of the code generator for arrays of records / fixed-length strings (C04, layer AoR)

`RbModel.RecL.Compile` (records, `STRING * n`) and `RbModel.ArrL.Compile` (arrays) put together for the constructs of
`AoR.SStmt`: `rusty_basic/src/instruction_generator/{main, statement, expression, calls, loops, if_block, select_case,
print, dim}.rs` restricted to them.  What goes beyond the two layers is the path of a field below an array element
(`generate_path_instructions`, `Property` over `ArrayElement`):

    path  ⟦a(i1,…,ik).f1.….fm⟧path @p  =  VarPathName a @p
                                          ( PushAToValueStack · ⟦i_j⟧ [Cast %] · VarPathIndex · PopValueStackIntoA ) @i_j.pos   every j
                                          VarPathProperty f1 · … · VarPathProperty fm                                 @p
    read        ⟦loc⟧path · CopyVarPathToA · PopVarPath                                            @p
    assignment  ⟦e⟧ [Cast | FixLength] · ⟦loc⟧path @stmt · CopyAToVarPath @stmt                    (value FIRST)
      conversion iff the static type of `e` differs from the target's: Cast(q) for a built-in target, FixLength(n)
      for a `STRING * n` target (element or field of an element), nothing for a record (same type: linter)
    DIM a(l TO u, …) AS T   BeginCollectArguments @p · bounds (as in ArrL) · AllocateArrayIntoA T · VarPathName a ·
                            CopyAToVarPath @p        (`a` carries `$` for `STRING * n` elements, no qualifier for records)
    LBOUND / UBOUND         as in ArrL (the whole array of records travels by reference through the call and back);
                            the dimension argument by value only

Branch targets are absolute addresses computed structurally, label names are emitted too, and `normalise` maps the
real instruction list into the model's vocabulary through the three tables of the serialiser (variables, arrays, type
names).  The tie demands `compile p = normalise (real list)`.
-/
set_option linter.unusedVariables false

namespace RbModel.AoR.Compile
open RbModel RbModel.Num RbModel.AoR
open RbModel.Ast (Pos)
open RbModel.RecL (ETy FTy FFields)

inductive CInstr where
  | loadA (v : Val)
  | copyAToB | copyAToC | copyAToD | copyCToB | copyDToA | copyDToB
  | bin (op : Op)
  | negateA | notA
  | cast (t : Ty)
  | pushA | popA
  /-- `FixLength(n)` -/
  | fixLength (n : Nat)
  /-- `VarPathName` of a variable (slot) -/
  | varPath (x : Nat)
  /-- `VarPathName` of an array (array number) -/
  | arrPath (a : Nat)
  /-- `VarPathIndex`: append the INTEGER in A to the path on top of the path stack -/
  | pathIndex
  /-- `VarPathProperty(name)` (upper-cased) -/
  | prop (f : String)
  | copyVarPathToA | popVarPath | copyAToVarPath
  | label (name : String)
  | jump (a : Nat) | jumpIfFalse (a : Nat)
  | pushRegs | popRegs
  | throwZeroStep
  | halt
  | allocate (t : Ty)
  /-- `AllocateFixedLengthString(n)` -/
  | allocFix (n : Nat)
  /-- `AllocateUserDefined(name of type k)` -/
  | allocUdt (k : Nat)
  /-- `AllocateArrayIntoA(element type)` -/
  | allocArr (t : ETy)
  | printSetPrinter | printSetFormat | printComma | printSemicolon | printValue | printEnd
  | beginArgs | pushByVal | pushByRef | pushStack | popStack
  | builtInData | builtInRead
  | enqueue (i : Nat) | dequeue
  /-- `BuiltInFunction(LBound)` (`false`) / `BuiltInFunction(UBound)` -/
  | builtInBound (upper : Bool)
  /-- `StashFunctionReturnValue(LBound%)` / `(UBound%)` -/
  | stashBound (upper : Bool)
  | unStash
  deriving DecidableEq, Inhabited

abbrev Code := List (CInstr × Pos)

abbrev labelName := _root_.RbModel.Core.labelName
abbrev maxPos := _root_.RbModel.Core.maxPos

/-! ### expressions: `generate_expression_instructions`, `generate_path_instructions` -/

/-- `generate_path_instructions` -/
def compilePath (x : Nat) (path : List String) (p : Pos) : Code :=
  (.varPath x, p) :: path.map fun f => (.prop f, p)

/-- the field steps of a path -/
def compileProps (path : List String) (p : Pos) : Code := path.map fun f => (.prop f, p)

mutual
def compileExpr : Expr → Code
  | .lit v p => [(.loadA v, p)]
  | .var x path _ p => compilePath x path p ++ [(.copyVarPathToA, p), (.popVarPath, p)]
  | .un .neg e p => compileExpr e ++ [(.negateA, p)]
  | .un .not e p => compileExpr e ++ [(.notA, p)]
  | .bin op l r t p =>
    compileExpr l ++ [(.pushA, p)] ++ compileExpr r ++ [(.copyAToB, p), (.popA, p), (.bin op, p)] ++
      (if op = .divide then [(.cast t, p)] else [])
  | .paren e _ => compileExpr e
  | .elem a idx path _ p =>
    [(.arrPath a, p)] ++ compileIdx idx ++ compileProps path p ++ [(.copyVarPathToA, p), (.popVarPath, p)]
  | .bound up a ap p =>
    [(.beginArgs, p), (.arrPath a, ap), (.copyVarPathToA, ap), (.pushByRef, ap),
     (.pushStack, p), (.builtInBound up, p), (.enqueue 0, ap), (.stashBound up, p), (.popStack, p),
     (.dequeue, ap), (.arrPath a, ap), (.copyAToVarPath, ap), (.unStash, p)]
  | .boundD up a ap d p =>
    [(.beginArgs, p), (.arrPath a, ap), (.copyVarPathToA, ap), (.pushByRef, ap)] ++
     compileExpr d ++ [(.pushByVal, d.pos)] ++
     [(.pushStack, p), (.builtInBound up, p), (.enqueue 0, ap),
      (.stashBound up, p), (.popStack, p), (.dequeue, ap), (.arrPath a, ap), (.copyAToVarPath, ap), (.unStash, p)]
/-- the subscripts of a path: `PushAToValueStack · ⟦i⟧ [Cast %] · VarPathIndex · PopValueStackIntoA` each -/
def compileIdx : Exprs → Code
  | .nil => []
  | .cons e rest =>
    [(.pushA, e.pos)] ++ compileExpr e ++ (if e.ty = .sc .int then [] else [(.cast .int, e.pos)]) ++
      [(.pathIndex, e.pos), (.popA, e.pos)] ++ compileIdx rest
end

/-- the conversion instruction for a target type (`generate_expression_instructions_casting`; the generator panics
"Cannot cast" for a record target, which the linter excludes: nothing here) -/
def convInstr (target : ETy) (p : Pos) : Code :=
  match target with
  | .sc t => [(.cast t, p)]
  | .fix n => [(.fixLength n, p)]
  | .udt _ => []

/-- `generate_expression_instructions_casting` -/
def compileExprToE (e : Expr) (target : ETy) : Code :=
  compileExpr e ++ (if e.ty = target then [] else convInstr target e.pos)

/-- the same for a built-in target (FOR bounds) -/
def compileExprTo (e : Expr) (target : Ty) : Code := compileExprToE e (.sc target)

def storeVar (x : Nat) (p : Pos) : Code := [(.varPath x, p), (.copyAToVarPath, p)]

def loadVar (x : Nat) (p : Pos) : Code := [(.varPath x, p), (.copyVarPathToA, p), (.popVarPath, p)]

/-- the bound arguments of a DIM -/
def compileDims (p : Pos) : Dims → Code
  | .nil => []
  | .cons lo hi rest =>
    (match lo with
     | none => [(.loadA (.int 0), p), (.pushByVal, p)]
     | some e => compileExpr e ++ [(.pushByVal, e.pos)]) ++
      compileExpr hi ++ [(.pushByVal, hi.pos)] ++ compileDims p rest

def sizeDims (dims : Dims) : Nat := (compileDims ⟨0, 0⟩ dims).length

/-- READ: one target as a by-reference argument -/
def pushTarget (tg : ReadTarget) : Code :=
  [(.varPath tg.x, tg.pos), (.copyVarPathToA, tg.pos), (.pushByRef, tg.pos)]

/-- READ: the write-back of one target (`generate_un_stash_by_ref_args`) -/
def writeTarget (tg : ReadTarget) : Code :=
  [(.dequeue, tg.pos), (.varPath tg.x, tg.pos), (.copyAToVarPath, tg.pos)]

/-- READ of one target: one call of the built-in -/
def readOne (p : Pos) (tg : ReadTarget) : Code :=
  [(.beginArgs, p)] ++ pushTarget tg ++
    [(.pushStack, p), (.builtInRead, p), (.enqueue 0, tg.pos), (.popStack, p)] ++ writeTarget tg

/-- `READ a, b, …` is generated as `READ a : READ b : …` (one built-in call per target, since fd1c771) -/
def compileReads (p : Pos) : List ReadTarget → Code
  | [] => []
  | tg :: rest => readOne p tg ++ compileReads p rest

def sizeRead (tg : ReadTarget) : Nat := (readOne ⟨0, 0⟩ tg).length

def sizeReads : List ReadTarget → Nat
  | [] => 0
  | tg :: rest => sizeRead tg + sizeReads rest

def compileItem (p : Pos) : PrintItem → Code
  | .expr e => compileExpr e ++ [(.printValue, e.pos)]
  | .comma => [(.printComma, p)]
  | .semicolon => [(.printSemicolon, p)]

/-- one CASE item: `generate_case_expression` (jump to `next` when it does not match) -/
def compileCaseExpr (p : Pos) (next : Nat) : CaseExpr → Code
  | .simple e =>
    compileExpr e ++ [(.copyAToB, p), (.popA, p), (.pushA, p), (.bin .equal, p), (.jumpIfFalse next, p)]
  | .is op e =>
    compileExpr e ++ [(.copyAToB, p), (.popA, p), (.pushA, p), (.bin op, p), (.jumpIfFalse next, p)]
  | .range lo hi =>
    compileExpr lo ++ [(.copyAToB, p), (.popA, p), (.pushA, p), (.bin .greaterOrEqual, p), (.jumpIfFalse next, p)] ++
    compileExpr hi ++ [(.copyAToB, p), (.popA, p), (.pushA, p), (.bin .lessOrEqual, p), (.jumpIfFalse next, p)]

def sizeCaseExpr : CaseExpr → Nat
  | .simple e => (compileExpr e).length + 5
  | .is _ e => (compileExpr e).length + 5
  | .range lo hi => (compileExpr lo).length + 5 + (compileExpr hi).length + 5

/-! ### sizes (needed to place forward labels) -/

def sizeItems : List PrintItem → Nat
  | [] => 0
  | .expr e :: rest => (compileExpr e).length + 1 + sizeItems rest
  | _ :: rest => 1 + sizeItems rest

/-- size of the code of the condition list of one CASE block (`generate_case_expressions`) -/
def sizeConds : List CaseExpr → Nat
  | [] => 0
  | [c] => sizeCaseExpr c
  | c :: rest => sizeCaseExpr c + 1 /- jump to statements -/ + 1 /- label of next expr -/ + sizeConds rest

mutual
def sizeStmt : SStmt → Nat
  | .skip => 0
  | .seq a b => sizeStmt a + sizeStmt b
  | .comment => 0
  | .dim _ _ _ => 3
  | .dimArr _ _ dims _ => 1 + sizeDims dims + 3
  | .assign _ path t e _ => (compileExprToE e t).length + 1 + path.length + 1
  | .assignElem _ idx path t e _ => (compileExprToE e t).length + 1 + (compileIdx idx).length + path.length + 1
  | .print items _ => 3 + sizeItems items + 1
  | .data items _ => 1 + 2 * items.length + 3
  | .read tgs _ => if tgs.isEmpty then 4 else sizeReads tgs
  | .ifBlock c thn elifs hasElse els _ =>
    (compileExpr c).length + 1 + sizeStmt thn + 1 + sizeElifs elifs + (if hasElse then 1 + sizeStmt els else 0) + 1
  | .select e cases hasElse els _ =>
    (compileExpr e).length + 1 + 3 + sizeCases cases + (if hasElse then 1 + sizeStmt els else 0) + 3
  | .forLoop x t lo hi step body p =>
    (compileExprTo lo t).length + 2 + (compileExprTo hi t).length +
    (match step with
     | none => 6 + sizeForBody x body + 1
     | some s => 1 + (compileExpr s).length + 11 + sizeForBody x body + 2 + 3 + sizeForBody x body + 4)
  | .while c body _ => 1 + (compileExpr c).length + 1 + sizeStmt body + 2
  | .doLoop c top u body _ =>
    if top then 1 + (compileExpr c).length + (if u then 3 else 1) + sizeStmt body + 2
    else 1 + sizeStmt body + (compileExpr c).length + (if u then 1 else 2) + 1
  | .end_ _ => 1
/-- loop head + body + increment (`generate_for_loop_instructions_positive_or_negative_step`) -/
def sizeForBody (_x : Nat) (body : SStmt) : Nat :=
  1 + 1 + 3 + 1 + 1 + 1 + sizeStmt body + 1 + 3 + 2 + 1 + 2 + 1
def sizeElifs : ElseIfs → Nat
  | .nil => 0
  | .cons c body rest => 1 + (compileExpr c).length + 1 + sizeStmt body + 1 + sizeElifs rest
def sizeCases : SCases → Nat
  | .nil => 0
  | .cons conds body rest =>
    1 + sizeConds conds + (if conds.length > 1 then 1 else 0) + sizeStmt body + 1 + sizeCases rest
end

/-! ### statements: `Visitor<StatementPos>` and the per-construct generators

`off` is the address of the first emitted instruction, `sfx` the current label suffix. -/

def compileItems (p : Pos) : List PrintItem → Code
  | [] => []
  | it :: rest => compileItem p it ++ compileItems p rest

/-- the condition list of CASE block `bi` starting at `off`: `generate_case_expressions`.
`nextCase` is the address to continue at when no item matches, `stmts` the address of the
block's statements; `ei` is the index of the first item of `conds` within the block. -/
def compileConds (p : Pos) (sfx : String) (bi : Nat) (nextCase stmts : Nat) :
    Nat → Nat → List CaseExpr → Code
  | _, _, [] => []
  | _, _, [c] => compileCaseExpr p nextCase c
  | off, ei, c :: rest =>
    let nextItem := off + sizeCaseExpr c + 1
    compileCaseExpr p nextItem c ++ [(.jump stmts, p)] ++
      [(.label (labelName ("case-multi-expr-" ++ toString bi ++ "-" ++ toString (ei + 1)) p sfx), p)] ++
      compileConds p sfx bi nextCase stmts (nextItem + 1) (ei + 1) rest

/-- `generate_for_loop_instructions_positive_or_negative_step`, placed at `off`, around the already
generated code of the body (which starts at `off + 8` and carries the extended label suffix);
`outOff` = address of the `out-of-for` label -/
def forBody (sfx : String) (x : Nat) (t : Ty) (bodyCode : Code) (up : Bool) (p : Pos) (off outOff : Nat) : Code :=
  [(.label (labelName (if up then "positive-loop" else "negative-loop") p sfx), p), (.copyCToB, p)] ++ loadVar x p ++
    [(.bin (if up then .lessOrEqual else .greaterOrEqual), p), (.jumpIfFalse outOff, p), (.pushRegs, p)] ++
    bodyCode ++
    [(.popRegs, p)] ++ loadVar x p ++ [(.copyDToB, p), (.bin .plus, p), (.cast t, p)] ++ storeVar x p ++
    [(.jump off, p)]

def stepSuffix (sfx : String) (up : Bool) : String :=
  sfx ++ (if up then "_positive-step" else "_negative-step")

mutual
def compileStmt : String → Nat → SStmt → Code
  | sfx, _, .skip => []
  | sfx, off, .seq a b => compileStmt sfx off a ++ compileStmt sfx (off + sizeStmt a) b
  | sfx, _, .comment => []
  | sfx, _, .dim x t p =>
    -- `generate_dim_name`: `DimType::{BuiltIn, FixedLengthString, UserDefined}`
    [((match t with | .sc q => .allocate q | .fix n => .allocFix n | .udt k => .allocUdt k), p), (.varPath x, p),
     (.copyAToVarPath, p)]
  | sfx, _, .dimArr a t dims p =>
    -- `generate_dim_name`, `DimType::Array`
    [(.beginArgs, p)] ++ compileDims p dims ++ [(.allocArr t, p), (.arrPath a, p), (.copyAToVarPath, p)]
  | sfx, _, .assign x path t e p =>
    -- `generate_assignment_instructions`: value (converted), then the path, then the store
    compileExprToE e t ++ compilePath x path p ++ [(.copyAToVarPath, p)]
  | sfx, _, .assignElem a idx path t e p =>
    compileExprToE e t ++ [(.arrPath a, p)] ++ compileIdx idx ++ compileProps path p ++ [(.copyAToVarPath, p)]
  | sfx, _, .print items p =>
    [(.printSetPrinter, p), (.loadA (.int 0), p), (.printSetFormat, p)] ++ compileItems p items ++ [(.printEnd, p)]
  | sfx, _, .data items p =>
    [(.beginArgs, p)] ++ items.flatMap (fun (v, q) => [(.loadA v, q), (.pushByVal, q)]) ++
      [(.pushStack, p), (.builtInData, p), (.popStack, p)]
  | sfx, _, .read tgs p =>
    -- `READ a, b` is generated as `READ a : READ b` (one built-in call per target)
    if tgs.isEmpty then [(.beginArgs, p), (.pushStack, p), (.builtInRead, p), (.popStack, p)]
    else compileReads p tgs
  | sfx, off, .ifBlock c thn elifs hasElse els p =>
    let nc := (compileExpr c).length
    let thnOff := off + nc + 1
    let afterThn := thnOff + sizeStmt thn + 1          -- address of the first else-if label / else / end-if
    let elseOff := afterThn + sizeElifs elifs           -- address of the `else` label (if any)
    let endOff := elseOff + (if hasElse then 1 + sizeStmt els else 0)
    compileExpr c ++ [(.jumpIfFalse afterThn, p)] ++ compileStmt sfx thnOff thn ++ [(.jump endOff, p)] ++
      compileElifs sfx p endOff elseOff afterThn 0 elifs ++
      (if hasElse then [(.label (labelName "else" p sfx), p)] ++ compileStmt sfx (elseOff + 1) els else []) ++
      [(.label (labelName "end-if" p sfx), p)]
  | sfx, off, .select e cases hasElse els p =>
    let ne := (compileExpr e).length
    let casesOff := off + ne + 1 + 3
    let elseOff := casesOff + sizeCases cases
    let endOff := elseOff + (if hasElse then 1 + sizeStmt els else 0)
    -- `jump select-begin; jump select-skip; label select-begin`: a resume point for an error in the selector
    compileExpr e ++ [(.pushA, p)] ++
      [(.jump (casesOff - 1), p), (.jump (endOff + 2), p), (.label (labelName "select-begin" p sfx), p)] ++
      compileCases sfx p endOff elseOff casesOff 0 cases ++
      (if hasElse then [(.label (labelName "case-else" p sfx), p)] ++ compileStmt sfx (elseOff + 1) els else []) ++
      [(.label (labelName "end-select" p sfx), p), (.popA, p), (.label (labelName "select-skip" p sfx), p)]
  | sfx, off, .forLoop x t lo hi step body p =>
    let nlo := (compileExprTo lo t).length
    let nhi := (compileExprTo hi t).length
    let hdr := off + nlo + 2 + nhi
    compileExprTo lo t ++ storeVar x p ++ compileExprTo hi t ++
    (match step with
     | none =>
       let bodyOff := hdr + 6
       let outOff := bodyOff + sizeForBody x body
       -- `jump for-begin; jump out-of-for; label for-begin`: a resume point for an error in the header
       [(.copyAToC, p), (.loadA (.int 1), p), (.copyAToD, p),
        (.jump (hdr + 5), p), (.jump outOff, p), (.label (labelName "for-begin" p sfx), p)] ++
         forBody sfx x t (compileStmt (stepSuffix sfx true) (bodyOff + 8) body) true p bodyOff outOff ++
         [(.label (labelName "out-of-for" p sfx), p)]
     | some s =>
       let ns := (compileExpr s).length
       let negOff := hdr + 1 + ns + 11
       let testPosOff := negOff + sizeForBody x body + 1
       let posOff := testPosOff + 4
       let zeroOff := posOff + sizeForBody x body + 1
       let outOff := zeroOff + 2
       [(.pushA, p)] ++ compileExpr s ++
         [(.copyAToD, p), (.popA, p), (.copyAToC, p),
          (.jump (hdr + 1 + ns + 5), p), (.jump outOff, p), (.label (labelName "for-begin" p sfx), p),
          (.loadA (.int 0), p), (.copyAToB, p), (.copyDToA, p),
          (.bin .less, p), (.jumpIfFalse testPosOff, p)] ++
         forBody sfx x t (compileStmt (stepSuffix sfx false) (negOff + 8) body) false p negOff outOff ++
         [(.jump outOff, p), (.label (labelName "test-positive-or-zero" p sfx), p), (.copyDToA, p),
          (.bin .greater, p), (.jumpIfFalse zeroOff, p)] ++
         forBody sfx x t (compileStmt (stepSuffix sfx true) (posOff + 8) body) true p posOff outOff ++
         [(.jump outOff, p), (.label (labelName "zero" p sfx), p), (.throwZeroStep, s.pos),
          (.label (labelName "out-of-for" p sfx), p)])
  | sfx, off, .while c body p =>
    let nc := (compileExpr c).length
    let bodyOff := off + 1 + nc + 1
    let wendOff := bodyOff + sizeStmt body + 1
    [(.label (labelName "while" p sfx), p)] ++ compileExpr c ++ [(.jumpIfFalse wendOff, p)] ++
      compileStmt sfx bodyOff body ++ [(.jump off, p), (.label (labelName "wend" p sfx), p)]
  | sfx, off, .doLoop c top u body p =>
    let nc := (compileExpr c).length
    if top then
      let bodyOff := off + 1 + nc + (if u then 3 else 1)
      let loopOff := bodyOff + sizeStmt body + 1
      [(.label (labelName "do" p sfx), p)] ++ compileExpr c ++
        (if u then [(.jumpIfFalse (bodyOff - 1), p), (.jump loopOff, p), (.label (labelName "do-body" p sfx), p)]
         else [(.jumpIfFalse loopOff, p)]) ++
        compileStmt sfx bodyOff body ++
        [(.jump off, p), (.label (labelName "loop" p sfx), p)]
    else
      let loopOff := off + 1 + sizeStmt body + nc + (if u then 1 else 2)
      [(.label (labelName "do" p sfx), p)] ++ compileStmt sfx (off + 1) body ++ compileExpr c ++
        (if u then [(.jumpIfFalse off, p)] else [(.jumpIfFalse loopOff, p), (.jump off, p)]) ++
        [(.label (labelName "loop" p sfx), p)]
  | sfx, _, .end_ p => [(.halt, p)]
/-- the ELSEIF arms starting at `off` (the address of the label of arm `i`) -/
def compileElifs : String → Pos → Nat → Nat → Nat → Nat → ElseIfs → Code
  | _, _, _, _, _, _, .nil => []
  | sfx, p, endOff, elseOff, off, i, .cons c body rest =>
    let nc := (compileExpr c).length
    let bodyOff := off + 1 + nc + 1
    let next := bodyOff + sizeStmt body + 1
    [(.label (labelName ("else-if-" ++ toString i) p sfx), p)] ++ compileExpr c ++ [(.jumpIfFalse next, p)] ++
      compileStmt sfx bodyOff body ++ [(.jump endOff, p)] ++ compileElifs sfx p endOff elseOff next (i + 1) rest
/-- the CASE blocks starting at `off` (the address of the label of block `i`) -/
def compileCases : String → Pos → Nat → Nat → Nat → Nat → SCases → Code
  | _, _, _, _, _, _, .nil => []
  | sfx, p, endOff, elseOff, off, i, .cons conds body rest =>
    let multi := decide (conds.length > 1)
    let condsOff := off + 1
    let stmtsLabel := condsOff + sizeConds conds
    let bodyOff := stmtsLabel + (if multi then 1 else 0)
    let next := bodyOff + sizeStmt body + 1
    [(.label (labelName ("case" ++ toString i) p sfx), p)] ++
      compileConds p sfx i next stmtsLabel condsOff 0 conds ++
      (if multi then [(.label (labelName ("case-statements" ++ toString i) p sfx), p)] else []) ++
      compileStmt sfx bodyOff body ++ [(.jump endOff, p)] ++ compileCases sfx p endOff elseOff next (i + 1) rest
end

/-- `move_data_statements_first`: top-level DATA statements are generated before everything else -/
def topLevel : SStmt → List SStmt
  | .seq a b => topLevel a ++ topLevel b
  | .skip => []
  | s => [s]

def isData : SStmt → Bool
  | .data _ _ => true
  | _ => false

def seqOf : List SStmt → SStmt
  | [] => .skip
  | s :: rest => .seq s (seqOf rest)

def reorder (body : SStmt) : SStmt :=
  let ss := topLevel body
  seqOf (ss.filter isData ++ ss.filter (fun s => !isData s))

/-- `generate_instructions` for a core program (no procedures): the statements, then `Halt` -/
def compile (prog : SProgram) : Code :=
  let body := reorder prog.body
  compileStmt "" 0 body ++ [(.halt, maxPos)]

/-! ### normalisation of the real instruction list -/

abbrev litToVal := _root_.RbModel.Core.litToVal
abbrev qualToTy := _root_.RbModel.Core.qualToTy

def targetAddr : Target → Option Nat
  | .addr a => some a
  | .unresolved _ => none

/-- slot of a resolved variable name: bare name compared case-insensitively, qualifier (or none: a record) equal -/
def slotOfE (table : List (String × Option Ty)) (n : QName) : Option Nat :=
  table.findIdx? (fun e => e.1 == n.bare.map Char.toUpper && e.2 == n.q.map qualToTy)

/-- the element type of `AllocateArrayIntoA` as serialised by `instr_sx::expr_type` -/
def elemTy? (types : List String) : Sexp → Option ETy
  | .list [.atom "builtin", q] => (Instr.qual? q).map fun q => .sc (qualToTy q)
  | .list [.atom "fixed", n] => n.nat?.map .fix
  | .list [.atom "udt", n] => do
      let name ← Instr.str? n
      (types.findIdx? (· == name.map Char.toUpper)).map .udt
  | _ => none

/-- `vars` / `arrs`: the variable and the array table (upper-cased bare name, qualifier or none), `types`: the
upper-cased type names -/
def normInstr (vars arrs : List (String × Option Ty)) (types : List String) : Instr → Option CInstr
  | .loadIntoA v => (litToVal v).map .loadA
  | .copyAToB => some .copyAToB | .copyAToC => some .copyAToC | .copyAToD => some .copyAToD
  | .copyCToB => some .copyCToB | .copyDToA => some .copyDToA | .copyDToB => some .copyDToB
  | .plus => some (.bin .plus) | .minus => some (.bin .minus) | .multiply => some (.bin .multiply)
  | .divide => some (.bin .divide) | .modulo => some (.bin .modulo)
  | .less => some (.bin .less) | .lessOrEqual => some (.bin .lessOrEqual) | .equal => some (.bin .equal)
  | .greaterOrEqual => some (.bin .greaterOrEqual) | .greater => some (.bin .greater)
  | .notEqual => some (.bin .notEqual) | .and => some (.bin .and) | .or => some (.bin .or)
  | .negateA => some .negateA | .notA => some .notA
  | .cast q => some (.cast (qualToTy q))
  | .pushAToValueStack => some .pushA | .popValueStackIntoA => some .popA
  | .fixLength n => some (.fixLength n)
  | .varPathName n false =>
    match slotOfE arrs n with
    | some a => some (.arrPath a)
    | none => (slotOfE vars n).map .varPath
  | .varPathIndex => some .pathIndex
  | .varPathProperty f => some (.prop (f.map Char.toUpper))
  | .copyVarPathToA => some .copyVarPathToA | .popVarPath => some .popVarPath
  | .copyAToVarPath => some .copyAToVarPath
  | .label l => some (.label l)
  | .jump t => (targetAddr t).map .jump
  | .jumpIfFalse t => (targetAddr t).map .jumpIfFalse
  | .pushRegisters => some .pushRegs | .popRegisters => some .popRegs
  | .throw e => if e == "ForLoopZeroStep" then some .throwZeroStep else none
  | .halt => some .halt
  | .allocateBuiltIn q => some (.allocate (qualToTy q))
  | .allocateFixedLengthString n => some (.allocFix n)
  | .allocateUserDefined name => (types.findIdx? (· == name.map Char.toUpper)).map .allocUdt
  | .allocateArrayIntoA t => (elemTy? types t).map .allocArr
  | .printSetPrinterType p => if p == "print" then some .printSetPrinter else none
  | .printSetFormatStringFromA => some .printSetFormat
  | .printComma => some .printComma | .printSemicolon => some .printSemicolon
  | .printValueFromA => some .printValue | .printEnd => some .printEnd
  | .beginCollectArguments => some .beginArgs
  | .pushUnnamedByVal => some .pushByVal | .pushUnnamedByRef => some .pushByRef
  | .pushStack => some .pushStack | .popStack => some .popStack
  | .builtInSub n => if n == "Data" then some .builtInData else if n == "Read" then some .builtInRead else none
  | .enqueueToReturnStack i => some (.enqueue i)
  | .dequeueFromReturnStack => some .dequeue
  | .builtInFunction n =>
    if n == "LBound" then some (.builtInBound false) else if n == "UBound" then some (.builtInBound true) else none
  | .stashFunctionReturnValue n =>
    if n.q == some .int && n.bare.map Char.toUpper == "LBOUND" then some (.stashBound false)
    else if n.q == some .int && n.bare.map Char.toUpper == "UBOUND" then some (.stashBound true)
    else none
  | .unStashFunctionReturnValue => some .unStash
  | _ => none

def normalise (vars arrs : List (String × Option Ty)) (types : List String) (code : Array InstrPos) : Option Code :=
  code.toList.mapM fun ip => (normInstr vars arrs types ip.instr).map fun c => (c, ⟨ip.row, ip.col⟩)

def firstDiff : Code → Code → Nat → Option Nat
  | [], [], _ => none
  | a :: as, b :: bs, i => if a = b then firstDiff as bs (i + 1) else some i
  | _, _, i => some i

end RbModel.AoR.Compile
