import RbModel.AoR.Compile
import RbModel.AoR.Ref
import RbModel.RecL.Vm
import RbModel.ArrPath
import RbModel.ArrL.Vm
/-!
# RbModel.AoR.Vm — model of the VM with arrays of records / fixed-length strings (property C04, layer AoR)

`RbModel.RecL.Vm` (variables hold `Variant` TREES `ArrPath.Val`: a scalar leaf or a `UserDefinedTypeValue`) and
`RbModel.ArrL.Vm` (an array variable holds the declared dimensions and the ROW-MAJOR FLAT element vector of
`rusty_variant/src/array_value.rs`) put together: the elements of the flat vector are now trees
(`rusty_basic/src/interpreter/main.rs`, `handlers/{var_path, allocation, cast, subprogram}.rs`, `built_ins/{lbound,
ubound, read}.rs`, `string_utils.rs::fix_length`, `variables.rs`):

* the path stack holds `Path`s: a root (variable or array), the subscripts appended so far (`VarPathIndex`:
  `Path::append_array_element`, a panic once a property has been appended) and the field names appended so far
  (`VarPathProperty`).  Resolution is parent first (`resolve_some_name_ptr_mut`): the root, then the element
  (`VArray::get_element_mut`: `abs_index`, Subscript out of range (9) for a wrong number of subscripts or a subscript
  outside its bounds), then the fields one by one (`UserDefinedTypeValue::get_mut`); `CopyVarPathToA` clones what it
  finds (a whole record, a whole array), `CopyAToVarPath` overwrites it;
* `AllocateArrayIntoA T`: the bounds converted to INTEGER in order, `to_dimensions`, `VArray::try_new` with the default
  element `allocate_array_element T` — 0 / n spaces / the record tree built from the TYPE — `resize`d into every slot
  (a clone per element: values are immutable here, so every element is its own copy by construction);
* `FixLength n` = `fix_length_in_a`; `ctx`, `queue`, `funRes`, `trace` as in the arrays layer.

`stuck` marks what the real VM answers with a panic, what generated code never does, or what the model does not cover.
-/
namespace RbModel.AoR.Vm
open RbModel RbModel.Num RbModel.AoR RbModel.AoR.Compile
open RbModel.Ast (Pos)
open RbModel.RecL (ETy FTy FFields expand zeroOf)
open RbModel.RecL.Vm (allocTy defaultVar)

/-- a `Variant`: a scalar leaf, a record tree, or an array (`ArrPath.Val.arr dims elems`) of such -/
abbrev RV := ArrPath.Val

/-- the contents of an array variable: `VArray { dimensions, elements }` -/
abbrev VArr := Arr.VArray RV

def VArr.toRV (A : VArr) : RV := .arr A.dims A.elems

structure Regs where
  a : RV
  b : Val
  c : Val
  d : Val
  deriving Inhabited

def Regs.new : Regs := ⟨.leaf (.int 0), .int 0, .int 0, .int 0⟩

inductive Root where
  | var (x : Nat)
  | arr (a : Nat)
  deriving DecidableEq

/-- `instruction_generator::Path`: `Root`, then at most one `ArrayElement(…, indices)`, then `Property(…, name)`s -/
structure Path where
  root : Root
  idx : List Int
  props : List String

/-- one open `BeginCollectArguments` -/
structure Call where
  args : List (RV × Option Path)
  /-- the result variable of a built-in function (`LBound%` / `UBound%`) -/
  result : Option Val

structure Vm where
  pc : Nat
  regs : Regs
  regStack : List Regs
  /-- `value_stack`, top first -/
  vals : List RV
  /-- `var_path_stack`, top first -/
  paths : List Path
  /-- the record types of the program (`UserDefinedTypes`, constant) -/
  types : List FFields
  vars : List RV
  /-- `none`: the array's `DIM` has not run -/
  arrs : List (Option VArr)
  out : Print.WritePrinter
  skipNewline : Bool
  data : List Val
  dataIdx : Nat
  ctx : List Call
  /-- `by_ref_stack` (a queue) -/
  queue : List (RV × Option Path)
  /-- `function_result` -/
  funRes : Option Val
  trace : List Pos

def Vm.init (types : List FFields) (slots arrs : List ETy) : Vm :=
  { pc := 0, regs := Regs.new, regStack := [], vals := [], paths := [], types := types, vars := slots.map defaultVar,
    arrs := arrs.map fun _ => none,
    out := Print.WritePrinter.new, skipNewline := false, data := [], dataIdx := 0, ctx := [], queue := [],
    funRes := none, trace := [] }

inductive StepRes where
  | next (σ : Vm)
  | halt (σ : Vm)
  | error (code : Nat) (p : Pos) (σ : Vm)
  | stuck

def setA (σ : Vm) (v : Val) : Vm := { σ with regs := { σ.regs with a := .leaf v } }

def setRA (σ : Vm) (v : RV) : Vm := { σ with regs := { σ.regs with a := v } }

def advance (σ : Vm) : Vm := { σ with pc := σ.pc + 1 }

abbrev codeOf := _root_.RbModel.Ref.codeOf

def resA (σ : Vm) (p : Pos) : Res Val → StepRes
  | .ok v => .next (advance (setA σ v))
  | .err e => .error (codeOf e) p σ
  | .inexact => .stuck

def binInstr (op : Op) (a b : Val) : Res Val :=
  match op with
  | .divide => divide a b
  | _ => vmBin Gen.NumTables.binType op a b

/-- an operation on the scalar in A -/
def onA (σ : Vm) (f : Val → StepRes) : StepRes :=
  match σ.regs.a with
  | .leaf v => f v
  | _ => .stuck

/-! ### paths: `resolve_some_name_ptr_mut` -/

/-- the field steps below the variable / the element -/
def Path.flds (pth : Path) : List ArrPath.Step := pth.props.map fun f => .fld f.toList

inductive Resolved where
  | ok (v : RV)
  | subscript
  | stuck

/-- `copy_var_path_to_a`: `subscript` = `abs_index` failed, `stuck` = one of the panics / a path generated code never
builds -/
def readPath (σ : Vm) (pth : Path) : Resolved :=
  match pth.root with
  | .var x =>
    match pth.idx, σ.vars[x]? with
    | [], some v =>
      match ArrPath.getAt v pth.flds with
      | some w => .ok w
      | none => .stuck
    | _, _ => .stuck
  | .arr a =>
    match σ.arrs[a]? with
    | some (some A) =>
      match pth.idx with
      | [] => if pth.props.isEmpty then .ok A.toRV else .stuck
      | _ :: _ =>
        match Arr.getElem A pth.idx with
        | none => .subscript
        | some el =>
          match ArrPath.getAt el pth.flds with
          | some w => .ok w
          | none => .stuck
    | _ => .stuck

inductive Stored where
  | ok (σ : Vm)
  | subscript
  | stuck

/-- `copy_a_to_var_path` (without the pop) -/
def writePath (σ : Vm) (pth : Path) (w : RV) : Stored :=
  match pth.root with
  | .var x =>
    match pth.idx, σ.vars[x]? with
    | [], some v =>
      match ArrPath.modAt v pth.flds (fun _ => some w) with
      | some v' => .ok { σ with vars := σ.vars.set x v' }
      | none => .stuck
    | _, _ => .stuck
  | .arr a =>
    match pth.idx with
    | [] =>
      match w with
      | .arr d es => if a < σ.arrs.length && pth.props.isEmpty then .ok { σ with arrs := σ.arrs.set a (some ⟨d, es⟩) } else .stuck
      | _ => .stuck
    | _ :: _ =>
      match σ.arrs[a]? with
      | some (some A) =>
        match Arr.getElem A pth.idx with
        | none => .subscript
        | some el =>
          match ArrPath.modAt el pth.flds (fun _ => some w) with
          | none => .stuck
          | some el' =>
            match Arr.setElem A pth.idx el' with
            | some A' => .ok { σ with arrs := σ.arrs.set a (some A') }
            | none => .stuck
      | _ => .stuck

/-! ### built-ins -/

/-- `READ` (`built_ins/read.rs`): every argument, in order, receives the next DATA item converted to the type of the
value it holds -/
def readArgs : List (RV × Option Path) → List Val → Nat → Except Err (List (RV × Option Path) × Nat) ⊕ Unit
  | [], _, idx => .inl (.ok ([], idx))
  | (.leaf cur, pth) :: rest, data, idx =>
    match data[idx]? with
    | none => .inr ()
    | some v =>
      match cast v cur.tag with
      | .ok w =>
        match readArgs rest data (idx + 1) with
        | .inl (.ok (rs, idx')) => .inl (.ok ((.leaf w, pth) :: rs, idx'))
        | r => r
      | .err e => .inl (.error e)
      | .inexact => .inl (.error .typeMismatch)
  | _ :: _, _, _ => .inl (.error .typeMismatch)

/-- `QBNumberCast<i32>` of the arguments of `AllocateArrayIntoA`, in order -/
def argInts : List (RV × Option Path) → Except Err (List Int) ⊕ Unit
  | [] => .inl (.ok [])
  | (.leaf v, _) :: rest =>
    match cast v .int with
    | .ok (.int i) =>
      match argInts rest with
      | .inl (.ok is) => .inl (.ok (i :: is))
      | r => r
    | .ok _ => .inr ()
    | .err e => .inl (.error e)
    | .inexact => .inr ()
  | _ :: _ => .inl (.error .typeMismatch)

abbrev toDimensions := _root_.RbModel.ArrL.Vm.toDimensions

inductive AllocRes where
  | ok (a : VArr)
  | err (code : Nat)
  | stuck

/-- `allocate_array` for an array with elements of type `t`: the default element is `allocate_array_element` -/
def allocArray (types : List FFields) (t : ETy) (args : List (RV × Option Path)) : AllocRes :=
  match argInts args with
  | .inr () => .stuck
  | .inl (.error e) => .err (codeOf e)
  | .inl (.ok is) =>
    match toDimensions is with
    | none => .err Ref.codeSubscript
    | some dims =>
      match Arr.dimsLenChecked dims 1 with
      | none => .err Ref.codeOutOfMemory
      | some n =>
        if n > Ref.sizeLimit then .stuck
        else
          match expand types t with
          | some ft => .ok (Arr.VArray.new dims (allocTy ft))
          | none => .stuck

/-- `built_ins/lbound.rs::run` / `ubound.rs::run` on the collected arguments: the bound, or an error code -/
def boundRun (upper : Bool) (args : List (RV × Option Path)) : Except Nat Val ⊕ Unit :=
  let dimension : Except Nat Int ⊕ Unit :=
    match (args[1]? : Option (RV × Option Path)) with
    | none => .inl (.ok 1)
    | some (.leaf dv, _) =>
      match cast dv .int with
      | .ok (.int k) => if k > 0 then .inl (.ok k) else .inl (.error Ref.codeSubscript)
      | .ok _ => .inr ()
      | .err e => .inl (.error (codeOf e))
      | .inexact => .inr ()
    | some _ => .inl (.error 13)
  match dimension with
  | .inr () => .inr ()
  | .inl (.error c) => .inl (.error c)
  | .inl (.ok k) =>
    match (args[0]? : Option (RV × Option Path)) with
    | some (.arr d es, _) =>
      match (if upper then Arr.ubound (⟨d, es⟩ : VArr) k else Arr.lbound (⟨d, es⟩ : VArr) k) with
      | some b => .inl (.ok (.int b))
      | none => .inl (.error Ref.codeSubscript)
    | some _ => .inl (.error 13)
    | none => .inr ()

def step (code : Code) (σ : Vm) : StepRes :=
  match code[σ.pc]? with
  | none => .stuck
  | some (i, p) =>
    match i with
    | .loadA v => .next (advance (setA σ v))
    | .copyAToB => onA σ fun v => .next (advance { σ with regs := { σ.regs with b := v } })
    | .copyAToC => onA σ fun v => .next (advance { σ with regs := { σ.regs with c := v } })
    | .copyAToD => onA σ fun v => .next (advance { σ with regs := { σ.regs with d := v } })
    | .copyCToB => .next (advance { σ with regs := { σ.regs with b := σ.regs.c } })
    | .copyDToA => .next (advance (setA σ σ.regs.d))
    | .copyDToB => .next (advance { σ with regs := { σ.regs with b := σ.regs.d } })
    | .bin op => onA σ fun v => resA σ p (binInstr op v σ.regs.b)
    | .negateA => onA σ fun v => resA σ p (negate v)
    | .notA => onA σ fun v => resA σ p (unaryNot v)
    | .cast t => onA σ fun v => resA σ p (cast v t)
    | .fixLength n => onA σ fun v => resA σ p (ArrPath.fixLengthInA n v)
    | .pushA => .next (advance { σ with vals := σ.regs.a :: σ.vals })
    | .popA =>
      match σ.vals with
      | [] => .stuck
      | v :: rest => .next (advance { setRA σ v with vals := rest })
    | .varPath x => .next (advance { σ with paths := ⟨.var x, [], []⟩ :: σ.paths })
    | .arrPath a => .next (advance { σ with paths := ⟨.arr a, [], []⟩ :: σ.paths })
    | .pathIndex =>
      -- `var_path_index`: the generator has cast the subscript to INTEGER; `append_array_element` on a `Property`
      -- panics
      match σ.regs.a, σ.paths with
      | .leaf (.int k), pth :: rest =>
        if pth.props.isEmpty then .next (advance { σ with paths := { pth with idx := pth.idx ++ [k] } :: rest })
        else .stuck
      | _, _ => .stuck
    | .prop f =>
      -- `var_path_property`
      match σ.paths with
      | pth :: rest => .next (advance { σ with paths := { pth with props := pth.props ++ [f] } :: rest })
      | [] => .stuck
    | .copyVarPathToA =>
      match σ.paths with
      | [] => .stuck
      | pth :: _ =>
        match readPath σ pth with
        | .ok v => .next (advance (setRA σ v))
        | .subscript => .error Ref.codeSubscript p σ
        | .stuck => .stuck
    | .popVarPath =>
      match σ.paths with
      | [] => .stuck
      | _ :: rest => .next (advance { σ with paths := rest })
    | .copyAToVarPath =>
      match σ.paths with
      | [] => .stuck
      | pth :: rest =>
        match writePath σ pth σ.regs.a with
        | .ok σ' => .next (advance { σ' with paths := rest })
        | .subscript => .error Ref.codeSubscript p σ
        | .stuck => .stuck
    | .label _ => .next (advance σ)
    | .jump a => .next { σ with pc := a }
    | .jumpIfFalse a =>
      onA σ fun v =>
        match _root_.RbModel.Ref.truthy v with
        | none => .error 13 p σ
        | some true => .next (advance σ)
        | some false => .next { σ with pc := a }
    | .pushRegs => .next (advance { σ with regs := Regs.new, regStack := σ.regs :: σ.regStack })
    | .popRegs =>
      match σ.regStack with
      | [] => .stuck
      | r :: rest => .next (advance { σ with regs := r, regStack := rest })
    | .throwZeroStep => .error Ref.codeZeroStep p σ
    | .halt => .halt σ
    | .allocate t => .next (advance (setA σ (zeroOf t)))
    | .allocFix n => .next (advance (setA σ (.str (List.replicate n ' '))))
    | .allocUdt k =>
      match σ.types[k]? with
      | some fs => .next (advance (setRA σ (allocTy (.udt k fs))))
      | none => .stuck
    | .allocArr t =>
      match σ.ctx with
      | [] => .stuck
      | c :: rest =>
        match allocArray σ.types t c.args with
        | .ok A => .next (advance { setRA σ A.toRV with ctx := rest })
        | .err code => .error code p { σ with ctx := rest }
        | .stuck => .stuck
    | .printSetPrinter => .next (advance { σ with skipNewline := false })
    | .printSetFormat =>
      match σ.regs.a with
      | .leaf (.str _) => .stuck
      | .leaf _ => .next (advance σ)
      | _ => .stuck
    | .printComma => .next (advance { σ with out := σ.out.moveToNextPrintZone, skipNewline := true })
    | .printSemicolon => .next (advance { σ with skipNewline := true })
    | .printValue =>
      onA σ fun v =>
        match _root_.RbModel.Ref.printValue v with
        | none => .stuck
        | some pv => .next (advance { σ with out := σ.out.print (Print.valueText pv), skipNewline := false })
    | .printEnd =>
      if σ.skipNewline then .next (advance { σ with skipNewline := false })
      else .next (advance { σ with out := σ.out.println })
    | .beginArgs => .next (advance { σ with ctx := ⟨[], none⟩ :: σ.ctx })
    | .pushByVal =>
      match σ.ctx with
      | [] => .stuck
      | c :: rest => .next (advance { σ with ctx := { c with args := c.args ++ [(σ.regs.a, none)] } :: rest })
    | .pushByRef =>
      match σ.ctx, σ.paths with
      | c :: rest, pth :: paths =>
        .next (advance { σ with ctx := { c with args := c.args ++ [(σ.regs.a, some pth)] } :: rest, paths := paths })
      | _, _ => .stuck
    | .pushStack => .next (advance { σ with trace := p :: σ.trace })
    | .popStack =>
      match σ.ctx, σ.trace with
      | _ :: rest, _ :: tr => .next (advance { σ with ctx := rest, trace := tr })
      | _, _ => .stuck
    | .builtInData =>
      match σ.ctx with
      | [] => .stuck
      | c :: _ =>
        match c.args.mapM (fun a => match a.1 with | .leaf v => some v | _ => none) with
        | some vs => .next (advance { σ with data := σ.data ++ vs })
        | none => .stuck
    | .builtInRead =>
      match σ.ctx with
      | [] => .stuck
      | c :: rest =>
        match readArgs c.args σ.data σ.dataIdx with
        | .inr () => .error Ref.codeOutOfData (σ.trace.headD p) σ
        | .inl (.error e) => .error (codeOf e) (σ.trace.headD p) σ
        | .inl (.ok (args', idx')) => .next (advance { σ with ctx := { c with args := args' } :: rest, dataIdx := idx' })
    | .enqueue i =>
      match σ.ctx with
      | [] => .stuck
      | c :: _ =>
        match c.args[i]? with
        | none => .stuck
        | some a => .next (advance { σ with queue := σ.queue ++ [a] })
    | .dequeue =>
      match σ.queue with
      | [] => .stuck
      | (v, _) :: rest => .next (advance { setRA σ v with queue := rest })
    | .builtInBound upper =>
      match σ.ctx with
      | [] => .stuck
      | c :: rest =>
        match boundRun upper c.args with
        | .inr () => .stuck
        | .inl (.error code) => .error code (σ.trace.headD p) σ
        | .inl (.ok v) => .next (advance { σ with ctx := { c with result := some v } :: rest })
    | .stashBound _ =>
      match σ.ctx with
      | c :: _ =>
        match c.result with
        | some v => .next (advance { σ with funRes := some v })
        | none => .stuck
      | [] => .stuck
    | .unStash =>
      match σ.funRes with
      | some v => .next (advance { setA σ v with funRes := none })
      | none => .stuck

inductive RunRes where
  | halted (σ : Vm)
  | error (code : Nat) (p : Pos) (σ : Vm)
  | stuck
  | outOfFuel

def run (code : Code) : Nat → Vm → RunRes
  | 0, _ => .outOfFuel
  | fuel + 1, σ =>
    match step code σ with
    | .next σ' => run code fuel σ'
    | .halt σ' => .halted σ'
    | .error c p σ' => .error c p σ'
    | .stuck => .stuck

end RbModel.AoR.Vm
