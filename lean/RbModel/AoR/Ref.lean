import RbModel.AoR.Syntax
import RbModel.RecL.Ref
import RbModel.ArrL.Ref
/-!
# RbModel.AoR.Ref — big-step reference semantics with arrays of records / fixed-length strings (C04, layer AoR)

The SPECIFICATION side of the tie: written from the language rules (the text of property C04), not from the generator or
the VM.  Values are those of `RecL.Ref`: a scalar (also a `STRING * n`: exactly n characters) is `RV.sc`, a record a
FINITE MAP from field names to values, recursively (`RV.udt`).  An array (`RArr`) is its expanded element type, its declared
bounds and a FINITE MAP from index tuples to element values: an association list holding the elements stored so far; every
other element of the index box reads as the FRESH value of the element type (`RArr.get`).  No flattening, no stride, no
sharing: two index tuples denote the same element iff they are equal, and a value is just a value (copies are deep by
construction).

Rules (each checked against the real pipeline by `harness/src/bin/c04a.rs`):
* `DIM a(l1 TO u1, …) AS T` (also `REDIM`, also when the statement runs again): bound expressions left to right (an error
  inside one at that expression's position), converted to INTEGER left to right (Overflow (6) beyond ±32767), `ui < li` is
  Subscript out of range (9); all at the position of the declared array.  Afterwards every element is the fresh value of
  `T`: numeric fields zero, `STRING * n` fields / elements n spaces, record fields fresh records;
* a location `a(i…).f.g`: the subscripts left to right, each converted to INTEGER at its own position (Overflow beyond
  ±32767, as `ArrL.Ref`); Subscript out of range (9) at the position of the expression / statement iff the NUMBER of
  subscripts differs from the number of dimensions or some subscript lies outside its declared bounds; then the field
  names are followed from the element's value;
* `target = e`: `e` is evaluated and converted to the static type of the target FIRST (`RecL.Ref.conv`: numeric
  conversion with Overflow at the position of `e`; to `STRING * n` the first n characters padded with spaces to exactly n;
  a record is copied as a whole), then the subscripts, then the bounds check, then the store, which changes the addressed
  location — that field of that element — and nothing else;
* `LBOUND(a[, d])` / `UBOUND(a[, d])`: as `ArrL.Ref`;
* a record / `STRING * n` variable or an array used although its `DIM` did not run: `illFormed` — outside the language.
-/
namespace RbModel.AoR.Ref
open RbModel RbModel.Num RbModel.AoR
open RbModel.Ast (Pos)
open RbModel.RecL (ETy FTy FFields expand zeroOf)
open RbModel.RecL.Ref (RV RFs padTrunc fresh ERes lift asScalar conv)

abbrev codeOf := _root_.RbModel.Ref.codeOf
abbrev binStep := _root_.RbModel.Ref.binStep
abbrev printValue := _root_.RbModel.Ref.printValue
abbrev truthy := _root_.RbModel.Ref.truthy
abbrev inBox := _root_.RbModel.ArrL.Ref.inBox
abbrev boxSize := _root_.RbModel.ArrL.Ref.boxSize
abbrev sizeLimit := _root_.RbModel.ArrL.Ref.sizeLimit
def codeOutOfData : Nat := 4
def codeZeroStep : Nat := 258
def codeSubscript : Nat := 9
def codeOutOfMemory : Nat := 7

/-! ### array values -/

structure RArr where
  /-- the element type, expanded -/
  ty : FTy
  bounds : List (Int × Int)
  /-- the elements stored so far, most recent first, at most one entry per index tuple -/
  cells : List (List Int × RV)

def RArr.inBounds (a : RArr) (idx : List Int) : Bool := inBox a.bounds idx

def lookupCell : List (List Int × RV) → List Int → Option RV
  | [], _ => none
  | (k, v) :: rest, idx => if k = idx then some v else lookupCell rest idx

/-- the value of element `idx`: what was stored last, else the fresh value of the element type -/
def RArr.get (a : RArr) (idx : List Int) : RV := (lookupCell a.cells idx).getD (fresh a.ty)

def RArr.set (a : RArr) (idx : List Int) (v : RV) : RArr :=
  { a with cells := (idx, v) :: a.cells.filter (fun c => !(c.1 == idx)) }

/-! ### expressions -/

/-- a value converted to INTEGER, as a mathematical integer -/
def toIndex (p : Pos) (r : Res Val) : ERes Int :=
  match r with
  | .ok (.int i) => .ok i
  | .ok _ => .illFormed
  | .err e => .err (codeOf e) p
  | .inexact => .inexact

/-- the variable environment: `none` = a record / `STRING * n` variable whose `DIM` has not run -/
abbrev Env := List (Option RV)

def getArr (arrs : List (Option RArr)) (a : Nat) : ERes RArr :=
  match arrs[a]? with
  | some (some A) => .ok A
  | _ => .illFormed

/-- the bound `d` (1-based) of an array: Subscript out of range unless `1 ≤ d ≤ rank` -/
def boundOf (upper : Bool) (A : RArr) (d : Int) (p : Pos) : ERes RV :=
  if d ≤ 0 then .err codeSubscript p
  else
    match A.bounds[d.toNat - 1]? with
    | some (lo, hi) => .ok (.sc (.int (if upper then hi else lo)))
    | none => .err codeSubscript p

/-- the built-in type a static type is used at when a subscript is converted: a `STRING * n` value is a string -/
def idxTy : ETy → Ty
  | .sc t => t
  | _ => .str

mutual
def eval (env : Env) (arrs : List (Option RArr)) : Expr → ERes RV
  | .lit v _ => .ok (.sc v)
  | .var x path _ _ =>
    match env[x]? with
    | some (some rv) =>
      match rv.getPath path with
      | some v => .ok v
      | none => .illFormed
    | _ => .illFormed
  | .un .neg e p =>
    (eval env arrs e).bind fun v => (asScalar v).bind fun a => (lift p (negate a)).bind fun r => .ok (.sc r)
  | .un .not e p =>
    (eval env arrs e).bind fun v => (asScalar v).bind fun a => (lift p (unaryNot a)).bind fun r => .ok (.sc r)
  | .bin op l r t p =>
    (eval env arrs l).bind fun a => (asScalar a).bind fun a =>
      (eval env arrs r).bind fun b => (asScalar b).bind fun b => (lift p (binStep op t a b)).bind fun r => .ok (.sc r)
  | .paren e _ => eval env arrs e
  | .elem a idx path _ p =>
    (evalIdx env arrs idx).bind fun is =>
      (getArr arrs a).bind fun A =>
        if A.inBounds is then
          match (A.get is).getPath path with
          | some v => .ok v
          | none => .illFormed
        else .err codeSubscript p
  | .bound upper a _ p => (getArr arrs a).bind fun A => boundOf upper A 1 p
  | .boundD upper a _ d p =>
    (getArr arrs a).bind fun A =>
      (eval env arrs d).bind fun dv => (asScalar dv).bind fun dv =>
        (toIndex p (cast dv .int)).bind fun k => boundOf upper A k p
/-- the subscripts, left to right, each converted to INTEGER at its own position -/
def evalIdx (env : Env) (arrs : List (Option RArr)) : Exprs → ERes (List Int)
  | .nil => .ok []
  | .cons e rest =>
    (eval env arrs e).bind fun v => (asScalar v).bind fun v =>
      (toIndex e.pos (storeCast (idxTy e.ty) .int v)).bind fun i =>
        (evalIdx env arrs rest).bind fun is => .ok (i :: is)
end

/-- a scalar-valued expression -/
def evalS (env : Env) (arrs : List (Option RArr)) (e : Expr) : ERes Val := (eval env arrs e).bind asScalar

/-- evaluate and convert to the type of the location that receives the value -/
def evalTo (env : Env) (arrs : List (Option RArr)) (e : Expr) (target : ETy) : ERes RV :=
  (eval env arrs e).bind fun v => conv e.pos e.ty target v

/-- evaluate and convert to a built-in type (FOR bounds) -/
def evalToS (env : Env) (arrs : List (Option RArr)) (e : Expr) (target : Ty) : ERes Val :=
  (evalTo env arrs e (.sc target)).bind asScalar

/-- the bound expressions of a DIM, left to right (a missing lower bound is 0) -/
def evalDims (env : Env) (arrs : List (Option RArr)) : Dims → ERes (List (Val × Val))
  | .nil => .ok []
  | .cons lo hi rest =>
    (match lo with
     | none => ERes.ok (Val.int 0)
     | some e => evalS env arrs e).bind fun l =>
      (evalS env arrs hi).bind fun h =>
        (evalDims env arrs rest).bind fun ds => .ok ((l, h) :: ds)

/-- conversion of the evaluated bounds to INTEGER, left to right; errors at the DIM's position -/
def convDims (p : Pos) : List (Val × Val) → ERes (List (Int × Int))
  | [] => .ok []
  | (l, h) :: rest =>
    (toIndex p (cast l .int)).bind fun lo =>
      (toIndex p (cast h .int)).bind fun hi =>
        (convDims p rest).bind fun ds => .ok ((lo, hi) :: ds)

structure St where
  types : List FFields
  env : Env
  arrs : List (Option RArr)
  out : Print.WritePrinter
  data : List Val
  dataIdx : Nat

inductive Outcome where
  | normal
  | halted
  | error (code : Nat) (p : Pos)
  | inexact
  | outOfFuel
  /-- use of a record / fixed-length string / array whose `DIM` did not run: outside the language -/
  | illFormed
  /-- an array with more than `sizeLimit` elements: outside the language -/
  | tooBig
  deriving Inhabited

def St.set (s : St) (x : Nat) (v : Val) : St := { s with env := s.env.set x (some (.sc v)) }

def St.setRV (s : St) (x : Nat) (v : RV) : St := { s with env := s.env.set x (some v) }

def St.setArr (s : St) (a : Nat) (A : RArr) : St := { s with arrs := s.arrs.set a (some A) }

/-- the current value of scalar variable `x` of type `t` -/
def St.getS (s : St) (x : Nat) (t : Ty) : Val :=
  match s.env[x]? with
  | some (some (.sc v)) => v
  | _ => zeroOf t

def outcomeOf {α : Type} : ERes α → Outcome
  | .ok _ => .normal
  | .err c p => .error c p
  | .inexact => .inexact
  | .illFormed => .illFormed

def endsInSeparator : List PrintItem → Bool
  | [] => false
  | [.comma] => true
  | [.semicolon] => true
  | [_] => false
  | _ :: rest => endsInSeparator rest

def printItems (s : St) : List PrintItem → St × Outcome
  | [] => (s, .normal)
  | .comma :: rest => printItems { s with out := s.out.moveToNextPrintZone } rest
  | .semicolon :: rest => printItems s rest
  | .expr e :: rest =>
    match evalS s.env s.arrs e with
    | .ok v =>
      match printValue v with
      | none => (s, .inexact)
      | some pv => printItems { s with out := s.out.print (Print.valueText pv) } rest
    | r => (s, outcomeOf r)

def evalCond (s : St) (c : Expr) : Except Outcome Bool :=
  match evalS s.env s.arrs c with
  | .ok v =>
    match truthy v with
    | some b => .ok b
    | none => .error (.error 13 c.pos)
  | r => .error (outcomeOf r)

def relTest (p : Pos) (op : Op) (a b : Val) : Except Outcome Bool :=
  match tryCmp a b with
  | .ok o => .ok (relHolds op o)
  | .err e => .error (.error (codeOf e) p)
  | .inexact => .error .inexact

def evalE (s : St) (e : Expr) : Except Outcome Val :=
  match evalS s.env s.arrs e with
  | .ok v => .ok v
  | r => .error (outcomeOf r)

def caseMatches (s : St) (p : Pos) (subject : Val) : CaseExpr → Except Outcome Bool
  | .simple e =>
    match evalE s e with
    | .error o => .error o
    | .ok v => relTest p .equal subject v
  | .is op e =>
    match evalE s e with
    | .error o => .error o
    | .ok v => relTest p op subject v
  | .range lo hi =>
    match evalE s lo with
    | .error o => .error o
    | .ok l =>
      match relTest p .greaterOrEqual subject l with
      | .error o => .error o
      | .ok false => .ok false
      | .ok true =>
        match evalE s hi with
        | .error o => .error o
        | .ok h => relTest p .lessOrEqual subject h

def anyMatches (s : St) (p : Pos) (subject : Val) : List CaseExpr → Except Outcome Bool
  | [] => .ok false
  | c :: rest =>
    match caseMatches s p subject c with
    | .error o => .error o
    | .ok true => .ok true
    | .ok false => anyMatches s p subject rest

inductive StepSign where
  | neg | pos | zero

def stepSign (p : Pos) (s : Val) : Except Outcome StepSign :=
  match relTest p .less s (.int 0) with
  | .error o => .error o
  | .ok true => .ok .neg
  | .ok false =>
    match relTest p .greater s (.int 0) with
    | .error o => .error o
    | .ok true => .ok .pos
    | .ok false => .ok .zero

/-- `DIM a(dims) AS t`: the new array, or how the statement fails -/
def dimArray (s : St) (t : ETy) (dims : Dims) (p : Pos) : Except Outcome RArr :=
  match expand s.types t with
  | none => .error .illFormed
  | some ft =>
    match (evalDims s.env s.arrs dims).bind (convDims p) with
    | .ok bounds =>
      if bounds.any (fun b => decide (b.2 < b.1)) then .error (.error codeSubscript p)
      else if boxSize bounds > sizeLimit then .error .tooBig
      else .ok ⟨ft, bounds, []⟩
    | r => .error (outcomeOf r)

/-- one DATA item converted to the target's type; errors at the READ statement's position -/
def readItem (s : St) (t : Ty) (p : Pos) : Except Outcome Val :=
  match s.data[s.dataIdx]? with
  | none => .error (.error codeOutOfData p)
  | some v =>
    match cast v t with
    | .ok w => .ok w
    | .err e => .error (.error (codeOf e) p)
    | .inexact => .error .inexact

mutual
/-- `exec fuel stmt state`: the state after the statement (output included) and how it ended -/
def exec : Nat → Stmt → St → St × Outcome
  | 0, _, s => (s, .outOfFuel)
  | _ + 1, .skip, s => (s, .normal)
  | fuel + 1, .seq a b, s =>
    match exec fuel a s with
    | (s', .normal) => exec fuel b s'
    | r => r
  | _ + 1, .dim x t _, s =>
    match expand s.types t with
    | some ft => (s.setRV x (fresh ft), .normal)
    | none => (s, .illFormed)
  | _ + 1, .dimArr a t dims p, s =>
    match dimArray s t dims p with
    | .ok A => (s.setArr a A, .normal)
    | .error o => (s, o)
  | _ + 1, .assign x path t e _, s =>
    -- right-hand side first (converted), then the store: that location and nothing else
    match evalTo s.env s.arrs e t with
    | .ok v =>
      match path, s.env[x]? with
      | [], some _ => (s.setRV x v, .normal)
      | _ :: _, some (some old) =>
        match old.setPath path v with
        | some new => (s.setRV x new, .normal)
        | none => (s, .illFormed)
      | _, _ => (s, .illFormed)
    | r => (s, outcomeOf r)
  | _ + 1, .assignElem a idx path t e p, s =>
    -- right-hand side first (converted), then the subscripts, then the bounds check at the statement's position, then
    -- the store into that field of that element
    match evalTo s.env s.arrs e t with
    | .ok v =>
      match (evalIdx s.env s.arrs idx).bind fun is => (getArr s.arrs a).bind fun A => .ok (is, A) with
      | .ok (is, A) =>
        if A.inBounds is then
          match (A.get is).setPath path v with
          | some new => (s.setArr a (A.set is new), .normal)
          | none => (s, .illFormed)
        else (s, .error codeSubscript p)
      | r => (s, outcomeOf r)
    | r => (s, outcomeOf r)
  | _ + 1, .print items _, s =>
    match printItems s items with
    | (s', .normal) =>
      if endsInSeparator items then (s', .normal) else ({ s' with out := s'.out.println }, .normal)
    | r => r
  | _ + 1, .read tg p, s =>
    match readItem s tg.t p with
    | .ok w => ({ s.set tg.x w with dataIdx := s.dataIdx + 1 }, .normal)
    | .error o => (s, o)
  | fuel + 1, .ifs c thn els _, s =>
    match evalCond s c with
    | .error o => (s, o)
    | .ok true => exec fuel thn s
    | .ok false => exec fuel els s
  | fuel + 1, .select e cases p, s =>
    match evalE s e with
    | .error o => (s, o)
    | .ok subject => execCases fuel p subject cases s
  | fuel + 1, .forLoop x t lo hi step body p, s =>
    match evalToS s.env s.arrs lo t with
    | .ok l =>
      let s := s.set x l
      match evalToS s.env s.arrs hi t with
      | .ok h =>
        match step with
        | none => forIter fuel x t h (.int 1) true body p s
        | some se =>
          match evalE s se with
          | .error o => (s, o)
          | .ok sv =>
            match stepSign p sv with
            | .error o => (s, o)
            | .ok .neg => forIter fuel x t h sv false body p s
            | .ok .pos => forIter fuel x t h sv true body p s
            | .ok .zero => (s, .error codeZeroStep se.pos)
      | r => (s, outcomeOf r)
    | r => (s, outcomeOf r)
  | fuel + 1, .while c body p, s =>
    match evalCond s c with
    | .error o => (s, o)
    | .ok false => (s, .normal)
    | .ok true =>
      match exec fuel body s with
      | (s', .normal) => exec fuel (.while c body p) s'
      | r => r
  | fuel + 1, .doLoop c top until_ body p, s =>
    if top then
      match evalCond s c with
      | .error o => (s, o)
      | .ok b =>
        if b != until_ then
          match exec fuel body s with
          | (s', .normal) => exec fuel (.doLoop c top until_ body p) s'
          | r => r
        else (s, .normal)
    else
      match exec fuel body s with
      | (s', .normal) =>
        match evalCond s' c with
        | .error o => (s', o)
        | .ok b => if b != until_ then exec fuel (.doLoop c top until_ body p) s' else (s', .normal)
      | r => r
  | _ + 1, .end_ _, s => (s, .halted)
def execCases : Nat → Pos → Val → Cases → St → St × Outcome
  | 0, _, _, _, s => (s, .outOfFuel)
  | _ + 1, _, _, .nil, s => (s, .normal)
  | fuel + 1, _, _, .else_ body, s => exec fuel body s
  | fuel + 1, p, subject, .case conds body rest, s =>
    match anyMatches s p subject conds with
    | .error o => (s, o)
    | .ok true => exec fuel body s
    | .ok false => execCases fuel p subject rest s
def forIter : Nat → Nat → Ty → Val → Val → Bool → Stmt → Pos → St → St × Outcome
  | 0, _, _, _, _, _, _, _, s => (s, .outOfFuel)
  | fuel + 1, x, t, h, sv, up, body, p, s =>
    let cur := s.getS x t
    match relTest p (if up then .lessOrEqual else .greaterOrEqual) cur h with
    | .error o => (s, o)
    | .ok false => (s, .normal)
    | .ok true =>
      match exec fuel body s with
      | (s', .normal) =>
        let cur' := s'.getS x t
        match (plus cur' sv).bind (fun v => cast v t) with
        | .ok v => forIter fuel x t h sv up body p (s'.set x v)
        | .err e => (s', .error (codeOf e) p)
        | .inexact => (s', .inexact)
      | r => r
end

/-- before any `DIM` has run: a scalar variable is zero / empty, a record / `STRING * n` variable does not exist yet -/
def initVar : ETy → Option RV
  | .sc t => some (.sc (zeroOf t))
  | _ => none

def St.init (P : Program) : St :=
  { types := P.types, env := P.slots.map initVar, arrs := P.arrs.map fun _ => none, out := Print.WritePrinter.new,
    data := P.data, dataIdx := 0 }

/-- run a whole program -/
def run (fuel : Nat) (P : Program) : St × Outcome := exec fuel P.body (St.init P)

end RbModel.AoR.Ref
