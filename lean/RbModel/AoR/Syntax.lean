import RbModel.Ast
import RbModel.Instr
import RbModel.RecL.Syntax
/-!
# RbModel.AoR.Syntax — arrays of records / of fixed-length strings (property C04, layer AoR = arrays ∪ records)

The records layer (`RbModel.RecL`: core language + TYPE records with nesting + `STRING * n`) extended with the arrays of
the arrays layer (`RbModel.ArrL`), the element type now being ANY declared type: a built-in type, `STRING * n` or a
record type (`ExpressionType::{BuiltIn, FixedLengthString, UserDefined}`), as the linter hands the program to the code
generator (`rusty_parser::{Statement, Expression}` after `rusty_linter::core::lint`, plus the `UserDefinedTypes` table):

* `DIM a(l1 TO u1, …) AS T` / `REDIM …` (`dimArr`): 1 or more dimensions, bound EXPRESSIONS (static or run-time);
* a location is a variable or an array element followed by a (possibly empty) field path:
  `v.f.g` (`Expr.var` / `SStmt.assign`, as in `RecL`) and `a(i, j).f.g` (`Expr.elem` / `SStmt.assignElem`:
  `Property(Property(ArrayElement(a, [i, j]), f), g)`); the static type of the whole is an `ETy`, so a whole record is a
  value too: `a(i) = r`, `r = a(i)`, `a(i) = a(j)`, `a(i).f = r.g`;
* `LBOUND(a)` / `UBOUND(a)` (`Expr.bound`), `LBOUND(a, d)` / `UBOUND(a, d)` with `d` NOT a by-reference expression
  (`Expr.boundD`; a variable / element / field as `d` is written back after the call and is outside this fragment).

The types (`ETy`, `FTy`, `FFields`, `expand`) are those of `RbModel.RecL`: every record type arrives EXPANDED.

What the real front end decides (checked against /repo by `harness/src/bin/c04a.rs`, not assumed):
* an array must be declared before its first use, a second `DIM` of the same array is rejected statically, `REDIM` is
  accepted for an array first declared by `REDIM`; arrays are numbered apart from the scalar / record variables;
* an array of records has NO qualifier in the variable map, an array of `STRING * n` the qualifier `$`;
* a wrong NUMBER of subscripts is accepted statically and is a run-time Subscript out of range (9);
* a record / an array element of record type cannot be printed, compared or used as an operand (`TypeMismatch`).

Conventions of the serialiser `harness/src/aor_sx.rs`: variables and arrays are numbered separately, each in order of
first occurrence of the resolved `(bare name, qualifier or none)`; types in declaration order; field names upper-cased;
every node keeps its source position.

Two levels as in the other layers: `SStmt` is the faithful syntax the generator sees (`AoR.Compile`), `Stmt` the leaner
syntax of the reference semantics `AoR.Ref`; `desugar` relates them.

Excluded: procedures, arrays as fields, SHARED / CONST, GOSUB / GOTO / labels, ON ERROR, built-in functions other than
LBOUND / UBOUND, READ into anything but a scalar variable, a by-reference dimension argument, DATA inside blocks.
-/
namespace RbModel.AoR
open RbModel RbModel.Num
open RbModel.Ast (Pos ty? op? val? pos?)
open RbModel.RecL (ETy FTy FFields expand zeroOf ety? ffields? path?)

mutual
inductive Expr where
  | lit (v : Val) (p : Pos)
  /-- variable `x` followed by the field path `path`; `t` is the static type of the whole -/
  | var (x : Nat) (path : List String) (t : ETy) (p : Pos)
  | un (op : UnOp) (e : Expr) (p : Pos)
  | bin (op : Op) (l r : Expr) (t : Ty) (p : Pos)
  | paren (e : Expr) (p : Pos)
  /-- element `a(idx)` followed by the field path `path`; `t` is the static type of the whole -/
  | elem (a : Nat) (idx : Exprs) (path : List String) (t : ETy) (p : Pos)
  /-- `LBOUND(a)` (`upper = false`) / `UBOUND(a)`; `ap` = position of the argument `a` -/
  | bound (upper : Bool) (a : Nat) (ap : Pos) (p : Pos)
  /-- `LBOUND(a, d)` / `UBOUND(a, d)`, `d` passed by value -/
  | boundD (upper : Bool) (a : Nat) (ap : Pos) (d : Expr) (p : Pos)
/-- a subscript list -/
inductive Exprs where
  | nil
  | cons (e : Expr) (rest : Exprs)
end

instance : Inhabited Expr := ⟨.lit (.int 0) ⟨0, 0⟩⟩
instance : Inhabited Exprs := ⟨.nil⟩

def Expr.pos : Expr → Pos
  | .lit _ p => p | .var _ _ _ p => p | .un _ _ p => p | .bin _ _ _ _ p => p | .paren _ p => p
  | .elem _ _ _ _ p => p | .bound _ _ _ p => p | .boundD _ _ _ _ p => p

/-- `expression_type()` of the linted node (LBOUND / UBOUND are INTEGER functions) -/
def Expr.ty : Expr → ETy
  | .lit v _ => .sc v.tag
  | .var _ _ t _ => t
  | .un _ e _ => e.ty
  | .bin _ _ _ t _ => .sc t
  | .paren e _ => e.ty
  | .elem _ _ _ t _ => t
  | .bound _ _ _ _ => .sc .int
  | .boundD _ _ _ _ _ => .sc .int

/-- `Expression::is_by_ref`: a variable, an array element or a field -/
def Expr.isRef : Expr → Bool
  | .var _ _ _ _ => true
  | .elem _ _ _ _ _ => true
  | _ => false

def Exprs.length : Exprs → Nat
  | .nil => 0
  | .cons _ rest => rest.length + 1

def Exprs.toList : Exprs → List Expr
  | .nil => []
  | .cons e rest => e :: rest.toList

inductive PrintItem where
  | expr (e : Expr)
  | comma
  | semicolon
  deriving Inhabited

inductive CaseExpr where
  | simple (e : Expr)
  | is (op : Op) (e : Expr)
  | range (lo hi : Expr)
  deriving Inhabited

/-- the dimensions of a `DIM`: optional lower bound, upper bound -/
inductive Dims where
  | nil
  | cons (lo : Option Expr) (hi : Expr) (rest : Dims)
  deriving Inhabited

def Dims.length : Dims → Nat
  | .nil => 0
  | .cons _ _ rest => rest.length + 1

/-- a READ target: a scalar variable -/
structure ReadTarget where
  x : Nat
  t : Ty
  pos : Pos
  deriving Inhabited

/-! ### the lean syntax of the reference semantics -/

mutual
inductive Stmt where
  | skip
  | seq (a b : Stmt)
  /-- `DIM x AS t`: the variable becomes a fresh value of its type -/
  | dim (x : Nat) (t : ETy) (p : Pos)
  /-- `DIM a(dims) AS t` / `REDIM`: every element becomes a fresh value of `t` -/
  | dimArr (a : Nat) (t : ETy) (dims : Dims) (p : Pos)
  /-- `x.path = e`; `t` is the static type of the target location -/
  | assign (x : Nat) (path : List String) (t : ETy) (e : Expr) (p : Pos)
  /-- `a(idx).path = e`; `t` is the static type of the target location -/
  | assignElem (a : Nat) (idx : Exprs) (path : List String) (t : ETy) (e : Expr) (p : Pos)
  | print (items : List PrintItem) (p : Pos)
  | read (tg : ReadTarget) (p : Pos)
  | ifs (c : Expr) (thn els : Stmt) (p : Pos)
  | select (e : Expr) (cases : Cases) (p : Pos)
  | forLoop (x : Nat) (t : Ty) (lo hi : Expr) (step : Option Expr) (body : Stmt) (p : Pos)
  | while (c : Expr) (body : Stmt) (p : Pos)
  | doLoop (c : Expr) (top until_ : Bool) (body : Stmt) (p : Pos)
  | end_ (p : Pos)
inductive Cases where
  | nil
  | else_ (body : Stmt)
  | case (conds : List CaseExpr) (body : Stmt) (rest : Cases)
end

instance : Inhabited Stmt := ⟨.skip⟩

/-! ### the faithful syntax of the generator -/

mutual
inductive SStmt where
  | skip
  | seq (a b : SStmt)
  | comment
  | dim (x : Nat) (t : ETy) (p : Pos)
  /-- `DIM` / `REDIM` of an array (the generator emits the same code for both) -/
  | dimArr (a : Nat) (t : ETy) (dims : Dims) (p : Pos)
  | assign (x : Nat) (path : List String) (t : ETy) (e : Expr) (p : Pos)
  | assignElem (a : Nat) (idx : Exprs) (path : List String) (t : ETy) (e : Expr) (p : Pos)
  | print (items : List PrintItem) (p : Pos)
  | data (items : List (Val × Pos)) (p : Pos)
  | read (targets : List ReadTarget) (p : Pos)
  | ifBlock (c : Expr) (thn : SStmt) (elifs : ElseIfs) (hasElse : Bool) (els : SStmt) (p : Pos)
  | select (e : Expr) (cases : SCases) (hasElse : Bool) (els : SStmt) (p : Pos)
  | forLoop (x : Nat) (t : Ty) (lo hi : Expr) (step : Option Expr) (body : SStmt) (p : Pos)
  | while (c : Expr) (body : SStmt) (p : Pos)
  | doLoop (c : Expr) (top until_ : Bool) (body : SStmt) (p : Pos)
  | end_ (p : Pos)
inductive ElseIfs where
  | nil
  | cons (c : Expr) (body : SStmt) (rest : ElseIfs)
inductive SCases where
  | nil
  | cons (conds : List CaseExpr) (body : SStmt) (rest : SCases)
end

instance : Inhabited SStmt := ⟨.skip⟩

structure SProgram where
  /-- the record types in declaration order, each expanded -/
  types : List FFields
  /-- declared types of the variables -/
  slots : List ETy
  /-- element types of the arrays -/
  arrs : List ETy
  body : SStmt

structure Program where
  types : List FFields
  slots : List ETy
  arrs : List ETy
  data : List Val
  body : Stmt

/-! ### desugaring -/

def readSeq (p : Pos) : List ReadTarget → Stmt
  | [] => .skip
  | tg :: rest => .seq (.read tg p) (readSeq p rest)

mutual
def desugar : SStmt → Stmt
  | .skip => .skip
  | .seq a b => .seq (desugar a) (desugar b)
  | .comment => .skip
  | .dim x t p => .dim x t p
  | .dimArr a t dims p => .dimArr a t dims p
  | .assign x path t e p => .assign x path t e p
  | .assignElem a idx path t e p => .assignElem a idx path t e p
  | .print items p => .print items p
  | .data _ _ => .skip
  | .read tgs p => readSeq p tgs
  | .ifBlock c thn elifs _ els p => .ifs c (desugar thn) (desugarElifs elifs (desugar els) p) p
  | .select e cases hasElse els p =>
    .select e (desugarCases cases (if hasElse then .else_ (desugar els) else .nil)) p
  | .forLoop x t lo hi step body p => .forLoop x t lo hi step (desugar body) p
  | .while c body p => .while c (desugar body) p
  | .doLoop c top u body p => .doLoop c top u (desugar body) p
  | .end_ p => .end_ p
def desugarElifs : ElseIfs → Stmt → Pos → Stmt
  | .nil, els, _ => els
  | .cons c body rest, els, p => .ifs c (desugar body) (desugarElifs rest els p) p
def desugarCases : SCases → Cases → Cases
  | .nil, tail => tail
  | .cons conds body rest, tail => .case conds (desugar body) (desugarCases rest tail)
end

/-- DATA items in program order (only top-level statements carry DATA) -/
def dataOf : SStmt → List Val
  | .seq a b => dataOf a ++ dataOf b
  | .data items _ => items.map (·.1)
  | _ => []

def SProgram.toAst (sp : SProgram) : Program :=
  ⟨sp.types, sp.slots, sp.arrs, dataOf sp.body, desugar sp.body⟩

/-! ### well-formedness of the shape (decidable; the driver checks it on every program) -/

mutual
/-- `top`: the statement is a top-level statement of the program (DATA is allowed only there) -/
def SStmt.wf (top : Bool) : SStmt → Bool
  | .seq a b => a.wf top && b.wf top
  | .data _ _ => top
  | .ifBlock _ thn elifs _ els _ => thn.wf false && elifs.wf && els.wf false
  | .select _ cases _ els _ => cases.wf && els.wf false
  | .forLoop _ _ _ _ _ body _ => body.wf false
  | .while _ body _ => body.wf false
  | .doLoop _ _ _ body _ => body.wf false
  | _ => true
def ElseIfs.wf : ElseIfs → Bool
  | .nil => true
  | .cons _ body rest => body.wf false && rest.wf
def SCases.wf : SCases → Bool
  | .nil => true
  | .cons _ body rest => body.wf false && rest.wf
end

def SProgram.wf (sp : SProgram) : Bool := sp.body.wf true

/-! ### reader of the serialised linted program (`harness/src/aor_sx.rs`) -/

mutual
partial def expr? : Sexp → Option Expr
  | .list [.atom "lit", v, r, c] => do pure (.lit (← val? v) (← pos? r c))
  | .list [.atom "var", x, path, t, r, c] => do pure (.var (← x.nat?) (← path? path) (← ety? t) (← pos? r c))
  | .list [.atom "neg", e, r, c] => do pure (.un .neg (← expr? e) (← pos? r c))
  | .list [.atom "not", e, r, c] => do pure (.un .not (← expr? e) (← pos? r c))
  | .list [.atom "bin", o, l, rr, t, r, c] => do
      pure (.bin (← op? o) (← expr? l) (← expr? rr) (← ty? t) (← pos? r c))
  | .list [.atom "paren", e, r, c] => do pure (.paren (← expr? e) (← pos? r c))
  | .list [.atom "elem", a, .list idx, path, t, r, c] => do
      pure (.elem (← a.nat?) (← exprs? idx) (← path? path) (← ety? t) (← pos? r c))
  | .list [.atom "bound", up, a, ar, ac, .atom "none", r, c] => do
      pure (.bound (← up.bool?) (← a.nat?) (← pos? ar ac) (← pos? r c))
  | .list [.atom "bound", up, a, ar, ac, d, r, c] => do
      pure (.boundD (← up.bool?) (← a.nat?) (← pos? ar ac) (← expr? d) (← pos? r c))
  | _ => none
partial def exprs? : List Sexp → Option Exprs
  | [] => some .nil
  | e :: rest => do pure (.cons (← expr? e) (← exprs? rest))
end

def item? : Sexp → Option PrintItem
  | .atom "comma" => some .comma
  | .atom "semi" => some .semicolon
  | .list [.atom "e", e] => do pure (.expr (← expr? e))
  | _ => none

def caseExpr? : Sexp → Option CaseExpr
  | .list [.atom "simple", e] => do pure (.simple (← expr? e))
  | .list [.atom "is", o, e] => do pure (.is (← op? o) (← expr? e))
  | .list [.atom "range", a, b] => do pure (.range (← expr? a) (← expr? b))
  | _ => none

/-- `((<lo expr | none> <hi expr>) …)` -/
def dims? : List Sexp → Option Dims
  | [] => some .nil
  | .list [.atom "none", hi] :: rest => do pure (.cons none (← expr? hi) (← dims? rest))
  | .list [lo, hi] :: rest => do pure (.cons (some (← expr? lo)) (← expr? hi) (← dims? rest))
  | _ => none

def readTarget? : Sexp → Option ReadTarget
  | .list [.atom "v", x, t, r, c] => do pure ⟨← x.nat?, ← ty? t, ← pos? r c⟩
  | _ => none

mutual
partial def sstmt? : Sexp → Option SStmt
  | .atom "comment" => some .comment
  | .list [.atom "dim", x, t, r, c] => do pure (.dim (← x.nat?) (← ety? t) (← pos? r c))
  | .list [.atom "dimarr", a, t, .list dims, r, c] => do
      pure (.dimArr (← a.nat?) (← ety? t) (← dims? dims) (← pos? r c))
  | .list [.atom "assign", x, path, t, e, r, c] => do
      pure (.assign (← x.nat?) (← path? path) (← ety? t) (← expr? e) (← pos? r c))
  | .list [.atom "assignel", a, .list idx, path, t, e, r, c] => do
      pure (.assignElem (← a.nat?) (← exprs? idx) (← path? path) (← ety? t) (← expr? e) (← pos? r c))
  | .list [.atom "print", .list items, r, c] => do
      pure (.print (← items.mapM item?) (← pos? r c))
  | .list [.atom "data", .list items, r, c] => do
      let its ← items.mapM fun it => match it with
        | .list [v, ir, ic] => do pure ((← val? v), (← pos? ir ic))
        | _ => none
      pure (.data its (← pos? r c))
  | .list [.atom "read", .list tgs, r, c] => do pure (.read (← tgs.mapM readTarget?) (← pos? r c))
  | .list [.atom "if", cnd, thn, .list elifs, els, r, c] => do
      let (he, eb) ← optBlock? els
      pure (.ifBlock (← expr? cnd) (← sblock? thn) (← elifs? elifs) he eb (← pos? r c))
  | .list [.atom "select", e, .list cs, els, r, c] => do
      let (he, eb) ← optBlock? els
      pure (.select (← expr? e) (← scases? cs) he eb (← pos? r c))
  | .list [.atom "for", x, t, lo, hi, st, body, r, c] => do
      let step ← match st with
        | .atom "none" => pure none
        | s => do pure (some (← expr? s))
      pure (.forLoop (← x.nat?) (← ty? t) (← expr? lo) (← expr? hi) step (← sblock? body) (← pos? r c))
  | .list [.atom "while", cnd, body, r, c] => do
      pure (.while (← expr? cnd) (← sblock? body) (← pos? r c))
  | .list [.atom "do", cnd, top, unt, body, r, c] => do
      pure (.doLoop (← expr? cnd) (← top.bool?) (← unt.bool?) (← sblock? body) (← pos? r c))
  | .list [.atom "end", r, c] => do pure (.end_ (← pos? r c))
  | _ => none
partial def sblock? : Sexp → Option SStmt
  | .list [] => some .skip
  | .list (s :: rest) => do pure (.seq (← sstmt? s) (← sblock? (.list rest)))
  | _ => none
partial def optBlock? : Sexp → Option (Bool × SStmt)
  | .atom "none" => some (false, .skip)
  | b => do pure (true, ← sblock? b)
partial def elifs? : List Sexp → Option ElseIfs
  | [] => some .nil
  | .list [c, body] :: rest => do pure (.cons (← expr? c) (← sblock? body) (← elifs? rest))
  | _ => none
partial def scases? : List Sexp → Option SCases
  | [] => some .nil
  | .list [.list conds, body] :: rest => do
      pure (.cons (← conds.mapM caseExpr?) (← sblock? body) (← scases? rest))
  | _ => none
end

/-- `(aorprogram (<fields of type 0> …) (<slot ety>…) (<array element ety>…) (<stmt>…))` -/
def sprogram? : Sexp → Option SProgram
  | .list [.atom "aorprogram", .list types, .list slots, .list arrs, body] => do
      let ts ← types.mapM fun t => match t with
        | .list fs => ffields? fs
        | _ => none
      pure ⟨ts, ← slots.mapM ety?, ← arrs.mapM ety?, ← sblock? body⟩
  | _ => none

end RbModel.AoR
