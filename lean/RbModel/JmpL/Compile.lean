import RbModel.JmpL.Syntax
import RbModel.Instr
/-!
# RbModel.JmpL.Compile — generator model of the jump layer

`rusty_basic/src/instruction_generator/{main, statement, expression, loops, if_block, select_case, print, calls, dim}.rs`
restricted to the constructs of `JmpL.SStmt`: the model `RbModel.Core` of the core language, plus

* `Statement::Label`  → `Label name` (a no-op instruction that is a jump target);
* `Statement::GoTo`   → `(d − d_L)` × `PopRegisters`, `(e − e_L)` × `PopValueStackIntoA`, `Jump L`, where `d` / `e` count the
  FOR bodies / SELECT statements around the GOTO (`for_depth`, `select_depth`) and `d_L` / `e_L` those around the label
  (`label_for_depths`, `label_select_depths`, collected by `collect_label_depths` before generation = `depthTable`);
* `Statement::GoSub`  → `GoSub L`;  `Statement::Return(None)` → `Return`.

The real generator emits label names and resolves them in a second pass (`label_resolver.rs`); here the address of every
user label is computed structurally by `addrTable`, which follows the layout of `compileStmt` (sizes from `sizeStmt`).
`compile p = normalise (real list)` is demanded for every explored program by `harness/src/bin/c05j.rs`.
-/
set_option linter.unusedVariables false

namespace RbModel.JmpL.Compile
open RbModel RbModel.Num RbModel.Ast RbModel.JmpL

/-- core instructions: variables are slots, literals are `Val`s, branch targets are addresses -/
inductive CInstr where
  | loadA (v : Val)
  | copyAToB | copyAToC | copyAToD | copyCToB | copyDToA | copyDToB
  | bin (op : Op)
  | negateA | notA
  | cast (t : Ty)
  | pushA | popA
  | varPath (x : Nat) | copyVarPathToA | popVarPath | copyAToVarPath
  | label (name : String)
  | jump (a : Nat) | jumpIfFalse (a : Nat)
  /-- `GoSub(Resolved a)` and `Return(None)` -/
  | goSub (a : Nat) | ret
  | pushRegs | popRegs
  | throwZeroStep
  | halt
  | allocate (t : Ty)
  | printSetPrinter | printSetFormat | printComma | printSemicolon | printValue | printEnd
  | beginArgs | pushByVal | pushByRef | pushStack | popStack
  | builtInData | builtInRead
  | enqueue (i : Nat) | dequeue
  deriving DecidableEq, Inhabited

abbrev Code := List (CInstr × Pos)

/-- `format!("_{}_{:?}{}", prefix, pos, suffix)` -/
def labelName (pref : String) (p : Pos) (suffix : String) : String :=
  "_" ++ pref ++ "_Position { row: " ++ toString p.row ++ ", col: " ++ toString p.col ++ " }" ++ suffix

/-! ### expressions: `generate_expression_instructions` -/

def compileExpr : Ast.Expr → Code
  | .lit v p => [(.loadA v, p)]
  | .var x _ p => [(.varPath x, p), (.copyVarPathToA, p), (.popVarPath, p)]
  | .un .neg e p => compileExpr e ++ [(.negateA, p)]
  | .un .not e p => compileExpr e ++ [(.notA, p)]
  | .bin op l r t p =>
    compileExpr l ++ [(.pushA, p)] ++ compileExpr r ++ [(.copyAToB, p), (.popA, p), (.bin op, p)] ++
      (if op = .divide then [(.cast t, p)] else [])
  | .paren e _ => compileExpr e

/-- `generate_expression_instructions_casting` -/
def compileExprTo (e : Ast.Expr) (target : Ty) : Code :=
  compileExpr e ++ (if e.ty = target then [] else [(.cast target, e.pos)])

def storeVar (x : Nat) (p : Pos) : Code := [(.varPath x, p), (.copyAToVarPath, p)]

def loadVar (x : Nat) (p : Pos) : Code := [(.varPath x, p), (.copyVarPathToA, p), (.popVarPath, p)]

def compileItem (p : Pos) : PrintItem → Code
  | .expr e => compileExpr e ++ [(.printValue, e.pos)]
  | .comma => [(.printComma, p)]
  | .semicolon => [(.printSemicolon, p)]

/-- one CASE item: `generate_case_expression` (jump to `next` when it does not match) -/
def compileCaseExpr (p : Pos) (next : Nat) : CaseExpr → Code
  | .simple e =>
    compileExpr e ++ [(.copyAToB, p), (.popA, p), (.pushA, p), (.bin .equal, p), (.jumpIfFalse next, p)]
  | .is op e =>
    compileExpr e ++ [(.copyAToB, p), (.popA, p), (.pushA, p), (.bin op, p), (.jumpIfFalse next, p)]
  | .range lo hi =>
    compileExpr lo ++ [(.copyAToB, p), (.popA, p), (.pushA, p), (.bin .greaterOrEqual, p), (.jumpIfFalse next, p)] ++
    compileExpr hi ++ [(.copyAToB, p), (.popA, p), (.pushA, p), (.bin .lessOrEqual, p), (.jumpIfFalse next, p)]

def sizeCaseExpr : CaseExpr → Nat
  | .simple e => (compileExpr e).length + 5
  | .is _ e => (compileExpr e).length + 5
  | .range lo hi => (compileExpr lo).length + 5 + (compileExpr hi).length + 5

/-! ### sizes (needed to place forward labels) -/

def sizeItems : List PrintItem → Nat
  | [] => 0
  | .expr e :: rest => (compileExpr e).length + 1 + sizeItems rest
  | _ :: rest => 1 + sizeItems rest

/-- size of the code of the condition list of one CASE block (`generate_case_expressions`) -/
def sizeConds : List CaseExpr → Nat
  | [] => 0
  | [c] => sizeCaseExpr c
  | c :: rest => sizeCaseExpr c + 1 /- jump to statements -/ + 1 /- label of next expr -/ + sizeConds rest

/-- the nesting depths of the user labels (`label_for_depths`, `label_select_depths`): number of FOR bodies / SELECT
statements around the label statement -/
structure Dp where
  fd : Nat → Nat
  sd : Nat → Nat

/-- a `GOTO L` generated at FOR depth `d` and SELECT depth `e`: the frames and selectors it leaves behind, then the jump -/
def sizeGoto (dp : Dp) (d e L : Nat) : Nat := (d - dp.fd L) + (e - dp.sd L) + 1

mutual
/-- `d` / `e`: the number of FOR bodies / SELECT statements around the statement (`for_depth`, `select_depth`) -/
def sizeStmt (dp : Dp) (d e : Nat) : SStmt → Nat
  | .skip => 0
  | .seq a b => sizeStmt dp d e a + sizeStmt dp d e b
  | .comment => 0
  | .dim _ _ _ => 3
  | .assign _ t e _ => (compileExprTo e t).length + 2
  | .print items _ => 3 + sizeItems items + 1
  | .data items _ => 1 + 2 * items.length + 3
  | .read vars _ => if vars.isEmpty then 4 else 11 * vars.length
  | .ifBlock c thn elifs hasElse els _ =>
    (compileExpr c).length + 1 + sizeStmt dp d e thn + 1 + sizeElifs dp d e elifs +
      (if hasElse then 1 + sizeStmt dp d e els else 0) + 1
  | .select sel cases hasElse els _ =>
    (compileExpr sel).length + 1 + 3 + sizeCases dp d (e + 1) cases +
      (if hasElse then 1 + sizeStmt dp d (e + 1) els else 0) + 3
  | .forLoop x t lo hi step body p =>
    (compileExprTo lo t).length + 2 + (compileExprTo hi t).length +
    (match step with
     | none => 6 + (18 + sizeStmt dp (d + 1) e body) + 1
     | some s => 1 + (compileExpr s).length + 11 + (18 + sizeStmt dp (d + 1) e body) + 2 + 3 +
         (18 + sizeStmt dp (d + 1) e body) + 4)
  | .while c body _ => 1 + (compileExpr c).length + 1 + sizeStmt dp d e body + 2
  | .doLoop c top u body _ =>
    if top then 1 + (compileExpr c).length + (if u then 3 else 1) + sizeStmt dp d e body + 2
    else 1 + sizeStmt dp d e body + (compileExpr c).length + (if u then 1 else 2) + 1
  | .end_ _ => 1
  | .label _ _ _ => 1
  | .goto L _ => sizeGoto dp d e L
  | .gosub _ _ => 1
  | .ret _ => 1
def sizeElifs (dp : Dp) (d e : Nat) : ElseIfs → Nat
  | .nil => 0
  | .cons c body rest => 1 + (compileExpr c).length + 1 + sizeStmt dp d e body + 1 + sizeElifs dp d e rest
/-- `e`: the depth of the blocks (the SELECT counted) -/
def sizeCases (dp : Dp) (d e : Nat) : SCases → Nat
  | .nil => 0
  | .cons conds body rest =>
    1 + sizeConds conds + (if conds.length > 1 then 1 else 0) + sizeStmt dp d e body + 1 + sizeCases dp d e rest
end

/-- loop head (8) + body + increment (10) (`generate_for_loop_instructions_positive_or_negative_step`); the body is one FOR
deeper -/
def sizeForBody (dp : Dp) (d e : Nat) (_x : Nat) (body : SStmt) : Nat :=
  18 + sizeStmt dp (d + 1) e body

/-! ### the label tables

`depthTable` is `collect_label_depths`; `addrTable` gives the address of every `Label` instruction of a user label, by
the layout of `compileStmt` below (the real generator finds it by scanning the emitted list: `label_resolver.rs`). -/

mutual
/-- `(L, for depth, select depth)` of every label statement, in program order -/
def depthTable (d e : Nat) : SStmt → List (Nat × Nat × Nat)
  | .seq a b => depthTable d e a ++ depthTable d e b
  | .ifBlock _ thn elifs _ els _ => depthTable d e thn ++ depthElifs d e elifs ++ depthTable d e els
  | .select _ cases _ els _ => depthCases d (e + 1) cases ++ depthTable d (e + 1) els
  | .forLoop _ _ _ _ _ body _ => depthTable (d + 1) e body
  | .while _ body _ => depthTable d e body
  | .doLoop _ _ _ body _ => depthTable d e body
  | .label L _ _ => [(L, d, e)]
  | _ => []
def depthElifs (d e : Nat) : ElseIfs → List (Nat × Nat × Nat)
  | .nil => []
  | .cons _ body rest => depthTable d e body ++ depthElifs d e rest
def depthCases (d e : Nat) : SCases → List (Nat × Nat × Nat)
  | .nil => []
  | .cons _ body rest => depthTable d e body ++ depthCases d e rest
end

def lookupNat (L : Nat) : List (Nat × Nat) → Option Nat
  | [] => none
  | (k, v) :: rest => if k = L then some v else lookupNat L rest

def lookupDepth (L : Nat) : List (Nat × Nat × Nat) → Option (Nat × Nat)
  | [] => none
  | (k, v) :: rest => if k = L then some v else lookupDepth L rest

/-- the depths of a label; a label that is not defined has the depths of the GOTO that names it
(`.get(&name).copied().unwrap_or(self.for_depth)`): modelled by "very deep", so that nothing is popped -/
def Dp.ofTable (t : List (Nat × Nat × Nat)) : Dp :=
  ⟨fun L => match lookupDepth L t with | some (d, _) => d | none => 1000000,
   fun L => match lookupDepth L t with | some (_, e) => e | none => 1000000⟩

mutual
/-- `(L, address of its Label instruction)` for the code of the statement placed at `off` -/
def addrTable (dp : Dp) (d e : Nat) (off : Nat) : SStmt → List (Nat × Nat)
  | .seq a b => addrTable dp d e off a ++ addrTable dp d e (off + sizeStmt dp d e a) b
  | .ifBlock c thn elifs hasElse els _ =>
    let thnOff := off + (compileExpr c).length + 1
    let afterThn := thnOff + sizeStmt dp d e thn + 1
    let elseOff := afterThn + sizeElifs dp d e elifs
    addrTable dp d e thnOff thn ++ addrElifs dp d e afterThn elifs ++
      (if hasElse then addrTable dp d e (elseOff + 1) els else [])
  | .select sel cases hasElse els _ =>
    let casesOff := off + (compileExpr sel).length + 1 + 3
    let elseOff := casesOff + sizeCases dp d (e + 1) cases
    addrCases dp d (e + 1) casesOff cases ++ (if hasElse then addrTable dp d (e + 1) (elseOff + 1) els else [])
  | .forLoop x t lo hi step body _ =>
    let hdr := off + (compileExprTo lo t).length + 2 + (compileExprTo hi t).length
    match step with
    | none => addrTable dp (d + 1) e (hdr + 6 + 8) body
    | some s =>
      -- the body is generated twice; the resolver keeps the later copy (the positive one)
      let negOff := hdr + 1 + (compileExpr s).length + 11
      let posOff := negOff + sizeForBody dp d e x body + 1 + 4
      addrTable dp (d + 1) e (posOff + 8) body ++ addrTable dp (d + 1) e (negOff + 8) body
  | .while c body _ => addrTable dp d e (off + 1 + (compileExpr c).length + 1) body
  | .doLoop c top u body _ =>
    if top then addrTable dp d e (off + 1 + (compileExpr c).length + (if u then 3 else 1)) body
    else addrTable dp d e (off + 1) body
  | .label L _ _ => [(L, off)]
  | _ => []
/-- `off`: the address of the label of the first ELSEIF arm -/
def addrElifs (dp : Dp) (d e : Nat) (off : Nat) : ElseIfs → List (Nat × Nat)
  | .nil => []
  | .cons c body rest =>
    let bodyOff := off + 1 + (compileExpr c).length + 1
    addrTable dp d e bodyOff body ++ addrElifs dp d e (bodyOff + sizeStmt dp d e body + 1) rest
/-- `off`: the address of the label of the first CASE block -/
def addrCases (dp : Dp) (d e : Nat) (off : Nat) : SCases → List (Nat × Nat)
  | .nil => []
  | .cons conds body rest =>
    let bodyOff := off + 1 + sizeConds conds + (if conds.length > 1 then 1 else 0)
    addrTable dp d e bodyOff body ++ addrCases dp d e (bodyOff + sizeStmt dp d e body + 1) rest
end

/-- what the generator knows about the user labels while it emits code -/
structure LEnv where
  dp : Dp
  /-- resolved address of a label (`LabelResolver`) -/
  addr : Nat → Nat

/-! ### statements: `Visitor<StatementPos>` and the per-construct generators

`off` is the address of the first emitted instruction, `sfx` the current label suffix. -/

def compileItems (p : Pos) : List PrintItem → Code
  | [] => []
  | it :: rest => compileItem p it ++ compileItems p rest

/-- the condition list of CASE block `bi` starting at `off`: `generate_case_expressions`.
`nextCase` is the address to continue at when no item matches, `stmts` the address of the
block's statements; `ei` is the index of the first item of `conds` within the block. -/
def compileConds (p : Pos) (sfx : String) (bi : Nat) (nextCase stmts : Nat) :
    Nat → Nat → List CaseExpr → Code
  | _, _, [] => []
  | _, _, [c] => compileCaseExpr p nextCase c
  | off, ei, c :: rest =>
    let nextItem := off + sizeCaseExpr c + 1
    compileCaseExpr p nextItem c ++ [(.jump stmts, p)] ++
      [(.label (labelName ("case-multi-expr-" ++ toString bi ++ "-" ++ toString (ei + 1)) p sfx), p)] ++
      compileConds p sfx bi nextCase stmts (nextItem + 1) (ei + 1) rest

/-- `generate_for_loop_instructions_positive_or_negative_step`, placed at `off`, around the already
generated code of the body (which starts at `off + 8` and carries the extended label suffix);
`outOff` = address of the `out-of-for` label -/
def forBody (sfx : String) (x : Nat) (t : Ty) (bodyCode : Code) (up : Bool) (p : Pos) (off outOff : Nat) : Code :=
  [(.label (labelName (if up then "positive-loop" else "negative-loop") p sfx), p), (.copyCToB, p)] ++ loadVar x p ++
    [(.bin (if up then .lessOrEqual else .greaterOrEqual), p), (.jumpIfFalse outOff, p), (.pushRegs, p)] ++
    bodyCode ++
    [(.popRegs, p)] ++ loadVar x p ++ [(.copyDToB, p), (.bin .plus, p), (.cast t, p)] ++ storeVar x p ++
    [(.jump off, p)]

def stepSuffix (sfx : String) (up : Bool) : String :=
  sfx ++ (if up then "_positive-step" else "_negative-step")

/-- `GOTO L` at depths `d` / `e`: leave the register frames of the FOR loops and the selectors of the SELECT CASE
statements that the jump leaves behind, then jump -/
def compileGoto (env : LEnv) (d e L : Nat) (p : Pos) : Code :=
  List.replicate (d - env.dp.fd L) (.popRegs, p) ++ List.replicate (e - env.dp.sd L) (.popA, p) ++ [(.jump (env.addr L), p)]

mutual
def compileStmt (env : LEnv) : String → Nat → Nat → Nat → SStmt → Code
  | sfx, d, e, _, .skip => []
  | sfx, d, e, off, .seq a b => compileStmt env sfx d e off a ++ compileStmt env sfx d e (off + sizeStmt env.dp d e a) b
  | sfx, d, e, _, .comment => []
  | sfx, d, e, _, .dim x t p => [(.allocate t, p), (.varPath x, p), (.copyAToVarPath, p)]
  | sfx, d, e, _, .assign x t ex p => compileExprTo ex t ++ storeVar x p
  | sfx, d, e, _, .print items p =>
    [(.printSetPrinter, p), (.loadA (.int 0), p), (.printSetFormat, p)] ++ compileItems p items ++ [(.printEnd, p)]
  | sfx, d, e, _, .data items p =>
    [(.beginArgs, p)] ++ items.flatMap (fun (v, q) => [(.loadA v, q), (.pushByVal, q)]) ++
      [(.pushStack, p), (.builtInData, p), (.popStack, p)]
  | sfx, d, e, _, .read vars p =>
    -- `READ a, b` is generated as `READ a : READ b` (one built-in call per variable)
    if vars.isEmpty then [(.beginArgs, p), (.pushStack, p), (.builtInRead, p), (.popStack, p)]
    else vars.flatMap (fun (x, _, q) =>
      [(.beginArgs, p), (.varPath x, q), (.copyVarPathToA, q), (.pushByRef, q), (.pushStack, p), (.builtInRead, p),
       (.enqueue 0, q), (.popStack, p), (.dequeue, q), (.varPath x, q), (.copyAToVarPath, q)])
  | sfx, d, e, off, .ifBlock c thn elifs hasElse els p =>
    let nc := (compileExpr c).length
    let thnOff := off + nc + 1
    let afterThn := thnOff + sizeStmt env.dp d e thn + 1          -- address of the first else-if label / else / end-if
    let elseOff := afterThn + sizeElifs env.dp d e elifs           -- address of the `else` label (if any)
    let endOff := elseOff + (if hasElse then 1 + sizeStmt env.dp d e els else 0)
    compileExpr c ++ [(.jumpIfFalse afterThn, p)] ++ compileStmt env sfx d e thnOff thn ++ [(.jump endOff, p)] ++
      compileElifs env sfx d e p endOff elseOff afterThn 0 elifs ++
      (if hasElse then [(.label (labelName "else" p sfx), p)] ++ compileStmt env sfx d e (elseOff + 1) els else []) ++
      [(.label (labelName "end-if" p sfx), p)]
  | sfx, d, e, off, .select sel cases hasElse els p =>
    let ne := (compileExpr sel).length
    let casesOff := off + ne + 1 + 3
    let elseOff := casesOff + sizeCases env.dp d (e + 1) cases
    let endOff := elseOff + (if hasElse then 1 + sizeStmt env.dp d (e + 1) els else 0)
    -- `jump select-begin; jump select-skip; label select-begin`: a resume point for an error in the selector
    compileExpr sel ++ [(.pushA, p)] ++
      [(.jump (casesOff - 1), p), (.jump (endOff + 2), p), (.label (labelName "select-begin" p sfx), p)] ++
      compileCases env sfx d (e + 1) p endOff elseOff casesOff 0 cases ++
      (if hasElse then [(.label (labelName "case-else" p sfx), p)] ++ compileStmt env sfx d (e + 1) (elseOff + 1) els else []) ++
      [(.label (labelName "end-select" p sfx), p), (.popA, p), (.label (labelName "select-skip" p sfx), p)]
  | sfx, d, e, off, .forLoop x t lo hi step body p =>
    let nlo := (compileExprTo lo t).length
    let nhi := (compileExprTo hi t).length
    let hdr := off + nlo + 2 + nhi
    compileExprTo lo t ++ storeVar x p ++ compileExprTo hi t ++
    (match step with
     | none =>
       let bodyOff := hdr + 6
       let outOff := bodyOff + sizeForBody env.dp d e x body
       -- `jump for-begin; jump out-of-for; label for-begin`: a resume point for an error in the header
       [(.copyAToC, p), (.loadA (.int 1), p), (.copyAToD, p),
        (.jump (hdr + 5), p), (.jump outOff, p), (.label (labelName "for-begin" p sfx), p)] ++
         forBody sfx x t (compileStmt env (stepSuffix sfx true) (d + 1) e (bodyOff + 8) body) true p bodyOff outOff ++
         [(.label (labelName "out-of-for" p sfx), p)]
     | some s =>
       let ns := (compileExpr s).length
       let negOff := hdr + 1 + ns + 11
       let testPosOff := negOff + sizeForBody env.dp d e x body + 1
       let posOff := testPosOff + 4
       let zeroOff := posOff + sizeForBody env.dp d e x body + 1
       let outOff := zeroOff + 2
       [(.pushA, p)] ++ compileExpr s ++
         [(.copyAToD, p), (.popA, p), (.copyAToC, p),
          (.jump (hdr + 1 + ns + 5), p), (.jump outOff, p), (.label (labelName "for-begin" p sfx), p),
          (.loadA (.int 0), p), (.copyAToB, p), (.copyDToA, p),
          (.bin .less, p), (.jumpIfFalse testPosOff, p)] ++
         forBody sfx x t (compileStmt env (stepSuffix sfx false) (d + 1) e (negOff + 8) body) false p negOff outOff ++
         [(.jump outOff, p), (.label (labelName "test-positive-or-zero" p sfx), p), (.copyDToA, p),
          (.bin .greater, p), (.jumpIfFalse zeroOff, p)] ++
         forBody sfx x t (compileStmt env (stepSuffix sfx true) (d + 1) e (posOff + 8) body) true p posOff outOff ++
         [(.jump outOff, p), (.label (labelName "zero" p sfx), p), (.throwZeroStep, s.pos),
          (.label (labelName "out-of-for" p sfx), p)])
  | sfx, d, e, off, .while c body p =>
    let nc := (compileExpr c).length
    let bodyOff := off + 1 + nc + 1
    let wendOff := bodyOff + sizeStmt env.dp d e body + 1
    [(.label (labelName "while" p sfx), p)] ++ compileExpr c ++ [(.jumpIfFalse wendOff, p)] ++
      compileStmt env sfx d e bodyOff body ++ [(.jump off, p), (.label (labelName "wend" p sfx), p)]
  | sfx, d, e, off, .doLoop c top u body p =>
    let nc := (compileExpr c).length
    if top then
      let bodyOff := off + 1 + nc + (if u then 3 else 1)
      let loopOff := bodyOff + sizeStmt env.dp d e body + 1
      [(.label (labelName "do" p sfx), p)] ++ compileExpr c ++
        (if u then [(.jumpIfFalse (bodyOff - 1), p), (.jump loopOff, p), (.label (labelName "do-body" p sfx), p)]
         else [(.jumpIfFalse loopOff, p)]) ++
        compileStmt env sfx d e bodyOff body ++
        [(.jump off, p), (.label (labelName "loop" p sfx), p)]
    else
      let loopOff := off + 1 + sizeStmt env.dp d e body + nc + (if u then 1 else 2)
      [(.label (labelName "do" p sfx), p)] ++ compileStmt env sfx d e (off + 1) body ++ compileExpr c ++
        (if u then [(.jumpIfFalse off, p)] else [(.jumpIfFalse loopOff, p), (.jump off, p)]) ++
        [(.label (labelName "loop" p sfx), p)]
  | sfx, d, e, _, .end_ p => [(.halt, p)]
  | sfx, d, e, _, .label _ name p => [(.label name, p)]
  | sfx, d, e, _, .goto L p => compileGoto env d e L p
  | sfx, d, e, _, .gosub L p => [(.goSub (env.addr L), p)]
  | sfx, d, e, _, .ret p => [(.ret, p)]
/-- the ELSEIF arms starting at `off` (the address of the label of arm `i`) -/
def compileElifs (env : LEnv) : String → Nat → Nat → Pos → Nat → Nat → Nat → Nat → ElseIfs → Code
  | _, _, _, _, _, _, _, _, .nil => []
  | sfx, d, e, p, endOff, elseOff, off, i, .cons c body rest =>
    let nc := (compileExpr c).length
    let bodyOff := off + 1 + nc + 1
    let next := bodyOff + sizeStmt env.dp d e body + 1
    [(.label (labelName ("else-if-" ++ toString i) p sfx), p)] ++ compileExpr c ++ [(.jumpIfFalse next, p)] ++
      compileStmt env sfx d e bodyOff body ++ [(.jump endOff, p)] ++
      compileElifs env sfx d e p endOff elseOff next (i + 1) rest
/-- the CASE blocks starting at `off` (the address of the label of block `i`); `e` counts the SELECT -/
def compileCases (env : LEnv) : String → Nat → Nat → Pos → Nat → Nat → Nat → Nat → SCases → Code
  | _, _, _, _, _, _, _, _, .nil => []
  | sfx, d, e, p, endOff, elseOff, off, i, .cons conds body rest =>
    let multi := decide (conds.length > 1)
    let condsOff := off + 1
    let stmtsLabel := condsOff + sizeConds conds
    let bodyOff := stmtsLabel + (if multi then 1 else 0)
    let next := bodyOff + sizeStmt env.dp d e body + 1
    [(.label (labelName ("case" ++ toString i) p sfx), p)] ++
      compileConds p sfx i next stmtsLabel condsOff 0 conds ++
      (if multi then [(.label (labelName ("case-statements" ++ toString i) p sfx), p)] else []) ++
      compileStmt env sfx d e bodyOff body ++ [(.jump endOff, p)] ++
      compileCases env sfx d e p endOff elseOff next (i + 1) rest
end

def maxPos : Pos := ⟨4294967295, 4294967295⟩

/-- `move_data_statements_first`: top-level DATA statements are generated before everything else -/
def topLevel : SStmt → List SStmt
  | .seq a b => topLevel a ++ topLevel b
  | .skip => []
  | s => [s]

def isData : SStmt → Bool
  | .data _ _ => true
  | _ => false

def seqOf : List SStmt → SStmt
  | [] => .skip
  | s :: rest => .seq s (seqOf rest)

def reorder (body : SStmt) : SStmt :=
  let ss := topLevel body
  seqOf (ss.filter isData ++ ss.filter (fun s => !isData s))

/-- the label environment of a program body: depths by `collect_label_depths`, addresses by the layout -/
def envOf (body : SStmt) : LEnv :=
  let dp := Dp.ofTable (depthTable 0 0 body)
  let tbl := addrTable dp 0 0 0 body
  ⟨dp, fun L => (lookupNat L tbl).getD 0⟩

/-- `generate_instructions` for a program of the layer (no procedures): the statements, then `Halt` -/
def compile (prog : SProgram) : Code :=
  let body := reorder prog.body
  compileStmt (envOf body) "" 0 0 0 body ++ [(.halt, maxPos)]

/-! ### normalisation of the real instruction list -/

/-- exact value of an IEEE-754 bit pattern with `mbits` fraction bits and `ebits` exponent bits -/
def ieeeToRat (mbits ebits : Nat) (bits : Nat) : Option Rat :=
  let frac := bits % 2 ^ mbits
  let exp := (bits / 2 ^ mbits) % 2 ^ ebits
  let neg := (bits / 2 ^ (mbits + ebits)) % 2 == 1
  let bias : Int := 2 ^ (ebits - 1) - 1
  if exp == 2 ^ ebits - 1 then none
  else
    let (m, e) : Nat × Int :=
      if exp == 0 then (frac, 1 - bias - mbits) else (2 ^ mbits + frac, (exp : Int) - bias - mbits)
    let q : Rat := if e ≥ 0 then (m : Rat) * (2 : Rat) ^ e.toNat else (m : Rat) / (2 : Rat) ^ (-e).toNat
    some (if neg then -q else q)

def litToVal : Lit → Option Val
  | .int i => some (.int i)
  | .long i => some (.long i)
  | .sgl b => (ieeeToRat 23 8 b).map .sgl
  | .dbl b => (ieeeToRat 52 11 b).map .dbl
  | .str cs => some (.str (cs.map Char.ofNat))
  | .other _ => none

def qualToTy : Qual → Ty
  | .int => .int | .long => .long | .sgl => .sgl | .dbl => .dbl | .str => .str

/-- slot of a resolved variable name (bare name compared case-insensitively) -/
def slotOf (table : List (String × Ty)) (n : QName) : Option Nat :=
  match n.q with
  | none => none
  | some q => table.findIdx? (fun e => e.1 == n.bare.map Char.toUpper && e.2 == qualToTy q)

def targetAddr : Target → Option Nat
  | .addr a => some a
  | .unresolved _ => none

def normInstr (table : List (String × Ty)) : Instr → Option CInstr
  | .loadIntoA v => (litToVal v).map .loadA
  | .copyAToB => some .copyAToB | .copyAToC => some .copyAToC | .copyAToD => some .copyAToD
  | .copyCToB => some .copyCToB | .copyDToA => some .copyDToA | .copyDToB => some .copyDToB
  | .plus => some (.bin .plus) | .minus => some (.bin .minus) | .multiply => some (.bin .multiply)
  | .divide => some (.bin .divide) | .modulo => some (.bin .modulo)
  | .less => some (.bin .less) | .lessOrEqual => some (.bin .lessOrEqual) | .equal => some (.bin .equal)
  | .greaterOrEqual => some (.bin .greaterOrEqual) | .greater => some (.bin .greater)
  | .notEqual => some (.bin .notEqual) | .and => some (.bin .and) | .or => some (.bin .or)
  | .negateA => some .negateA | .notA => some .notA
  | .cast q => some (.cast (qualToTy q))
  | .pushAToValueStack => some .pushA | .popValueStackIntoA => some .popA
  | .varPathName n false => (slotOf table n).map .varPath
  | .copyVarPathToA => some .copyVarPathToA | .popVarPath => some .popVarPath
  | .copyAToVarPath => some .copyAToVarPath
  | .label l => some (.label l)
  | .jump t => (targetAddr t).map .jump
  | .jumpIfFalse t => (targetAddr t).map .jumpIfFalse
  | .goSub t => (targetAddr t).map .goSub
  | .ret none => some .ret
  | .pushRegisters => some .pushRegs | .popRegisters => some .popRegs
  | .throw e => if e == "ForLoopZeroStep" then some .throwZeroStep else none
  | .halt => some .halt
  | .allocateBuiltIn q => some (.allocate (qualToTy q))
  | .printSetPrinterType p => if p == "print" then some .printSetPrinter else none
  | .printSetFormatStringFromA => some .printSetFormat
  | .printComma => some .printComma | .printSemicolon => some .printSemicolon
  | .printValueFromA => some .printValue | .printEnd => some .printEnd
  | .beginCollectArguments => some .beginArgs
  | .pushUnnamedByVal => some .pushByVal | .pushUnnamedByRef => some .pushByRef
  | .pushStack => some .pushStack | .popStack => some .popStack
  | .builtInSub n => if n == "Data" then some .builtInData else if n == "Read" then some .builtInRead else none
  | .enqueueToReturnStack i => some (.enqueue i)
  | .dequeueFromReturnStack => some .dequeue
  | _ => none

def normalise (table : List (String × Ty)) (code : Array InstrPos) : Option Code :=
  code.toList.mapM fun ip => (normInstr table ip.instr).map fun c => (c, ⟨ip.row, ip.col⟩)

/-- index of the first position where two lists differ -/
def firstDiff : Code → Code → Nat → Option Nat
  | [], [], _ => none
  | a :: as, b :: bs, i => if a = b then firstDiff as bs (i + 1) else some i
  | _, _, i => some i

end RbModel.JmpL.Compile
