import RbModel.JmpL.Compile
import RbModel.Ref
/-!
# RbModel.JmpL.Vm — VM model of the jump layer

`rusty_basic/src/interpreter/main.rs` (`interpret` / `interpret_one`) and the handlers in `interpreter/handlers/*.rs`
restricted to the instructions `JmpL.Compile.CInstr`: the VM model `RbModel.CoreVm` of the core language plus

* `GoSub a`: pushes its own address on `go_sub_address_stack` and the heights of the register stack and of the value stack
  on `go_sub_marks` (8f09b9b), continues at `a`;
* `Return`: pops both, cuts the two stacks back to the recorded heights (`Vec::truncate`: a no-op when the stack is not
  higher) and continues at address + 1; with nothing pending it raises error 3 (`ReturnWithoutGoSub`) at its position (since
  37cc5db only the GOSUBs of the running procedure count; in the main module, the only scope of this layer, that is all).

One `step` per instruction; `stuck` marks what the real VM would answer with a panic (stack underflow, wrong operand kind
in an unchecked accessor) or what the model does not cover.
-/
namespace RbModel.JmpL.Vm
open RbModel RbModel.Num RbModel.Ast RbModel.JmpL.Compile

/-- one frame of `Registers` -/
structure Regs where
  a : Val
  b : Val
  c : Val
  d : Val
  deriving Inhabited

def Regs.new : Regs := ⟨.int 0, .int 0, .int 0, .int 0⟩

structure Vm where
  pc : Nat
  regs : Regs
  /-- `register_stack` below the current frame -/
  regStack : List Regs
  /-- `value_stack`, top first -/
  vals : List Val
  /-- `var_path_stack` (root paths only: variable slots), top first -/
  paths : List Nat
  env : List Val
  out : Print.WritePrinter
  /-- `PrintState::should_skip_new_line` -/
  skipNewline : Bool
  /-- `DataSegment` -/
  data : List Val
  dataIdx : Nat
  /-- arguments being collected for a built-in call: value and, for by-reference arguments, the slot -/
  args : List (Val × Option Nat)
  /-- `by_ref_stack` (a queue) -/
  queue : List Val
  /-- position of the last `PushStack` (what a failing built-in reports) -/
  callPos : Pos
  /-- `go_sub_address_stack` zipped with `go_sub_marks`, most recent first: address of the `GoSub` instruction, height of
  `register_stack` (the current frame counted) and of `value_stack` when it ran -/
  gosubs : List (Nat × Nat × Nat)

def Vm.init (slots : List Ty) : Vm :=
  { pc := 0, regs := Regs.new, regStack := [], vals := [], paths := [], env := slots.map Ref.zeroOf,
    out := Print.WritePrinter.new, skipNewline := false, data := [], dataIdx := 0, args := [], queue := [],
    callPos := ⟨0, 0⟩, gosubs := [] }

inductive StepRes where
  | next (σ : Vm)
  | halt (σ : Vm)
  | error (code : Nat) (p : Pos) (σ : Vm)
  | stuck

def setA (σ : Vm) (v : Val) : Vm := { σ with regs := { σ.regs with a := v } }

def advance (σ : Vm) : Vm := { σ with pc := σ.pc + 1 }

/-- the result of an operation that writes A and falls through -/
def resA (σ : Vm) (p : Pos) : Res Val → StepRes
  | .ok v => .next (advance (setA σ v))
  | .err e => .error (Ref.codeOf e) p σ
  | .inexact => .stuck

/-- `Instruction::Plus` … `Or` / comparisons: operands A and B, result in A -/
def binInstr (op : Op) (a b : Val) : Res Val :=
  match op with
  | .divide => divide a b
  | _ => vmBin Gen.NumTables.binType op a b

/-- `READ` (`built_ins/read.rs`): every argument, in order, receives the next DATA item converted to the
type of the value it currently holds -/
def readArgs : List (Val × Option Nat) → List Val → Nat → Except Err (List (Val × Option Nat) × Nat) ⊕ Unit
  | [], _, idx => .inl (.ok ([], idx))
  | (cur, slot) :: rest, data, idx =>
    match data[idx]? with
    | none => .inr ()
    | some v =>
      match cast v cur.tag with
      | .ok w =>
        match readArgs rest data (idx + 1) with
        | .inl (.ok (rs, idx')) => .inl (.ok ((w, slot) :: rs, idx'))
        | r => r
      | .err e => .inl (.error e)
      | .inexact => .inl (.error .typeMismatch)

def codeReturnWithoutGoSub : Nat := 3

/-- `Vec::truncate(n)` on a stack kept top first: the bottom `n` entries stay (all of them if there are no more) -/
def truncTop {α : Type} (n : Nat) (l : List α) : List α := l.drop (l.length - n)

def step (code : Code) (σ : Vm) : StepRes :=
  match code[σ.pc]? with
  | none => .stuck
  | some (i, p) =>
    match i with
    | .loadA v => .next (advance (setA σ v))
    | .copyAToB => .next (advance { σ with regs := { σ.regs with b := σ.regs.a } })
    | .copyAToC => .next (advance { σ with regs := { σ.regs with c := σ.regs.a } })
    | .copyAToD => .next (advance { σ with regs := { σ.regs with d := σ.regs.a } })
    | .copyCToB => .next (advance { σ with regs := { σ.regs with b := σ.regs.c } })
    | .copyDToA => .next (advance { σ with regs := { σ.regs with a := σ.regs.d } })
    | .copyDToB => .next (advance { σ with regs := { σ.regs with b := σ.regs.d } })
    | .bin op => resA σ p (binInstr op σ.regs.a σ.regs.b)
    | .negateA => resA σ p (negate σ.regs.a)
    | .notA => resA σ p (unaryNot σ.regs.a)
    | .cast t => resA σ p (cast σ.regs.a t)
    | .pushA => .next (advance { σ with vals := σ.regs.a :: σ.vals })
    | .popA =>
      match σ.vals with
      | [] => .stuck
      | v :: rest => .next (advance { setA σ v with vals := rest })
    | .varPath x => .next (advance { σ with paths := x :: σ.paths })
    | .copyVarPathToA =>
      match σ.paths with
      | [] => .stuck
      | x :: _ =>
        match σ.env[x]? with
        | none => .stuck
        | some v => .next (advance (setA σ v))
    | .popVarPath =>
      match σ.paths with
      | [] => .stuck
      | _ :: rest => .next (advance { σ with paths := rest })
    | .copyAToVarPath =>
      match σ.paths with
      | [] => .stuck
      | x :: rest => .next (advance { σ with env := σ.env.set x σ.regs.a, paths := rest })
    | .label _ => .next (advance σ)
    | .jump a => .next { σ with pc := a }
    | .goSub a =>
      .next { σ with pc := a, gosubs := (σ.pc, σ.regStack.length + 1, σ.vals.length) :: σ.gosubs }
    | .ret =>
      match σ.gosubs with
      | [] => .error codeReturnWithoutGoSub p σ
      | (addr, rh, vh) :: rest =>
        -- `register_stack.truncate(rh)`, `value_stack.truncate(vh)`: the bottom `rh` / `vh` entries stay
        match truncTop rh (σ.regs :: σ.regStack) with
        | [] => .stuck
        | r :: rs => .next { σ with pc := addr + 1, regs := r, regStack := rs, vals := truncTop vh σ.vals, gosubs := rest }
    | .jumpIfFalse a =>
      match Ref.truthy σ.regs.a with
      | none => .error 13 p σ
      | some true => .next (advance σ)
      | some false => .next { σ with pc := a }
    | .pushRegs => .next (advance { σ with regs := Regs.new, regStack := σ.regs :: σ.regStack })
    | .popRegs =>
      match σ.regStack with
      | [] => .stuck
      | r :: rest => .next (advance { σ with regs := r, regStack := rest })
    | .throwZeroStep => .error Ref.codeZeroStep p σ
    | .halt => .halt σ
    | .allocate t => .next (advance (setA σ (Ref.zeroOf t)))
    | .printSetPrinter => .next (advance { σ with skipNewline := false })
    | .printSetFormat =>
      match σ.regs.a with
      | .str _ => .stuck
      | _ => .next (advance σ)
    | .printComma => .next (advance { σ with out := σ.out.moveToNextPrintZone, skipNewline := true })
    | .printSemicolon => .next (advance { σ with skipNewline := true })
    | .printValue =>
      match Ref.printValue σ.regs.a with
      | none => .stuck
      | some pv => .next (advance { σ with out := σ.out.print (Print.valueText pv), skipNewline := false })
    | .printEnd =>
      if σ.skipNewline then .next (advance { σ with skipNewline := false })
      else .next (advance { σ with out := σ.out.println })
    | .beginArgs => .next (advance { σ with args := [] })
    | .pushByVal => .next (advance { σ with args := σ.args ++ [(σ.regs.a, none)] })
    | .pushByRef =>
      match σ.paths with
      | [] => .stuck
      | x :: rest => .next (advance { σ with args := σ.args ++ [(σ.regs.a, some x)], paths := rest })
    | .pushStack => .next (advance { σ with callPos := p })
    | .popStack => .next (advance { σ with args := [] })
    | .builtInData => .next (advance { σ with data := σ.data ++ σ.args.map (·.1) })
    | .builtInRead =>
      match readArgs σ.args σ.data σ.dataIdx with
      | .inr () => .error Ref.codeOutOfData σ.callPos σ
      | .inl (.error e) => .error (Ref.codeOf e) σ.callPos σ
      | .inl (.ok (args', idx')) => .next (advance { σ with args := args', dataIdx := idx' })
    | .enqueue i =>
      match σ.args[i]? with
      | none => .stuck
      | some (v, _) => .next (advance { σ with queue := σ.queue ++ [v] })
    | .dequeue =>
      match σ.queue with
      | [] => .stuck
      | v :: rest => .next (advance { setA σ v with queue := rest })

/-- final result of a bounded run -/
inductive RunRes where
  | halted (σ : Vm)
  | error (code : Nat) (p : Pos) (σ : Vm)
  | stuck
  | outOfFuel

def run (code : Code) : Nat → Vm → RunRes
  | 0, _ => .outOfFuel
  | fuel + 1, σ =>
    match step code σ with
    | .next σ' => run code fuel σ'
    | .halt σ' => .halted σ'
    | .error c p σ' => .error c p σ'
    | .stuck => .stuck

end RbModel.JmpL.Vm
