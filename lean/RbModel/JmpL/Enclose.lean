import RbModel.JmpL.WfB
/-!
# RbModel.JmpL.Enclose — the checker's rule about jumps into FOR bodies and SELECT CASE blocks (`jmpl.enclosed`)

Model of the rule that `rusty_linter/src/post_linter/label_linter.rs` applies to `GOTO L` and `GOSUB L`
(`ensure_label_blocks_enclose_jump`): every FOR statement and every SELECT CASE statement around the label `L` is also
around the jump; otherwise the program is rejected with `LabelNotDefined` at the jump.  The linter numbers the FOR / SELECT
statements in visiting order and compares the list of numbers around the label (`label_blocks`) with the list around the
jump (`starts_with`).  Here the same relation is written without numbers, by structural recursion: `encB outer s` holds
when no jump *outside* a FOR body / the blocks of a SELECT of `s` names a label *inside* it; `outer` are the targets of
the jumps of the program that lie outside `s`.  IF blocks, WHILE and DO bodies are transparent (entering them by a jump is
allowed).  The harness (`c05j`, family `into-block`) compares `jumpsEnclosedB` with the verdict of the real linter.
-/
namespace RbModel.JmpL

/-- the targets of the GOTO and GOSUB statements inside a statement -/
def SStmt.jumps (s : SStmt) : List Nat := s.gotos ++ s.gosubs
def ElseIfs.jumps (el : ElseIfs) : List Nat := el.gotos ++ el.gosubs
def SCases.jumps (cs : SCases) : List Nat := cs.gotos ++ cs.gosubs

/-- none of the jump targets `outer` is one of the labels `inner` -/
def noneIntoB (outer inner : List Nat) : Bool := outer.all fun L => !inner.contains L

mutual
/-- no jump of `outer` (the jumps outside `s`) and no jump of `s` enters a FOR body / a SELECT of `s` from outside it -/
def encB (outer : List Nat) : SStmt → Bool
  | .seq a b => encB (outer ++ b.jumps) a && encB (outer ++ a.jumps) b
  | .ifBlock _ thn elifs _ els _ =>
    encB (outer ++ (elifs.jumps ++ els.jumps)) thn && encElifsB (outer ++ (thn.jumps ++ els.jumps)) elifs &&
      encB (outer ++ (thn.jumps ++ elifs.jumps)) els
  | .select _ cases _ els _ =>
    noneIntoB outer (cases.labels ++ els.labels) && encCasesB (outer ++ els.jumps) cases && encB (outer ++ cases.jumps) els
  | .forLoop _ _ _ _ _ body _ => noneIntoB outer body.labels && encB outer body
  | .while _ body _ => encB outer body
  | .doLoop _ _ _ body _ => encB outer body
  | _ => true
def encElifsB (outer : List Nat) : ElseIfs → Bool
  | .nil => true
  | .cons _ body rest => encB (outer ++ rest.jumps) body && encElifsB (outer ++ body.jumps) rest
def encCasesB (outer : List Nat) : SCases → Bool
  | .nil => true
  | .cons _ body rest => encB (outer ++ rest.jumps) body && encCasesB (outer ++ body.jumps) rest
end

/-- the checker's rule: every FOR / SELECT CASE around the label of a GOTO / GOSUB is also around the jump -/
def jumpsEnclosedB (prog : SProgram) : Bool := encB [] prog.body

end RbModel.JmpL
