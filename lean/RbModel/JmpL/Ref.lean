import RbModel.JmpL.Syntax
import RbModel.Ref
/-!
# RbModel.JmpL.Ref — reference semantics of the jump layer (the specification of C05 at program level)

Big-step and fuelled like `RbModel.Ref` (expressions, conversions, PRINT layout and the state `Ref.St` are *those* of
the core language), structured: no addresses, no stacks.  Written from the language rules and from the description of
`tools/JMPL_GUIDE.md`, independent of the instruction generator and of the VM.

* **Modes.**  A statement is executed in mode `run` or `seek L`.  In `seek L` a statement that does not contain the label
  `L` answers `notHere` and does nothing; `label L` switches to `run`; a compound statement containing `L` in one of its
  blocks enters that block in seek mode and then carries on as if it had been executing that block (IF: leave the IF;
  WHILE / DO: go on with the loop test).  FOR bodies and SELECT blocks are not entered from outside (`illFormed`: the
  premise `JmpWf` excludes it).
* **Jumps.**  `goto L` answers `jump L`.  Every construct handles a `jump L` out of one of its sub-statements by one rule:
  if `L` is a label inside me, restart me in `seek L` mode with one unit of fuel less, otherwise pass it on.  For a FOR the
  rule applies to the body within the current iteration (counter, limit and step are kept), for a SELECT to its blocks.
  A `jump L` that leaves a FOR ends the loop; the counter keeps its value.
* **GOSUB / RETURN.**  `gosub L` runs the *whole program* `P` in `seek L` mode (a nested run): outcome `ret` → the GOSUB
  statement ends normally; `normal` (the text ran out) or END → the program ends; errors are passed on.  `ret p` is passed
  on by every construct; reaching the top of the outermost run it is error 3 (RETURN without GOSUB) at `p`.  The pending
  GOSUBs are the nested runs: there is no GOSUB stack in the specification.
-/
namespace RbModel.JmpL.Ref
open RbModel RbModel.Num RbModel.Ast RbModel.JmpL
open RbModel.Ref (St ERes eval evalTo codeOf codeOutOfData codeZeroStep zeroOf truthy printValue endsInSeparator StepSign)

def codeReturnWithoutGoSub : Nat := 3

inductive Outcome where
  | normal
  | halted
  | jump (L : Nat)
  | ret (p : Pos)
  | error (code : Nat) (p : Pos)
  | inexact
  | outOfFuel
  /-- outside the modelled language: a jump to a label that does not exist, a jump into a FOR body or a SELECT block -/
  | illFormed
  /-- internal to seeking: the label is not inside this statement -/
  | notHere
  deriving Inhabited, DecidableEq

inductive Mode where
  | run
  | seek (L : Nat)
  deriving Inhabited, DecidableEq

/-- does a statement get executed in this mode? -/
def Mode.enters (m : Mode) (s : Stmt) : Bool :=
  match m with
  | .run => true
  | .seek L => s.hasLabel L

/-! ### the statement-independent pieces (those of `RbModel.Ref`, over this layer's outcomes) -/

/-- items of one PRINT statement, left to right -/
def printItems (s : St) : List PrintItem → St × Outcome
  | [] => (s, .normal)
  | .comma :: rest => printItems { s with out := s.out.moveToNextPrintZone } rest
  | .semicolon :: rest => printItems s rest
  | .expr e :: rest =>
    match eval s.env e with
    | .err c p => (s, .error c p)
    | .inexact => (s, .inexact)
    | .ok v =>
      match printValue v with
      | none => (s, .inexact)
      | some pv => printItems { s with out := s.out.print (Print.valueText pv) } rest

/-- a condition: the value's truth, or the outcome that ends the statement -/
def evalCond (env : List Val) (c : Ast.Expr) : Except Outcome Bool :=
  match eval env c with
  | .err code p => .error (.error code p)
  | .inexact => .error .inexact
  | .ok v =>
    match truthy v with
    | some b => .ok b
    | none => .error (.error 13 c.pos)

/-- comparison of the SELECT CASE subject with one CASE item; errors carry the SELECT's position -/
def relTest (p : Pos) (op : Op) (a b : Val) : Except Outcome Bool :=
  match tryCmp a b with
  | .ok o => .ok (relHolds op o)
  | .err e => .error (.error (codeOf e) p)
  | .inexact => .error .inexact

def evalE (env : List Val) (e : Ast.Expr) : Except Outcome Val :=
  match eval env e with
  | .ok v => .ok v
  | .err c p => .error (.error c p)
  | .inexact => .error .inexact

def caseMatches (env : List Val) (p : Pos) (subject : Val) : CaseExpr → Except Outcome Bool
  | .simple e => do
      let v ← evalE env e
      relTest p .equal subject v
  | .is op e => do
      let v ← evalE env e
      relTest p op subject v
  | .range lo hi => do
      let l ← evalE env lo
      let b1 ← relTest p .greaterOrEqual subject l
      if b1 then
        let h ← evalE env hi
        relTest p .lessOrEqual subject h
      else pure false

def anyMatches (env : List Val) (p : Pos) (subject : Val) : List CaseExpr → Except Outcome Bool
  | [] => pure false
  | c :: rest => do
      if ← caseMatches env p subject c then pure true else anyMatches env p subject rest

def stepSign (p : Pos) (s : Val) : Except Outcome StepSign := do
  if ← relTest p .less s (.int 0) then pure .neg
  else if ← relTest p .greater s (.int 0) then pure .pos
  else pure .zero

/-! ### statements -/

mutual
/-- `exec fuel P stmt mode state`: the state after the statement and how it ended; `P` is the whole program body (what a
GOSUB runs) -/
def exec : Nat → Stmt → Stmt → Mode → St → St × Outcome
  | 0, _, _, _, s => (s, .outOfFuel)
  | _ + 1, _, .skip, m, s =>
    match m with
    | .run => (s, .normal)
    | .seek _ => (s, .notHere)
  | fuel + 1, P, .seq a b, m, s =>
    if m.enters (.seq a b) then
      match (if m.enters a then
               match exec fuel P a m s with
               | (s', .normal) => exec fuel P b .run s'
               | r => r
             else exec fuel P b m s) with
      | (s', .jump L) =>
        if (Stmt.seq a b).hasLabel L then exec fuel P (.seq a b) (.seek L) s' else (s', .jump L)
      | r => r
    else (s, .notHere)
  | _ + 1, _, .assign x t e _, m, s =>
    match m with
    | .seek _ => (s, .notHere)
    | .run =>
      match evalTo s.env e t with
      | .ok v => (s.set x v, .normal)
      | .err c p => (s, .error c p)
      | .inexact => (s, .inexact)
  | _ + 1, _, .print items _, m, s =>
    match m with
    | .seek _ => (s, .notHere)
    | .run =>
      match printItems s items with
      | (s', .normal) =>
        if endsInSeparator items then (s', .normal) else ({ s' with out := s'.out.println }, .normal)
      | r => r
  | _ + 1, _, .read x t p, m, s =>
    match m with
    | .seek _ => (s, .notHere)
    | .run =>
      match s.data[s.dataIdx]? with
      | none => (s, .error codeOutOfData p)
      | some v =>
        match cast v t with
        | .ok w => ({ s.set x w with dataIdx := s.dataIdx + 1 }, .normal)
        | .err e => (s, .error (codeOf e) p)
        | .inexact => (s, .inexact)
  | fuel + 1, P, .ifs c thn els p, m, s =>
    if m.enters (.ifs c thn els p) then
      match (match m with
             | .run =>
               match evalCond s.env c with
               | .error o => (s, o)
               | .ok true => exec fuel P thn .run s
               | .ok false => exec fuel P els .run s
             | .seek L => if thn.hasLabel L then exec fuel P thn (.seek L) s else exec fuel P els (.seek L) s) with
      | (s', .jump L) =>
        if (Stmt.ifs c thn els p).hasLabel L then exec fuel P (.ifs c thn els p) (.seek L) s' else (s', .jump L)
      | r => r
    else (s, .notHere)
  | fuel + 1, P, .select e cases p, m, s =>
    match m with
    | .seek L => if cases.hasLabel L then (s, .illFormed) else (s, .notHere)
    | .run =>
      match evalE s.env e with
      | .error o => (s, o)
      | .ok subject =>
        match execCases fuel P p subject cases s with
        | (s', .jump L) => if cases.hasLabel L then selectSeek fuel P cases L s' else (s', .jump L)
        | r => r
  | fuel + 1, P, .forLoop x t lo hi step body p, m, s =>
    match m with
    | .seek L => if body.hasLabel L then (s, .illFormed) else (s, .notHere)
    | .run =>
      match evalTo s.env lo t with
      | .err c q => (s, .error c q)
      | .inexact => (s, .inexact)
      | .ok l =>
        let s := s.set x l
        match evalTo s.env hi t with
        | .err c q => (s, .error c q)
        | .inexact => (s, .inexact)
        | .ok h =>
          match step with
          | none => forIter fuel P x t h (.int 1) true body p .run s
          | some se =>
            match evalE s.env se with
            | .error o => (s, o)
            | .ok sv =>
              match stepSign p sv with
              | .error o => (s, o)
              | .ok .neg => forIter fuel P x t h sv false body p .run s
              | .ok .pos => forIter fuel P x t h sv true body p .run s
              | .ok .zero => (s, .error codeZeroStep se.pos)
  | fuel + 1, P, .while c body p, m, s =>
    if m.enters (.while c body p) then
      match (match m with
             | .run => evalCond s.env c
             | .seek _ => .ok true) with
      | .error o => (s, o)
      | .ok false => (s, .normal)
      | .ok true =>
        match exec fuel P body m s with
        | (s', .normal) => exec fuel P (.while c body p) .run s'
        | (s', .jump L) => if body.hasLabel L then exec fuel P (.while c body p) (.seek L) s' else (s', .jump L)
        | r => r
    else (s, .notHere)
  | fuel + 1, P, .doLoop c top until_ body p, m, s =>
    if m.enters (.doLoop c top until_ body p) then
      if top then
        match (match m with
               | .run => evalCond s.env c
               | .seek _ => .ok (!until_)) with
        | .error o => (s, o)
        | .ok b =>
          if b != until_ then
            match exec fuel P body m s with
            | (s', .normal) => exec fuel P (.doLoop c top until_ body p) .run s'
            | (s', .jump L) =>
              if body.hasLabel L then exec fuel P (.doLoop c top until_ body p) (.seek L) s' else (s', .jump L)
            | r => r
          else (s, .normal)
      else
        match exec fuel P body m s with
        | (s', .normal) =>
          match evalCond s'.env c with
          | .error o => (s', o)
          | .ok b => if b != until_ then exec fuel P (.doLoop c top until_ body p) .run s' else (s', .normal)
        | (s', .jump L) =>
          if body.hasLabel L then exec fuel P (.doLoop c top until_ body p) (.seek L) s' else (s', .jump L)
        | r => r
    else (s, .notHere)
  | _ + 1, _, .end_ _, m, s =>
    match m with
    | .run => (s, .halted)
    | .seek _ => (s, .notHere)
  | _ + 1, _, .label L', m, s =>
    match m with
    | .run => (s, .normal)
    | .seek L => if L = L' then (s, .normal) else (s, .notHere)
  | _ + 1, _, .goto L, m, s =>
    match m with
    | .run => (s, .jump L)
    | .seek _ => (s, .notHere)
  | fuel + 1, P, .gosub L, m, s =>
    match m with
    | .seek _ => (s, .notHere)
    | .run =>
      -- a nested run of the whole program, entered at the label
      match exec fuel P P (.seek L) s with
      | (s', .ret _) => (s', .normal)
      | (s', .normal) => (s', .halted)
      | (s', .halted) => (s', .halted)
      | (s', .jump _) => (s', .illFormed)
      | (s', .notHere) => (s', .illFormed)
      | r => r
  | _ + 1, _, .ret p, m, s =>
    match m with
    | .run => (s, .ret p)
    | .seek _ => (s, .notHere)
/-- run mode: the first CASE block one of whose items matches runs; else the CASE ELSE block; else nothing -/
def execCases : Nat → Stmt → Pos → Val → Cases → St → St × Outcome
  | 0, _, _, _, _, s => (s, .outOfFuel)
  | _ + 1, _, _, _, .nil, s => (s, .normal)
  | fuel + 1, P, _, _, .else_ body, s => exec fuel P body .run s
  | fuel + 1, P, p, subject, .case conds body rest, s =>
    match anyMatches s.env p subject conds with
    | .error o => (s, o)
    | .ok true => exec fuel P body .run s
    | .ok false => execCases fuel P p subject rest s
/-- seek mode: the block that contains the label is entered at the label -/
def seekCases : Nat → Stmt → Cases → Nat → St → St × Outcome
  | 0, _, _, _, s => (s, .outOfFuel)
  | _ + 1, _, .nil, _, s => (s, .notHere)
  | fuel + 1, P, .else_ body, L, s => exec fuel P body (.seek L) s
  | fuel + 1, P, .case _ body rest, L, s =>
    if body.hasLabel L then exec fuel P body (.seek L) s else seekCases fuel P rest L s
/-- a jump between the blocks of one SELECT: the target block is entered, the SELECT is left when it ends -/
def selectSeek : Nat → Stmt → Cases → Nat → St → St × Outcome
  | 0, _, _, _, s => (s, .outOfFuel)
  | fuel + 1, P, cases, L, s =>
    match seekCases fuel P cases L s with
    | (s', .jump L') => if cases.hasLabel L' then selectSeek fuel P cases L' s' else (s', .jump L')
    | r => r
/-- one test-body-increment round of a FOR loop whose limit `h`, step `sv` and direction are fixed; in `seek` mode the
round is entered at a label of the body (a jump inside the body of the current iteration) -/
def forIter : Nat → Stmt → Nat → Ty → Val → Val → Bool → Stmt → Pos → Mode → St → St × Outcome
  | 0, _, _, _, _, _, _, _, _, _, s => (s, .outOfFuel)
  | fuel + 1, P, x, t, h, sv, up, body, p, m, s =>
    let cur := s.env.getD x (zeroOf t)
    match (match m with
           | .run => relTest p (if up then .lessOrEqual else .greaterOrEqual) cur h
           | .seek _ => .ok true) with
    | .error o => (s, o)
    | .ok false => (s, .normal)
    | .ok true =>
      match exec fuel P body m s with
      | (s', .normal) =>
        let cur' := s'.env.getD x (zeroOf t)
        match (plus cur' sv).bind (fun v => cast v t) with
        | .ok v => forIter fuel P x t h sv up body p .run (s'.set x v)
        | .err e => (s', .error (codeOf e) p)
        | .inexact => (s', .inexact)
      | (s', .jump L) =>
        if body.hasLabel L then forIter fuel P x t h sv up body p (.seek L) s' else (s', .jump L)
      | r => r
end

def St.init (prog : Program) : St :=
  { env := prog.slots.map zeroOf, out := Print.WritePrinter.new, data := prog.data, dataIdx := 0 }

/-- run a whole program: a RETURN that reaches the top of the outermost run has no GOSUB to answer -/
def run (fuel : Nat) (prog : Program) : St × Outcome :=
  match exec fuel prog.body prog.body .run (St.init prog) with
  | (s, .ret p) => (s, .error codeReturnWithoutGoSub p)
  | (s, .jump _) => (s, .illFormed)
  | (s, .notHere) => (s, .illFormed)
  | r => r

end RbModel.JmpL.Ref
