/-
Model of `rusty_bit_vec/src/lib.rs` (`From<i32> for BitVec`, `bits_to_i32`, `BitAnd`, `BitOr`)
and of the integer part of `rusty_variant/src/bits.rs`
(`qb_and`, `qb_or`, `i32_to_bytes`, `bytes_to_i32`, `msb_bits_to_byte`, `lsb_bytes_to_msb_bits`),
plus `Variant::unary_not` on integers (`-n - 1`), and of the double part of `bits.rs`
(`f64_to_bytes`, `bytes_to_f64`) at the level the repaired code works: the 64-bit pattern of the
double (`f64::to_bits`) split into 8 bytes least significant first and joined back.

Bit vectors are `List Bool`, most significant bit first, exactly as `BitVec { v: Vec<bool> }`.
Machine integers are `Int` (the code stores a 16-bit INTEGER in an `i32`; none of the
operations below can leave the `i32` range for inputs in −32768..32767).
-/
namespace RbModel.Bits

/-- The two `while x > 0 && index > 0` loops of `From<i32> for BitVec`.
`n` = `index` (slots still to fill, counted from the least significant end), `x` the shifted value.
`fill` is the value the array was initialised with (`false` for positive, `true` for negative
numbers); the loop writes `(x & 1 == 1)` for positives and `(x & 1 == 0)` for negatives,
i.e. `(x % 2 == 1) != fill`.  When `x` reaches 0 the remaining slots keep `fill`. -/
def fillLoop (fill : Bool) : Nat → Nat → List Bool
  | 0, _ => []
  | n + 1, x =>
    if x = 0 then List.replicate (n + 1) fill
    else fillLoop fill n (x / 2) ++ [(x % 2 == 1) != fill]

/-- `impl From<i32> for BitVec` (16 bits, msb first). -/
def ofInt (a : Int) : List Bool :=
  if a > 0 then fillLoop false 16 a.toNat
  else if a < 0 then fillLoop true 16 (-a - 1).toNat
  else List.replicate 16 false

/-- The loop of `bits_to_i32`: `x <<= 1; if bits[index] != sign { x |= 1 }`. -/
def accLoop (sign : Bool) : List Bool → Int → Int
  | [], x => x
  | b :: bs, x => accLoop sign bs (2 * x + (if b != sign then 1 else 0))

/-- `bits_to_i32` (also `From<BitVec> for i32`; the length check is the caller's). -/
def toInt : List Bool → Int
  | [] => 0
  | sign :: rest =>
    let x := accLoop sign rest 0
    if sign then -x - 1 else x

/-- `impl BitAnd for BitVec` (equal lengths). -/
def band (a b : List Bool) : List Bool := List.zipWith (· && ·) a b

/-- `impl BitOr for BitVec` (equal lengths). -/
def bor (a b : List Bool) : List Bool := List.zipWith (· || ·) a b

/-- `qb_and`. -/
def qbAnd (a b : Int) : Int := toInt (band (ofInt a) (ofInt b))

/-- `qb_or`. -/
def qbOr (a b : Int) : Int := toInt (bor (ofInt a) (ofInt b))

/-- `Variant::unary_not` on `VInteger`/`VLong`: `-n - 1`. -/
def unaryNot (a : Int) : Int := -a - 1

/-- `msb_bits_to_byte`: `mask` starts at 0x80 and is halved after every bit but the last. -/
def byteLoop : List Bool → Nat → Nat → Nat
  | [], _, acc => acc
  | b :: bs, mask, acc => byteLoop bs (mask / 2) (if b then acc + mask else acc)

def msbBitsToByte (bits : List Bool) : Nat := byteLoop bits 128 0

/-- The inner `while mask >= 1` loop of `lsb_bytes_to_msb_bits` for one byte:
8 bits, msb first (`byte & mask == mask`). -/
def byteBits (byte : Nat) : List Bool :=
  [128, 64, 32, 16, 8, 4, 2, 1].map fun mask => (byte / mask) % 2 == 1

/-- `lsb_bytes_to_msb_bits`: bytes are visited from the last to the first. -/
def lsbBytesToMsbBits (bytes : List Nat) : List Bool :=
  (bytes.reverse.map byteBits).flatten

/-- `i32_to_bytes`: `[low_byte, high_byte]`. -/
def i32ToBytes (i : Int) : List Nat :=
  let v := ofInt i
  let high := msbBitsToByte (v.take 8)
  let low := msbBitsToByte ((v.drop 8).take 8)
  [low, high]

/-- `bytes_to_i32` for `[low_byte, high_byte]`. -/
def bytesToI32 (b : List Nat) : Int := toInt (lsbBytesToMsbBits b)

/-- `PeekByte for Variant::VInteger`: `i32_to_bytes(i)[address]` (address 0 or 1). -/
def peekByte (i : Int) (address : Nat) : Option Nat := (i32ToBytes i)[address]?

/-- `PokeByte for Variant::VInteger`: replace one byte, convert back. -/
def pokeByte (i : Int) (address : Nat) (value : Nat) : Int :=
  bytesToI32 ((i32ToBytes i).set address value)

/-! ### Doubles: `f64_to_bytes` / `bytes_to_f64` (MKD$ / CVD)

The repaired code is `f.to_le_bytes()` / `f64::from_le_bytes(bytes)`, which Rust defines as
`f.to_bits().to_le_bytes()` / `f64::from_bits(u64::from_le_bytes(bytes))`.  A double is therefore
represented here by its bit pattern `w = f.to_bits()`, a natural `< 2^64`; that `to_bits` /
`from_bits` is the IEEE-754 binary64 encoding (and that they are mutually inverse on every
pattern) is the hardware's and the compiler's business and is trusted, not modelled. -/

/-- `u64::to_le_bytes` generalised to `n` bytes: the `n` low bytes of `w`, least significant first. -/
def splitLE : Nat → Nat → List Nat
  | 0, _ => []
  | n + 1, w => w % 256 :: splitLE n (w / 256)

/-- `u64::from_le_bytes` generalised to any number of bytes (least significant first). -/
def joinLE : List Nat → Nat
  | [] => 0
  | b :: bs => b + 256 * joinLE bs

/-- `f64_to_bytes(f)` on the bit pattern `w = f.to_bits()`. -/
def f64ToBytes (w : Nat) : List Nat := splitLE 8 w

/-- `bytes_to_f64(bytes).to_bits()` (the length check is the caller's: `cvd.rs` rejects strings
that are not 8 bytes long). -/
def bytesToF64 (bytes : List Nat) : Nat := joinLE bytes

/-- IEEE-754 binary64 field layout of a pattern: 1 sign bit, 11 exponent bits, 52 fraction bits
(most significant first). -/
def f64Sign (w : Nat) : Nat := w / 2 ^ 63 % 2
def f64Exponent (w : Nat) : Nat := w / 2 ^ 52 % 2048
def f64Fraction (w : Nat) : Nat := w % 2 ^ 52

/-- The pattern with the given fields. -/
def f64Pack (sign exponent fraction : Nat) : Nat := sign * 2 ^ 63 + exponent * 2 ^ 52 + fraction

/-- `f64::is_finite` on the pattern: the exponent field is not all ones (all ones = an infinity when
the fraction is zero, a NaN otherwise). -/
def f64IsFinite (w : Nat) : Bool := f64Exponent w != 2047

/-- `CVD` on a string of 8 bytes (`cvd.rs` since 181b08f): the pattern `bytes_to_f64` reads, or
Overflow (`none`) when that pattern encodes an infinity or a NaN — such a value is never handed to
the program. (The length check is before: a string that is not 8 bytes long is Illegal function call.) -/
def cvd (bytes : List Nat) : Option Nat :=
  if f64IsFinite (bytesToF64 bytes) then some (bytesToF64 bytes) else none

/-! ### The specification side: 16-bit two's-complement words as naturals `< 65536`. -/

/-- The unsigned 16-bit word of an INTEGER value. -/
def word (a : Int) : Nat := (a % 65536).toNat

/-- The signed reading of an unsigned 16-bit word. -/
def signed (u : Nat) : Int := if u < 32768 then (u : Int) else (u : Int) - 65536

def InRange (a : Int) : Prop := -32768 ≤ a ∧ a ≤ 32767

instance (a : Int) : Decidable (InRange a) := by unfold InRange; infer_instance

end RbModel.Bits
