import RbModel.ProcArr.Ref
import RbModel.ProcArr.Vm
import RbModel.ProcArr.WfB
/-!
# RbModel.ProcArr.Spec — PROPOSED statements of phase B for the combined layer (definitions only, nothing proved)

Combined layer = procedures layer + arrays of scalars in every ordinary scope + array elements as by-reference actuals.
Everything here is a `def … : Prop` that type-checks against the three models `ProcArr.{Compile, Vm, Ref}`; there is no
theorem, no `sorry`, no axiom.

* `CompileCorrect` — the simulation theorem `ProcArr.compile_correct` phase B should prove (same shape as
  `Proc.compile_correct`: `Thm/ProcSim.lean`), with the premise `progWfB` of `RbModel/ProcArr/WfB.lean`;
* `Rel` — the state relation it is expected to need: the relation of the procedures layer (`Thm/ProcSimBase.lean`) in which
  the normal state of the activation is an ordinary BLOCK whose scalar part represents the environment (`FrameRel`) and
  whose arrays represent the arrays of the reference state (`ArrRel` of `Thm/ArrLSimBase.lean`: same bounds, the row-major
  vector reads the finite map on the index box), the pending array register is empty, and — new — `QueueRel`: a queue
  entry / collected argument that carries a path `elem a is` corresponds to an evaluated argument with location `(a, is)`;
* `ElementByrefWriteback` — the property-level statement over the reference semantics alone (C03: "an array element
  passed to a procedure is passed by reference: the callee's final value is visible to the caller after return, written
  back left to right"), to be proved in `Thm/ProcArrProps.lean`.

Expected proof structure: the `ProcSim*` files ported (the state relation gets the array part; `Rel.store` for an element
through `ArrRel.store`), `case_elem` / `case_assignElem` / `case_dimArr` from the `ArrLSim*` files with subscripts that
thread the state (`IdxIH` becomes part of the bundled induction hypothesis because a subscript may call a function),
`case_args` with a second form of actual (`⟦path⟧ CopyVarPathToA [Cast] PushNamedByRef`: the collecting state receives
`(v, some (elem a is))`), `entry_step` (the new block has the argument paths), `enq_phase` (the queue receives value AND
path), `wb_phase` (`DequeueFromReturnStackWithPath · CopyAToVarPath` = `St.setElem a is v` through `ArrRel.store`; the store
cannot fail because the caller's arrays are as they were when the location was resolved: `rel_back`).
-/
namespace RbModel.ProcArr.Spec
open RbModel RbModel.Num RbModel.ProcArr RbModel.ProcArr.Compile RbModel.ProcArr.Vm
open RbModel.Ast (Pos)

/-- zero or more `next` steps -/
inductive Steps (code : Code) : Vm → Vm → Prop where
  | refl (σ : Vm) : Steps code σ σ
  | cons {σ σ' σ'' : Vm} : step code σ = .next σ' → Steps code σ' σ'' → Steps code σ σ''

/-- `code` contains `c` at address `off` -/
def CodeAt (code : Code) (off : Nat) (c : Code) : Prop :=
  ∀ i, i < c.length → code[off + i]? = c[i]?

/-- a VM frame represents a reference environment over the slot table `slots` -/
def FrameRel (slots : List Ty) (fr : Frame) (env : List Val) : Prop :=
  env.length = slots.length ∧ ∀ x t, slots[x]? = some t → getVar fr x t = env.getD x (zeroOf t)

/-- a VM array (dimensions + row-major vector) represents an array value of the reference semantics (bounds + finite map) -/
def ArrRel (t : Ty) (A : Ref.RArr) (V : VArr) : Prop :=
  A.ty = t ∧ V.dims = A.bounds ∧ V.elems.length = Arr.dimsLen V.dims ∧
  (∀ idx, A.inBounds idx = true → Arr.getElem V idx = some (A.get idx)) ∧ (∀ v ∈ V.elems, v.tag = t)

/-- the arrays of a block represent the arrays of the activation over the array table `ar` -/
def ArrsRel (ar : List Ty) (af : AFrame) (arrs : List (Option Ref.RArr)) : Prop :=
  arrs.length = ar.length ∧
  ∀ (a : Nat) (t : Ty), ar[a]? = some t →
    match arrs[a]?.join, af[a]?.join with
    | none, none => True
    | some A, some V => ArrRel t A V
    | _, _ => False

/-- the location a path denotes -/
def pathLoc : Option Path → Option Ref.Loc
  | some (.elem a is) => some (a, is)
  | _ => none

/-- collected arguments / queue entries correspond to evaluated arguments: same values, a path `elem a is` exactly for a
location `(a, is)` -/
def QueueRel (q : List (Val × Option Path)) (avs : List (Val × Option Ref.Loc)) : Prop :=
  q.map (·.1) = avs.map (·.1) ∧ q.map (fun e => pathLoc e.2) = avs.map (·.2)

def Collecting : List CtxState → Prop
  | [] => True
  | .args _ :: rest => Collecting rest
  | .frame _ :: _ => False
  | .sframe _ :: _ => False

/-- the relation between a reference state and a VM state inside one activation of an ordinary scope with slot table
`slots` and array table `ar` (the STATIC case and the DIM SHARED / STATIC stores are as in `Thm/ProcSimBase.lean`) -/
def Rel (slots ar : List Ty) (pre below : List CtxState) (s : Ref.St) (σ : Vm) : Prop :=
  Collecting pre ∧
  (∃ b, σ.ctx = pre ++ .frame b :: below ∧ FrameRel slots b.vars s.env ∧ ArrsRel ar b.arrs s.arrs) ∧
  σ.out = s.out ∧ σ.data = s.data ∧ σ.dataIdx = s.dataIdx ∧
  σ.queue = [] ∧ σ.funRes = none ∧ σ.arrA = none

def ErrsWith (code : Code) (σ : Vm) (c : Nat) (p : Pos) (out : Print.WritePrinter) : Prop :=
  ∃ σ1 σ2, Steps code σ σ1 ∧ step code σ1 = .error c p σ2 ∧ σ2.out = out

def HaltsWith (code : Code) (σ : Vm) (out : Print.WritePrinter) : Prop :=
  ∃ σ1 σ2, Steps code σ σ1 ∧ step code σ1 = .halt σ2 ∧ σ2.out = out

/-- PROPOSED main theorem `ProcArr.compile_correct`: for every program of the combined fragment that passes the decidable
premise checker and for every amount of fuel, whatever the reference semantics says about the run — normal end, END, or
error `(code, position)` with the output so far — the VM model does on the model-compiled code; the reference semantics
never answers `exited` / `illFormed`; `inexact`, `outOfFuel` and `tooBig` claim nothing. -/
def CompileCorrect : Prop :=
  ∀ (prog : SProgram) (fuel : Nat), progWfB prog = true →
    match Ref.run fuel prog.toAst with
    | (s, .normal) => HaltsWith (compile prog) Vm.init s.out
    | (s, .halted) => HaltsWith (compile prog) Vm.init s.out
    | (s, .error c p) => ErrsWith (compile prog) Vm.init c p s.out
    | (_, .exited) => False
    | (_, .illFormed) => False
    | _ => True

/-! ### the property-level statement (reference semantics alone) -/

/-- the element at `is` of array `a` of the current activation (`none`: not dimensioned, or outside the box) -/
def elemAt (s : Ref.St) (a : Nat) (is : List Int) : Option Val :=
  match s.arrs[a]?.join with
  | some A => if A.inBounds is then some (A.get is) else none
  | none => none

/-- (argument index, location) of every element actual, in argument order -/
def elemLocs : Args → List (Val × Option Ref.Loc) → Nat → List (Nat × Ref.Loc)
  | .cons (.elem _ _ _ _) _ _ rest, (_, some l) :: avs, i => (i, l) :: elemLocs rest avs (i + 1)
  | .cons _ _ _ rest, _ :: avs, i => elemLocs rest avs (i + 1)
  | _, _, _ => []

/-- the own (non-shared) variables passed by reference -/
def refVars : Args → List Nat
  | .cons (.var x _ _) _ _ rest => (if x.shared then [] else [x.slot]) ++ refVars rest
  | .cons _ _ _ rest => refVars rest
  | .nil => []

def argTy : Args → Nat → Ty
  | .cons e _ _ _, 0 => e.ty
  | .cons _ _ _ rest, i + 1 => argTy rest i
  | .nil, _ => .int

/-- PROPOSED `element_byref_writeback`: a call that returns normally is: arguments evaluated once, left to right (`evalArgs`:
this is where every subscript expression runs and where an out-of-range subscript raises error 9, BEFORE the call) yielding
for every element actual the location `(a, is)` its subscripts denote THEN; the body; and then
1. every such location holds the callee's final value of the LAST parameter bound to it (stores left to right, the
   rightmost wins on aliasing) — whatever the callee did to the variables the subscripts mention;
2. every other element of every array of the caller is what it was when the arguments had been evaluated;
3. no array of the caller is re-dimensioned or un-dimensioned by the call;
4. for an ordinary (non-STATIC) caller, every own scalar variable that is not itself a by-reference actual of this call is
   what it was when the arguments had been evaluated.
(The output, the DATA cursor, the DIM SHARED variables and the STATIC blocks are the callee's: `Thm/ProcProps.lean`.) -/
def ElementByrefWriteback : Prop :=
  ∀ (P : Program) (fuel f : Nat) (args : Args) (s s' : Ref.St) (r : Val),
    Ref.call P (fuel + 1) f args s = (s', .ok r) →
    ∃ d s1 avs s2 o, P.procs[f]? = some d ∧ Ref.evalArgs P fuel args s = (s1, .ok avs) ∧
      Ref.exec P fuel d.body (Ref.enter d f (avs.map (·.1)) s1) = (s2, o) ∧ Ref.returns o = true ∧
      (∀ i a is, (i, (a, is)) ∈ elemLocs args avs 0 →
        (∀ j l, (j, l) ∈ elemLocs args avs 0 → i < j → l ≠ (a, is)) →
        elemAt s' a is = some (s2.locals.getD i (zeroOf (argTy args i)))) ∧
      (∀ a is, (∀ j l, (j, l) ∈ elemLocs args avs 0 → l ≠ (a, is)) → elemAt s' a is = elemAt s1 a is) ∧
      (∀ a : Nat, (s'.arrs[a]?.join).map (fun A : Ref.RArr => A.bounds) = (s1.arrs[a]?.join).map (fun A : Ref.RArr => A.bounds)) ∧
      (s1.self = none → ∀ x, x ∉ refVars args → s'.env[x]? = s1.env[x]?)

end RbModel.ProcArr.Spec
