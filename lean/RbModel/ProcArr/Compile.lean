import RbModel.ProcArr.Syntax
import RbModel.Instr
import RbModel.Core
/-!
# RbModel.ProcArr.Compile — model of the code generator with SUB / FUNCTION calls and arrays (property C03, combined layer, phase A)

COMBINED LAYER: `RbModel/Proc/Compile.lean` (text below the line) + the array constructs of `RbModel/ArrL/Compile.lean`:

    element path  ⟦a(i1,…,ik)⟧path @p  =  VarPathName a @p
                                          ( PushAToValueStack · ⟦i_j⟧ [Cast %] · VarPathIndex · PopValueStackIntoA ) @i_j.pos   for every j
    element read        ⟦a(i…)⟧path · CopyVarPathToA · PopVarPath                         @p
    element assignment  ⟦e⟧ [Cast t] · ⟦a(i…)⟧path @stmt · CopyAToVarPath @stmt          (right-hand side FIRST)
    DIM a(l TO u, …)    BeginCollectArguments @p · ( ⟦l⟧ PushUnnamedByVal @l.pos | LoadIntoA 0 · PushUnnamedByVal @p ) ·
                        ⟦u⟧ PushUnnamedByVal @u.pos … · AllocateArrayIntoA t · VarPathName a · CopyAToVarPath   @p
    element ACTUAL a(i…) of a user call, bound to parameter P (`generate_push_named_args_instructions`, repair 4f10349):
                        ⟦a(i…)⟧path · CopyVarPathToA [Cast P.ty] · PushNamedByRef P     @a(i…).pos    (the path stays on the path
                        stack until `PushNamedByRef` moves it into the argument)
      its write-back (`generate_un_stash_by_ref_args`):   DequeueFromReturnStackWithPath · CopyAToVarPath      @a(i…).pos

Subscripts and DIM bounds are full expressions (function calls included), so the sub-generators take the address `off`.

----
# model of the code generator with SUB / FUNCTION calls (property C03, phase A)

`RbModel.Core` (the generator model of C01) extended to programs with procedures:
`rusty_basic/src/instruction_generator/{main, statement, expression, calls, loops, if_block, select_case,
print, dim}.rs` restricted to the constructs of `Proc.SStmt`.

Program layout (`generate_unresolved`): the main module's statements (top-level DATA first), `Halt` at
position (u32::MAX, u32::MAX), then every FUNCTION in source order, then every SUB in source order
(= the order of `SProgram.procs`).  A procedure is
`Label ":fun:NAME" | ":sub:NAME"` · (FUNCTION only) `AllocateBuiltIn q` (loads the default into A; an ordinary
FUNCTION stores nothing, a STATIC one stores it into its result variable: `VarPathName name; CopyAToVarPath`,
repair 7b64dfe) · body · `PopRet`, all at the position of the implementation (`visit_function`,
`visit_sub`, `subprogram_body`).

Call protocol (`generate_sub_call_instructions`, `generate_function_call_instructions`), call at `pos`,
arguments `a_0 … a_{n-1}` bound to parameters `p_i`:

    BeginCollectArguments            @pos
    ⟦a_i⟧ [Cast p_i.ty] PushNamed p_i   @a_i.pos        for every i, left to right
    PushStack                        @pos
    PushRet (address of the instruction after the Jump)
    Jump   (address of the callee's label)
    EnqueueToReturnStack i           @a_i.pos        for every by-reference a_i
    StashFunctionReturnValue NAME    @pos            FUNCTION only
    PopStack                         @pos
    DequeueFromReturnStack · VarPathName x · CopyAToVarPath   @a_i.pos   for every by-reference a_i = x
    UnStashFunctionReturnValue       @pos            FUNCTION only

(`PushNamedByRef` / `DequeueFromReturnStackWithPath` are only emitted for array elements — not in this
phase.)  For a STATIC callee `push_stack` emits `PushStaticStack(scope name)` instead of `PushStack`: the layout
carries, beside the address of every procedure's label, its `is_static` flag (`SubprogramInfoRepository`).
A variable path is `VarPathName(RootPath { name, shared })`; `shared` comes from the linter's
`get_resolved_variable_info` and is part of a `Var`.  A `CONST` statement generates nothing.
`EXIT SUB / FUNCTION` = one `PopRegisters` per enclosing FOR body, one `PopValueStackIntoA` per enclosing
SELECT CASE, `PopRet` (`Statement::Exit` in statement.rs); hence the two depth parameters of `compileStmt`.

As in `Core`, branch targets are absolute addresses computed structurally (`sizeExpr`, `sizeStmt`, the layout
`layout`), label names are emitted too, and `normalise` maps the real instruction list into the model's
vocabulary: a variable name becomes (slot, type) through the slot-name table of the scope the instruction
lies in (the scope changes at every `:fun:` / `:sub:` label); `StashFunctionReturnValue NAME` becomes
`stashResult (number of parameters of NAME) (result type)`, the result slot by the convention of
`Proc.Syntax`.  The tie demands `compile p = normalise (real list)`.
-/
set_option linter.unusedVariables false

namespace RbModel.ProcArr.Compile
open RbModel RbModel.Num RbModel.ProcArr
open RbModel.Ast (Pos)

inductive CInstr where
  | loadA (v : Val)
  | copyAToB | copyAToC | copyAToD | copyCToB | copyDToA | copyDToB
  | bin (op : Op)
  | negateA | notA
  | cast (t : Ty)
  | pushA | popA
  /-- `VarPathName(RootPath { name, shared })`: the slot of the name (in the current scope's table, or in the table
  of DIM SHARED variables when `shared`) and its type -/
  | varPath (x : Var) (t : Ty)
  /-- `VarPathName` of an array of the current scope (array number) -/
  | arrPath (a : Nat)
  /-- `VarPathIndex`: append the INTEGER in A to the path on top of the path stack -/
  | pathIndex
  | copyVarPathToA | popVarPath | copyAToVarPath
  | label (name : String)
  | jump (a : Nat) | jumpIfFalse (a : Nat)
  | pushRegs | popRegs
  | throwZeroStep
  | halt
  | allocate (t : Ty)
  /-- `AllocateArrayIntoA(BuiltIn t)` -/
  | allocArr (t : Ty)
  | printSetPrinter | printSetFormat | printComma | printSemicolon | printValue | printEnd
  | beginArgs | pushByVal | pushByRef | pushStack | popStack
  /-- `IsVariableDefined(dim name)`: the slot of the name in the current (STATIC) scope -/
  | isDefined (x : Nat)
  /-- `PushStaticStack(scope name)`: the number of the STATIC procedure -/
  | pushStatic (f : Nat)
  /-- `PushNamed(Parameter)`: parameter name and type -/
  | pushNamed (name : String) (t : Ty)
  /-- `PushNamedByRef(Parameter)`: the argument keeps the path on top of the path stack -/
  | pushNamedByRef (name : String) (t : Ty)
  | pushRet (a : Nat) | popRet
  | builtInData | builtInRead
  | enqueue (i : Nat) | dequeue
  /-- `DequeueFromReturnStackWithPath` -/
  | dequeuePath
  /-- `StashFunctionReturnValue(name)`: slot and type of the result variable in the callee's frame -/
  | stashResult (x : Nat) (t : Ty)
  | unStash
  deriving DecidableEq, Inhabited

abbrev Code := List (CInstr × Pos)

/-- for every procedure: the address of its label and whether it is STATIC -/
abbrev Layout := List (Nat × Bool)

def Layout.addr (lay : Layout) (f : Nat) : Nat := (lay.getD f (0, false)).1

/-- `push_stack` -/
def pushStackInstr (lay : Layout) (f : Nat) : CInstr :=
  if (lay.getD f (0, false)).2 then .pushStatic f else .pushStack

abbrev labelName := _root_.RbModel.Core.labelName

/-! ### sizes -/

mutual
def sizeExpr : Expr → Nat
  | .lit _ _ => 1
  | .var _ _ _ => 3
  | .un _ e _ => sizeExpr e + 1
  | .bin op l r _ _ => sizeExpr l + 1 + sizeExpr r + 3 + (if op = .divide then 1 else 0)
  | .paren e _ => sizeExpr e
  | .callFn _ args _ _ => 1 + sizePush args + 3 + refCount args + 1 + 1 + sizeWb args + 1
  | .elem _ idx _ _ => 1 + sizeIdx idx + 2
/-- the subscripts of a path -/
def sizeIdx : Exprs → Nat
  | .nil => 0
  | .cons e rest => 1 + sizeExpr e + (if e.ty = .int then 0 else 1) + 2 + sizeIdx rest
/-- the code that leaves the value of an actual in A: an element keeps its path (no `PopVarPath`) -/
def sizeArg : Expr → Nat
  | .elem _ idx _ _ => 1 + sizeIdx idx + 1
  | .lit _ _ => 1
  | .var _ _ _ => 3
  | .un _ e _ => sizeExpr e + 1
  | .bin op l r _ _ => sizeExpr l + 1 + sizeExpr r + 3 + (if op = .divide then 1 else 0)
  | .paren e _ => sizeExpr e
  | .callFn _ args _ _ => 1 + sizePush args + 3 + refCount args + 1 + 1 + sizeWb args + 1
/-- argument evaluation: expression, optional cast, `PushNamed` / `PushNamedByRef` -/
def sizePush : Args → Nat
  | .nil => 0
  | .cons e _ pt rest => sizeArg e + (if e.ty = pt then 0 else 1) + 1 + sizePush rest
def refCount : Args → Nat
  | .nil => 0
  | .cons e _ _ rest => (if e.isRef then 1 else 0) + refCount rest
/-- size of the write-backs: 3 for a variable, 2 for an element -/
def sizeWb : Args → Nat
  | .nil => 0
  | .cons e _ _ rest => (match e with | .var _ _ _ => 3 | .elem _ _ _ _ => 2 | _ => 0) + sizeWb rest
end

def sizeExprTo (e : Expr) (t : Ty) : Nat := sizeExpr e + (if e.ty = t then 0 else 1)

def sizeSubCall (args : Args) : Nat := 1 + sizePush args + 3 + refCount args + 1 + sizeWb args

/-! ### expressions and calls -/

/-- `generate_stash_by_ref_args` -/
def enqueues : Nat → Args → Code
  | _, .nil => []
  | i, .cons e _ _ rest => (if e.isRef then [(.enqueue i, e.pos)] else []) ++ enqueues (i + 1) rest

/-- `generate_un_stash_by_ref_args` (scalars: always the `DequeueFromReturnStack` + store form) -/
def writeBacks : Args → Code
  | .nil => []
  | .cons (.var x t p) _ _ rest => [(.dequeue, p), (.varPath x t, p), (.copyAToVarPath, p)] ++ writeBacks rest
  | .cons (.elem _ _ _ p) _ _ rest => [(.dequeuePath, p), (.copyAToVarPath, p)] ++ writeBacks rest
  | .cons _ _ _ rest => writeBacks rest

mutual
/-- `generate_expression_instructions`; `lay[f]` = address of the label of procedure `f`, `off` = address of the
first emitted instruction -/
def compileExpr (lay : Layout) : Nat → Expr → Code
  | _, .lit v p => [(.loadA v, p)]
  | _, .var x t p => [(.varPath x t, p), (.copyVarPathToA, p), (.popVarPath, p)]
  | off, .un .neg e p => compileExpr lay off e ++ [(.negateA, p)]
  | off, .un .not e p => compileExpr lay off e ++ [(.notA, p)]
  | off, .bin op l r t p =>
    compileExpr lay off l ++ [(.pushA, p)] ++ compileExpr lay (off + sizeExpr l + 1) r ++
      [(.copyAToB, p), (.popA, p), (.bin op, p)] ++ (if op = .divide then [(.cast t, p)] else [])
  | off, .paren e _ => compileExpr lay off e
  | off, .callFn f args t p =>
    -- `generate_function_call_instructions`
    [(.beginArgs, p)] ++ pushArgs lay (off + 1) args ++
      [(pushStackInstr lay f, p), (.pushRet (off + 1 + sizePush args + 3), p), (.jump (lay.addr f), p)] ++
      enqueues 0 args ++ [(.stashResult args.length t, p), (.popStack, p)] ++ writeBacks args ++ [(.unStash, p)]
  | off, .elem a idx _ p =>
    [(.arrPath a, p)] ++ compileIdx lay (off + 1) idx ++ [(.copyVarPathToA, p), (.popVarPath, p)]
/-- the subscripts of a path (`generate_path_instructions`): `PushAToValueStack · ⟦i⟧ [Cast %] · VarPathIndex ·
PopValueStackIntoA` each -/
def compileIdx (lay : Layout) : Nat → Exprs → Code
  | _, .nil => []
  | off, .cons e rest =>
    [(.pushA, e.pos)] ++ compileExpr lay (off + 1) e ++ (if e.ty = .int then [] else [(.cast .int, e.pos)]) ++
      [(.pathIndex, e.pos), (.popA, e.pos)] ++
      compileIdx lay (off + 1 + sizeExpr e + (if e.ty = .int then 0 else 1) + 2) rest
/-- the value of an actual into A (`generate_expression_instructions_casting_optionally_by_ref` with
`consume_var_path = false` for an element) -/
def compileArg (lay : Layout) : Nat → Expr → Code
  | off, .elem a idx _ p => [(.arrPath a, p)] ++ compileIdx lay (off + 1) idx ++ [(.copyVarPathToA, p)]
  | _, .lit v p => [(.loadA v, p)]
  | _, .var x t p => [(.varPath x t, p), (.copyVarPathToA, p), (.popVarPath, p)]
  | off, .un .neg e p => compileExpr lay off e ++ [(.negateA, p)]
  | off, .un .not e p => compileExpr lay off e ++ [(.notA, p)]
  | off, .bin op l r t p =>
    compileExpr lay off l ++ [(.pushA, p)] ++ compileExpr lay (off + sizeExpr l + 1) r ++
      [(.copyAToB, p), (.popA, p), (.bin op, p)] ++ (if op = .divide then [(.cast t, p)] else [])
  | off, .paren e _ => compileExpr lay off e
  | off, .callFn f args t p =>
    [(.beginArgs, p)] ++ pushArgs lay (off + 1) args ++
      [(pushStackInstr lay f, p), (.pushRet (off + 1 + sizePush args + 3), p), (.jump (lay.addr f), p)] ++
      enqueues 0 args ++ [(.stashResult args.length t, p), (.popStack, p)] ++ writeBacks args ++ [(.unStash, p)]
/-- `generate_push_named_args_instructions` without the leading `BeginCollectArguments` -/
def pushArgs (lay : Layout) : Nat → Args → Code
  | _, .nil => []
  | off, .cons e pn pt rest =>
    compileArg lay off e ++ (if e.ty = pt then [] else [(.cast pt, e.pos)]) ++
      [(if e.isElem then .pushNamedByRef pn pt else .pushNamed pn pt, e.pos)] ++
      pushArgs lay (off + sizeArg e + (if e.ty = pt then 0 else 1) + 1) rest
end

/-- for everything but an element the code of an actual is the code of the expression -/
theorem compileArg_eq (lay : Layout) (off : Nat) (e : Expr) (h : e.isElem = false) :
    compileArg lay off e = compileExpr lay off e := by
  cases e with
  | un op e p => cases op <;> simp [compileArg, compileExpr]
  | elem a idx t p => simp [Expr.isElem] at h
  | _ => simp [compileArg, compileExpr]

theorem sizeArg_eq (e : Expr) (h : e.isElem = false) : sizeArg e = sizeExpr e := by
  cases e with
  | elem a idx t p => simp [Expr.isElem] at h
  | _ => simp [sizeArg, sizeExpr]

/-- `generate_expression_instructions_casting` -/
def compileExprTo (lay : Layout) (off : Nat) (e : Expr) (target : Ty) : Code :=
  compileExpr lay off e ++ (if e.ty = target then [] else [(.cast target, e.pos)])

/-- `generate_sub_call_instructions` -/
def compileSubCall (lay : Layout) (off f : Nat) (args : Args) (p : Pos) : Code :=
  [(.beginArgs, p)] ++ pushArgs lay (off + 1) args ++
    [(pushStackInstr lay f, p), (.pushRet (off + 1 + sizePush args + 3), p), (.jump (lay.addr f), p)] ++
    enqueues 0 args ++ [(.popStack, p)] ++ writeBacks args

/-- the bound arguments of a DIM, the first instruction at `off` -/
def sizeDims : Dims → Nat
  | .nil => 0
  | .cons lo hi rest => (match lo with | none => 2 | some e => sizeExpr e + 1) + sizeExpr hi + 1 + sizeDims rest

def compileDims (lay : Layout) (p : Pos) : Nat → Dims → Code
  | _, .nil => []
  | off, .cons lo hi rest =>
    let nlo := match lo with | none => 2 | some e => sizeExpr e + 1
    (match lo with
     | none => [(.loadA (.int 0), p), (.pushByVal, p)]
     | some e => compileExpr lay off e ++ [(.pushByVal, e.pos)]) ++
      compileExpr lay (off + nlo) hi ++ [(.pushByVal, hi.pos)] ++ compileDims lay p (off + nlo + sizeExpr hi + 1) rest

def storeVar (x : Var) (t : Ty) (p : Pos) : Code := [(.varPath x t, p), (.copyAToVarPath, p)]

def loadVar (x : Var) (t : Ty) (p : Pos) : Code := [(.varPath x t, p), (.copyVarPathToA, p), (.popVarPath, p)]

def sizeItems : List PrintItem → Nat
  | [] => 0
  | .expr e :: rest => sizeExpr e + 1 + sizeItems rest
  | _ :: rest => 1 + sizeItems rest

def compileItems (lay : Layout) (p : Pos) : Nat → List PrintItem → Code
  | _, [] => []
  | off, .expr e :: rest => compileExpr lay off e ++ [(.printValue, e.pos)] ++ compileItems lay p (off + sizeExpr e + 1) rest
  | off, .comma :: rest => [(.printComma, p)] ++ compileItems lay p (off + 1) rest
  | off, .semicolon :: rest => [(.printSemicolon, p)] ++ compileItems lay p (off + 1) rest

def sizeCaseExpr : CaseExpr → Nat
  | .simple e => sizeExpr e + 5
  | .is _ e => sizeExpr e + 5
  | .range lo hi => sizeExpr lo + 5 + sizeExpr hi + 5

/-- one CASE item placed at `off`: `generate_case_expression` (jump to `next` when it does not match) -/
def compileCaseExpr (lay : Layout) (p : Pos) (next off : Nat) : CaseExpr → Code
  | .simple e =>
    compileExpr lay off e ++ [(.copyAToB, p), (.popA, p), (.pushA, p), (.bin .equal, p), (.jumpIfFalse next, p)]
  | .is op e =>
    compileExpr lay off e ++ [(.copyAToB, p), (.popA, p), (.pushA, p), (.bin op, p), (.jumpIfFalse next, p)]
  | .range lo hi =>
    compileExpr lay off lo ++
      [(.copyAToB, p), (.popA, p), (.pushA, p), (.bin .greaterOrEqual, p), (.jumpIfFalse next, p)] ++
    compileExpr lay (off + sizeExpr lo + 5) hi ++
      [(.copyAToB, p), (.popA, p), (.pushA, p), (.bin .lessOrEqual, p), (.jumpIfFalse next, p)]

def sizeConds : List CaseExpr → Nat
  | [] => 0
  | [c] => sizeCaseExpr c
  | c :: rest => sizeCaseExpr c + 1 + 1 + sizeConds rest

/-- size of `EXIT SUB` inside `fd` FOR bodies and `sd` SELECT CASE statements -/
def sizeExit (fd sd : Nat) : Nat := fd + sd + 1

mutual
/-- `fd` / `sd`: number of enclosing FOR bodies / SELECT CASE statements (`for_depth`, `select_depth`) -/
def sizeStmt : Nat → Nat → SStmt → Nat
  | _, _, .skip => 0
  | fd, sd, .seq a b => sizeStmt fd sd a + sizeStmt fd sd b
  | _, _, .comment => 0
  | _, _, .dim _ _ _ => 3
  | _, _, .sdim _ _ _ => 8
  | _, _, .assign _ t e _ => sizeExprTo e t + 2
  | _, _, .dimArr _ _ dims _ => 1 + sizeDims dims + 3
  | _, _, .assignElem _ t idx e _ => sizeExprTo e t + 1 + sizeIdx idx + 1
  | _, _, .print items _ => 3 + sizeItems items + 1
  | _, _, .data items _ => 1 + 2 * items.length + 3
  | _, _, .read vars _ => if vars.isEmpty then 4 else 11 * vars.length
  | fd, sd, .ifBlock c thn elifs hasElse els _ =>
    sizeExpr c + 1 + sizeStmt fd sd thn + 1 + sizeElifs fd sd elifs +
      (if hasElse then 1 + sizeStmt fd sd els else 0) + 1
  | fd, sd, .select e cases hasElse els _ =>
    sizeExpr e + 1 + 3 + sizeCases fd (sd + 1) cases + (if hasElse then 1 + sizeStmt fd (sd + 1) els else 0) + 3
  | fd, sd, .forLoop x t lo hi step body p =>
    sizeExprTo lo t + 2 + sizeExprTo hi t +
    (match step with
     | none => 6 + sizeForBody fd sd body + 1
     | some s => 1 + sizeExpr s + 11 + sizeForBody fd sd body + 2 + 3 + sizeForBody fd sd body + 4)
  | fd, sd, .while c body _ => 1 + sizeExpr c + 1 + sizeStmt fd sd body + 2
  | fd, sd, .doLoop c top u body _ =>
    if top then 1 + sizeExpr c + (if u then 3 else 1) + sizeStmt fd sd body + 2
    else 1 + sizeStmt fd sd body + sizeExpr c + (if u then 1 else 2) + 1
  | _, _, .end_ _ => 1
  | _, _, .callSub _ args _ => sizeSubCall args
  | fd, sd, .exitProc _ => sizeExit fd sd
/-- loop head + body + increment (`generate_for_loop_instructions_positive_or_negative_step`) -/
def sizeForBody (fd sd : Nat) (body : SStmt) : Nat :=
  1 + 1 + 3 + 1 + 1 + 1 + sizeStmt (fd + 1) sd body + 1 + 3 + 2 + 1 + 2 + 1
def sizeElifs : Nat → Nat → ElseIfs → Nat
  | _, _, .nil => 0
  | fd, sd, .cons c body rest => 1 + sizeExpr c + 1 + sizeStmt fd sd body + 1 + sizeElifs fd sd rest
def sizeCases : Nat → Nat → SCases → Nat
  | _, _, .nil => 0
  | fd, sd, .cons conds body rest =>
    1 + sizeConds conds + (if conds.length > 1 then 1 else 0) + sizeStmt fd sd body + 1 + sizeCases fd sd rest
end

/-- the condition list of CASE block `bi` starting at `off`: `generate_case_expressions` -/
def compileConds (lay : Layout) (p : Pos) (sfx : String) (bi : Nat) (nextCase stmts : Nat) :
    Nat → Nat → List CaseExpr → Code
  | _, _, [] => []
  | off, _, [c] => compileCaseExpr lay p nextCase off c
  | off, ei, c :: rest =>
    let nextItem := off + sizeCaseExpr c + 1
    compileCaseExpr lay p nextItem off c ++ [(.jump stmts, p)] ++
      [(.label (labelName ("case-multi-expr-" ++ toString bi ++ "-" ++ toString (ei + 1)) p sfx), p)] ++
      compileConds lay p sfx bi nextCase stmts (nextItem + 1) (ei + 1) rest

def forBody (sfx : String) (x : Var) (t : Ty) (bodyCode : Code) (up : Bool) (p : Pos) (off outOff : Nat) : Code :=
  [(.label (labelName (if up then "positive-loop" else "negative-loop") p sfx), p), (.copyCToB, p)] ++ loadVar x t p ++
    [(.bin (if up then .lessOrEqual else .greaterOrEqual), p), (.jumpIfFalse outOff, p), (.pushRegs, p)] ++
    bodyCode ++
    [(.popRegs, p)] ++ loadVar x t p ++ [(.copyDToB, p), (.bin .plus, p), (.cast t, p)] ++ storeVar x t p ++
    [(.jump off, p)]

def stepSuffix (sfx : String) (up : Bool) : String :=
  sfx ++ (if up then "_positive-step" else "_negative-step")

mutual
/-- `Visitor<StatementPos>`: `sfx` label suffix, `fd`/`sd` FOR / SELECT depth, `off` address of the first
emitted instruction -/
def compileStmt (lay : Layout) : String → Nat → Nat → Nat → SStmt → Code
  | sfx, fd, sd, _, .skip => []
  | sfx, fd, sd, off, .seq a b => compileStmt lay sfx fd sd off a ++ compileStmt lay sfx fd sd (off + sizeStmt fd sd a) b
  | sfx, fd, sd, _, .comment => []
  | sfx, fd, sd, _, .dim x t p => [(.allocate t, p), (.varPath x t, p), (.copyAToVarPath, p)]
  | sfx, fd, sd, off, .sdim x t p =>
    -- `visit_dim_var_pos` inside a STATIC subprogram
    [(.isDefined x, p), (.jumpIfFalse (off + 3), p), (.jump (off + 7), p), (.label (labelName "begin-dim" p sfx), p),
     (.allocate t, p), (.varPath ⟨false, x⟩ t, p), (.copyAToVarPath, p), (.label (labelName "end-dim" p sfx), p)]
  | sfx, fd, sd, off, .assign x t e p => compileExprTo lay off e t ++ storeVar x t p
  | sfx, fd, sd, off, .dimArr a t dims p =>
    -- `generate_dim_name`, `DimType::Array`
    [(.beginArgs, p)] ++ compileDims lay p (off + 1) dims ++ [(.allocArr t, p), (.arrPath a, p), (.copyAToVarPath, p)]
  | sfx, fd, sd, off, .assignElem a t idx e p =>
    -- `generate_assignment_instructions`: value (converted), then the path, then the store
    compileExprTo lay off e t ++ [(.arrPath a, p)] ++ compileIdx lay (off + sizeExprTo e t + 1) idx ++
      [(.copyAToVarPath, p)]
  | sfx, fd, sd, off, .print items p =>
    [(.printSetPrinter, p), (.loadA (.int 0), p), (.printSetFormat, p)] ++ compileItems lay p (off + 3) items ++
      [(.printEnd, p)]
  | sfx, fd, sd, _, .data items p =>
    [(.beginArgs, p)] ++ items.flatMap (fun (v, q) => [(.loadA v, q), (.pushByVal, q)]) ++
      [(.pushStack, p), (.builtInData, p), (.popStack, p)]
  | sfx, fd, sd, _, .read vars p =>
    -- `READ a, b` is generated as `READ a : READ b` (one built-in call per variable)
    if vars.isEmpty then [(.beginArgs, p), (.pushStack, p), (.builtInRead, p), (.popStack, p)]
    else vars.flatMap (fun (x, t, q) =>
      [(.beginArgs, p), (.varPath x t, q), (.copyVarPathToA, q), (.pushByRef, q), (.pushStack, p), (.builtInRead, p),
       (.enqueue 0, q), (.popStack, p), (.dequeue, q), (.varPath x t, q), (.copyAToVarPath, q)])
  | sfx, fd, sd, off, .ifBlock c thn elifs hasElse els p =>
    let nc := sizeExpr c
    let thnOff := off + nc + 1
    let afterThn := thnOff + sizeStmt fd sd thn + 1
    let elseOff := afterThn + sizeElifs fd sd elifs
    let endOff := elseOff + (if hasElse then 1 + sizeStmt fd sd els else 0)
    compileExpr lay off c ++ [(.jumpIfFalse afterThn, p)] ++ compileStmt lay sfx fd sd thnOff thn ++ [(.jump endOff, p)] ++
      compileElifs lay sfx fd sd p endOff afterThn 0 elifs ++
      (if hasElse then [(.label (labelName "else" p sfx), p)] ++ compileStmt lay sfx fd sd (elseOff + 1) els else []) ++
      [(.label (labelName "end-if" p sfx), p)]
  | sfx, fd, sd, off, .select e cases hasElse els p =>
    let ne := sizeExpr e
    let casesOff := off + ne + 1 + 3
    let elseOff := casesOff + sizeCases fd (sd + 1) cases
    let endOff := elseOff + (if hasElse then 1 + sizeStmt fd (sd + 1) els else 0)
    compileExpr lay off e ++ [(.pushA, p)] ++
      [(.jump (casesOff - 1), p), (.jump (endOff + 2), p), (.label (labelName "select-begin" p sfx), p)] ++
      compileCases lay sfx fd (sd + 1) p endOff casesOff 0 cases ++
      (if hasElse then [(.label (labelName "case-else" p sfx), p)] ++ compileStmt lay sfx fd (sd + 1) (elseOff + 1) els
       else []) ++
      [(.label (labelName "end-select" p sfx), p), (.popA, p), (.label (labelName "select-skip" p sfx), p)]
  | sfx, fd, sd, off, .forLoop x t lo hi step body p =>
    let nlo := sizeExprTo lo t
    let nhi := sizeExprTo hi t
    let hdr := off + nlo + 2 + nhi
    compileExprTo lay off lo t ++ storeVar x t p ++ compileExprTo lay (off + nlo + 2) hi t ++
    (match step with
     | none =>
       let bodyOff := hdr + 6
       let outOff := bodyOff + sizeForBody fd sd body
       [(.copyAToC, p), (.loadA (.int 1), p), (.copyAToD, p),
        (.jump (hdr + 5), p), (.jump outOff, p), (.label (labelName "for-begin" p sfx), p)] ++
         forBody sfx x t (compileStmt lay (stepSuffix sfx true) (fd + 1) sd (bodyOff + 8) body) true p bodyOff outOff ++
         [(.label (labelName "out-of-for" p sfx), p)]
     | some s =>
       let ns := sizeExpr s
       let negOff := hdr + 1 + ns + 11
       let testPosOff := negOff + sizeForBody fd sd body + 1
       let posOff := testPosOff + 4
       let zeroOff := posOff + sizeForBody fd sd body + 1
       let outOff := zeroOff + 2
       [(.pushA, p)] ++ compileExpr lay (hdr + 1) s ++
         [(.copyAToD, p), (.popA, p), (.copyAToC, p),
          (.jump (hdr + 1 + ns + 5), p), (.jump outOff, p), (.label (labelName "for-begin" p sfx), p),
          (.loadA (.int 0), p), (.copyAToB, p), (.copyDToA, p),
          (.bin .less, p), (.jumpIfFalse testPosOff, p)] ++
         forBody sfx x t (compileStmt lay (stepSuffix sfx false) (fd + 1) sd (negOff + 8) body) false p negOff outOff ++
         [(.jump outOff, p), (.label (labelName "test-positive-or-zero" p sfx), p), (.copyDToA, p),
          (.bin .greater, p), (.jumpIfFalse zeroOff, p)] ++
         forBody sfx x t (compileStmt lay (stepSuffix sfx true) (fd + 1) sd (posOff + 8) body) true p posOff outOff ++
         [(.jump outOff, p), (.label (labelName "zero" p sfx), p), (.throwZeroStep, s.pos),
          (.label (labelName "out-of-for" p sfx), p)])
  | sfx, fd, sd, off, .while c body p =>
    let nc := sizeExpr c
    let bodyOff := off + 1 + nc + 1
    let wendOff := bodyOff + sizeStmt fd sd body + 1
    [(.label (labelName "while" p sfx), p)] ++ compileExpr lay (off + 1) c ++ [(.jumpIfFalse wendOff, p)] ++
      compileStmt lay sfx fd sd bodyOff body ++ [(.jump off, p), (.label (labelName "wend" p sfx), p)]
  | sfx, fd, sd, off, .doLoop c top u body p =>
    let nc := sizeExpr c
    if top then
      let bodyOff := off + 1 + nc + (if u then 3 else 1)
      let loopOff := bodyOff + sizeStmt fd sd body + 1
      [(.label (labelName "do" p sfx), p)] ++ compileExpr lay (off + 1) c ++
        (if u then [(.jumpIfFalse (bodyOff - 1), p), (.jump loopOff, p), (.label (labelName "do-body" p sfx), p)]
         else [(.jumpIfFalse loopOff, p)]) ++
        compileStmt lay sfx fd sd bodyOff body ++
        [(.jump off, p), (.label (labelName "loop" p sfx), p)]
    else
      let loopOff := off + 1 + sizeStmt fd sd body + nc + (if u then 1 else 2)
      [(.label (labelName "do" p sfx), p)] ++ compileStmt lay sfx fd sd (off + 1) body ++
        compileExpr lay (off + 1 + sizeStmt fd sd body) c ++
        (if u then [(.jumpIfFalse off, p)] else [(.jumpIfFalse loopOff, p), (.jump off, p)]) ++
        [(.label (labelName "loop" p sfx), p)]
  | sfx, fd, sd, _, .end_ p => [(.halt, p)]
  | sfx, fd, sd, off, .callSub f args p => compileSubCall lay off f args p
  | sfx, fd, sd, _, .exitProc p =>
    List.replicate fd (.popRegs, p) ++ List.replicate sd (.popA, p) ++ [(.popRet, p)]
/-- the ELSEIF arms starting at `off` (the address of the label of arm `i`) -/
def compileElifs (lay : Layout) : String → Nat → Nat → Pos → Nat → Nat → Nat → ElseIfs → Code
  | _, _, _, _, _, _, _, .nil => []
  | sfx, fd, sd, p, endOff, off, i, .cons c body rest =>
    let nc := sizeExpr c
    let bodyOff := off + 1 + nc + 1
    let next := bodyOff + sizeStmt fd sd body + 1
    [(.label (labelName ("else-if-" ++ toString i) p sfx), p)] ++ compileExpr lay (off + 1) c ++
      [(.jumpIfFalse next, p)] ++
      compileStmt lay sfx fd sd bodyOff body ++ [(.jump endOff, p)] ++ compileElifs lay sfx fd sd p endOff next (i + 1) rest
/-- the CASE blocks starting at `off` (the address of the label of block `i`); `sd` already counts this SELECT -/
def compileCases (lay : Layout) : String → Nat → Nat → Pos → Nat → Nat → Nat → SCases → Code
  | _, _, _, _, _, _, _, .nil => []
  | sfx, fd, sd, p, endOff, off, i, .cons conds body rest =>
    let multi := decide (conds.length > 1)
    let condsOff := off + 1
    let stmtsLabel := condsOff + sizeConds conds
    let bodyOff := stmtsLabel + (if multi then 1 else 0)
    let next := bodyOff + sizeStmt fd sd body + 1
    [(.label (labelName ("case" ++ toString i) p sfx), p)] ++
      compileConds lay p sfx i next stmtsLabel condsOff 0 conds ++
      (if multi then [(.label (labelName ("case-statements" ++ toString i) p sfx), p)] else []) ++
      compileStmt lay sfx fd sd bodyOff body ++ [(.jump endOff, p)] ++ compileCases lay sfx fd sd p endOff next (i + 1) rest
end

def maxPos : Pos := ⟨4294967295, 4294967295⟩

/-- `move_data_statements_first` -/
def topLevel : SStmt → List SStmt
  | .seq a b => topLevel a ++ topLevel b
  | .skip => []
  | s => [s]

def isData : SStmt → Bool
  | .data _ _ => true
  | _ => false

def seqOf : List SStmt → SStmt
  | [] => .skip
  | s :: rest => .seq s (seqOf rest)

def reorder (body : SStmt) : SStmt :=
  let ss := topLevel body
  seqOf (ss.filter isData ++ ss.filter (fun s => !isData s))

/-- size of a procedure: label, (default result), body, `PopRet` -/
def sizeProc (d : ProcDecl SStmt) : Nat :=
  1 + (if d.result.isSome then (if d.static then 3 else 1) else 0) + sizeStmt 0 0 d.body + 1

/-- addresses of the procedures' labels (the first one at `off`) and their STATIC flags -/
def layoutFrom : Nat → List (ProcDecl SStmt) → Layout
  | _, [] => []
  | off, d :: rest => (off, d.static) :: layoutFrom (off + sizeProc d) rest

def layout (prog : SProgram) : Layout :=
  layoutFrom (sizeStmt 0 0 (reorder prog.body) + 1) prog.procs

/-- `visit_function` / `visit_sub` + `subprogram_body`, the label at `off` -/
def compileProc (lay : Layout) (off : Nat) (d : ProcDecl SStmt) : Code :=
  match d.result with
  | some t =>
    if d.static then
      -- a STATIC function: the default result is also stored into the result variable (repair 7b64dfe; the real
      -- generator omits the store when a parameter carries the function's own name — the serialiser excludes that)
      [(.label (":fun:" ++ d.name), d.pos), (.allocate t, d.pos), (.varPath ⟨false, d.resultSlot⟩ t, d.pos),
       (.copyAToVarPath, d.pos)] ++ compileStmt lay "" 0 0 (off + 4) d.body ++ [(.popRet, d.pos)]
    else
      [(.label (":fun:" ++ d.name), d.pos), (.allocate t, d.pos)] ++ compileStmt lay "" 0 0 (off + 2) d.body ++
        [(.popRet, d.pos)]
  | none =>
    [(.label (":sub:" ++ d.name), d.pos)] ++ compileStmt lay "" 0 0 (off + 1) d.body ++ [(.popRet, d.pos)]

def compileProcs (lay : Layout) : Nat → List (ProcDecl SStmt) → Code
  | _, [] => []
  | off, d :: rest => compileProc lay off d ++ compileProcs lay (off + sizeProc d) rest

/-- `generate_instructions` -/
def compile (prog : SProgram) : Code :=
  let body := reorder prog.body
  let lay := layout prog
  compileStmt lay "" 0 0 0 body ++ [(.halt, maxPos)] ++ compileProcs lay (sizeStmt 0 0 body + 1) prog.procs

/-! ### normalisation of the real instruction list -/

abbrev litToVal := _root_.RbModel.Core.litToVal
abbrev qualToTy := _root_.RbModel.Core.qualToTy
abbrev slotOf := _root_.RbModel.Core.slotOf

/-- what the normaliser knows about a procedure: its label text (`:fun:F%`), result type, number of
parameters, slot-name table -/
structure ScopeInfo where
  label : String
  result : Option Ty
  nparams : Nat
  table : List (String × Ty)
  /-- the array table of the scope -/
  atable : List (String × Ty) := []

def upper (s : String) : String := s.map Char.toUpper

def sigil : Qual → String
  | .int => "%" | .long => "&" | .sgl => "!" | .dbl => "#" | .str => "$"

/-- `Name::to_string` of a qualified name -/
def qnameText (n : QName) : String :=
  n.bare ++ (match n.q with | some q => sigil q | none => "")

/-- `PushNamed(Parameter)` as serialised by `instr_sx::parameter`: `(param <name> (builtin <q>))` -/
def param? : Sexp → Option (String × Ty)
  | .list [.atom "param", n, .list [.atom "builtin", q]] => do
      pure (← Instr.str? n, qualToTy (← Instr.qual? q))
  | _ => none

def targetAddr : Target → Option Nat
  | .addr a => some a
  | .unresolved _ => none

/-- the label of the procedure a `PushStaticStack(scope)` names: `(fun <qualified name>)` / `(sub "NAME")` -/
def scopeLabel? : Sexp → Option String
  | .list [.atom "fun", n] => do pure (":fun:" ++ qnameText (← Instr.qname? n))
  | .list [.atom "sub", n] => do pure (":sub:" ++ (← Instr.str? n))
  | _ => none

/-- the text between the first occurrence of `a` and the next occurrence of `b` -/
def between (s a b : String) : Option String :=
  match s.splitOn a with
  | _ :: rest :: _ => (rest.splitOn b).head?
  | _ => none

/-- the name in the `{:?}` text of a `DimVar` with a built-in type:
`TypedName { bare_name: CaseInsensitiveString("c"), var_type: BuiltIn(PercentInteger, Compact) }` -/
def dimVarName? (dbg : String) : Option QName := do
  let bare ← between dbg "bare_name: CaseInsensitiveString(\"" "\""
  let q ← between dbg "var_type: BuiltIn(" ","
  let q ← match q with
    | "PercentInteger" => some Qual.int | "AmpersandLong" => some Qual.long | "BangSingle" => some Qual.sgl
    | "HashDouble" => some Qual.dbl | "DollarString" => some Qual.str | _ => none
  pure ⟨bare, some q⟩

/-- `AllocateArrayIntoA(BuiltIn(q))` as serialised by `instr_sx::expr_type` -/
def elemTy? : Sexp → Option Ty
  | .list [.atom "builtin", q] => (Instr.qual? q).map qualToTy
  | _ => none

def normInstr (scopes : List ScopeInfo) (gtable table atable : List (String × Ty)) : Instr → Option CInstr
  | .loadIntoA v => (litToVal v).map .loadA
  | .copyAToB => some .copyAToB | .copyAToC => some .copyAToC | .copyAToD => some .copyAToD
  | .copyCToB => some .copyCToB | .copyDToA => some .copyDToA | .copyDToB => some .copyDToB
  | .plus => some (.bin .plus) | .minus => some (.bin .minus) | .multiply => some (.bin .multiply)
  | .divide => some (.bin .divide) | .modulo => some (.bin .modulo)
  | .less => some (.bin .less) | .lessOrEqual => some (.bin .lessOrEqual) | .equal => some (.bin .equal)
  | .greaterOrEqual => some (.bin .greaterOrEqual) | .greater => some (.bin .greater)
  | .notEqual => some (.bin .notEqual) | .and => some (.bin .and) | .or => some (.bin .or)
  | .negateA => some .negateA | .notA => some .notA
  | .cast q => some (.cast (qualToTy q))
  | .pushAToValueStack => some .pushA | .popValueStackIntoA => some .popA
  | .varPathName n sh =>
    match n.q with
    | none => none
    | some q =>
      match (if sh then none else slotOf atable n) with
      | some a => some (.arrPath a)
      | none => (slotOf (if sh then gtable else table) n).map fun x => .varPath ⟨sh, x⟩ (qualToTy q)
  | .varPathIndex => some .pathIndex
  | .allocateArrayIntoA t => (elemTy? t).map .allocArr
  | .pushNamedByRef p => (param? p).map fun (n, t) => .pushNamedByRef n t
  | .dequeueFromReturnStackWithPath => some .dequeuePath
  | .copyVarPathToA => some .copyVarPathToA | .popVarPath => some .popVarPath
  | .copyAToVarPath => some .copyAToVarPath
  | .label l => some (.label l)
  | .jump t => (targetAddr t).map .jump
  | .jumpIfFalse t => (targetAddr t).map .jumpIfFalse
  | .pushRegisters => some .pushRegs | .popRegisters => some .popRegs
  | .throw e => if e == "ForLoopZeroStep" then some .throwZeroStep else none
  | .halt => some .halt
  | .allocateBuiltIn q => some (.allocate (qualToTy q))
  | .printSetPrinterType p => if p == "print" then some .printSetPrinter else none
  | .printSetFormatStringFromA => some .printSetFormat
  | .printComma => some .printComma | .printSemicolon => some .printSemicolon
  | .printValueFromA => some .printValue | .printEnd => some .printEnd
  | .beginCollectArguments => some .beginArgs
  | .pushUnnamedByVal => some .pushByVal | .pushUnnamedByRef => some .pushByRef
  | .pushStack => some .pushStack | .popStack => some .popStack
  | .pushStaticStack sc =>
    match scopeLabel? sc with
    | none => none
    | some l => (scopes.findIdx? (fun sc => upper sc.label == upper l)).map .pushStatic
  | .pushNamed p => (param? p).map fun (n, t) => .pushNamed n t
  | .pushRet a => some (.pushRet a)
  | .popRet => some .popRet
  | .builtInSub n => if n == "Data" then some .builtInData else if n == "Read" then some .builtInRead else none
  | .enqueueToReturnStack i => some (.enqueue i)
  | .dequeueFromReturnStack => some .dequeue
  | .stashFunctionReturnValue n =>
    match scopes.find? (fun sc => upper sc.label == upper (":fun:" ++ qnameText n)) with
    | some sc => sc.result.map fun t => .stashResult sc.nparams t
    | none => none
  | .unStashFunctionReturnValue => some .unStash
  | .isVariableDefined dbg =>
    match dimVarName? dbg with
    | some n => (slotOf table n).map .isDefined
    | none => none
  | _ => none

/-- the slot-name table changes at the label of every procedure -/
def normFrom (scopes : List ScopeInfo) (gtable : List (String × Ty)) :
    List (String × Ty) → List (String × Ty) → List InstrPos → Option Code
  | _, _, [] => some []
  | table, atable, ip :: rest =>
    let (table', atable') := match ip.instr with
      | .label l =>
        (match scopes.find? (fun sc => sc.label == l) with
         | some sc => (sc.table, sc.atable)
         | none => (table, atable))
      | _ => (table, atable)
    match normInstr scopes gtable table' atable' ip.instr with
    | none => none
    | some c =>
      match normFrom scopes gtable table' atable' rest with
      | none => none
      | some cs => some ((c, ⟨ip.row, ip.col⟩) :: cs)

def normalise (mainTable gtable mainATable : List (String × Ty)) (scopes : List ScopeInfo) (code : Array InstrPos) :
    Option Code :=
  normFrom scopes gtable mainTable mainATable code.toList

def firstDiff : Code → Code → Nat → Option Nat
  | [], [], _ => none
  | a :: as, b :: bs, i => if a = b then firstDiff as bs (i + 1) else some i
  | _, _, i => some i

end RbModel.ProcArr.Compile
