import RbModel.ProcArr.Compile
import RbModel.ProcArr.Ref
import RbModel.Ref
import RbModel.Arr
/-!
# RbModel.ProcArr.Vm — model of the VM with procedure calls and arrays (property C03, combined layer, phase A)

COMBINED LAYER: `RbModel/Proc/Vm.lean` (text below the line) + what the array instructions need, as in
`RbModel/ArrL/Vm.lean`:

* a memory block is a `Block`: the scalar variables (`vars`, as before), the ARRAYS of the block (`arrs`; an array value
  is the `RbModel.Arr.VArray Val` of `rusty_variant/src/array_value.rs`: declared dimensions + row-major flat element
  vector, access by `Arr.getElem` / `Arr.setElem` = `abs_index`) and, for every variable created from an argument, the
  path that came with it (`apaths`; `RuntimeVariableInfo::arg_path`).  The real `Variables` is one map keyed by the
  qualified name; the linter guarantees that a scalar and an array never share a name, and the serialiser numbers the
  two kinds apart.  The persistent block of a STATIC procedure has scalars only (`statics f : Option Frame`): arrays in
  STATIC procedures and element actuals of STATIC callees are outside this layer (resolving an array path while the
  current block is a STATIC one is `stuck`, the path of an argument is dropped by `PushStaticStack`);
* the path stack holds `Path`s: `var x t` (a root scalar) or `elem a idx` (array `a` of the current block with the
  subscripts appended so far; `idx = []` is the array itself).  `VarPathIndex` appends the INTEGER in A.
  `CopyVarPathToA` resolves the top path WITHOUT popping it; `CopyAToVarPath` resolves, stores and pops; both raise
  Subscript out of range (9) at their own position when `abs_index` fails or the array's DIM has not run (37f5df4);
* a collected argument is `(value, path)`: `PushNamed` / `PushUnnamedByVal` give no path, `PushNamedByRef` /
  `PushUnnamedByRef` pop the path stack into the argument; `PushStack` turns the arguments into the variables of the new
  block, paths included; `EnqueueToReturnStack i` queues (value of variable `i` of the current block, its path);
  `DequeueFromReturnStackWithPath` puts the value into A and the path back on the path stack (the caller's block is
  current again: the path resolves where it was resolved before the call);
* `AllocateArrayIntoA t` pops the collecting state itself (`drop_arguments_for_array_allocation`), converts every
  argument to INTEGER in order (Overflow beyond ±32767), `to_dimensions` (9 when an upper bound is below its lower
  bound), `VArray::try_new` (Out of memory (7) when the element count cannot be computed; more than `Ref.sizeLimit`
  elements: `stuck`, machine dependent).  Register A of this model holds scalars only; the freshly allocated array waits
  in `arrA` for the `VarPathName a · CopyAToVarPath` that always follows (the real VM has it in A).

----
# model of the VM with procedure calls (property C03, phase A)

`RbModel.CoreVm` extended with what `Proc.Compile.CInstr` needs beyond the core: the interpreter's `Context`
(`rusty_basic/src/interpreter/context.rs`), argument collection (`arguments.rs`, `handlers/subprogram.rs`),
the return-address stack with its register marks (`Instruction::PushRet` / `PopRet` in `main.rs`), the
by-reference queue (`by_ref_stack`), the function-result stash and the stack trace.

* `ctx : List CtxState`, top first — the `states` vector.  A normal state owns a frame of variables, an
  argument-collecting state (`BeginCollectArguments`) a list of collected values.  The real `Context` keeps
  the variables in reference-counted `memory_blocks` addressed by index, an argument state SHARING the block
  of the state it was pushed on; `Thm.C03` (`ctx_refines_abs`) proves that bookkeeping equivalent to this
  stack for every well-bracketed history without STATIC procedures, so "the variables in scope" =
  the frame of the nearest normal state at or below the top (`curVars`): while arguments are being
  collected — also inside nested calls in an argument list — names resolve in the CALLER's frame.
* STATIC procedures and DIM SHARED variables.  `PushStaticStack(scope)` (`stop_collecting_arguments_static`): the
  procedure's memory block is created by its first call (`statics f = none` before) and kept in
  `static_memory_blocks`; every later call — also a recursive one, while the block is in use — applies the arguments
  to the SAME block (`apply_arguments`: the parameter slots are overwritten, every other variable stays) and pushes a
  state that refers to it: `CtxState.sframe f`, the block itself is `Vm.statics f`.  `PopStack` drops the state and
  keeps the block (`is_static`).  `RootPath { shared: true }` resolves in `global_variables_mut()` = block 0 whatever
  the top state is.  Block 0 holds the main module's own variables and the DIM SHARED ones under disjoint names
  (a name of the main module is either DIM SHARED or not; the serialiser numbers the two kinds in separate tables,
  the normaliser reads the flag of every `VarPathName`), and it is never addressed by position; the model keeps the
  two parts apart: the bottom `frame` of `ctx` = the main module's own variables, `Vm.glob` = the DIM SHARED ones.
* a frame is `List (Option Val)` indexed by slot: `none` = the variable was never created.
  `Variables::get_or_create` creates a missing variable with `default_value_for_name` = zero of the name's
  qualifier; the model reads `zeroOf t` for a missing slot (`t` comes with the path) and does not record the
  creation on a READ access (unobservable: insertion order is only used for the arguments, which exist from
  `PushStack` on).  `PushStack` builds the callee's frame from the collected values: argument `i` is slot `i`
  (`Variables::from(Arguments)` inserts them in order under the parameter names, which the serialiser checks
  to be distinct).
* `EnqueueToReturnStack i` reads slot `i` of the current frame (`context()[index]`); `arg_path` is not modelled
  (only array elements use it).
* `PopRet` truncates the register stack to the length recorded by the matching `PushRet` (`return_marks`;
  the GOSUB half of the mark is not modelled: no GOSUB in this phase).
* `trace` is the `stacktrace` (`PushStack` inserts the call position, `PopStack` removes it); the position of a
  failing built-in (READ) is its head.
* `skipNewline` is `PrintState::should_skip_new_line`.  Every PRINT statement starts with it cleared
  (`PrintSetPrinterType` → `PrintState::reset`, repair 89314cd in /repo: before it, a bare `PRINT` executed by a
  function called from `PRINT 1; F%(2)` consumed the caller's pending `;` instead of breaking the line — found by the
  proof of `Proc.compile_correct`).  The repaired VM also saves the whole `PrintState` (device, format string,
  pending separator) at `PushRet` and restores it at `PopRet` (`saved_print_states`); the model does NOT follow that:
  of the print state it has only the flag (one device, no format string in this fragment), and the flag a callee
  leaves behind is never read — a call occurs either outside a PRINT statement (the next PRINT clears the flag) or
  inside an item expression of a PRINT list, which is always followed by `PrintValueFromA` (sets the flag to
  `false` in both) before the statement's `PrintEnd` reads it.  The tie (c03p: VM model = real stdout) checks this
  on every explored program with calls inside PRINT lists.

`stuck` marks what the real VM answers with a panic (stack underflow, `expect` on a wrong state, …) or what
the model does not cover (inexact floats).  Errors end the run: there is no ON ERROR in this phase.
-/
namespace RbModel.ProcArr.Vm
open RbModel RbModel.Num RbModel.ProcArr RbModel.ProcArr.Compile
open RbModel.Ast (Pos)

structure Regs where
  a : Val
  b : Val
  c : Val
  d : Val
  deriving Inhabited

def Regs.new : Regs := ⟨.int 0, .int 0, .int 0, .int 0⟩

abbrev Frame := List (Option Val)

abbrev VArr := Arr.VArray Val

/-- the arrays of a block, by array number; `none` = not allocated (the DIM has not run) -/
abbrev AFrame := List (Option VArr)

/-- `instruction_generator::Path` restricted to `Root` and `ArrayElement(Root, indices)` -/
inductive Path where
  | var (x : Var) (t : Ty)
  | elem (a : Nat) (idx : List Int)

/-- an ordinary memory block -/
structure Block where
  vars : Frame
  arrs : AFrame
  /-- `arg_path` of the variables created from arguments (argument `i` is variable `i`) -/
  apaths : List (Option Path)

def Block.empty : Block := ⟨[], [], []⟩

inductive CtxState where
  /-- a normal state with its memory block -/
  | frame (b : Block)
  /-- a normal state on the persistent memory block of STATIC procedure `f` (`Vm.statics f`) -/
  | sframe (f : Nat)
  /-- an argument-collecting state: the values pushed so far -/
  | args (vs : List (Val × Option Path))

/-- `Variables::get_or_create` (read side) -/
def getVar (vars : Frame) (x : Nat) (t : Ty) : Val :=
  match vars[x]? with
  | some (some v) => v
  | _ => zeroOf t

/-- `*get_or_create(name) = v` -/
def setVar (vars : Frame) (x : Nat) (v : Val) : Frame :=
  if x < vars.length then vars.set x (some v)
  else vars ++ List.replicate (x - vars.length) none ++ [some v]

/-- `Context::variables`: the block of the top state = the frame of the nearest normal state; `st` = the blocks of
the STATIC procedures -/
def curVars (st : Nat → Option Frame) : List CtxState → Option Frame
  | [] => none
  | .frame b :: _ => some b.vars
  | .sframe f :: _ => st f
  | .args _ :: rest => curVars st rest

/-- the ordinary block of the top state, if it is one (arrays and argument paths live there) -/
def curBlock : List CtxState → Option Block
  | [] => none
  | .frame b :: _ => some b
  | .sframe _ :: _ => none
  | .args _ :: rest => curBlock rest

/-- the array `a` of the current block: `none` = no ordinary block is current, `some none` = not allocated -/
def curArr (ctx : List CtxState) (a : Nat) : Option (Option VArr) :=
  match curBlock ctx with
  | some b => some (b.arrs[a]?.join)
  | none => none

def setArrSlot (af : AFrame) (a : Nat) (A : VArr) : AFrame :=
  if a < af.length then af.set a (some A)
  else af ++ List.replicate (a - af.length) none ++ [some A]

/-- replace array `a` of the current ordinary block -/
def modArr (a : Nat) (A : VArr) : List CtxState → List CtxState
  | [] => []
  | .frame b :: rest => .frame { b with arrs := setArrSlot b.arrs a A } :: rest
  | .sframe g :: rest => .sframe g :: rest
  | .args x :: rest => .args x :: modArr a A rest

/-- `Context::variables_mut` when the current block is an ordinary one -/
def modCur (f : Frame → Frame) : List CtxState → List CtxState
  | [] => []
  | .frame b :: rest => .frame { b with vars := f b.vars } :: rest
  | .sframe g :: rest => .sframe g :: rest
  | .args a :: rest => .args a :: modCur f rest

/-- the STATIC procedure whose block is the current one, if any -/
def curStatic : List CtxState → Option Nat
  | [] => none
  | .frame _ :: _ => none
  | .sframe f :: _ => some f
  | .args _ :: rest => curStatic rest

/-- `Variables::apply_arguments` on an existing block: argument `i` overwrites slot `i` -/
def applyArgs (fr : Frame) (vs : List Val) : Frame := vs.map some ++ fr.drop vs.length

structure Vm where
  pc : Nat
  regs : Regs
  /-- `register_stack` below the current frame of registers -/
  regStack : List Regs
  /-- `value_stack`, top first -/
  vals : List Val
  /-- `var_path_stack`, top first -/
  paths : List Path
  /-- `Context::states`, top first; the last one is the global frame (the main module's own variables) -/
  ctx : List CtxState
  /-- the DIM SHARED variables (the part of memory block 0 addressed with `shared: true`) -/
  glob : Frame
  /-- `static_memory_blocks`: the persistent block of every STATIC procedure that has been called -/
  statics : Nat → Option Frame
  out : Print.WritePrinter
  skipNewline : Bool
  data : List Val
  dataIdx : Nat
  /-- `by_ref_stack` (a queue): value and the path of the argument it came from -/
  queue : List (Val × Option Path)
  /-- the array `AllocateArrayIntoA` has just built (in the real VM: register A) -/
  arrA : Option VArr
  /-- `function_result` -/
  funRes : Option Val
  /-- `return_address_stack`, top first -/
  rets : List Nat
  /-- `return_marks`: length of the register stack at each `PushRet`, top first -/
  marks : List Nat
  /-- `stacktrace`, most recent call first -/
  trace : List Pos

def Vm.init : Vm :=
  { pc := 0, regs := Regs.new, regStack := [], vals := [], paths := [], ctx := [.frame Block.empty], glob := [],
    statics := fun _ => none, out := Print.WritePrinter.new, skipNewline := false, data := [], dataIdx := 0, queue := [], arrA := none, funRes := none,
    rets := [], marks := [], trace := [] }

inductive StepRes where
  | next (σ : Vm)
  | halt (σ : Vm)
  | error (code : Nat) (p : Pos) (σ : Vm)
  | stuck

def setA (σ : Vm) (v : Val) : Vm := { σ with regs := { σ.regs with a := v } }

/-- the variables in scope for a non-shared path -/
def Vm.curFrame (σ : Vm) : Option Frame := curVars σ.statics σ.ctx

/-- `resolve_name_ptr_mut` + read -/
def Vm.getV (σ : Vm) (x : Var) (t : Ty) : Option Val :=
  if x.shared then some (getVar σ.glob x.slot t)
  else match σ.curFrame with
    | some vars => some (getVar vars x.slot t)
    | none => none

/-- `*variables_mut().get_or_create(name) = v` on the current block -/
def Vm.setLocal (σ : Vm) (i : Nat) (v : Val) : Vm :=
  match curStatic σ.ctx with
  | some f => { σ with statics := fun g => if g = f then (σ.statics f).map (fun fr => setVar fr i v) else σ.statics g }
  | none => { σ with ctx := modCur (fun vars => setVar vars i v) σ.ctx }

/-- `resolve_name_ptr_mut` + write -/
def Vm.setV (σ : Vm) (x : Var) (v : Val) : Vm :=
  if x.shared then { σ with glob := setVar σ.glob x.slot v } else σ.setLocal x.slot v

def advance (σ : Vm) : Vm := { σ with pc := σ.pc + 1 }

abbrev codeOf := _root_.RbModel.Ref.codeOf

def resA (σ : Vm) (p : Pos) : Res Val → StepRes
  | .ok v => .next (advance (setA σ v))
  | .err e => .error (codeOf e) p σ
  | .inexact => .stuck

def binInstr (op : Op) (a b : Val) : Res Val :=
  match op with
  | .divide => divide a b
  | _ => vmBin Gen.NumTables.binType op a b

/-- `READ` (`built_ins/read.rs`): every variable of the frame, in order, receives the next DATA item converted to
the type of the value it holds -/
def readVars : List Val → List Val → Nat → Except Err (List Val × Nat) ⊕ Unit
  | [], _, idx => .inl (.ok ([], idx))
  | cur :: rest, data, idx =>
    match data[idx]? with
    | none => .inr ()
    | some v =>
      match cast v cur.tag with
      | .ok w =>
        match readVars rest data (idx + 1) with
        | .inl (.ok (rs, idx')) => .inl (.ok (w :: rs, idx'))
        | r => r
      | .err e => .inl (.error e)
      | .inexact => .inl (.error .typeMismatch)

/-- push a collected argument: the top state must be collecting (`Context::arguments_mut`) -/
def pushArg (σ : Vm) (v : Val) (pth : Option Path) : Option Vm :=
  match σ.ctx with
  | .args vs :: rest => some { σ with ctx := .args (vs ++ [(v, pth)]) :: rest }
  | _ => none

/-- `QBNumberCast<i32>` of the arguments of `AllocateArrayIntoA`, in order -/
def argInts : List Val → Except Err (List Int) ⊕ Unit
  | [] => .inl (.ok [])
  | v :: rest =>
    match cast v .int with
    | .ok (.int i) =>
      match argInts rest with
      | .inl (.ok is) => .inl (.ok (i :: is))
      | r => r
    | .ok _ => .inr ()
    | .err e => .inl (.error e)
    | .inexact => .inr ()

/-- `to_dimensions`: pairs; `none` = an upper bound below its lower bound (or an odd number of arguments) -/
def toDimensions : List Int → Option (List (Int × Int))
  | [] => some []
  | lo :: hi :: rest =>
    if hi < lo then none else (toDimensions rest).map ((lo, hi) :: ·)
  | [_] => none

inductive AllocRes where
  | ok (a : VArr)
  | err (code : Nat)
  | stuck

/-- `allocate_array` for an array of scalars of type `t` -/
def allocArray (t : Ty) (args : List Val) : AllocRes :=
  match argInts args with
  | .inr () => .stuck
  | .inl (.error e) => .err (_root_.RbModel.Ref.codeOf e)
  | .inl (.ok is) =>
    match toDimensions is with
    | none => .err Ref.codeSubscript
    | some dims =>
      match Arr.dimsLenChecked dims 1 with
      | none => .err _root_.RbModel.ArrL.Ref.codeOutOfMemory
      | some n => if n > Ref.sizeLimit then .stuck else .ok (Arr.VArray.new dims (zeroOf t))

/-- the argument paths of the current ordinary block -/
def curPaths : List CtxState → List (Option Path)
  | [] => []
  | .frame b :: _ => b.apaths
  | .sframe _ :: _ => []
  | .args _ :: rest => curPaths rest

/-- `register_stack.truncate(m)` on `regs :: regStack` (top first) -/
def truncRegs (σ : Vm) (m : Nat) : Option Vm :=
  let all := σ.regs :: σ.regStack
  match all.drop (all.length - m) with
  | r :: rest => some { σ with regs := r, regStack := rest }
  | [] => none

def step (code : Code) (σ : Vm) : StepRes :=
  match code[σ.pc]? with
  | none => .stuck
  | some (i, p) =>
    match i with
    | .loadA v => .next (advance (setA σ v))
    | .copyAToB => .next (advance { σ with regs := { σ.regs with b := σ.regs.a } })
    | .copyAToC => .next (advance { σ with regs := { σ.regs with c := σ.regs.a } })
    | .copyAToD => .next (advance { σ with regs := { σ.regs with d := σ.regs.a } })
    | .copyCToB => .next (advance { σ with regs := { σ.regs with b := σ.regs.c } })
    | .copyDToA => .next (advance { σ with regs := { σ.regs with a := σ.regs.d } })
    | .copyDToB => .next (advance { σ with regs := { σ.regs with b := σ.regs.d } })
    | .bin op => resA σ p (binInstr op σ.regs.a σ.regs.b)
    | .negateA => resA σ p (negate σ.regs.a)
    | .notA => resA σ p (unaryNot σ.regs.a)
    | .cast t => resA σ p (cast σ.regs.a t)
    | .pushA => .next (advance { σ with vals := σ.regs.a :: σ.vals })
    | .popA =>
      match σ.vals with
      | [] => .stuck
      | v :: rest => .next (advance { setA σ v with vals := rest })
    | .varPath x t => .next (advance { σ with paths := .var x t :: σ.paths })
    | .arrPath a => .next (advance { σ with paths := .elem a [] :: σ.paths })
    | .pathIndex =>
      -- `var_path_index`: the generator has cast the subscript to INTEGER
      match σ.regs.a, σ.paths with
      | .int k, .elem a idx :: rest => .next (advance { σ with paths := .elem a (idx ++ [k]) :: rest })
      | _, _ => .stuck
    | .copyVarPathToA =>
      match σ.paths with
      | .var x t :: _ =>
        match σ.getV x t with
        | some v => .next (advance (setA σ v))
        | none => .stuck
      | .elem _ [] :: _ => .stuck
      | .elem a (i :: is) :: _ =>
        match curArr σ.ctx a with
        | none => .stuck
        | some none => .error Ref.codeSubscript p σ
        | some (some A) =>
          match Arr.getElem A (i :: is) with
          | some v => .next (advance (setA σ v))
          | none => .error Ref.codeSubscript p σ
      | [] => .stuck
    | .popVarPath =>
      match σ.paths with
      | [] => .stuck
      | _ :: rest => .next (advance { σ with paths := rest })
    | .copyAToVarPath =>
      match σ.paths with
      | [] => .stuck
      | .var x _ :: rest => .next (advance { σ.setV x σ.regs.a with paths := rest })
      | .elem a [] :: rest =>
        -- the array `AllocateArrayIntoA` has built goes into the variable
        match σ.arrA, curBlock σ.ctx with
        | some A, some _ => .next (advance { σ with ctx := modArr a A σ.ctx, arrA := none, paths := rest })
        | _, _ => .stuck
      | .elem a (i :: is) :: rest =>
        match curArr σ.ctx a with
        | none => .stuck
        | some none => .error Ref.codeSubscript p σ
        | some (some A) =>
          match Arr.setElem A (i :: is) σ.regs.a with
          | some A' => .next (advance { σ with ctx := modArr a A' σ.ctx, paths := rest })
          | none => .error Ref.codeSubscript p σ
    | .label _ => .next (advance σ)
    | .jump a => .next { σ with pc := a }
    | .jumpIfFalse a =>
      match _root_.RbModel.Ref.truthy σ.regs.a with
      | none => .error 13 p σ
      | some true => .next (advance σ)
      | some false => .next { σ with pc := a }
    | .pushRegs => .next (advance { σ with regs := Regs.new, regStack := σ.regs :: σ.regStack })
    | .popRegs =>
      match σ.regStack with
      | [] => .stuck
      | r :: rest => .next (advance { σ with regs := r, regStack := rest })
    | .throwZeroStep => .error _root_.RbModel.Ref.codeZeroStep p σ
    | .halt => .halt σ
    | .allocate t => .next (advance (setA σ (zeroOf t)))
    | .allocArr t =>
      match σ.ctx with
      | .args vs :: rest =>
        match allocArray t (vs.map (·.1)) with
        | .ok A => .next (advance { σ with arrA := some A, ctx := rest })
        | .err code => .error code p { σ with ctx := rest }
        | .stuck => .stuck
      | _ => .stuck
    | .printSetPrinter => .next (advance { σ with skipNewline := false })
    | .printSetFormat =>
      match σ.regs.a with
      | .str _ => .stuck
      | _ => .next (advance σ)
    | .printComma => .next (advance { σ with out := σ.out.moveToNextPrintZone, skipNewline := true })
    | .printSemicolon => .next (advance { σ with skipNewline := true })
    | .printValue =>
      match _root_.RbModel.Ref.printValue σ.regs.a with
      | none => .stuck
      | some pv => .next (advance { σ with out := σ.out.print (Print.valueText pv), skipNewline := false })
    | .printEnd =>
      if σ.skipNewline then .next (advance { σ with skipNewline := false })
      else .next (advance { σ with out := σ.out.println })
    | .beginArgs => .next (advance { σ with ctx := .args [] :: σ.ctx })
    | .pushByVal =>
      match pushArg σ σ.regs.a none with
      | some σ' => .next (advance σ')
      | none => .stuck
    | .pushNamed _ _ =>
      match pushArg σ σ.regs.a none with
      | some σ' => .next (advance σ')
      | none => .stuck
    | .pushByRef =>
      match σ.paths with
      | [] => .stuck
      | pth :: rest =>
        match pushArg { σ with paths := rest } σ.regs.a (some pth) with
        | some σ' => .next (advance σ')
        | none => .stuck
    | .pushNamedByRef _ _ =>
      match σ.paths with
      | [] => .stuck
      | pth :: rest =>
        match pushArg { σ with paths := rest } σ.regs.a (some pth) with
        | some σ' => .next (advance σ')
        | none => .stuck
    | .pushStack =>
      -- `stop_collecting_arguments`: the collected values become the variables of a new block
      match σ.ctx with
      | .args vs :: rest =>
        .next (advance { σ with ctx := .frame ⟨vs.map (fun a => some a.1), [], vs.map (·.2)⟩ :: rest, trace := p :: σ.trace })
      | _ => .stuck
    | .isDefined x =>
      -- `variables().get_by_dim_name(..).is_some()` as a BASIC truth value
      match σ.curFrame with
      | some vars =>
        match vars[x]? with
        | some (some _) => .next (advance (setA σ (.int (-1))))
        | _ => .next (advance (setA σ (.int 0)))
      | none => .stuck
    | .pushStatic f =>
      -- `stop_collecting_arguments_static`: the block of `f` is created by the first call, re-used afterwards
      match σ.ctx with
      | .args vs :: rest =>
        let blk := match σ.statics f with
          | some fr => applyArgs fr (vs.map (·.1))
          | none => vs.map (fun a => some a.1)
        .next (advance { σ with ctx := .sframe f :: rest, trace := p :: σ.trace,
                                statics := fun g => if g = f then some blk else σ.statics g })
      | _ => .stuck
    | .popStack =>
      -- `Context::pop` + `stacktrace.remove(0)`; a STATIC block stays in `statics`
      match σ.ctx, σ.trace with
      | .frame _ :: c :: rest, _ :: tr => .next (advance { σ with ctx := c :: rest, trace := tr })
      | .sframe _ :: c :: rest, _ :: tr => .next (advance { σ with ctx := c :: rest, trace := tr })
      | _, _ => .stuck
    | .pushRet a =>
      .next (advance { σ with rets := a :: σ.rets, marks := (σ.regStack.length + 1) :: σ.marks })
    | .popRet =>
      match σ.rets, σ.marks with
      | a :: rets, m :: marks =>
        match truncRegs σ m with
        | some σ' => .next { σ' with pc := a, rets := rets, marks := marks }
        | none => .stuck
      | _, _ => .stuck
    | .builtInData =>
      match σ.ctx with
      | .frame b :: _ =>
        match b.vars.mapM id with
        | some vs => .next (advance { σ with data := σ.data ++ vs })
        | none => .stuck
      | _ => .stuck
    | .builtInRead =>
      match σ.ctx with
      | .frame b :: rest =>
        match b.vars.mapM id with
        | none => .stuck
        | some vs =>
          match readVars vs σ.data σ.dataIdx with
          | .inr () => .error _root_.RbModel.Ref.codeOutOfData (σ.trace.headD p) σ
          | .inl (.error e) => .error (codeOf e) (σ.trace.headD p) σ
          | .inl (.ok (vs', idx')) =>
            .next (advance { σ with ctx := .frame { b with vars := vs'.map some } :: rest, dataIdx := idx' })
      | _ => .stuck
    | .enqueue i =>
      match σ.curFrame with
      | some vars =>
        match vars[i]? with
        | some (some v) => .next (advance { σ with queue := σ.queue ++ [(v, (curPaths σ.ctx)[i]?.join)] })
        | _ => .stuck
      | none => .stuck
    | .dequeue =>
      match σ.queue with
      | [] => .stuck
      | (v, _) :: rest => .next (advance { setA σ v with queue := rest })
    | .dequeuePath =>
      match σ.queue with
      | (v, some pth) :: rest => .next (advance { setA σ v with queue := rest, paths := pth :: σ.paths })
      | _ => .stuck
    | .stashResult x t =>
      match σ.curFrame with
      | some vars => .next (advance { σ with funRes := some (getVar vars x t) })
      | none => .stuck
    | .unStash =>
      match σ.funRes with
      | some v => .next (advance { setA σ v with funRes := none })
      | none => .stuck

inductive RunRes where
  | halted (σ : Vm)
  | error (code : Nat) (p : Pos) (σ : Vm)
  | stuck
  | outOfFuel

def run (code : Code) : Nat → Vm → RunRes
  | 0, _ => .outOfFuel
  | fuel + 1, σ =>
    match step code σ with
    | .next σ' => run code fuel σ'
    | .halt σ' => .halted σ'
    | .error c p σ' => .error c p σ'
    | .stuck => .stuck

end RbModel.ProcArr.Vm
