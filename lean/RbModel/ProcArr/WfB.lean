import RbModel.ProcArr.Syntax
import Gen.NumTables
/-!
# RbModel.ProcArr.WfB — the executable premise checker proposed for `ProcArr.compile_correct` (property C03, combined layer)

COMBINED LAYER: the checker of the procedures layer (text below the line) extended: an element `a(i…)` names an array of the
scope at its element type, has at least one subscript, every subscript is well formed and not a string; `DIM a(…)` of an
array names an array of the scope at its element type, has at least one dimension, every bound is well formed and not a
string, and does not occur in a STATIC procedure; an element actual is not passed to a STATIC callee; a STATIC procedure has
no arrays.

----
# the executable premise checker of `Proc.compile_correct` (property C03)

`progWfB prog` is the decidable form of the static premise `RbThm.ProcSim.ProgWf` of the simulation theorem for the procedures
layer (`Thm/ProcSim.lean`); `Thm/ProcWf.lean` proves `progWfB prog = true → ProgWf prog`.  This file has no theorem imports: the driver
evaluates `progWfB` on every program the harness explores (request `proc.wf`), so the evidence says on how many of them
the theorem applies.

What it checks, per scope (main module: `inProc = false`; procedure: `inProc = true`, slot table of the declaration;
`st` = the procedure is STATIC): every variable is a slot of the scope — or, when marked shared, of the table of DIM
SHARED variables — used at the slot's type; a DIM inside a STATIC procedure is the guarded form `sdim` and occurs nowhere else; an operator node carries the type the checker's table
(`Gen.NumTables.binType`, extracted from `cast_binary_op`) gives for its operand types (`/` excepted: it is followed by
a `Cast`); a call names an existing FUNCTION / SUB with exactly the annotated parameters, a by-reference actual has the
parameter's type; conditions of IF / WHILE / DO are not strings; `CASE IS` uses a relational operator, a CASE has at
least one item; a missing ELSE part is empty; DATA only at the top level of the main module; `EXIT SUB / FUNCTION` only
inside a procedure; the slot table of a procedure starts with its parameter types and (FUNCTION) its result type
(`ProcDecl.wfSlots`).
-/
namespace RbModel.ProcArr
open RbModel RbModel.Num
open RbModel.Ast (Pos)

mutual
def eWfB (sg : Sigs) (sl : SlotTabs) : ProcArr.Expr → Bool
  | .lit _ _ => true
  | .var x t _ => decide (sl.get? x = some t)
  | .un _ e _ => eWfB sg sl e
  | .bin op l r t _ =>
    eWfB sg sl l && eWfB sg sl r && (decide (op = .divide) || decide (Gen.NumTables.binType op l.ty r.ty = some t))
  | .paren e _ => eWfB sg sl e
  | .callFn f args t _ =>
    decide (sg[f]? = some (some t, args.params)) && aWfB sg sl (sl.stat.getD f false) args
  | .elem a idx t _ => decide (sl.arrs[a]? = some t) && decide (idx.length ≠ 0) && idxWfB sg sl idx
/-- subscripts: well formed and numeric -/
def idxWfB (sg : Sigs) (sl : SlotTabs) : Exprs → Bool
  | .nil => true
  | .cons e rest => eWfB sg sl e && decide (e.ty ≠ .str) && idxWfB sg sl rest
/-- `cs`: the callee is STATIC -/
def aWfB (sg : Sigs) (sl : SlotTabs) (cs : Bool) : Args → Bool
  | .nil => true
  | .cons e _ pt rest =>
    eWfB sg sl e && (!e.isRef || decide (e.ty = pt)) && (!e.isElem || !cs) && aWfB sg sl cs rest
end

def dimsWfB (sg : Sigs) (sl : SlotTabs) : Dims → Bool
  | .nil => true
  | .cons lo hi rest =>
    (match lo with | some e => eWfB sg sl e && decide (e.ty ≠ .str) | none => true) &&
      eWfB sg sl hi && decide (hi.ty ≠ .str) && dimsWfB sg sl rest

def itemsWfB (sg : Sigs) (sl : SlotTabs) : List PrintItem → Bool
  | [] => true
  | .expr e :: rest => eWfB sg sl e && itemsWfB sg sl rest
  | _ :: rest => itemsWfB sg sl rest

def selRelOpB (op : Op) : Bool :=
  decide (op = .less) || decide (op = .lessOrEqual) || decide (op = .equal) || decide (op = .greaterOrEqual) ||
    decide (op = .greater) || decide (op = .notEqual)

def caseWfB (sg : Sigs) (sl : SlotTabs) : CaseExpr → Bool
  | .simple e => eWfB sg sl e
  | .is op e => selRelOpB op && eWfB sg sl e
  | .range lo hi => eWfB sg sl lo && eWfB sg sl hi

def condsWfB (sg : Sigs) (sl : SlotTabs) : List CaseExpr → Bool
  | [] => true
  | c :: rest => caseWfB sg sl c && condsWfB sg sl rest

def isSkipB : SStmt → Bool
  | .skip => true
  | _ => false

def readWfB (sl : SlotTabs) : List (Var × Ty × Pos) → Bool
  | [] => true
  | v :: rest => decide (sl.get? v.1 = some v.2.1) && readWfB sl rest

mutual
def wfB (sg : Sigs) (sl : SlotTabs) (inProc st : Bool) : SStmt → Bool
  | .skip => true
  | .comment => true
  | .seq a b => wfB sg sl inProc st a && wfB sg sl inProc st b
  | .dim x t _ => decide (sl.get? x = some t) && !st
  | .sdim x t _ => decide (sl.loc[x]? = some t) && st
  | .assign x t e _ => decide (sl.get? x = some t) && eWfB sg sl e
  | .dimArr a t dims _ => decide (sl.arrs[a]? = some t) && decide (dims.length ≠ 0) && dimsWfB sg sl dims && !st
  | .assignElem a t idx e _ =>
    decide (sl.arrs[a]? = some t) && decide (idx.length ≠ 0) && idxWfB sg sl idx && eWfB sg sl e
  | .print items _ => itemsWfB sg sl items
  | .ifBlock c thn elifs hasElse els _ =>
    eWfB sg sl c && decide (c.ty ≠ .str) && wfB sg sl inProc st thn && wfElifsB sg sl inProc st elifs && wfB sg sl inProc st els &&
      (hasElse || isSkipB els)
  | .while c body _ => eWfB sg sl c && decide (c.ty ≠ .str) && wfB sg sl inProc st body
  | .doLoop c _ _ body _ => eWfB sg sl c && decide (c.ty ≠ .str) && wfB sg sl inProc st body
  | .end_ _ => true
  | .data _ _ => false
  | .read vars _ => readWfB sl vars
  | .select e cases hasElse els _ =>
    eWfB sg sl e && wfCasesB sg sl inProc st cases && wfB sg sl inProc st els && (hasElse || isSkipB els)
  | .forLoop x t lo hi step body _ =>
    decide (sl.get? x = some t) && eWfB sg sl lo && eWfB sg sl hi &&
      (match step with | some se => eWfB sg sl se | none => true) && wfB sg sl inProc st body
  | .callSub f args _ => decide (sg[f]? = some (none, args.params)) && aWfB sg sl (sl.stat.getD f false) args
  | .exitProc _ => inProc
def wfElifsB (sg : Sigs) (sl : SlotTabs) (inProc st : Bool) : ElseIfs → Bool
  | .nil => true
  | .cons c body rest => eWfB sg sl c && decide (c.ty ≠ .str) && wfB sg sl inProc st body && wfElifsB sg sl inProc st rest
def wfCasesB (sg : Sigs) (sl : SlotTabs) (inProc st : Bool) : SCases → Bool
  | .nil => true
  | .cons conds body rest => !conds.isEmpty && condsWfB sg sl conds && wfB sg sl inProc st body && wfCasesB sg sl inProc st rest
end

def wfTopB (sg : Sigs) (sl : SlotTabs) (inProc st : Bool) : SStmt → Bool
  | .seq a b => wfTopB sg sl inProc st a && wfTopB sg sl inProc st b
  | .data _ _ => true
  | s => wfB sg sl inProc st s

def progWfB (prog : SProgram) : Bool :=
  let stat := prog.procs.map (·.static)
  wfTopB (sigsOf prog.procs) ⟨prog.slots, prog.gslots, prog.arrs, stat⟩ false false prog.body &&
    prog.procs.all fun d => d.wfSlots && (!d.static || d.arrs.isEmpty) &&
      wfB (sigsOf prog.procs) ⟨d.slots, prog.gslots, d.arrs, stat⟩ true d.static d.body


end RbModel.ProcArr
