import RbModel.ProcArr.Syntax
import RbModel.Ref
import RbModel.ArrL.Ref
/-!
# RbModel.ProcArr.Ref — big-step reference semantics with SUB / FUNCTION calls and arrays (property C03, combined layer, phase A)

COMBINED LAYER: the reference semantics of the procedures layer (`RbModel/Proc/Ref.lean`, whose text follows the line)
extended with arrays of scalars.  An array value is `ArrL.Ref.RArr` (element type, declared bounds, a FINITE MAP from index
tuples to the values stored so far; every other element of the index box reads zero / ""), exactly as in the arrays layer.
New rules:
* every activation of an ordinary procedure has its own arrays (`St.arrs`, all undimensioned at entry); the main module
  has its own; a callee cannot name an array of its caller; back in the caller its arrays are as they were at the call
  (`call`), then the write-backs happen;
* `DIM a(l TO u, …)`: bound expressions left to right (they may call functions: the state is threaded), then conversion to
  INTEGER left to right, then `u < l` is error 9, all at the DIM's position; more than `sizeLimit` elements: `tooBig`
  (outside the language);
* subscripts (`evalIdx`): left to right, each evaluated (threading the state) and converted to INTEGER like the right-hand
  side of an assignment to an INTEGER variable, errors at the subscript's position;
* element read (`evalElem`): subscripts, then Subscript out of range (9) at the element's position iff the number of
  subscripts differs from the number of dimensions, a subscript lies outside its bounds, or the array's DIM has not run
  (real code since 37f5df4);
* element assignment: right-hand side (converted) FIRST, then the subscripts, then the check (9 at the statement);
* an ELEMENT as by-reference actual (`evalArg`): the element is read as above WHEN THE ARGUMENT IS EVALUATED (in argument
  order, so subscripts are evaluated once, left to right, interleaved with the other arguments; an out-of-range subscript
  is error 9 before the call); the LOCATION `(array, index tuple)` denoted then is kept with the argument; after the call
  the callee's final value of the parameter is stored into THAT location (`writeBack`, left to right: the rightmost wins
  when one element is passed twice) — whatever the callee did to the variables the subscript expressions mention.

----
# big-step reference semantics with SUB / FUNCTION calls (property C03, phase A)

The reference semantics of C01 (`RbModel.Ref`) extended with procedure calls; the SPECIFICATION side of the
tie: written from the language rules (property C03's text), not from the generator or the VM.

What a call does (`call`):
1. the actual arguments are evaluated left to right in the CALLER's environment, each converted to the type of
   its parameter (`storeCast`: no conversion when the static type already is the parameter type — in
   particular never for a by-reference actual); an argument expression may itself call functions (output,
   write-backs and errors of those calls happen then, in order);
2. an ordinary procedure gets a fresh activation environment: the parameter slots hold the argument values,
   every other slot (locals, result variable) holds zero / the empty string — also for a recursive activation;
   a STATIC procedure has ONE environment for the whole run (`St.statics f`, all zero at the start): a call
   rebinds the parameter slots in it, resets the result variable of a FUNCTION to zero / empty and leaves every
   other slot as the previous activation left it — a
   recursive activation works on the same environment (so the outer activation finds its parameters and
   locals as the inner one left them);
3. the body runs in that environment; `DIM SHARED` variables (`St.glob`) are one store for all scopes;
   `EXIT SUB/FUNCTION` (`exited`) ends the body normally; `END` (`halted`), an error, `inexact`
   or `outOfFuel` end the whole run;
4. write-back, left to right: for every actual that is a plain variable `x` (`Expr.isRef`), `x` in the
   caller's environment receives the final value of the corresponding parameter (so the rightmost wins
   when one variable is passed twice, and a write-back overwrites what a function called in a LATER argument
   wrote to the same variable: by-reference is copy-in at evaluation time / copy-out after the call);
5. a FUNCTION yields the final value of its result variable (the last value assigned to its name, zero /
   empty if none).

Because a function call may occur in any expression, expression evaluation threads the state and everything
is one mutual recursion on fuel (each constructor consumes one unit; the helpers `evalTo`, `evalCond`,
`printItems`, `caseMatches`, `anyMatches` do too).  Errors are `(code, position)` and end the run; the
position of a failed by-value conversion is the argument's position.

Global (not per-activation) state: the output printer, the DATA items and the READ cursor, the DIM SHARED
variables, the environments of the STATIC procedures.
-/
namespace RbModel.ProcArr.Ref
open RbModel RbModel.Num RbModel.ProcArr
open RbModel.Ast (Pos)

abbrev codeOf := _root_.RbModel.Ref.codeOf
abbrev binStep := _root_.RbModel.Ref.binStep
abbrev printValue := _root_.RbModel.Ref.printValue
abbrev truthy := _root_.RbModel.Ref.truthy
def codeOutOfData : Nat := 4
def codeZeroStep : Nat := 258
def codeSubscript : Nat := 9

abbrev RArr := _root_.RbModel.ArrL.Ref.RArr
abbrev sizeLimit := _root_.RbModel.ArrL.Ref.sizeLimit
abbrev boxSize := _root_.RbModel.ArrL.Ref.boxSize

/-- the location of an array element: array number (in the scope of the activation) and index tuple -/
abbrev Loc := Nat × List Int

structure St where
  /-- the environment of the CURRENT activation when it is not an activation of a STATIC procedure -/
  env : List Val
  /-- `some f`: the current activation belongs to the STATIC procedure `f`; its variables are `statics f` -/
  self : Option Nat
  /-- the DIM SHARED variables -/
  glob : List Val
  /-- the persistent environment of every (STATIC) procedure -/
  statics : Nat → List Val
  /-- the arrays of the CURRENT activation (`none`: the array's DIM has not run) -/
  arrs : List (Option RArr)
  out : Print.WritePrinter
  data : List Val
  dataIdx : Nat

inductive Outcome where
  | normal
  /-- EXIT SUB / EXIT FUNCTION: leaves the enclosing blocks of the current procedure body -/
  | exited
  /-- END / SYSTEM: the whole run ends normally -/
  | halted
  | error (code : Nat) (p : Pos)
  | inexact
  | outOfFuel
  /-- a call of a procedure that does not exist (excluded by `SProgram.wf`) -/
  | illFormed
  /-- an array with more than `sizeLimit` elements: outside the language -/
  | tooBig
  deriving Inhabited

/-- the variables of the current activation -/
def St.locals (s : St) : List Val :=
  match s.self with
  | none => s.env
  | some f => s.statics f

def St.setLocal (s : St) (i : Nat) (v : Val) : St :=
  match s.self with
  | none => { s with env := s.env.set i v }
  | some f => { s with statics := fun g => if g = f then (s.statics f).set i v else s.statics g }

/-- the value of a variable (a slot that was never written reads as zero of its type) -/
def St.get (s : St) (x : Var) (t : Ty) : Val :=
  if x.shared then s.glob.getD x.slot (zeroOf t) else s.locals.getD x.slot (zeroOf t)

def St.set (s : St) (x : Var) (v : Val) : St :=
  if x.shared then { s with glob := s.glob.set x.slot v } else s.setLocal x.slot v

def St.setArr (s : St) (a : Nat) (A : RArr) : St := { s with arrs := s.arrs.set a (some A) }

/-- store into an element location (the array exists and the index is inside its box whenever the location was obtained
from `evalElem` in this activation) -/
def St.setElem (s : St) (a : Nat) (is : List Int) (v : Val) : St :=
  match s.arrs[a]? with
  | some (some A) => s.setArr a (A.set is v)
  | _ => s

/-- the element at `is` of array `a`: Subscript out of range at `p` unless the array is dimensioned and `is` lies in its box -/
def St.readElem (s : St) (a : Nat) (is : List Int) (p : Pos) : Except Outcome Val :=
  match s.arrs[a]? with
  | some (some A) => if A.inBounds is then .ok (A.get is) else .error (.error codeSubscript p)
  | _ => .error (.error codeSubscript p)

/-- conversion of the evaluated bounds of a DIM to INTEGER, left to right; errors at the DIM's position -/
def convDims (p : Pos) : List (Val × Val) → Except Outcome (List (Int × Int))
  | [] => .ok []
  | (l, h) :: rest =>
    match cast l .int with
    | .err e => .error (.error (codeOf e) p)
    | .inexact => .error .inexact
    | .ok (.int lo) =>
      match cast h .int with
      | .err e => .error (.error (codeOf e) p)
      | .inexact => .error .inexact
      | .ok (.int hi) =>
        match convDims p rest with
        | .ok ds => .ok ((lo, hi) :: ds)
        | .error o => .error o
      | .ok _ => .error .illFormed
    | .ok _ => .error .illFormed

/-- `DIM a(dims)` from the evaluated bounds: the new array (every element zero / ""), or how the statement fails -/
def dimArray (t : Ty) (bs : List (Val × Val)) (p : Pos) : Except Outcome RArr :=
  match convDims p bs with
  | .error o => .error o
  | .ok bounds =>
    if bounds.any (fun b => decide (b.2 < b.1)) then .error (.error codeSubscript p)
    else if boxSize bounds > sizeLimit then .error .tooBig
    else .ok ⟨t, bounds, []⟩

def liftR (s : St) (p : Pos) : Res Val → St × Except Outcome Val
  | .ok v => (s, .ok v)
  | .err e => (s, .error (.error (codeOf e) p))
  | .inexact => (s, .error .inexact)

def endsInSeparator : List PrintItem → Bool
  | [] => false
  | [.comma] => true
  | [.semicolon] => true
  | [_] => false
  | _ :: rest => endsInSeparator rest

def relTest (p : Pos) (op : Op) (a b : Val) : Except Outcome Bool :=
  match tryCmp a b with
  | .ok o => .ok (relHolds op o)
  | .err e => .error (.error (codeOf e) p)
  | .inexact => .error .inexact

inductive StepSign where
  | neg | pos | zero

def stepSign (p : Pos) (s : Val) : Except Outcome StepSign :=
  match relTest p .less s (.int 0) with
  | .error o => .error o
  | .ok true => .ok .neg
  | .ok false =>
    match relTest p .greater s (.int 0) with
    | .error o => .error o
    | .ok true => .ok .pos
    | .ok false => .ok .zero

/-- the activation environment of a call: argument values, then zero for every other slot -/
def freshEnv (slots : List Ty) (vals : List Val) : List Val :=
  vals ++ (slots.drop vals.length).map zeroOf

/-- the environment of a STATIC procedure at the start of a call: the parameters are rebound, every other slot
keeps the value it has -/
def rebind (old vals : List Val) : List Val := vals ++ old.drop vals.length

/-- by-reference write-back, left to right: `i` = index of the argument = slot of its parameter; `callee` = the
callee's variables when it returned, `s` = the state back in the caller's activation -/
def writeOne : Expr → Option Loc → Val → St → St
  | .var x _ _, _, v, s => s.set x v
  | .elem _ _ _ _, some (a, is), v, s => s.setElem a is v
  | _, _, _, s => s

/-- `avs` = the evaluated arguments (value, location of an element actual) in argument order -/
def writeBack : Args → List (Val × Option Loc) → Nat → List Val → St → St
  | .cons e _ _ rest, av :: avs, i, callee, s =>
    writeBack rest avs (i + 1) callee (writeOne e av.2 (callee.getD i (zeroOf e.ty)) s)
  | _, _, _, _, s => s

/-- the callee's activation with the parameters bound, `s1` = the caller's state after the arguments -/
def enterCore (d : ProcDecl Stmt) (f : Nat) (vals : List Val) (s1 : St) : St :=
  if d.static then
    { s1 with self := some f, statics := fun g => if g = f then rebind (s1.statics f) vals else s1.statics g,
              arrs := d.arrs.map fun _ => none }
  else { s1 with self := none, env := freshEnv d.slots vals, arrs := d.arrs.map fun _ => none }

/-- the state in which the body of `d` (procedure `f`) starts: the result variable of a STATIC FUNCTION is not one of
the variables that persist — every call starts with the result at zero / the empty string (for an ordinary FUNCTION the
fresh environment has it at zero anyway) -/
def enter (d : ProcDecl Stmt) (f : Nat) (vals : List Val) (s1 : St) : St :=
  match d.static, d.result with
  | true, some rt => (enterCore d f vals s1).set ⟨false, d.resultSlot⟩ (zeroOf rt)
  | _, _ => enterCore d f vals s1

/-- does the body's outcome let the call return? -/
def returns : Outcome → Bool
  | .normal => true
  | .exited => true
  | _ => false

mutual
def eval (P : Program) : Nat → Expr → St → St × Except Outcome Val
  | 0, _, s => (s, .error .outOfFuel)
  | _ + 1, .lit v _, s => (s, .ok v)
  | _ + 1, .var x t _, s => (s, .ok (s.get x t))
  | fuel + 1, .un op e p, s =>
    match eval P fuel e s with
    | (s1, .ok v) => liftR s1 p (match op with | .neg => negate v | .not => unaryNot v)
    | r => r
  | fuel + 1, .bin op l r t p, s =>
    match eval P fuel l s with
    | (s1, .ok a) =>
      match eval P fuel r s1 with
      | (s2, .ok b) => liftR s2 p (binStep op t a b)
      | r => r
    | r => r
  | fuel + 1, .paren e _, s => eval P fuel e s
  | fuel + 1, .callFn f args _ _, s => call P fuel f args s
  | fuel + 1, .elem a idx _ p, s =>
    match evalElem P fuel a idx p s with
    | (s1, .ok (v, _)) => (s1, .ok v)
    | (s1, .error o) => (s1, .error o)
/-- the subscripts, left to right, each converted to INTEGER at its own position -/
def evalIdx (P : Program) : Nat → Exprs → St → St × Except Outcome (List Int)
  | 0, _, s => (s, .error .outOfFuel)
  | _ + 1, .nil, s => (s, .ok [])
  | fuel + 1, .cons e rest, s =>
    match evalTo P fuel e .int s with
    | (s1, .error o) => (s1, .error o)
    | (s1, .ok (.int i)) =>
      match evalIdx P fuel rest s1 with
      | (s2, .error o) => (s2, .error o)
      | (s2, .ok is) => (s2, .ok (i :: is))
    | (s1, .ok _) => (s1, .error .illFormed)
/-- an element: its value and the index tuple the subscripts denote NOW -/
def evalElem (P : Program) : Nat → Nat → Exprs → Pos → St → St × Except Outcome (Val × List Int)
  | 0, _, _, _, s => (s, .error .outOfFuel)
  | fuel + 1, a, idx, p, s =>
    match evalIdx P fuel idx s with
    | (s1, .error o) => (s1, .error o)
    | (s1, .ok is) =>
      match s1.readElem a is p with
      | .ok v => (s1, .ok (v, is))
      | .error o => (s1, .error o)
/-- the value of an expression converted to the type of the location that receives it -/
def evalTo (P : Program) : Nat → Expr → Ty → St → St × Except Outcome Val
  | 0, _, _, s => (s, .error .outOfFuel)
  | fuel + 1, e, target, s =>
    match eval P fuel e s with
    | (s1, .ok v) => liftR s1 e.pos (storeCast e.ty target v)
    | r => r
/-- one actual argument: its value converted to the parameter type and, for an array element, the location it denotes -/
def evalArg (P : Program) : Nat → Expr → Ty → St → St × Except Outcome (Val × Option Loc)
  | 0, _, _, s => (s, .error .outOfFuel)
  | fuel + 1, .elem a idx t p, pt, s =>
    match evalElem P fuel a idx p s with
    | (s1, .error o) => (s1, .error o)
    | (s1, .ok (v, is)) =>
      match liftR s1 p (storeCast t pt v) with
      | (s2, .ok w) => (s2, .ok (w, some (a, is)))
      | (s2, .error o) => (s2, .error o)
  | fuel + 1, e, pt, s =>
    match evalTo P fuel e pt s with
    | (s1, .error o) => (s1, .error o)
    | (s1, .ok v) => (s1, .ok (v, none))
def evalArgs (P : Program) : Nat → Args → St → St × Except Outcome (List (Val × Option Loc))
  | 0, _, s => (s, .error .outOfFuel)
  | _ + 1, .nil, s => (s, .ok [])
  | fuel + 1, .cons e _ pt rest, s =>
    match evalArg P fuel e pt s with
    | (s1, .error o) => (s1, .error o)
    | (s1, .ok v) =>
      match evalArgs P fuel rest s1 with
      | (s2, .error o) => (s2, .error o)
      | (s2, .ok vs) => (s2, .ok (v :: vs))
/-- the bound expressions of a DIM, left to right (a missing lower bound is 0) -/
def evalDims (P : Program) : Nat → Dims → St → St × Except Outcome (List (Val × Val))
  | 0, _, s => (s, .error .outOfFuel)
  | _ + 1, .nil, s => (s, .ok [])
  | fuel + 1, .cons lo hi rest, s =>
    match (match lo with | none => (s, Except.ok (Val.int 0)) | some e => eval P fuel e s) with
    | (s1, .error o) => (s1, .error o)
    | (s1, .ok l) =>
      match eval P fuel hi s1 with
      | (s2, .error o) => (s2, .error o)
      | (s2, .ok h) =>
        match evalDims P fuel rest s2 with
        | (s3, .error o) => (s3, .error o)
        | (s3, .ok ds) => (s3, .ok ((l, h) :: ds))
/-- a call of procedure `f`; the value is the FUNCTION's result (`int 0` for a SUB, unused) -/
def call (P : Program) : Nat → Nat → Args → St → St × Except Outcome Val
  | 0, _, _, s => (s, .error .outOfFuel)
  | fuel + 1, f, args, s =>
    match P.procs[f]? with
    | none => (s, .error .illFormed)
    | some d =>
      match evalArgs P fuel args s with
      | (s1, .error o) => (s1, .error o)
      | (s1, .ok avs) =>
        match exec P fuel d.body (enter d f (avs.map (·.1)) s1) with
        | (s2, o) =>
          if returns o then
            let res := match d.result with
              | some rt => s2.locals.getD d.resultSlot (zeroOf rt)
              | none => .int 0
            -- back in the caller's activation: its own environment is as it was (nothing else can name it);
            -- so are its arrays; the SHARED variables and the STATIC environments are as the callee left them
            (writeBack args avs 0 s2.locals { s2 with env := s1.env, self := s1.self, arrs := s1.arrs }, .ok res)
          else (s2, .error o)
def printItems (P : Program) : Nat → List PrintItem → St → St × Outcome
  | 0, _, s => (s, .outOfFuel)
  | _ + 1, [], s => (s, .normal)
  | fuel + 1, .comma :: rest, s => printItems P fuel rest { s with out := s.out.moveToNextPrintZone }
  | fuel + 1, .semicolon :: rest, s => printItems P fuel rest s
  | fuel + 1, .expr e :: rest, s =>
    match eval P fuel e s with
    | (s1, .error o) => (s1, o)
    | (s1, .ok v) =>
      match printValue v with
      | none => (s1, .inexact)
      | some pv => printItems P fuel rest { s1 with out := s1.out.print (Print.valueText pv) }
def evalCond (P : Program) : Nat → Expr → St → St × Except Outcome Bool
  | 0, _, s => (s, .error .outOfFuel)
  | fuel + 1, c, s =>
    match eval P fuel c s with
    | (s1, .error o) => (s1, .error o)
    | (s1, .ok v) =>
      match truthy v with
      | some b => (s1, .ok b)
      | none => (s1, .error (.error 13 c.pos))
def caseMatches (P : Program) : Nat → Pos → Val → CaseExpr → St → St × Except Outcome Bool
  | 0, _, _, _, s => (s, .error .outOfFuel)
  | fuel + 1, p, subject, .simple e, s =>
    match eval P fuel e s with
    | (s1, .error o) => (s1, .error o)
    | (s1, .ok v) => (s1, relTest p .equal subject v)
  | fuel + 1, p, subject, .is op e, s =>
    match eval P fuel e s with
    | (s1, .error o) => (s1, .error o)
    | (s1, .ok v) => (s1, relTest p op subject v)
  | fuel + 1, p, subject, .range lo hi, s =>
    match eval P fuel lo s with
    | (s1, .error o) => (s1, .error o)
    | (s1, .ok l) =>
      match relTest p .greaterOrEqual subject l with
      | .error o => (s1, .error o)
      | .ok false => (s1, .ok false)
      | .ok true =>
        match eval P fuel hi s1 with
        | (s2, .error o) => (s2, .error o)
        | (s2, .ok h) => (s2, relTest p .lessOrEqual subject h)
def anyMatches (P : Program) : Nat → Pos → Val → List CaseExpr → St → St × Except Outcome Bool
  | 0, _, _, _, s => (s, .error .outOfFuel)
  | _ + 1, _, _, [], s => (s, .ok false)
  | fuel + 1, p, subject, c :: rest, s =>
    match caseMatches P fuel p subject c s with
    | (s1, .error o) => (s1, .error o)
    | (s1, .ok true) => (s1, .ok true)
    | (s1, .ok false) => anyMatches P fuel p subject rest s1
/-- `exec P fuel stmt state`: the state after the statement (output included) and how it ended -/
def exec (P : Program) : Nat → Stmt → St → St × Outcome
  | 0, _, s => (s, .outOfFuel)
  | _ + 1, .skip, s => (s, .normal)
  | fuel + 1, .seq a b, s =>
    match exec P fuel a s with
    | (s', .normal) => exec P fuel b s'
    | r => r
  | fuel + 1, .assign x t e _, s =>
    match evalTo P fuel e t s with
    | (s1, .ok v) => (s1.set x v, .normal)
    | (s1, .error o) => (s1, o)
  | fuel + 1, .dimArr a t dims p, s =>
    match evalDims P fuel dims s with
    | (s1, .error o) => (s1, o)
    | (s1, .ok bs) =>
      match dimArray t bs p with
      | .ok A => (s1.setArr a A, .normal)
      | .error o => (s1, o)
  | fuel + 1, .assignElem a t idx e p, s =>
    -- right-hand side first, then the subscripts, then the bounds check at the statement's position
    match evalTo P fuel e t s with
    | (s1, .error o) => (s1, o)
    | (s1, .ok v) =>
      match evalIdx P fuel idx s1 with
      | (s2, .error o) => (s2, o)
      | (s2, .ok is) =>
        match s2.readElem a is p with
        | .ok _ => (s2.setElem a is v, .normal)
        | .error o => (s2, o)
  | fuel + 1, .print items _, s =>
    match printItems P fuel items s with
    | (s', .normal) =>
      if endsInSeparator items then (s', .normal) else ({ s' with out := s'.out.println }, .normal)
    | r => r
  | _ + 1, .read x t p, s =>
    match s.data[s.dataIdx]? with
    | none => (s, .error codeOutOfData p)
    | some v =>
      match cast v t with
      | .ok w => ({ s.set x w with dataIdx := s.dataIdx + 1 }, .normal)
      | .err e => (s, .error (codeOf e) p)
      | .inexact => (s, .inexact)
  | fuel + 1, .ifs c thn els _, s =>
    match evalCond P fuel c s with
    | (s1, .error o) => (s1, o)
    | (s1, .ok true) => exec P fuel thn s1
    | (s1, .ok false) => exec P fuel els s1
  | fuel + 1, .select e cases p, s =>
    match eval P fuel e s with
    | (s1, .error o) => (s1, o)
    | (s1, .ok subject) => execCases P fuel p subject cases s1
  | fuel + 1, .forLoop x t lo hi step body p, s =>
    match evalTo P fuel lo t s with
    | (s1, .error o) => (s1, o)
    | (s1, .ok l) =>
      match evalTo P fuel hi t (s1.set x l) with
      | (s2, .error o) => (s2, o)
      | (s2, .ok h) =>
        match step with
        | none => forIter P fuel x t h (.int 1) true body p s2
        | some se =>
          match eval P fuel se s2 with
          | (s3, .error o) => (s3, o)
          | (s3, .ok sv) =>
            match stepSign p sv with
            | .error o => (s3, o)
            | .ok .neg => forIter P fuel x t h sv false body p s3
            | .ok .pos => forIter P fuel x t h sv true body p s3
            | .ok .zero => (s3, .error codeZeroStep se.pos)
  | fuel + 1, .while c body p, s =>
    match evalCond P fuel c s with
    | (s1, .error o) => (s1, o)
    | (s1, .ok false) => (s1, .normal)
    | (s1, .ok true) =>
      match exec P fuel body s1 with
      | (s', .normal) => exec P fuel (.while c body p) s'
      | r => r
  | fuel + 1, .doLoop c top until_ body p, s =>
    if top then
      match evalCond P fuel c s with
      | (s1, .error o) => (s1, o)
      | (s1, .ok b) =>
        if b != until_ then
          match exec P fuel body s1 with
          | (s', .normal) => exec P fuel (.doLoop c top until_ body p) s'
          | r => r
        else (s1, .normal)
    else
      match exec P fuel body s with
      | (s', .normal) =>
        match evalCond P fuel c s' with
        | (s1, .error o) => (s1, o)
        | (s1, .ok b) => if b != until_ then exec P fuel (.doLoop c top until_ body p) s1 else (s1, .normal)
      | r => r
  | _ + 1, .end_ _, s => (s, .halted)
  | fuel + 1, .callSub f args _, s =>
    match call P fuel f args s with
    | (s', .ok _) => (s', .normal)
    | (s', .error o) => (s', o)
  | _ + 1, .exitProc _, s => (s, .exited)
def execCases (P : Program) : Nat → Pos → Val → Cases → St → St × Outcome
  | 0, _, _, _, s => (s, .outOfFuel)
  | _ + 1, _, _, .nil, s => (s, .normal)
  | fuel + 1, _, _, .else_ body, s => exec P fuel body s
  | fuel + 1, p, subject, .case conds body rest, s =>
    match anyMatches P fuel p subject conds s with
    | (s1, .error o) => (s1, o)
    | (s1, .ok true) => exec P fuel body s1
    | (s1, .ok false) => execCases P fuel p subject rest s1
def forIter (P : Program) : Nat → Var → Ty → Val → Val → Bool → Stmt → Pos → St → St × Outcome
  | 0, _, _, _, _, _, _, _, s => (s, .outOfFuel)
  | fuel + 1, x, t, h, sv, up, body, p, s =>
    let cur := s.get x t
    match relTest p (if up then .lessOrEqual else .greaterOrEqual) cur h with
    | .error o => (s, o)
    | .ok false => (s, .normal)
    | .ok true =>
      match exec P fuel body s with
      | (s', .normal) =>
        let cur' := s'.get x t
        match (plus cur' sv).bind (fun v => cast v t) with
        | .ok v => forIter P fuel x t h sv up body p (s'.set x v)
        | .err e => (s', .error (codeOf e) p)
        | .inexact => (s', .inexact)
      | r => r
end

/-- the state a run starts in: every variable of every scope is zero / empty -/
def St.init (P : Program) : St :=
  { env := P.slots.map zeroOf, self := none, glob := P.gslots.map zeroOf,
    statics := fun f => match P.procs[f]? with | some d => d.slots.map zeroOf | none => [],
    arrs := P.arrs.map fun _ => none,
    out := Print.WritePrinter.new, data := P.data, dataIdx := 0 }

/-- run a whole program -/
def run (fuel : Nat) (P : Program) : St × Outcome :=
  exec P fuel P.body (St.init P)

end RbModel.ProcArr.Ref
