import RbModel.Ast
import RbModel.Instr
/-!
# RbModel.ProcArr.Syntax — core language + SUB / FUNCTION + arrays of scalars in every ordinary scope (property C03, combined layer, phase A)

COMBINED LAYER: this file is `RbModel/Proc/Syntax.lean` (procedures layer) extended with arrays of scalars as in
`RbModel/ArrL/Syntax.lean`: `DIM a(l TO u, …)` / `REDIM` in the main module and inside ordinary (non-STATIC) procedures
(`dimArr`; an array of a procedure is local to the activation), element read `a(i…)` (`Expr.elem`) and element
assignment (`assignElem`) with subscripts that are arbitrary numeric expressions — function calls included —, and array
ELEMENTS as by-reference actuals of user SUB / FUNCTION calls (`Expr.isRef`: a variable or an element; the generator
passes an element with `PushNamedByRef` and writes it back through `DequeueFromReturnStackWithPath`).  Arrays are
numbered per scope, apart from the scalar slots (`ProcDecl.arrs`, `SProgram.arrs`: element types).
Outside this layer (the serialiser `harness/src/procarr_sx.rs` answers `None`): DIM SHARED arrays, arrays in STATIC
procedures, an element actual of a STATIC callee (the real interpreter keeps the resolved path of a by-reference actual in
the callee's memory block, which a recursive activation of a STATIC procedure overwrites — see the report), whole arrays as
arguments, LBOUND / UBOUND, elements as READ targets, records, fixed-length strings.

Everything below the line is the text of the procedures layer.

----
# core language + SUB / FUNCTION (property C03, phase A)

The core language of `RbModel.Ast` / `RbModel.Src` (property C01) extended with user procedures, as the
linter hands it to the code generator (`rusty_parser::{Program, GlobalStatement, Statement, Expression}`
after `rusty_linter::core::lint`):

* a program = main body + a list of procedures (`ProcDecl`: SUB or FUNCTION, label name, typed scalar
  parameters, slot table, body; a FUNCTION also has a result type);
* statements gain `callSub f args p` and `exitProc p` (EXIT SUB / EXIT FUNCTION);
* expressions gain `callFn f args t p`.

Conventions (the serialiser `harness/src/proc_sx.rs` establishes them, `Program.wf` checks them):

* procedures are numbered in the order the generator places them after the main module's `Halt`:
  all FUNCTIONs in source order, then all SUBs in source order (`InstructionGenerator::generate_unresolved`);
  `f` in `callSub` / `callFn` is that index;
* every scope (main module, each procedure) has its own slot table; in a procedure the parameters are the
  slots `0 … n-1` in declaration order, for a FUNCTION slot `n` is the result variable (the variable with the
  function's own qualified name), all other variables follow in order of first occurrence;
* every actual argument is annotated with the parameter it binds to (`Args.cons e pname pty rest`): the name
  and type the generator looks up in `SubprogramInfoRepository` when it emits `PushNamed`; `Program.wf`
  checks the annotation against the callee's declaration;
* by-reference rule (`Expression::is_by_ref` + `lint_by_ref_arg`): an argument that is syntactically a
  variable is passed by reference and the linter has already rejected it unless its type IS the parameter
  type; everything else (literal, operator, parenthesised variable, function call) is by value and is
  converted to the parameter type.  `Expr.isRef` is that rule.

Scopes of variables (extension: SHARED / STATIC / CONST):

* a variable reference is a `Var`: `⟨false, i⟩` = slot `i` of the scope it occurs in (main module: a variable
  of the main module that is not `DIM SHARED`; procedure: a parameter, the result variable or a local),
  `⟨true, i⟩` = slot `i` of the table of `DIM SHARED` variables (`SProgram.gslots`), whatever scope it occurs
  in — `linter_names.get_resolved_variable_info(scope, name).shared`, the flag the generator copies into
  `RootPath { shared }`;
* `ProcDecl.static`: `SUB … STATIC` / `FUNCTION … STATIC` (`is_static`): all variables of the procedure
  (parameters, result variable, locals) live in ONE persistent block per procedure; the result variable of a
  STATIC FUNCTION is reset to zero / empty at every call (repair 7b64dfe in /repo).  The real generator omits
  that reset when a parameter carries the function's own (bare) name — such a parameter IS the result
  variable; here the result variable is never a parameter (slot `n` after the `n` parameters), and the
  serialiser answers `None` for a FUNCTION with such a parameter;
* inside a STATIC procedure every DIM (the linter also inserts one before the first use of every undeclared
  variable) is guarded by `IsVariableDefined`: `SStmt.sdim`;
* a use of a global `CONST` is already a literal in the linted tree (`expression_reducer`), the `CONST`
  statement itself generates nothing: the serialiser drops it.

Excluded (the types leave room): arrays / records / fixed-length strings (a by-reference actual is a
root path only), GOSUB / GOTO / labels, ON ERROR,
DEF FN.  `proc_sx.rs` answers `None` for a program that uses any of them.

Two levels as in C01: `SStmt` is the faithful syntax the generator sees (ELSEIF chains, optional ELSE,
DATA, DIM, multi-variable READ) — `Proc.Compile` is defined on it; `Stmt` is the leaner syntax the
reference semantics `Proc.Ref` runs on; `desugar` relates them.
-/
namespace RbModel.ProcArr
open RbModel RbModel.Num
open RbModel.Ast (Pos ty? op? val? pos?)

/-- a scalar variable reference: `shared = true` — slot of the table of DIM SHARED variables; `false` — slot of
the scope the reference occurs in -/
structure Var where
  shared : Bool
  slot : Nat
  deriving DecidableEq, Inhabited, Repr

/-- the slot tables a reference is resolved against: the scope's own table and the DIM SHARED table -/
structure SlotTabs where
  loc : List Ty
  glob : List Ty
  /-- element types of the arrays of the scope -/
  arrs : List Ty := []
  /-- the STATIC flag of every procedure of the program (an element actual is not passed to a STATIC callee) -/
  stat : List Bool := []

/-- the type of a variable reference -/
def SlotTabs.get? (tabs : SlotTabs) (x : Var) : Option Ty :=
  if x.shared then tabs.glob[x.slot]? else tabs.loc[x.slot]?

mutual
inductive Expr where
  | lit (v : Val) (p : Pos)
  | var (x : Var) (t : Ty) (p : Pos)
  | un (op : UnOp) (e : Expr) (p : Pos)
  /-- `t` is the static type the linter resolved for the node (`expression_type()`) -/
  | bin (op : Op) (l r : Expr) (t : Ty) (p : Pos)
  | paren (e : Expr) (p : Pos)
  /-- call of user FUNCTION number `f`; `t` = its result type (the qualifier of the resolved name) -/
  | callFn (f : Nat) (args : Args) (t : Ty) (p : Pos)
  /-- element `a(idx)` of array number `a` (of the scope the reference occurs in) with element type `t` -/
  | elem (a : Nat) (idx : Exprs) (t : Ty) (p : Pos)
/-- a subscript list -/
inductive Exprs where
  | nil
  | cons (e : Expr) (rest : Exprs)
/-- actual arguments, each with the name and type of the parameter it binds to -/
inductive Args where
  | nil
  | cons (e : Expr) (pname : String) (pty : Ty) (rest : Args)
end

instance : Inhabited Expr := ⟨.lit (.int 0) ⟨0, 0⟩⟩
instance : Inhabited Args := ⟨.nil⟩
instance : Inhabited Exprs := ⟨.nil⟩

def Expr.pos : Expr → Pos
  | .lit _ p => p | .var _ _ p => p | .un _ _ p => p | .bin _ _ _ _ p => p | .paren _ p => p
  | .callFn _ _ _ p => p | .elem _ _ _ p => p

/-- `expression_type()` of the linted node -/
def Expr.ty : Expr → Ty
  | .lit v _ => v.tag
  | .var _ t _ => t
  | .un _ e _ => e.ty
  | .bin _ _ _ t _ => t
  | .paren e _ => e.ty
  | .callFn _ _ t _ => t
  | .elem _ _ t _ => t

/-- `Expression::is_by_ref`: a plain variable or an array element -/
def Expr.isRef : Expr → Bool
  | .var _ _ _ => true
  | .elem _ _ _ _ => true
  | _ => false

/-- `has_array_indices`: the by-reference actual travels with its resolved path -/
def Expr.isElem : Expr → Bool
  | .elem _ _ _ _ => true
  | _ => false

def Exprs.length : Exprs → Nat
  | .nil => 0
  | .cons _ rest => rest.length + 1

/-- the dimensions of a `DIM`: optional lower bound, upper bound -/
inductive Dims where
  | nil
  | cons (lo : Option Expr) (hi : Expr) (rest : Dims)
  deriving Inhabited

def Dims.length : Dims → Nat
  | .nil => 0
  | .cons _ _ rest => rest.length + 1

def Args.length : Args → Nat
  | .nil => 0
  | .cons _ _ _ rest => rest.length + 1

inductive PrintItem where
  | expr (e : Expr)
  | comma
  | semicolon
  deriving Inhabited

inductive CaseExpr where
  | simple (e : Expr)
  | is (op : Op) (e : Expr)
  | range (lo hi : Expr)
  deriving Inhabited

/-! ### the lean syntax of the reference semantics -/

mutual
inductive Stmt where
  | skip
  | seq (a b : Stmt)
  | assign (x : Var) (t : Ty) (e : Expr) (p : Pos)
  | dimArr (a : Nat) (t : Ty) (dims : Dims) (p : Pos)
  | assignElem (a : Nat) (t : Ty) (idx : Exprs) (e : Expr) (p : Pos)
  | print (items : List PrintItem) (p : Pos)
  | read (x : Var) (t : Ty) (p : Pos)
  | ifs (c : Expr) (thn els : Stmt) (p : Pos)
  | select (e : Expr) (cases : Cases) (p : Pos)
  | forLoop (x : Var) (t : Ty) (lo hi : Expr) (step : Option Expr) (body : Stmt) (p : Pos)
  | while (c : Expr) (body : Stmt) (p : Pos)
  | doLoop (c : Expr) (top until_ : Bool) (body : Stmt) (p : Pos)
  | end_ (p : Pos)
  | callSub (f : Nat) (args : Args) (p : Pos)
  | exitProc (p : Pos)
inductive Cases where
  | nil
  | else_ (body : Stmt)
  | case (conds : List CaseExpr) (body : Stmt) (rest : Cases)
end

instance : Inhabited Stmt := ⟨.skip⟩

/-! ### the faithful syntax of the generator -/

mutual
inductive SStmt where
  | skip
  | seq (a b : SStmt)
  | comment
  | dim (x : Var) (t : Ty) (p : Pos)
  /-- DIM of the local `x` inside a STATIC procedure (also the implicit DIM the linter inserts before the first use
  of an undeclared variable): allocates only if the variable does not exist yet (`IsVariableDefined`) -/
  | sdim (x : Nat) (t : Ty) (p : Pos)
  | assign (x : Var) (t : Ty) (e : Expr) (p : Pos)
  /-- `DIM` / `REDIM` of an array (the generator emits the same code for both) -/
  | dimArr (a : Nat) (t : Ty) (dims : Dims) (p : Pos)
  | assignElem (a : Nat) (t : Ty) (idx : Exprs) (e : Expr) (p : Pos)
  | print (items : List PrintItem) (p : Pos)
  | data (items : List (Val × Pos)) (p : Pos)
  | read (vars : List (Var × Ty × Pos)) (p : Pos)
  | ifBlock (c : Expr) (thn : SStmt) (elifs : ElseIfs) (hasElse : Bool) (els : SStmt) (p : Pos)
  | select (e : Expr) (cases : SCases) (hasElse : Bool) (els : SStmt) (p : Pos)
  | forLoop (x : Var) (t : Ty) (lo hi : Expr) (step : Option Expr) (body : SStmt) (p : Pos)
  | while (c : Expr) (body : SStmt) (p : Pos)
  | doLoop (c : Expr) (top until_ : Bool) (body : SStmt) (p : Pos)
  | end_ (p : Pos)
  | callSub (f : Nat) (args : Args) (p : Pos)
  | exitProc (p : Pos)
inductive ElseIfs where
  | nil
  | cons (c : Expr) (body : SStmt) (rest : ElseIfs)
inductive SCases where
  | nil
  | cons (conds : List CaseExpr) (body : SStmt) (rest : SCases)
end

instance : Inhabited SStmt := ⟨.skip⟩

/-- `FunctionImplementation` / `SubImplementation` (scalars only) -/
structure ProcDecl (body : Type) where
  /-- `some t`: a FUNCTION with result type `t`; `none`: a SUB -/
  result : Option Ty
  /-- the text after `:fun:` / `:sub:` in the procedure's label (`format_subprogram_label`) -/
  name : String
  /-- parameter names (bare, as declared) and types; parameter `i` is slot `i` -/
  params : List (String × Ty)
  /-- types of all slots of an activation: parameters, (result variable), locals -/
  slots : List Ty
  body : body
  /-- position of the implementation (label, default-result instruction and final `PopRet` carry it) -/
  pos : Pos
  /-- `is_static`: `SUB name (…) STATIC` -/
  static : Bool := false
  /-- element types of the arrays of an activation (empty for a STATIC procedure) -/
  arrs : List Ty := []

/-- slot of the result variable of a FUNCTION: right after the parameters -/
def ProcDecl.resultSlot {β : Type} (d : ProcDecl β) : Nat := d.params.length

structure SProgram where
  slots : List Ty
  /-- types of the DIM SHARED variables -/
  gslots : List Ty
  /-- element types of the arrays of the main module -/
  arrs : List Ty
  body : SStmt
  procs : List (ProcDecl SStmt)

/-- what the reference semantics runs -/
structure Program where
  slots : List Ty
  gslots : List Ty
  arrs : List Ty
  data : List Val
  body : Stmt
  procs : List (ProcDecl Stmt)

def zeroOf : Ty → Val
  | .int => .int 0 | .long => .long 0 | .sgl => .sgl 0 | .dbl => .dbl 0 | .str => .str []

/-! ### desugaring -/

def readSeq (p : Pos) : List (Var × Ty × Pos) → Stmt
  | [] => .skip
  | (x, t, _) :: rest => .seq (.read x t p) (readSeq p rest)

mutual
def desugar : SStmt → Stmt
  | .skip => .skip
  | .seq a b => .seq (desugar a) (desugar b)
  | .comment => .skip
  | .dim x t p => .assign x t (.lit (zeroOf t) p) p
  -- the variable keeps its value: the first time it is zero anyway, later it persists
  | .sdim _ _ _ => .skip
  | .assign x t e p => .assign x t e p
  | .dimArr a t dims p => .dimArr a t dims p
  | .assignElem a t idx e p => .assignElem a t idx e p
  | .print items p => .print items p
  | .data _ _ => .skip
  | .read vars p => readSeq p vars
  | .ifBlock c thn elifs _ els p => .ifs c (desugar thn) (desugarElifs elifs (desugar els) p) p
  | .select e cases hasElse els p =>
    .select e (desugarCases cases (if hasElse then .else_ (desugar els) else .nil)) p
  | .forLoop x t lo hi step body p => .forLoop x t lo hi step (desugar body) p
  | .while c body p => .while c (desugar body) p
  | .doLoop c top u body p => .doLoop c top u (desugar body) p
  | .end_ p => .end_ p
  | .callSub f args p => .callSub f args p
  | .exitProc p => .exitProc p
def desugarElifs : ElseIfs → Stmt → Pos → Stmt
  | .nil, els, _ => els
  | .cons c body rest, els, p => .ifs c (desugar body) (desugarElifs rest els p) p
def desugarCases : SCases → Cases → Cases
  | .nil, tail => tail
  | .cons conds body rest, tail => .case conds (desugar body) (desugarCases rest tail)
end

/-- DATA items in program order (only top-level statements of the main module carry DATA) -/
def dataOf : SStmt → List Val
  | .seq a b => dataOf a ++ dataOf b
  | .data items _ => items.map (·.1)
  | _ => []

def SProgram.toAst (sp : SProgram) : Program :=
  ⟨sp.slots, sp.gslots, sp.arrs, dataOf sp.body, desugar sp.body,
   sp.procs.map fun d => { d with body := desugar d.body }⟩

/-! ### well-formedness of the call annotations (decidable; the driver checks it on every program) -/

/-- the annotated parameters of an argument list -/
def Args.params : Args → List (String × Ty)
  | .nil => []
  | .cons _ n t rest => (n, t) :: rest.params

/-- signature table: for every procedure its result type and parameters -/
abbrev Sigs := List (Option Ty × List (String × Ty))

def sigsOf {β : Type} (procs : List (ProcDecl β)) : Sigs := procs.map fun d => (d.result, d.params)

mutual
/-- every call names an existing procedure of the right kind, with the declared parameters; a by-reference
actual has the parameter's type (`lint_by_ref_arg`) -/
def Expr.wf (sg : Sigs) : Expr → Bool
  | .lit _ _ => true
  | .var _ _ _ => true
  | .un _ e _ => e.wf sg
  | .bin _ l r _ _ => l.wf sg && r.wf sg
  | .paren e _ => e.wf sg
  | .callFn f args t _ =>
    (match sg[f]? with
     | some (some rt, ps) => rt == t && ps == args.params
     | _ => false) && args.wf sg
  | .elem _ idx _ _ => idx.wf sg
def Exprs.wf (sg : Sigs) : Exprs → Bool
  | .nil => true
  | .cons e rest => e.wf sg && rest.wf sg
def Args.wf (sg : Sigs) : Args → Bool
  | .nil => true
  | .cons e _ pt rest => e.wf sg && (!e.isRef || e.ty == pt) && rest.wf sg
end

def PrintItem.wf (sg : Sigs) : PrintItem → Bool
  | .expr e => e.wf sg
  | _ => true

def CaseExpr.wf (sg : Sigs) : CaseExpr → Bool
  | .simple e => e.wf sg
  | .is _ e => e.wf sg
  | .range lo hi => lo.wf sg && hi.wf sg

def Dims.wf (sg : Sigs) : Dims → Bool
  | .nil => true
  | .cons lo hi rest => (match lo with | some e => e.wf sg | none => true) && hi.wf sg && rest.wf sg

mutual
/-- `inProc`: EXIT SUB / EXIT FUNCTION only inside a procedure -/
def SStmt.wf (sg : Sigs) (inProc : Bool) : SStmt → Bool
  | .skip => true
  | .seq a b => a.wf sg inProc && b.wf sg inProc
  | .comment => true
  | .dim _ _ _ => true
  | .sdim _ _ _ => inProc
  | .assign _ _ e _ => e.wf sg
  | .dimArr _ _ dims _ => dims.wf sg
  | .assignElem _ _ idx e _ => idx.wf sg && e.wf sg
  | .print items _ => items.all (PrintItem.wf sg)
  | .data _ _ => !inProc
  | .read _ _ => true
  | .ifBlock c thn elifs _ els _ => c.wf sg && thn.wf sg inProc && elifs.wf sg inProc && els.wf sg inProc
  | .select e cases _ els _ => e.wf sg && cases.wf sg inProc && els.wf sg inProc
  | .forLoop _ _ lo hi step body _ =>
    lo.wf sg && hi.wf sg && (match step with | some s => s.wf sg | none => true) && body.wf sg inProc
  | .while c body _ => c.wf sg && body.wf sg inProc
  | .doLoop c _ _ body _ => c.wf sg && body.wf sg inProc
  | .end_ _ => true
  | .callSub f args _ =>
    (match sg[f]? with
     | some (none, ps) => ps == args.params
     | _ => false) && args.wf sg
  | .exitProc _ => inProc
def ElseIfs.wf (sg : Sigs) (inProc : Bool) : ElseIfs → Bool
  | .nil => true
  | .cons c body rest => c.wf sg && body.wf sg inProc && rest.wf sg inProc
def SCases.wf (sg : Sigs) (inProc : Bool) : SCases → Bool
  | .nil => true
  | .cons conds body rest => conds.all (CaseExpr.wf sg) && body.wf sg inProc && rest.wf sg inProc
end

/-- a declaration's slot table starts with the parameter types, then (FUNCTION) the result type -/
def ProcDecl.wfSlots {β : Type} (d : ProcDecl β) : Bool :=
  let pre := d.params.map (·.2) ++ (match d.result with | some t => [t] | none => [])
  d.slots.take pre.length == pre

def SProgram.wf (sp : SProgram) : Bool :=
  let sg := sigsOf sp.procs
  sp.body.wf sg false && sp.procs.all fun d => d.wfSlots && d.body.wf sg true && (!d.static || d.arrs.isEmpty)

/-! ### reader of the serialised linted program (`harness/src/proc_sx.rs`) -/

/-- `<slot>` (own scope) or `(g <slot>)` (DIM SHARED table) -/
def var? : Sexp → Option Var
  | .list [.atom "g", x] => do pure ⟨true, ← x.nat?⟩
  | x => do pure ⟨false, ← x.nat?⟩

mutual
partial def expr? : Sexp → Option Expr
  | .list [.atom "lit", v, r, c] => do pure (.lit (← val? v) (← pos? r c))
  | .list [.atom "var", x, t, r, c] => do pure (.var (← var? x) (← ty? t) (← pos? r c))
  | .list [.atom "neg", e, r, c] => do pure (.un .neg (← expr? e) (← pos? r c))
  | .list [.atom "not", e, r, c] => do pure (.un .not (← expr? e) (← pos? r c))
  | .list [.atom "bin", o, l, rr, t, r, c] => do
      pure (.bin (← op? o) (← expr? l) (← expr? rr) (← ty? t) (← pos? r c))
  | .list [.atom "paren", e, r, c] => do pure (.paren (← expr? e) (← pos? r c))
  | .list [.atom "callfn", f, .list args, t, r, c] => do
      pure (.callFn (← f.nat?) (← args? args) (← ty? t) (← pos? r c))
  | .list [.atom "elem", a, .list idx, t, r, c] => do
      pure (.elem (← a.nat?) (← exprs? idx) (← ty? t) (← pos? r c))
  | _ => none
partial def exprs? : List Sexp → Option Exprs
  | [] => some .nil
  | e :: rest => do pure (.cons (← expr? e) (← exprs? rest))
/-- `((<expr> <param name> <param ty>) …)` -/
partial def args? : List Sexp → Option Args
  | [] => some .nil
  | .list [e, n, t] :: rest => do
      pure (.cons (← expr? e) (← Instr.str? n) (← ty? t) (← args? rest))
  | _ => none
end

def item? : Sexp → Option PrintItem
  | .atom "comma" => some .comma
  | .atom "semi" => some .semicolon
  | .list [.atom "e", e] => do pure (.expr (← expr? e))
  | _ => none

def caseExpr? : Sexp → Option CaseExpr
  | .list [.atom "simple", e] => do pure (.simple (← expr? e))
  | .list [.atom "is", o, e] => do pure (.is (← op? o) (← expr? e))
  | .list [.atom "range", a, b] => do pure (.range (← expr? a) (← expr? b))
  | _ => none

/-- `((<lo expr | none> <hi expr>) …)` -/
def dims? : List Sexp → Option Dims
  | [] => some .nil
  | .list [.atom "none", hi] :: rest => do pure (.cons none (← expr? hi) (← dims? rest))
  | .list [lo, hi] :: rest => do pure (.cons (some (← expr? lo)) (← expr? hi) (← dims? rest))
  | _ => none

mutual
partial def sstmt? : Sexp → Option SStmt
  | .atom "comment" => some .comment
  | .list [.atom "dim", x, t, r, c] => do pure (.dim (← var? x) (← ty? t) (← pos? r c))
  | .list [.atom "sdim", x, t, r, c] => do pure (.sdim (← x.nat?) (← ty? t) (← pos? r c))
  | .list [.atom "assign", x, t, e, r, c] => do
      pure (.assign (← var? x) (← ty? t) (← expr? e) (← pos? r c))
  | .list [.atom "dimarr", a, t, .list dims, r, c] => do
      pure (.dimArr (← a.nat?) (← ty? t) (← dims? dims) (← pos? r c))
  | .list [.atom "assignel", a, t, .list idx, e, r, c] => do
      pure (.assignElem (← a.nat?) (← ty? t) (← exprs? idx) (← expr? e) (← pos? r c))
  | .list [.atom "print", .list items, r, c] => do
      pure (.print (← items.mapM item?) (← pos? r c))
  | .list [.atom "data", .list items, r, c] => do
      let its ← items.mapM fun it => match it with
        | .list [v, ir, ic] => do pure ((← val? v), (← pos? ir ic))
        | _ => none
      pure (.data its (← pos? r c))
  | .list [.atom "read", .list vars, r, c] => do
      let vs ← vars.mapM fun v => match v with
        | .list [x, t, vr, vc] => do pure ((← var? x), (← ty? t), (← pos? vr vc))
        | _ => none
      pure (.read vs (← pos? r c))
  | .list [.atom "if", cnd, thn, .list elifs, els, r, c] => do
      let (he, eb) ← optBlock? els
      pure (.ifBlock (← expr? cnd) (← sblock? thn) (← elifs? elifs) he eb (← pos? r c))
  | .list [.atom "select", e, .list cs, els, r, c] => do
      let (he, eb) ← optBlock? els
      pure (.select (← expr? e) (← scases? cs) he eb (← pos? r c))
  | .list [.atom "for", x, t, lo, hi, st, body, r, c] => do
      let step ← match st with
        | .atom "none" => pure none
        | s => do pure (some (← expr? s))
      pure (.forLoop (← var? x) (← ty? t) (← expr? lo) (← expr? hi) step (← sblock? body) (← pos? r c))
  | .list [.atom "while", cnd, body, r, c] => do
      pure (.while (← expr? cnd) (← sblock? body) (← pos? r c))
  | .list [.atom "do", cnd, top, unt, body, r, c] => do
      pure (.doLoop (← expr? cnd) (← top.bool?) (← unt.bool?) (← sblock? body) (← pos? r c))
  | .list [.atom "end", r, c] => do pure (.end_ (← pos? r c))
  | .list [.atom "callsub", f, .list args, r, c] => do
      pure (.callSub (← f.nat?) (← args? args) (← pos? r c))
  | .list [.atom "exit", r, c] => do pure (.exitProc (← pos? r c))
  | _ => none
partial def sblock? : Sexp → Option SStmt
  | .list [] => some .skip
  | .list (s :: rest) => do pure (.seq (← sstmt? s) (← sblock? (.list rest)))
  | _ => none
partial def optBlock? : Sexp → Option (Bool × SStmt)
  | .atom "none" => some (false, .skip)
  | b => do pure (true, ← sblock? b)
partial def elifs? : List Sexp → Option ElseIfs
  | [] => some .nil
  | .list [c, body] :: rest => do pure (.cons (← expr? c) (← sblock? body) (← elifs? rest))
  | _ => none
partial def scases? : List Sexp → Option SCases
  | [] => some .nil
  | .list [.list conds, body] :: rest => do
      pure (.cons (← conds.mapM caseExpr?) (← sblock? body) (← scases? rest))
  | _ => none
end

def param? : Sexp → Option (String × Ty)
  | .list [n, t] => do pure (← Instr.str? n, ← ty? t)
  | _ => none

/-- `(proc <fn ty | sub> <static: t | f> <label name> ((<pname> <ty>)…) (<slot ty>…) (<array element ty>…) (<stmt>…) <row> <col>)` -/
def proc? : Sexp → Option (ProcDecl SStmt)
  | .list [.atom "proc", kind, st, name, .list params, .list slots, .list arrs, body, r, c] => do
      let result ← match kind with
        | .atom "sub" => pure none
        | .list [.atom "fn", t] => do pure (some (← ty? t))
        | _ => none
      pure { result, name := ← Instr.str? name, params := ← params.mapM param?, slots := ← slots.mapM ty?,
             body := ← sblock? body, pos := ← pos? r c, static := ← st.bool?, arrs := ← arrs.mapM ty? }
  | _ => none

/-- `(paprogram (<main ty>…) (<shared ty>…) (<main array element ty>…) (<stmt>…) (<proc>…))` -/
def sprogram? : Sexp → Option SProgram
  | .list [.atom "paprogram", .list slots, .list gslots, .list arrs, body, .list procs] => do
      pure ⟨← slots.mapM ty?, ← gslots.mapM ty?, ← arrs.mapM ty?, ← sblock? body, ← procs.mapM proc?⟩
  | _ => none

end RbModel.ProcArr
