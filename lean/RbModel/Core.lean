import RbModel.Src
import RbModel.Instr
/-!
Model of the code generator for the core language
(`rusty_basic/src/instruction_generator/{main, statement, expression, loops, if_block,
select_case, print, calls, dim}.rs` restricted to the constructs of `Src.SStmt`).

`compile` emits a list of *core instructions* `CInstr` with absolute, already resolved branch
addresses (the real generator emits named labels and resolves them in a second pass; here the
address of every label is computed structurally, and the label names are emitted too so that the
list can be compared with the real one instruction for instruction).  `normalise` maps the real
instruction list (`RbModel.Instr`, read from `generate_instructions`) into the same vocabulary.
The correspondence check demands `compile p = normalise (real list)` for every core program.
-/
set_option linter.unusedVariables false

namespace RbModel.Core
open RbModel RbModel.Num RbModel.Ast RbModel.Src

/-- core instructions: variables are slots, literals are `Val`s, branch targets are addresses -/
inductive CInstr where
  | loadA (v : Val)
  | copyAToB | copyAToC | copyAToD | copyCToB | copyDToA | copyDToB
  | bin (op : Op)
  | negateA | notA
  | cast (t : Ty)
  | pushA | popA
  | varPath (x : Nat) | copyVarPathToA | popVarPath | copyAToVarPath
  | label (name : String)
  | jump (a : Nat) | jumpIfFalse (a : Nat)
  | pushRegs | popRegs
  | throwZeroStep
  | halt
  | allocate (t : Ty)
  | printSetPrinter | printSetFormat | printComma | printSemicolon | printValue | printEnd
  | beginArgs | pushByVal | pushByRef | pushStack | popStack
  | builtInData | builtInRead
  | enqueue (i : Nat) | dequeue
  deriving DecidableEq, Inhabited

abbrev Code := List (CInstr × Pos)

/-- `format!("_{}_{:?}{}", prefix, pos, suffix)` -/
def labelName (pref : String) (p : Pos) (suffix : String) : String :=
  "_" ++ pref ++ "_Position { row: " ++ toString p.row ++ ", col: " ++ toString p.col ++ " }" ++ suffix

/-! ### expressions: `generate_expression_instructions` -/

def compileExpr : Ast.Expr → Code
  | .lit v p => [(.loadA v, p)]
  | .var x _ p => [(.varPath x, p), (.copyVarPathToA, p), (.popVarPath, p)]
  | .un .neg e p => compileExpr e ++ [(.negateA, p)]
  | .un .not e p => compileExpr e ++ [(.notA, p)]
  | .bin op l r t p =>
    compileExpr l ++ [(.pushA, p)] ++ compileExpr r ++ [(.copyAToB, p), (.popA, p), (.bin op, p)] ++
      (if op = .divide then [(.cast t, p)] else [])
  | .paren e _ => compileExpr e

/-- `generate_expression_instructions_casting` -/
def compileExprTo (e : Ast.Expr) (target : Ty) : Code :=
  compileExpr e ++ (if e.ty = target then [] else [(.cast target, e.pos)])

def storeVar (x : Nat) (p : Pos) : Code := [(.varPath x, p), (.copyAToVarPath, p)]

def loadVar (x : Nat) (p : Pos) : Code := [(.varPath x, p), (.copyVarPathToA, p), (.popVarPath, p)]

def compileItem (p : Pos) : PrintItem → Code
  | .expr e => compileExpr e ++ [(.printValue, e.pos)]
  | .comma => [(.printComma, p)]
  | .semicolon => [(.printSemicolon, p)]

/-- one CASE item: `generate_case_expression` (jump to `next` when it does not match) -/
def compileCaseExpr (p : Pos) (next : Nat) : CaseExpr → Code
  | .simple e =>
    compileExpr e ++ [(.copyAToB, p), (.popA, p), (.pushA, p), (.bin .equal, p), (.jumpIfFalse next, p)]
  | .is op e =>
    compileExpr e ++ [(.copyAToB, p), (.popA, p), (.pushA, p), (.bin op, p), (.jumpIfFalse next, p)]
  | .range lo hi =>
    compileExpr lo ++ [(.copyAToB, p), (.popA, p), (.pushA, p), (.bin .greaterOrEqual, p), (.jumpIfFalse next, p)] ++
    compileExpr hi ++ [(.copyAToB, p), (.popA, p), (.pushA, p), (.bin .lessOrEqual, p), (.jumpIfFalse next, p)]

def sizeCaseExpr : CaseExpr → Nat
  | .simple e => (compileExpr e).length + 5
  | .is _ e => (compileExpr e).length + 5
  | .range lo hi => (compileExpr lo).length + 5 + (compileExpr hi).length + 5

/-! ### sizes (needed to place forward labels) -/

def sizeItems : List PrintItem → Nat
  | [] => 0
  | .expr e :: rest => (compileExpr e).length + 1 + sizeItems rest
  | _ :: rest => 1 + sizeItems rest

/-- size of the code of the condition list of one CASE block (`generate_case_expressions`) -/
def sizeConds : List CaseExpr → Nat
  | [] => 0
  | [c] => sizeCaseExpr c
  | c :: rest => sizeCaseExpr c + 1 /- jump to statements -/ + 1 /- label of next expr -/ + sizeConds rest

mutual
def sizeStmt : SStmt → Nat
  | .skip => 0
  | .seq a b => sizeStmt a + sizeStmt b
  | .comment => 0
  | .dim _ _ _ => 3
  | .assign _ t e _ => (compileExprTo e t).length + 2
  | .print items _ => 3 + sizeItems items + 1
  | .data items _ => 1 + 2 * items.length + 3
  | .read vars _ => 1 + 3 * vars.length + 2 + vars.length + 1 + 3 * vars.length
  | .ifBlock c thn elifs hasElse els _ =>
    (compileExpr c).length + 1 + sizeStmt thn + 1 + sizeElifs elifs + (if hasElse then 1 + sizeStmt els else 0) + 1
  | .select e cases hasElse els _ =>
    (compileExpr e).length + 1 + 3 + sizeCases cases + (if hasElse then 1 + sizeStmt els else 0) + 3
  | .forLoop x t lo hi step body p =>
    (compileExprTo lo t).length + 2 + (compileExprTo hi t).length +
    (match step with
     | none => 6 + sizeForBody x body + 1
     | some s => 1 + (compileExpr s).length + 11 + sizeForBody x body + 2 + 3 + sizeForBody x body + 4)
  | .while c body _ => 1 + (compileExpr c).length + 1 + sizeStmt body + 2
  | .doLoop c top u body _ =>
    if top then 1 + (compileExpr c).length + (if u then 3 else 1) + sizeStmt body + 2
    else 1 + sizeStmt body + (compileExpr c).length + (if u then 1 else 2) + 1
  | .end_ _ => 1
/-- loop head + body + increment (`generate_for_loop_instructions_positive_or_negative_step`) -/
def sizeForBody (_x : Nat) (body : SStmt) : Nat :=
  1 + 1 + 3 + 1 + 1 + 1 + sizeStmt body + 1 + 3 + 2 + 1 + 2 + 1
def sizeElifs : ElseIfs → Nat
  | .nil => 0
  | .cons c body rest => 1 + (compileExpr c).length + 1 + sizeStmt body + 1 + sizeElifs rest
def sizeCases : SCases → Nat
  | .nil => 0
  | .cons conds body rest =>
    1 + sizeConds conds + (if conds.length > 1 then 1 else 0) + sizeStmt body + 1 + sizeCases rest
end

/-! ### statements: `Visitor<StatementPos>` and the per-construct generators

`off` is the address of the first emitted instruction, `sfx` the current label suffix. -/

def compileItems (p : Pos) : List PrintItem → Code
  | [] => []
  | it :: rest => compileItem p it ++ compileItems p rest

/-- the condition list of CASE block `bi` starting at `off`: `generate_case_expressions`.
`nextCase` is the address to continue at when no item matches, `stmts` the address of the
block's statements; `ei` is the index of the first item of `conds` within the block. -/
def compileConds (p : Pos) (sfx : String) (bi : Nat) (nextCase stmts : Nat) :
    Nat → Nat → List CaseExpr → Code
  | _, _, [] => []
  | _, _, [c] => compileCaseExpr p nextCase c
  | off, ei, c :: rest =>
    let nextItem := off + sizeCaseExpr c + 1
    compileCaseExpr p nextItem c ++ [(.jump stmts, p)] ++
      [(.label (labelName ("case-multi-expr-" ++ toString bi ++ "-" ++ toString (ei + 1)) p sfx), p)] ++
      compileConds p sfx bi nextCase stmts (nextItem + 1) (ei + 1) rest

/-- `generate_for_loop_instructions_positive_or_negative_step`, placed at `off`, around the already
generated code of the body (which starts at `off + 8` and carries the extended label suffix);
`outOff` = address of the `out-of-for` label -/
def forBody (sfx : String) (x : Nat) (t : Ty) (bodyCode : Code) (up : Bool) (p : Pos) (off outOff : Nat) : Code :=
  [(.label (labelName (if up then "positive-loop" else "negative-loop") p sfx), p), (.copyCToB, p)] ++ loadVar x p ++
    [(.bin (if up then .lessOrEqual else .greaterOrEqual), p), (.jumpIfFalse outOff, p), (.pushRegs, p)] ++
    bodyCode ++
    [(.popRegs, p)] ++ loadVar x p ++ [(.copyDToB, p), (.bin .plus, p), (.cast t, p)] ++ storeVar x p ++
    [(.jump off, p)]

def stepSuffix (sfx : String) (up : Bool) : String :=
  sfx ++ (if up then "_positive-step" else "_negative-step")

mutual
def compileStmt : String → Nat → SStmt → Code
  | sfx, _, .skip => []
  | sfx, off, .seq a b => compileStmt sfx off a ++ compileStmt sfx (off + sizeStmt a) b
  | sfx, _, .comment => []
  | sfx, _, .dim x t p => [(.allocate t, p), (.varPath x, p), (.copyAToVarPath, p)]
  | sfx, _, .assign x t e p => compileExprTo e t ++ storeVar x p
  | sfx, _, .print items p =>
    [(.printSetPrinter, p), (.loadA (.int 0), p), (.printSetFormat, p)] ++ compileItems p items ++ [(.printEnd, p)]
  | sfx, _, .data items p =>
    [(.beginArgs, p)] ++ items.flatMap (fun (v, q) => [(.loadA v, q), (.pushByVal, q)]) ++
      [(.pushStack, p), (.builtInData, p), (.popStack, p)]
  | sfx, _, .read vars p =>
    [(.beginArgs, p)] ++
      vars.flatMap (fun (x, _, q) => [(.varPath x, q), (.copyVarPathToA, q), (.pushByRef, q)]) ++
      [(.pushStack, p), (.builtInRead, p)] ++
      (vars.zipIdx).map (fun ((_, _, q), i) => (.enqueue i, q)) ++
      [(.popStack, p)] ++
      vars.flatMap (fun (x, _, q) => [(.dequeue, q), (.varPath x, q), (.copyAToVarPath, q)])
  | sfx, off, .ifBlock c thn elifs hasElse els p =>
    let nc := (compileExpr c).length
    let thnOff := off + nc + 1
    let afterThn := thnOff + sizeStmt thn + 1          -- address of the first else-if label / else / end-if
    let elseOff := afterThn + sizeElifs elifs           -- address of the `else` label (if any)
    let endOff := elseOff + (if hasElse then 1 + sizeStmt els else 0)
    compileExpr c ++ [(.jumpIfFalse afterThn, p)] ++ compileStmt sfx thnOff thn ++ [(.jump endOff, p)] ++
      compileElifs sfx p endOff elseOff afterThn 0 elifs ++
      (if hasElse then [(.label (labelName "else" p sfx), p)] ++ compileStmt sfx (elseOff + 1) els else []) ++
      [(.label (labelName "end-if" p sfx), p)]
  | sfx, off, .select e cases hasElse els p =>
    let ne := (compileExpr e).length
    let casesOff := off + ne + 1 + 3
    let elseOff := casesOff + sizeCases cases
    let endOff := elseOff + (if hasElse then 1 + sizeStmt els else 0)
    -- `jump select-begin; jump select-skip; label select-begin`: a resume point for an error in the selector
    compileExpr e ++ [(.pushA, p)] ++
      [(.jump (casesOff - 1), p), (.jump (endOff + 2), p), (.label (labelName "select-begin" p sfx), p)] ++
      compileCases sfx p endOff elseOff casesOff 0 cases ++
      (if hasElse then [(.label (labelName "case-else" p sfx), p)] ++ compileStmt sfx (elseOff + 1) els else []) ++
      [(.label (labelName "end-select" p sfx), p), (.popA, p), (.label (labelName "select-skip" p sfx), p)]
  | sfx, off, .forLoop x t lo hi step body p =>
    let nlo := (compileExprTo lo t).length
    let nhi := (compileExprTo hi t).length
    let hdr := off + nlo + 2 + nhi
    compileExprTo lo t ++ storeVar x p ++ compileExprTo hi t ++
    (match step with
     | none =>
       let bodyOff := hdr + 6
       let outOff := bodyOff + sizeForBody x body
       -- `jump for-begin; jump out-of-for; label for-begin`: a resume point for an error in the header
       [(.copyAToC, p), (.loadA (.int 1), p), (.copyAToD, p),
        (.jump (hdr + 5), p), (.jump outOff, p), (.label (labelName "for-begin" p sfx), p)] ++
         forBody sfx x t (compileStmt (stepSuffix sfx true) (bodyOff + 8) body) true p bodyOff outOff ++
         [(.label (labelName "out-of-for" p sfx), p)]
     | some s =>
       let ns := (compileExpr s).length
       let negOff := hdr + 1 + ns + 11
       let testPosOff := negOff + sizeForBody x body + 1
       let posOff := testPosOff + 4
       let zeroOff := posOff + sizeForBody x body + 1
       let outOff := zeroOff + 2
       [(.pushA, p)] ++ compileExpr s ++
         [(.copyAToD, p), (.popA, p), (.copyAToC, p),
          (.jump (hdr + 1 + ns + 5), p), (.jump outOff, p), (.label (labelName "for-begin" p sfx), p),
          (.loadA (.int 0), p), (.copyAToB, p), (.copyDToA, p),
          (.bin .less, p), (.jumpIfFalse testPosOff, p)] ++
         forBody sfx x t (compileStmt (stepSuffix sfx false) (negOff + 8) body) false p negOff outOff ++
         [(.jump outOff, p), (.label (labelName "test-positive-or-zero" p sfx), p), (.copyDToA, p),
          (.bin .greater, p), (.jumpIfFalse zeroOff, p)] ++
         forBody sfx x t (compileStmt (stepSuffix sfx true) (posOff + 8) body) true p posOff outOff ++
         [(.jump outOff, p), (.label (labelName "zero" p sfx), p), (.throwZeroStep, s.pos),
          (.label (labelName "out-of-for" p sfx), p)])
  | sfx, off, .while c body p =>
    let nc := (compileExpr c).length
    let bodyOff := off + 1 + nc + 1
    let wendOff := bodyOff + sizeStmt body + 1
    [(.label (labelName "while" p sfx), p)] ++ compileExpr c ++ [(.jumpIfFalse wendOff, p)] ++
      compileStmt sfx bodyOff body ++ [(.jump off, p), (.label (labelName "wend" p sfx), p)]
  | sfx, off, .doLoop c top u body p =>
    let nc := (compileExpr c).length
    if top then
      let bodyOff := off + 1 + nc + (if u then 3 else 1)
      let loopOff := bodyOff + sizeStmt body + 1
      [(.label (labelName "do" p sfx), p)] ++ compileExpr c ++
        (if u then [(.jumpIfFalse (bodyOff - 1), p), (.jump loopOff, p), (.label (labelName "do-body" p sfx), p)]
         else [(.jumpIfFalse loopOff, p)]) ++
        compileStmt sfx bodyOff body ++
        [(.jump off, p), (.label (labelName "loop" p sfx), p)]
    else
      let loopOff := off + 1 + sizeStmt body + nc + (if u then 1 else 2)
      [(.label (labelName "do" p sfx), p)] ++ compileStmt sfx (off + 1) body ++ compileExpr c ++
        (if u then [(.jumpIfFalse off, p)] else [(.jumpIfFalse loopOff, p), (.jump off, p)]) ++
        [(.label (labelName "loop" p sfx), p)]
  | sfx, _, .end_ p => [(.halt, p)]
/-- the ELSEIF arms starting at `off` (the address of the label of arm `i`) -/
def compileElifs : String → Pos → Nat → Nat → Nat → Nat → ElseIfs → Code
  | _, _, _, _, _, _, .nil => []
  | sfx, p, endOff, elseOff, off, i, .cons c body rest =>
    let nc := (compileExpr c).length
    let bodyOff := off + 1 + nc + 1
    let next := bodyOff + sizeStmt body + 1
    [(.label (labelName ("else-if-" ++ toString i) p sfx), p)] ++ compileExpr c ++ [(.jumpIfFalse next, p)] ++
      compileStmt sfx bodyOff body ++ [(.jump endOff, p)] ++ compileElifs sfx p endOff elseOff next (i + 1) rest
/-- the CASE blocks starting at `off` (the address of the label of block `i`) -/
def compileCases : String → Pos → Nat → Nat → Nat → Nat → SCases → Code
  | _, _, _, _, _, _, .nil => []
  | sfx, p, endOff, elseOff, off, i, .cons conds body rest =>
    let multi := decide (conds.length > 1)
    let condsOff := off + 1
    let stmtsLabel := condsOff + sizeConds conds
    let bodyOff := stmtsLabel + (if multi then 1 else 0)
    let next := bodyOff + sizeStmt body + 1
    [(.label (labelName ("case" ++ toString i) p sfx), p)] ++
      compileConds p sfx i next stmtsLabel condsOff 0 conds ++
      (if multi then [(.label (labelName ("case-statements" ++ toString i) p sfx), p)] else []) ++
      compileStmt sfx bodyOff body ++ [(.jump endOff, p)] ++ compileCases sfx p endOff elseOff next (i + 1) rest
end

def maxPos : Pos := ⟨4294967295, 4294967295⟩

/-- `move_data_statements_first`: top-level DATA statements are generated before everything else -/
def topLevel : SStmt → List SStmt
  | .seq a b => topLevel a ++ topLevel b
  | .skip => []
  | s => [s]

def isData : SStmt → Bool
  | .data _ _ => true
  | _ => false

def seqOf : List SStmt → SStmt
  | [] => .skip
  | s :: rest => .seq s (seqOf rest)

def reorder (body : SStmt) : SStmt :=
  let ss := topLevel body
  seqOf (ss.filter isData ++ ss.filter (fun s => !isData s))

/-- `generate_instructions` for a core program (no procedures): the statements, then `Halt` -/
def compile (prog : SProgram) : Code :=
  let body := reorder prog.body
  compileStmt "" 0 body ++ [(.halt, maxPos)]

/-! ### normalisation of the real instruction list -/

/-- exact value of an IEEE-754 bit pattern with `mbits` fraction bits and `ebits` exponent bits -/
def ieeeToRat (mbits ebits : Nat) (bits : Nat) : Option Rat :=
  let frac := bits % 2 ^ mbits
  let exp := (bits / 2 ^ mbits) % 2 ^ ebits
  let neg := (bits / 2 ^ (mbits + ebits)) % 2 == 1
  let bias : Int := 2 ^ (ebits - 1) - 1
  if exp == 2 ^ ebits - 1 then none
  else
    let (m, e) : Nat × Int :=
      if exp == 0 then (frac, 1 - bias - mbits) else (2 ^ mbits + frac, (exp : Int) - bias - mbits)
    let q : Rat := if e ≥ 0 then (m : Rat) * (2 : Rat) ^ e.toNat else (m : Rat) / (2 : Rat) ^ (-e).toNat
    some (if neg then -q else q)

def litToVal : Lit → Option Val
  | .int i => some (.int i)
  | .long i => some (.long i)
  | .sgl b => (ieeeToRat 23 8 b).map .sgl
  | .dbl b => (ieeeToRat 52 11 b).map .dbl
  | .str cs => some (.str (cs.map Char.ofNat))
  | .other _ => none

def qualToTy : Qual → Ty
  | .int => .int | .long => .long | .sgl => .sgl | .dbl => .dbl | .str => .str

/-- slot of a resolved variable name (bare name compared case-insensitively) -/
def slotOf (table : List (String × Ty)) (n : QName) : Option Nat :=
  match n.q with
  | none => none
  | some q => table.findIdx? (fun e => e.1 == n.bare.map Char.toUpper && e.2 == qualToTy q)

def targetAddr : Target → Option Nat
  | .addr a => some a
  | .unresolved _ => none

def normInstr (table : List (String × Ty)) : Instr → Option CInstr
  | .loadIntoA v => (litToVal v).map .loadA
  | .copyAToB => some .copyAToB | .copyAToC => some .copyAToC | .copyAToD => some .copyAToD
  | .copyCToB => some .copyCToB | .copyDToA => some .copyDToA | .copyDToB => some .copyDToB
  | .plus => some (.bin .plus) | .minus => some (.bin .minus) | .multiply => some (.bin .multiply)
  | .divide => some (.bin .divide) | .modulo => some (.bin .modulo)
  | .less => some (.bin .less) | .lessOrEqual => some (.bin .lessOrEqual) | .equal => some (.bin .equal)
  | .greaterOrEqual => some (.bin .greaterOrEqual) | .greater => some (.bin .greater)
  | .notEqual => some (.bin .notEqual) | .and => some (.bin .and) | .or => some (.bin .or)
  | .negateA => some .negateA | .notA => some .notA
  | .cast q => some (.cast (qualToTy q))
  | .pushAToValueStack => some .pushA | .popValueStackIntoA => some .popA
  | .varPathName n false => (slotOf table n).map .varPath
  | .copyVarPathToA => some .copyVarPathToA | .popVarPath => some .popVarPath
  | .copyAToVarPath => some .copyAToVarPath
  | .label l => some (.label l)
  | .jump t => (targetAddr t).map .jump
  | .jumpIfFalse t => (targetAddr t).map .jumpIfFalse
  | .pushRegisters => some .pushRegs | .popRegisters => some .popRegs
  | .throw e => if e == "ForLoopZeroStep" then some .throwZeroStep else none
  | .halt => some .halt
  | .allocateBuiltIn q => some (.allocate (qualToTy q))
  | .printSetPrinterType p => if p == "print" then some .printSetPrinter else none
  | .printSetFormatStringFromA => some .printSetFormat
  | .printComma => some .printComma | .printSemicolon => some .printSemicolon
  | .printValueFromA => some .printValue | .printEnd => some .printEnd
  | .beginCollectArguments => some .beginArgs
  | .pushUnnamedByVal => some .pushByVal | .pushUnnamedByRef => some .pushByRef
  | .pushStack => some .pushStack | .popStack => some .popStack
  | .builtInSub n => if n == "Data" then some .builtInData else if n == "Read" then some .builtInRead else none
  | .enqueueToReturnStack i => some (.enqueue i)
  | .dequeueFromReturnStack => some .dequeue
  | _ => none

def normalise (table : List (String × Ty)) (code : Array InstrPos) : Option Code :=
  code.toList.mapM fun ip => (normInstr table ip.instr).map fun c => (c, ⟨ip.row, ip.col⟩)

/-- index of the first position where two lists differ -/
def firstDiff : Code → Code → Nat → Option Nat
  | [], [], _ => none
  | a :: as, b :: bs, i => if a = b then firstDiff as bs (i + 1) else some i
  | _, _, i => some i

end RbModel.Core
