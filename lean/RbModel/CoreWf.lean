import RbModel.Core
import Gen.NumTables
/-!
Boolean well-formedness check of a core program as the real front end delivers it: decides a sufficient condition
for the premise `WfTop` of the C01 simulation theorem (`Thm/C01Wf.lean` proves `wfTopB_sound`).  Run by the driver
(`core.wf`) on the tree of every explored program.
-/
namespace RbModel.CoreWf
open RbModel RbModel.Num RbModel.Ast RbModel.Src

def slotsB (n : Nat) : Ast.Expr → Bool
  | .lit _ _ => true
  | .var x _ _ => decide (x < n)
  | .un _ e _ => slotsB n e
  | .bin _ l r _ _ => slotsB n l && slotsB n r
  | .paren e _ => slotsB n e

def exprWtB (sl : List Ty) : Ast.Expr → Bool
  | .lit _ _ => true
  | .var x t _ => decide (sl[x]? = some t)
  | .un _ e _ => exprWtB sl e
  | .bin op l r t _ =>
    exprWtB sl l && exprWtB sl r && (decide (op = .divide) || decide (Gen.NumTables.binType op l.ty r.ty = some t))
  | .paren e _ => exprWtB sl e

def condB (sl : List Ty) (c : Ast.Expr) : Bool :=
  slotsB sl.length c && exprWtB sl c && decide (c.ty ≠ .str)

def itemsB (n : Nat) : List PrintItem → Bool
  | [] => true
  | .expr e :: rest => slotsB n e && itemsB n rest
  | _ :: rest => itemsB n rest

def isRelB : Op → Bool
  | .less | .lessOrEqual | .equal | .greaterOrEqual | .greater | .notEqual => true
  | _ => false

def caseB (n : Nat) : CaseExpr → Bool
  | .simple e => slotsB n e
  | .is op e => isRelB op && slotsB n e
  | .range lo hi => slotsB n lo && slotsB n hi

def condsB (n : Nat) : List CaseExpr → Bool
  | [] => true
  | c :: rest => caseB n c && condsB n rest

def readB (sl : List Ty) : List (Nat × Ty × Pos) → Bool
  | [] => true
  | v :: rest => decide (sl[v.1]? = some v.2.1) && readB sl rest

def isSkipB : SStmt → Bool
  | .skip => true
  | _ => false

mutual
/-- decides a sufficient condition for `Wf sl stmt` -/
def wfB (sl : List Ty) : SStmt → Bool
  | .skip => true
  | .comment => true
  | .seq a b => wfB sl a && wfB sl b
  | .dim x t _ => decide (sl[x]? = some t)
  | .assign x t e _ => decide (sl[x]? = some t) && slotsB sl.length e && exprWtB sl e
  | .print items _ => itemsB sl.length items
  | .ifBlock c thn elifs hasElse els _ =>
    condB sl c && wfB sl thn && wfElifsB sl elifs && wfB sl els && (hasElse || isSkipB els)
  | .while c body _ => condB sl c && wfB sl body
  | .doLoop c _ _ body _ => condB sl c && wfB sl body
  | .end_ _ => true
  | .data _ _ => false
  | .read vars _ => readB sl vars
  | .select e cases hasElse els _ =>
    slotsB sl.length e && wfCasesB sl cases && wfB sl els && (hasElse || isSkipB els)
  | .forLoop x t lo hi step body _ =>
    decide (sl[x]? = some t) && slotsB sl.length lo && exprWtB sl lo && slotsB sl.length hi &&
      (match step with | none => true | some se => slotsB sl.length se) && wfB sl body
def wfElifsB (sl : List Ty) : ElseIfs → Bool
  | .nil => true
  | .cons c body rest => condB sl c && wfB sl body && wfElifsB sl rest
def wfCasesB (sl : List Ty) : SCases → Bool
  | .nil => true
  | .cons conds body rest => !conds.isEmpty && condsB sl.length conds && wfB sl body && wfCasesB sl rest
end

/-- decides a sufficient condition for `WfTop sl body` -/
def wfTopB (sl : List Ty) : SStmt → Bool
  | .seq a b => wfTopB sl a && wfTopB sl b
  | .data _ _ => true
  | st => wfB sl st

end RbModel.CoreWf
