import RbModel.Ref
import RbModel.ConstEval
/-!
# Constants in whole programs (C14, statement level)

The linted program the code generator gets has no `CONST` statements and no names of constants: every
use is a literal of the folded value (`ExistingConst::resolve`).  The *inlined* program — every use of a
constant replaced by its defining expression in parentheses — has, at the same place, a `Parenthesis`
node around the converted defining expression.  `matchS named inlined` is the executable comparison of
the two linted trees (`Ast.Stmt`, the core language of C01): identical node by node, positions included,
except that a literal `lit v p` of the named tree may face `paren k p` in the inlined one where `k` is a
closed expression (no variables) that the reference semantics evaluates to exactly `v` and whose static
type is `v`'s (`good v k`).  The harness lays the two program texts out so that all other positions
coincide, serialises both linted trees and has the driver evaluate `matchS` on them (`const.inlprog`).

`astOf` is the bridge from the constant folder's model: the `Ast` form of a converted constant
expression (`ConstEval.toExpr`), with the linter's static type at every binary node.
-/
namespace RbModel.ConstProg
open RbModel RbModel.Num RbModel.Ast RbModel.Ref
open RbModel.Ast (Expr)

/-- no variables: the value does not depend on the run-time state -/
def closedE : Ast.Expr → Bool
  | .lit _ _ => true
  | .var _ _ _ => false
  | .un _ e _ => closedE e
  | .bin _ l r _ _ => closedE l && closedE r
  | .paren e _ => closedE e

/-- `k` may stand where the literal `v` stands: closed, evaluates to exactly `v` (payload and tag),
statically typed like `v` -/
def good (v : Val) (k : Ast.Expr) : Bool :=
  closedE k && (match eval [] k with | .ok w => w == v | _ => false) && (k.ty == v.tag)

def matchE : Ast.Expr → Ast.Expr → Bool
  | .lit v p, .lit v' p' => v == v' && p == p'
  | .lit v p, .paren k p' => p == p' && good v k
  | .var x t p, .var x' t' p' => x == x' && t == t' && p == p'
  | .un op e p, .un op' e' p' => op == op' && matchE e e' && p == p'
  | .bin op l r t p, .bin op' l' r' t' p' => op == op' && matchE l l' && matchE r r' && t == t' && p == p'
  | .paren e p, .paren e' p' => matchE e e' && p == p'
  | _, _ => false

def matchItem : PrintItem → PrintItem → Bool
  | .expr e, .expr e' => matchE e e'
  | .comma, .comma => true
  | .semicolon, .semicolon => true
  | _, _ => false

def matchItems : List PrintItem → List PrintItem → Bool
  | [], [] => true
  | a :: r, a' :: r' => matchItem a a' && matchItems r r'
  | _, _ => false

def matchCase : CaseExpr → CaseExpr → Bool
  | .simple e, .simple e' => matchE e e'
  | .is op e, .is op' e' => op == op' && matchE e e'
  | .range lo hi, .range lo' hi' => matchE lo lo' && matchE hi hi'
  | _, _ => false

def matchCaseList : List CaseExpr → List CaseExpr → Bool
  | [], [] => true
  | a :: r, a' :: r' => matchCase a a' && matchCaseList r r'
  | _, _ => false

def matchStep : Option Ast.Expr → Option Ast.Expr → Bool
  | none, none => true
  | some e, some e' => matchE e e'
  | _, _ => false

mutual
def matchS : Stmt → Stmt → Bool
  | .skip, .skip => true
  | .seq a b, .seq a' b' => matchS a a' && matchS b b'
  | .assign x t e p, .assign x' t' e' p' => x == x' && t == t' && matchE e e' && p == p'
  | .print items p, .print items' p' => matchItems items items' && p == p'
  | .read x t p, .read x' t' p' => x == x' && t == t' && p == p'
  | .ifs c a b p, .ifs c' a' b' p' => matchE c c' && matchS a a' && matchS b b' && p == p'
  | .select e cs p, .select e' cs' p' => matchE e e' && matchC cs cs' && p == p'
  | .forLoop x t lo hi st body p, .forLoop x' t' lo' hi' st' body' p' =>
      x == x' && t == t' && matchE lo lo' && matchE hi hi' && matchStep st st' && matchS body body' && p == p'
  | .while c body p, .while c' body' p' => matchE c c' && matchS body body' && p == p'
  | .doLoop c top u body p, .doLoop c' top' u' body' p' =>
      matchE c c' && top == top' && u == u' && matchS body body' && p == p'
  | .end_ p, .end_ p' => p == p'
  | _, _ => false
def matchC : Cases → Cases → Bool
  | .nil, .nil => true
  | .else_ b, .else_ b' => matchS b b'
  | .case conds b rest, .case conds' b' rest' => matchCaseList conds conds' && matchS b b' && matchC rest rest'
  | _, _ => false
end

/-- the named and the inlined program: same variable slots, same DATA, matching bodies -/
def matchP (a b : Program) : Bool :=
  a.slots == b.slots && a.data == b.data && matchS a.body b.body

/-! ### from the folder's model to the syntax tree -/

/-- The `Ast` form of a converted constant expression: literals stay, every binary node carries the
static type the linter resolves from its operands' types (`cast_binary_op`); all nodes get the
position `p` (no node of an accepted constant's expression ever reports an error). A variable has no
place in a constant expression. -/
def astOf (p : Pos) : Num.Expr → Option Ast.Expr
  | .lit v => some (.lit v p)
  | .var _ => none
  | .un op e => (astOf p e).map fun k => .un op k p
  | .bin op l r =>
    match astOf p l, astOf p r with
    | some kl, some kr =>
      match Gen.NumTables.binType op kl.ty kr.ty with
      | some t => some (.bin op kl kr t p)
      | none => none
    | _, _ => none

/-- The same as a relation that leaves positions and extra parentheses free: what the linted tree of
`(e)` looks like for a converted constant expression `e`. -/
inductive AstOf : Num.Expr → Ast.Expr → Prop where
  | lit (v : Val) (p : Pos) : AstOf (.lit v) (.lit v p)
  | un (op : UnOp) {e : Num.Expr} {k : Ast.Expr} (p : Pos) : AstOf e k → AstOf (.un op e) (.un op k p)
  | bin (op : Op) {l r : Num.Expr} {kl kr : Ast.Expr} {t : Ty} (p : Pos) :
      AstOf l kl → AstOf r kr → Gen.NumTables.binType op kl.ty kr.ty = some t →
      AstOf (.bin op l r) (.bin op kl kr t p)
  | paren {e : Num.Expr} {k : Ast.Expr} (p : Pos) : AstOf e k → AstOf e (.paren k p)

end RbModel.ConstProg
