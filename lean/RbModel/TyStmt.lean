import RbModel.Ty
/-!
# The run-time side of C12 for statements, at the level of kinds

`RbModel.Ty.eval` says how an *expression* consumes its operands.  `execLine` adds what one *statement* (a
`Line` of `RbModel.Ty`) does with the values of its expressions — the conversions and operand uses in which the
real interpreter can raise `Type mismatch` (hand-written from `rusty_basic/src/instruction_generator`):

* assignment (`statement.rs` `generate_assignment_instructions`): the right side is cast to the type of the
  target (`Num.cast`); the subscripts of an array element are cast to INTEGER (`indexArgs`);
* `PRINT`, `SELECT CASE e`: the expressions are evaluated;
* SUB call (`calls.rs` `generate_push_named_args_instructions`): every argument is cast to the type of its
  parameter (`bindArgs`, by reference or not);
* `IF` / `ELSEIF` / `WHILE` condition (`interpreter/main.rs` `JumpIfFalse`: `a.try_cast::<bool>()`): the value
  must be numeric;
* `FOR` (`loops.rs` `generate_for_loop_instructions`): lower and upper bound are cast to the type of the
  counter; the step is compared with 0 and added to the counter, the counter is compared with the upper bound
  and the sum is cast back — at the level of kinds: every bound and the step are converted to the counter's
  type, and the counter itself is numeric;
* `CASE` items (`select_case.rs`: `Equal` / `LessOrEqual` / … between the selector and the item): selector and
  item are of one kind;
* `DIM` (`dim.rs`): the bounds are cast to INTEGER (`indexArgs`).

Like `eval` this is a specification of the run-time side, not something the driver runs: it is tied to the
interpreter only through the harness's run of every accepted program (no wrong-kind failure observed).
Control flow is not modelled: the statement theorem quantifies over every line and every state (`Sem`) that
agrees with the static types, so it holds wherever control goes.
-/
namespace RbModel.Ty
open RbModel.Num

variable {κ : Type} [DecidableEq κ]

/-- `try_cast::<bool>` / an operand of `<`, `+` with a number. -/
def needNum (v : Val) : Res Unit := if v.tag = .str then .err .typeMismatch else .ok ()

/-- A value converted to a location / register of static type `t`. -/
def storeAs (v : Val) (t : Ty) : Res Unit := (cast v t).bind fun _ => .ok ()

def storeAll : List Val → Ty → Res Unit
  | [], _ => .ok ()
  | v :: vs, t => (storeAs v t).bind fun _ => storeAll vs t

/-- The comparison instructions between the selector and each `CASE` item: operands of one kind. -/
def compareAll (s : Val) : List Val → Res Unit
  | [] => .ok ()
  | v :: vs => if kindOf v.tag = kindOf s.tag then compareAll s vs else .err .typeMismatch

/-- What one statement does with the values of its expressions. -/
def execLine (Γ : Env κ) (σ : Sem κ) : Line κ → Res Unit
  | .assign _ (.var x) rhs => (eval Γ σ rhs).bind fun v => storeAs v (Γ.ty x)
  | .assign _ (.call a idx) rhs =>
    (eval Γ σ rhs).bind fun v => (evalL Γ σ idx).bind fun is => (indexArgs is).bind fun _ => storeAs v (Γ.ty a)
  | .assign _ _ rhs => (eval Γ σ rhs).bind fun _ => .ok ()   -- no other target comes out of the parser
  | .print _ items => (evalL Γ σ items).bind fun _ => .ok ()
  | .callSub _ s args =>
    match lookup s Γ.subs with
    | some ps => (evalL Γ σ args).bind fun vs => bindArgs vs ps
    | none => .ok ()                                            -- SubprogramNotDefined: never runs
  | .jump _ _ => .ok ()
  | .label _ _ => .ok ()
  | .cond _ c => (eval Γ σ c).bind needNum
  | .condEnd _ _ => .ok ()                                      -- the end of the block: nothing is evaluated
  | .forHead _ v bounds _ _ =>
    (evalL Γ σ bounds).bind fun vs => (needNum (σ.var v)).bind fun _ => storeAll vs (Γ.ty v)
  | .select _ e => (eval Γ σ e).bind fun _ => .ok ()
  | .case _ sel items => (eval Γ σ sel).bind fun s => (evalL Γ σ items).bind fun vs => compareAll s vs
  | .dim _ _ bounds => (evalL Γ σ bounds).bind indexArgs

end RbModel.Ty
