import RbModel.Sexp
/-!
The VM's instruction set (`rusty_basic/src/instruction_generator/main.rs`, `enum Instruction`)
and the reader of the serialised *real* instruction list produced by `generate_instructions`
(`harness/src/instr_sx.rs`).  One constructor per Rust variant.
-/
namespace RbModel

inductive Qual where
  | int | long | sgl | dbl | str
  deriving Repr, DecidableEq, Inhabited

/-- `Name`: bare name + optional qualifier. -/
structure QName where
  bare : String
  q : Option Qual
  deriving Repr, DecidableEq, Inhabited

/-- literal payload of `LoadIntoA` (floats by their IEEE bit patterns) -/
inductive Lit where
  | int (i : Int) | long (i : Int) | sgl (bits : Nat) | dbl (bits : Nat) | str (cs : List Nat) | other (dbg : String)
  deriving Repr, DecidableEq, Inhabited

inductive Target where
  | addr (a : Nat) | unresolved (l : String)
  deriving Repr, DecidableEq, Inhabited

inductive Instr where
  | varPathName (n : QName) (shared : Bool) | varPathIndex | varPathProperty (p : String)
  | copyAToVarPath | copyVarPathToA | popVarPath
  | loadIntoA (v : Lit)
  | copyAToB | copyAToC | copyAToD | copyCToB | copyDToA | copyDToB
  | plus | minus | multiply | divide | modulo
  | less | lessOrEqual | equal | greaterOrEqual | greater | notEqual
  | negateA | notA | and | or
  | label (l : String)
  | jump (t : Target) | jumpIfFalse (t : Target) | goSub (t : Target) | ret (t : Option Target)
  | resume | resumeNext | resumeLabel (t : Target)
  | builtInSub (name : String) | builtInFunction (name : String)
  | halt
  | pushRegisters | popRegisters
  | pushAToValueStack | popValueStackIntoA
  | pushRet (a : Nat) | popRet
  | beginCollectArguments | pushNamed (p : Sexp) | pushNamedByRef (p : Sexp) | pushUnnamedByVal | pushUnnamedByRef
  | pushStack | pushStaticStack (scope : Sexp) | popStack
  | enqueueToReturnStack (i : Nat) | dequeueFromReturnStack | dequeueFromReturnStackWithPath
  | stashFunctionReturnValue (n : QName) | unStashFunctionReturnValue
  | throw (err : String)
  | onErrorGoTo (t : Target) | onErrorResumeNext | onErrorGoToZero
  | cast (q : Qual) | fixLength (n : Nat)
  | allocateBuiltIn (q : Qual) | allocateFixedLengthString (n : Nat)
  | allocateArrayIntoA (ty : Sexp) | allocateUserDefined (name : String)
  | printSetPrinterType (p : String) | printSetFileHandle (h : Nat) | printSetFormatStringFromA
  | printComma | printSemicolon | printValueFromA | printEnd
  | isVariableDefined (dbg : String)
  deriving Inhabited

/-- an instruction with its source position -/
structure InstrPos where
  instr : Instr
  row : Nat
  col : Nat
  deriving Inhabited

namespace Instr

private def hexVal (c : Char) : Option Nat :=
  if '0' ≤ c ∧ c ≤ '9' then some (c.toNat - '0'.toNat)
  else if 'a' ≤ c ∧ c ≤ 'f' then some (c.toNat - 'a'.toNat + 10)
  else none

private def hexBytes : List Char → Option (List UInt8)
  | [] => some []
  | a :: b :: rest => do
      let x ← hexVal a; let y ← hexVal b
      let r ← hexBytes rest
      pure (UInt8.ofNat (16 * x + y) :: r)
  | _ => none

/-- decodes an `s:<hex of UTF-8 bytes>` atom -/
def str? : Sexp → Option String
  | .atom a =>
    if a.startsWith "s:" then
      match hexBytes (a.drop 2).toString.toList with
      | some bs => String.fromUTF8? ⟨bs.toArray⟩
      | none => none
    else none
  | _ => none

def qual? : Sexp → Option Qual
  | .atom "int" => some .int | .atom "long" => some .long | .atom "sgl" => some .sgl
  | .atom "dbl" => some .dbl | .atom "str" => some .str | _ => none

def qname? : Sexp → Option QName
  | .list [.atom "name", b, .atom "none"] => do let b ← str? b; pure ⟨b, none⟩
  | .list [.atom "name", b, q] => do let b ← str? b; let q ← qual? q; pure ⟨b, some q⟩
  | _ => none

def lit? : Sexp → Option Lit
  | .list [.atom "int", n] => do pure (.int (← n.int?))
  | .list [.atom "long", n] => do pure (.long (← n.int?))
  | .list [.atom "sgl", n] => do pure (.sgl (← n.nat?))
  | .list [.atom "dbl", n] => do pure (.dbl (← n.nat?))
  | .list [.atom "str", cs] => do pure (.str (← cs.nats?))
  | .list [.atom "other", d] => do pure (.other (← str? d))
  | _ => none

def target? : Sexp → Option Target
  | .list [.atom "addr", n] => do pure (.addr (← n.nat?))
  | .list [.atom "unresolved", l] => do pure (.unresolved (← str? l))
  | _ => none

def bool? : Sexp → Option Bool := Sexp.bool?

def ofSexp : Sexp → Option Instr
  | .list (.atom k :: args) =>
    match k, args with
    | "VarPathName", [n, sh] => do pure (.varPathName (← qname? n) (← bool? sh))
    | "VarPathIndex", [] => some .varPathIndex
    | "VarPathProperty", [p] => do pure (.varPathProperty (← str? p))
    | "CopyAToVarPath", [] => some .copyAToVarPath
    | "CopyVarPathToA", [] => some .copyVarPathToA
    | "PopVarPath", [] => some .popVarPath
    | "LoadIntoA", [v] => do pure (.loadIntoA (← lit? v))
    | "CopyAToB", [] => some .copyAToB | "CopyAToC", [] => some .copyAToC | "CopyAToD", [] => some .copyAToD
    | "CopyCToB", [] => some .copyCToB | "CopyDToA", [] => some .copyDToA | "CopyDToB", [] => some .copyDToB
    | "Plus", [] => some .plus | "Minus", [] => some .minus | "Multiply", [] => some .multiply
    | "Divide", [] => some .divide | "Modulo", [] => some .modulo
    | "Less", [] => some .less | "LessOrEqual", [] => some .lessOrEqual | "Equal", [] => some .equal
    | "GreaterOrEqual", [] => some .greaterOrEqual | "Greater", [] => some .greater | "NotEqual", [] => some .notEqual
    | "NegateA", [] => some .negateA | "NotA", [] => some .notA | "And", [] => some .and | "Or", [] => some .or
    | "Label", [l] => do pure (.label (← str? l))
    | "Jump", [t] => do pure (.jump (← target? t))
    | "JumpIfFalse", [t] => do pure (.jumpIfFalse (← target? t))
    | "GoSub", [t] => do pure (.goSub (← target? t))
    | "Return", [] => some (.ret none)
    | "Return", [t] => do pure (.ret (some (← target? t)))
    | "Resume", [] => some .resume | "ResumeNext", [] => some .resumeNext
    | "ResumeLabel", [t] => do pure (.resumeLabel (← target? t))
    | "BuiltInSub", [.atom n] => some (.builtInSub n)
    | "BuiltInFunction", [.atom n] => some (.builtInFunction n)
    | "Halt", [] => some .halt
    | "PushRegisters", [] => some .pushRegisters | "PopRegisters", [] => some .popRegisters
    | "PushAToValueStack", [] => some .pushAToValueStack | "PopValueStackIntoA", [] => some .popValueStackIntoA
    | "PushRet", [a] => do pure (.pushRet (← a.nat?))
    | "PopRet", [] => some .popRet
    | "BeginCollectArguments", [] => some .beginCollectArguments
    | "PushNamed", [p] => some (.pushNamed p)
    | "PushNamedByRef", [p] => some (.pushNamedByRef p)
    | "PushUnnamedByVal", [] => some .pushUnnamedByVal | "PushUnnamedByRef", [] => some .pushUnnamedByRef
    | "PushStack", [] => some .pushStack
    | "PushStaticStack", [s] => some (.pushStaticStack s)
    | "PopStack", [] => some .popStack
    | "EnqueueToReturnStack", [i] => do pure (.enqueueToReturnStack (← i.nat?))
    | "DequeueFromReturnStack", [] => some .dequeueFromReturnStack
    | "DequeueFromReturnStackWithPath", [] => some .dequeueFromReturnStackWithPath
    | "StashFunctionReturnValue", [n] => do pure (.stashFunctionReturnValue (← qname? n))
    | "UnStashFunctionReturnValue", [] => some .unStashFunctionReturnValue
    | "Throw", [e] => do pure (.throw (← str? e))
    | "OnErrorGoTo", [t] => do pure (.onErrorGoTo (← target? t))
    | "OnErrorResumeNext", [] => some .onErrorResumeNext | "OnErrorGoToZero", [] => some .onErrorGoToZero
    | "Cast", [q] => do pure (.cast (← qual? q))
    | "FixLength", [n] => do pure (.fixLength (← n.nat?))
    | "AllocateBuiltIn", [q] => do pure (.allocateBuiltIn (← qual? q))
    | "AllocateFixedLengthString", [n] => do pure (.allocateFixedLengthString (← n.nat?))
    | "AllocateArrayIntoA", [t] => some (.allocateArrayIntoA t)
    | "AllocateUserDefined", [n] => do pure (.allocateUserDefined (← str? n))
    | "PrintSetPrinterType", [.atom p] => some (.printSetPrinterType p)
    | "PrintSetFileHandle", [h] => do pure (.printSetFileHandle (← h.nat?))
    | "PrintSetFormatStringFromA", [] => some .printSetFormatStringFromA
    | "PrintComma", [] => some .printComma | "PrintSemicolon", [] => some .printSemicolon
    | "PrintValueFromA", [] => some .printValueFromA | "PrintEnd", [] => some .printEnd
    | "IsVariableDefined", [d] => do pure (.isVariableDefined (← str? d))
    | _, _ => none
  | _ => none

end Instr

def InstrPos.ofSexp : Sexp → Option InstrPos
  | .list [i, r, c] => do pure ⟨← Instr.ofSexp i, ← r.nat?, ← c.nat?⟩
  | _ => none

/-- `(<instr> <row> <col>)*` -/
def codeOfSexp : Sexp → Option (Array InstrPos)
  | .list l => do pure (← l.mapM InstrPos.ofSexp).toArray
  | _ => none

end RbModel
