import RbModel.Proc.Syntax
import RbModel.Proc.Ref
import RbModel.ConstProg
/-!
# Constants in programs with SUBs and FUNCTIONs (C14, statement level, procedures layer)

`RbModel.ConstProg` ported to the procedures layer (`RbModel.Proc`): the linted program the generator gets
has no names of constants — a use of a `CONST`, in the main module, inside a SUB / FUNCTION body, in an
argument list, is a literal of the folded value (`ExistingConst::resolve`); the `CONST` statement itself is
dropped by the serialiser (`proc_sx.rs`: `comment`).  The *inlined* program has, at the same place, a
`Parenthesis` node around the converted defining expression.

`matchP δ named inlined` is the executable comparison of the two linted programs (`Proc.Program`, what
`Proc.Ref` runs): identical node by node, positions included — main module, every procedure declaration
(kind, name, parameters, slot table, STATIC flag), every argument list with its parameter annotations —
except that a literal `lit v p` of the named tree may face `paren k p` in the inlined one where `k` is
built from literals, unary and binary operators and parentheses only (no variable, no call), evaluates
to exactly `v` (`pureVal`, the state-free reading of `Proc.Ref.eval` on such expressions; the agreement is
`RbThm.C14.pureVal_spec`) and has `v`'s static type (`good v k`).  A literal passed to a procedure is a
by-value argument on both sides (`Expr.isRef` is false for a literal and for a parenthesis), converted to
the parameter's type at the same position.

Fuel.  `Proc.Ref` spends one unit of fuel per expression node, so the inlined program needs more fuel
than the named one: up to `depthC k` more at a use.  `δ` bounds that surplus (`depthC k ≤ δ` is part of
the match): the theorem `const_inline_run_proc` relates the named run with fuel `n` to the inlined run
with fuel `δ + n`, and conversely the inlined run with fuel `n` to the named run with fuel `n`.

The flag `rev` reads the same relation from the inlined side (`matchE true δ inlined named`); it exists
for the proof of the converse direction only (`RbThm.C14.matchP_symm`), the driver evaluates `rev = false`.
-/
namespace RbModel.ConstProc
open RbModel RbModel.Num RbModel.Proc
open RbModel.Ast (Pos)

/-- nodes on the longest path of an expression made of literals, operators and parentheses (0 below a
variable or a call: such an expression is never `good`) -/
def depthC : Proc.Expr → Nat
  | .lit _ _ => 1
  | .un _ e _ => depthC e + 1
  | .bin _ l r _ _ => max (depthC l) (depthC r) + 1
  | .paren e _ => depthC e + 1
  | _ => 0

def okVal : Res Val → Option Val
  | .ok v => some v
  | _ => none

/-- the value of an expression without variables and calls, `none` if it has one or if an operator
fails (or leaves the exact float domain): `Proc.Ref.eval` without state and fuel -/
def pureVal : Proc.Expr → Option Val
  | .lit v _ => some v
  | .un op e _ =>
    match pureVal e with
    | some a => okVal (match op with | .neg => negate a | .not => unaryNot a)
    | none => none
  | .bin op l r t _ =>
    match pureVal l, pureVal r with
    | some a, some b => okVal (Ref.binStep op t a b)
    | _, _ => none
  | .paren e _ => pureVal e
  | _ => none

/-- `k` may stand where the literal `v` stands: closed, evaluates to exactly `v` (payload and tag),
statically typed like `v` -/
def good (v : Val) (k : Proc.Expr) : Bool :=
  (pureVal k == some v) && (k.ty == v.tag)

mutual
def matchE (rev : Bool) (δ : Nat) : Proc.Expr → Proc.Expr → Bool
  | .lit v p, .lit v' p' => v == v' && p == p'
  | .lit v p, .paren k p' => !rev && p == p' && good v k && decide (depthC k ≤ δ)
  | .paren k p, .lit v p' => rev && p == p' && good v k
  | .var x t p, .var x' t' p' => x == x' && t == t' && p == p'
  | .un op e p, .un op' e' p' => op == op' && matchE rev δ e e' && p == p'
  | .bin op l r t p, .bin op' l' r' t' p' =>
    op == op' && matchE rev δ l l' && matchE rev δ r r' && t == t' && p == p'
  | .paren e p, .paren e' p' => matchE rev δ e e' && p == p'
  | .callFn f args t p, .callFn f' args' t' p' => f == f' && matchArgs rev δ args args' && t == t' && p == p'
  | _, _ => false
/-- argument lists: the same parameter annotations, matching actuals -/
def matchArgs (rev : Bool) (δ : Nat) : Args → Args → Bool
  | .nil, .nil => true
  | .cons e n t rest, .cons e' n' t' rest' =>
    matchE rev δ e e' && n == n' && t == t' && matchArgs rev δ rest rest'
  | _, _ => false
end

def matchItem (rev : Bool) (δ : Nat) : PrintItem → PrintItem → Bool
  | .expr e, .expr e' => matchE rev δ e e'
  | .comma, .comma => true
  | .semicolon, .semicolon => true
  | _, _ => false

def matchItems (rev : Bool) (δ : Nat) : List PrintItem → List PrintItem → Bool
  | [], [] => true
  | a :: r, a' :: r' => matchItem rev δ a a' && matchItems rev δ r r'
  | _, _ => false

def matchCase (rev : Bool) (δ : Nat) : CaseExpr → CaseExpr → Bool
  | .simple e, .simple e' => matchE rev δ e e'
  | .is op e, .is op' e' => op == op' && matchE rev δ e e'
  | .range lo hi, .range lo' hi' => matchE rev δ lo lo' && matchE rev δ hi hi'
  | _, _ => false

def matchCaseList (rev : Bool) (δ : Nat) : List CaseExpr → List CaseExpr → Bool
  | [], [] => true
  | a :: r, a' :: r' => matchCase rev δ a a' && matchCaseList rev δ r r'
  | _, _ => false

def matchStep (rev : Bool) (δ : Nat) : Option Proc.Expr → Option Proc.Expr → Bool
  | none, none => true
  | some e, some e' => matchE rev δ e e'
  | _, _ => false

mutual
def matchS (rev : Bool) (δ : Nat) : Stmt → Stmt → Bool
  | .skip, .skip => true
  | .seq a b, .seq a' b' => matchS rev δ a a' && matchS rev δ b b'
  | .assign x t e p, .assign x' t' e' p' => x == x' && t == t' && matchE rev δ e e' && p == p'
  | .print items p, .print items' p' => matchItems rev δ items items' && p == p'
  | .read x t p, .read x' t' p' => x == x' && t == t' && p == p'
  | .ifs c a b p, .ifs c' a' b' p' => matchE rev δ c c' && matchS rev δ a a' && matchS rev δ b b' && p == p'
  | .select e cs p, .select e' cs' p' => matchE rev δ e e' && matchC rev δ cs cs' && p == p'
  | .forLoop x t lo hi st body p, .forLoop x' t' lo' hi' st' body' p' =>
      x == x' && t == t' && matchE rev δ lo lo' && matchE rev δ hi hi' && matchStep rev δ st st' &&
        matchS rev δ body body' && p == p'
  | .while c body p, .while c' body' p' => matchE rev δ c c' && matchS rev δ body body' && p == p'
  | .doLoop c top u body p, .doLoop c' top' u' body' p' =>
      matchE rev δ c c' && top == top' && u == u' && matchS rev δ body body' && p == p'
  | .end_ p, .end_ p' => p == p'
  | .callSub f args p, .callSub f' args' p' => f == f' && matchArgs rev δ args args' && p == p'
  | .exitProc p, .exitProc p' => p == p'
  | _, _ => false
def matchC (rev : Bool) (δ : Nat) : Cases → Cases → Bool
  | .nil, .nil => true
  | .else_ b, .else_ b' => matchS rev δ b b'
  | .case conds b rest, .case conds' b' rest' =>
    matchCaseList rev δ conds conds' && matchS rev δ b b' && matchC rev δ rest rest'
  | _, _ => false
end

/-- a SUB / FUNCTION of the two programs: the same declaration, matching bodies -/
def matchProc (rev : Bool) (δ : Nat) (d d' : ProcDecl Stmt) : Bool :=
  d.result == d'.result && d.name == d'.name && d.params == d'.params && d.slots == d'.slots &&
    d.pos == d'.pos && d.static == d'.static && matchS rev δ d.body d'.body

def matchProcs (rev : Bool) (δ : Nat) : List (ProcDecl Stmt) → List (ProcDecl Stmt) → Bool
  | [], [] => true
  | d :: r, d' :: r' => matchProc rev δ d d' && matchProcs rev δ r r'
  | _, _ => false

def matchP' (rev : Bool) (δ : Nat) (a b : Program) : Bool :=
  a.slots == b.slots && a.gslots == b.gslots && a.data == b.data && matchS rev δ a.body b.body &&
    matchProcs rev δ a.procs b.procs

/-- the named and the inlined program: same variable slots (main module, DIM SHARED), same DATA, matching
main module, matching procedures; every parenthesised replacement is at most `δ` nodes deep -/
def matchP (δ : Nat) (named inlined : Program) : Bool := matchP' false δ named inlined

/-! ### from the core language's trees to the procedures layer's -/

/-- a core-language expression as an expression of the procedures layer (a variable is a slot of the own scope) -/
def embed : Ast.Expr → Proc.Expr
  | .lit v p => .lit v p
  | .var x t p => .var ⟨false, x⟩ t p
  | .un op e p => .un op (embed e) p
  | .bin op l r t p => .bin op (embed l) (embed r) t p
  | .paren e p => .paren (embed e) p

end RbModel.ConstProc
