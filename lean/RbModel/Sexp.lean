/-
Single-line S-expressions: the one text representation used between the Rust harness and
the Lean driver.  Trusted glue (parsing/printing), no theorems are stated about it.
-/
namespace RbModel

inductive Sexp where
  | atom : String → Sexp
  | list : List Sexp → Sexp
  deriving Repr, Inhabited, BEq

namespace Sexp

private def isDelim (c : Char) : Bool := c == '(' || c == ')' || c == ' ' || c == '\t' || c == '\n' || c == '\r'

/-- Parses one S-expression from the front of the character list.
`stack` holds the partially built enclosing lists (innermost first). -/
partial def parseAux : List Char → List (List Sexp) → Option Sexp
  | [], [acc] => match acc with
      | [x] => some x
      | _ => none
  | [], _ => none
  | c :: cs, stack =>
    if c == ' ' || c == '\t' || c == '\n' || c == '\r' then parseAux cs stack
    else if c == '(' then parseAux cs ([] :: stack)
    else if c == ')' then
      match stack with
      | inner :: outer :: rest => parseAux cs ((Sexp.list inner.reverse :: outer) :: rest)
      | _ => none
    else
      let tok := (c :: cs).takeWhile (fun d => !isDelim d)
      let rest := (c :: cs).dropWhile (fun d => !isDelim d)
      match stack with
      | top :: more => parseAux rest ((Sexp.atom (String.ofList tok) :: top) :: more)
      | [] => none

def parse (s : String) : Option Sexp := parseAux s.toList [[]]

partial def toString : Sexp → String
  | atom a => a
  | list l => "(" ++ " ".intercalate (l.map toString) ++ ")"

instance : ToString Sexp := ⟨Sexp.toString⟩

def int? : Sexp → Option Int
  | atom a => a.toInt?
  | _ => none

def nat? : Sexp → Option Nat
  | atom a => a.toNat?
  | _ => none

def ints? : Sexp → Option (List Int)
  | list l => l.mapM int?
  | _ => none

def nats? : Sexp → Option (List Nat)
  | list l => l.mapM nat?
  | _ => none

def bool? : Sexp → Option Bool
  | atom "t" => some true
  | atom "f" => some false
  | _ => none

def ofInts (l : List Int) : Sexp := list (l.map fun i => atom (ToString.toString i))
def ofNats (l : List Nat) : Sexp := list (l.map fun i => atom (ToString.toString i))
def ofBool (b : Bool) : Sexp := atom (if b then "t" else "f")

end Sexp
end RbModel
