import RbModel.Ast
import RbModel.Src
import RbModel.Ty
/-!
# C12 on the core language: the typing the checker establishes, as a decidable predicate

`tyB sl stmt` decides, on the linted syntax tree of a core program (`RbModel.Ast`, the tree the real
`rusty_linter::core::lint` returns, serialised by `harness/src/ast_sx.rs`), the *kind discipline* the
checker enforces and that `Thm/C12Core.lean` shows sufficient for "no Type mismatch at run time":

* every operator node carries the type `cast_binary_op` (extracted: `Gen.NumTables.binType`) gives for
  the types of its operands — including `/` — and the operand of a unary operator is numeric
  (`converter/expr_rules/{binary, unary}.rs`);
* the two sides of an assignment are of the same kind (`statement/assignment.rs`: `can_cast_to`);
* conditions of IF / ELSEIF / WHILE / DO are numeric (`post_linter/condition_type_linter.rs`);
* every CASE item is of the kind of the SELECT CASE expression (`post_linter/select_case_linter.rs`);
* the counter, the bounds and the step of FOR are numeric (`statement/for_loop.rs`);
* variables are used at the type of their slot (name resolution, C13).

The driver runs `tyTopB` (request `ty.core`) on the tree of every accepted core program the C12 harness
explores: the real checker must establish the predicate.
-/
namespace RbModel.TyCore
open RbModel RbModel.Num RbModel.Ast RbModel.Ty

/-- typing of an expression: like `ExprWt` of C01, and `/` is typed by the table too, unary operands are numeric -/
def exprTyB (sl : List Num.Ty) : Ast.Expr → Bool
  | .lit _ _ => true
  | .var x t _ => decide (sl[x]? = some t)
  | .un _ e _ => exprTyB sl e && decide (e.ty ≠ .str)
  | .bin op l r t _ => exprTyB sl l && exprTyB sl r && decide (Gen.NumTables.binType op l.ty r.ty = some t)
  | .paren e _ => exprTyB sl e

/-- a well typed numeric expression -/
def numB (sl : List Num.Ty) (e : Ast.Expr) : Bool := exprTyB sl e && decide (e.ty ≠ .str)

def itemsTyB (sl : List Num.Ty) : List PrintItem → Bool
  | [] => true
  | .expr e :: rest => exprTyB sl e && itemsTyB sl rest
  | _ :: rest => itemsTyB sl rest

/-- a CASE item is of the kind `k` of the SELECT CASE expression -/
def caseTyB (sl : List Num.Ty) (k : Kind) : CaseExpr → Bool
  | .simple e => exprTyB sl e && decide (kindOf e.ty = k)
  | .is _ e => exprTyB sl e && decide (kindOf e.ty = k)
  | .range lo hi => exprTyB sl lo && decide (kindOf lo.ty = k) && exprTyB sl hi && decide (kindOf hi.ty = k)

def condsTyB (sl : List Num.Ty) (k : Kind) : List CaseExpr → Bool
  | [] => true
  | c :: rest => caseTyB sl k c && condsTyB sl k rest

mutual
def tyB (sl : List Num.Ty) : Stmt → Bool
  | .skip => true
  | .seq a b => tyB sl a && tyB sl b
  | .assign x t e _ => decide (sl[x]? = some t) && exprTyB sl e && decide (kindOf e.ty = kindOf t)
  | .print items _ => itemsTyB sl items
  | .read x t _ => decide (sl[x]? = some t)
  | .ifs c thn els _ => numB sl c && tyB sl thn && tyB sl els
  | .select e cases _ => exprTyB sl e && tyCasesB sl (kindOf e.ty) cases
  | .forLoop x t lo hi step body _ =>
    decide (sl[x]? = some t) && decide (t ≠ .str) && numB sl lo && numB sl hi &&
      (match step with | none => true | some se => numB sl se) && tyB sl body
  | .while c body _ => numB sl c && tyB sl body
  | .doLoop c _ _ body _ => numB sl c && tyB sl body
  | .end_ _ => true
def tyCasesB (sl : List Num.Ty) (k : Kind) : Cases → Bool
  | .nil => true
  | .else_ body => tyB sl body
  | .case conds body rest => condsTyB sl k conds && tyB sl body && tyCasesB sl k rest
end

/-- the predicate on a program as the front end delivers it -/
def tyTopB (sp : Src.SProgram) : Bool := tyB sp.slots (Src.desugar sp.body)

mutual
/-- some READ statement of the statement has position `p` -/
def ReadAt (p : Pos) : Stmt → Prop
  | .skip => False
  | .seq a b => ReadAt p a ∨ ReadAt p b
  | .assign _ _ _ _ => False
  | .print _ _ => False
  | .read _ _ q => q = p
  | .ifs _ thn els _ => ReadAt p thn ∨ ReadAt p els
  | .select _ cases _ => ReadAtC p cases
  | .forLoop _ _ _ _ _ body _ => ReadAt p body
  | .while _ body _ => ReadAt p body
  | .doLoop _ _ _ body _ => ReadAt p body
  | .end_ _ => False
def ReadAtC (p : Pos) : Cases → Prop
  | .nil => False
  | .else_ body => ReadAt p body
  | .case _ body rest => ReadAt p body ∨ ReadAtC p rest
end

end RbModel.TyCore
