import RbModel.Instr
/-!
Static well-formedness checker for generated instruction lists (property C15), run on the
*real* output of `generate_instructions`.  Two parts:

* structural checks (targets resolved and in range, labels unique, procedure-local branches,
  terminators, ascending statement addresses);
* a stack-shape certificate checker: a map `pc ↦ relative depths of the five VM stacks`
  (value stack, register stack, context-state stack, var-path stack, by-ref queue) that must be
  consistent with every instruction's effect along every static control-flow edge.  The
  certificate is *inferred* by an untrusted worklist (`infer`) and *checked* by `checkCert`;
  only the checker is proved sound (Thm/C15.lean).

Effects transcribe `Interpreter::interpret_one` (`rusty_basic/src/interpreter/main.rs`) and the
handlers it calls.
-/
namespace RbModel.Wf
open RbModel

/-- depths of the VM's stacks (relative to the entry of the current activation) -/
structure H where
  value : Nat
  reg : Nat
  ctx : Nat
  path : Nat
  byref : Nat
  deriving DecidableEq, Repr, Inhabited

namespace H
def zero : H := ⟨0, 0, 0, 0, 0⟩
def add (a b : H) : H := ⟨a.value + b.value, a.reg + b.reg, a.ctx + b.ctx, a.path + b.path, a.byref + b.byref⟩
def sub (a b : H) : H := ⟨a.value - b.value, a.reg - b.reg, a.ctx - b.ctx, a.path - b.path, a.byref - b.byref⟩
def le (a b : H) : Bool :=
  a.value ≤ b.value && a.reg ≤ b.reg && a.ctx ≤ b.ctx && a.path ≤ b.path && a.byref ≤ b.byref
end H

/-- `(pop, push)`: what the instruction removes from / adds to each stack.  An instruction that
only *inspects* the top of a stack pops and pushes one element. -/
def eff : Instr → H × H
  | .pushAToValueStack => (H.zero, ⟨1, 0, 0, 0, 0⟩)
  | .popValueStackIntoA => (⟨1, 0, 0, 0, 0⟩, H.zero)
  | .pushRegisters => (H.zero, ⟨0, 1, 0, 0, 0⟩)
  | .popRegisters => (⟨0, 1, 0, 0, 0⟩, H.zero)
  | .varPathName _ _ => (H.zero, ⟨0, 0, 0, 1, 0⟩)
  | .varPathIndex => (⟨0, 0, 0, 1, 0⟩, ⟨0, 0, 0, 1, 0⟩)
  | .varPathProperty _ => (⟨0, 0, 0, 1, 0⟩, ⟨0, 0, 0, 1, 0⟩)
  | .copyAToVarPath => (⟨0, 0, 0, 1, 0⟩, H.zero)
  | .copyVarPathToA => (⟨0, 0, 0, 1, 0⟩, ⟨0, 0, 0, 1, 0⟩)
  | .popVarPath => (⟨0, 0, 0, 1, 0⟩, H.zero)
  | .beginCollectArguments => (H.zero, ⟨0, 0, 1, 0, 0⟩)
  | .pushNamed _ => (⟨0, 0, 1, 0, 0⟩, ⟨0, 0, 1, 0, 0⟩)
  | .pushNamedByRef _ => (⟨0, 0, 1, 1, 0⟩, ⟨0, 0, 1, 0, 0⟩)
  | .pushUnnamedByVal => (⟨0, 0, 1, 0, 0⟩, ⟨0, 0, 1, 0, 0⟩)
  | .pushUnnamedByRef => (⟨0, 0, 1, 1, 0⟩, ⟨0, 0, 1, 0, 0⟩)
  | .pushStack => (⟨0, 0, 1, 0, 0⟩, ⟨0, 0, 1, 0, 0⟩)
  | .pushStaticStack _ => (⟨0, 0, 1, 0, 0⟩, ⟨0, 0, 1, 0, 0⟩)
  | .popStack => (⟨0, 0, 1, 0, 0⟩, H.zero)
  | .allocateArrayIntoA _ => (⟨0, 0, 1, 0, 0⟩, H.zero)
  | .enqueueToReturnStack _ => (H.zero, ⟨0, 0, 0, 0, 1⟩)
  | .dequeueFromReturnStack => (⟨0, 0, 0, 0, 1⟩, H.zero)
  | .dequeueFromReturnStackWithPath => (⟨0, 0, 0, 0, 1⟩, ⟨0, 0, 0, 1, 0⟩)
  | _ => (H.zero, H.zero)

/-- applies an effect; `none` = the stack would underflow -/
def apply (h : H) (e : H × H) : Option H :=
  if H.le e.1 h then some (H.add (H.sub h e.1) e.2) else none

abbrev Code := Array InstrPos

def instrAt (code : Code) (pc : Nat) : Option Instr := (code[pc]?).map (·.instr)

/-- the call protocol: `PushRet(pc+1)` immediately before `Jump` -/
def isCall (code : Code) (pc : Nat) : Bool :=
  match pc with
  | 0 => false
  | p + 1 => match instrAt code p with
    | some (.pushRet a) => a == p + 2
    | _ => false

/-- static successors inside the current activation (calls and GOSUBs are stepped over) -/
def succs (code : Code) (pc : Nat) : Instr → List Nat
  | .jump (.addr a) => if isCall code pc then [pc + 1] else [a]
  | .jump (.unresolved _) => []
  | .jumpIfFalse (.addr a) => [pc + 1, a]
  | .jumpIfFalse (.unresolved _) => []
  | .ret _ => []
  | .popRet => []
  | .halt => []
  | .throw _ => []
  | .resume => []
  | .resumeNext => []
  | .resumeLabel _ => []
  | _ => [pc + 1]

/-- instructions that leave the current activation and must find every stack where it was on entry -/
def isBalancedExit : Instr → Bool
  | .ret _ => true
  | .popRet => true
  | _ => false

def isProcLabel (l : String) : Bool := l.startsWith ":"

/-- branch targets an instruction names (as addresses) -/
def targetsOf : Instr → List Target
  | .jump t => [t] | .jumpIfFalse t => [t] | .goSub t => [t] | .ret (some t) => [t]
  | .onErrorGoTo t => [t] | .resumeLabel t => [t]
  | _ => []

def Target.addr? : Target → Option Nat
  | .addr a => some a
  | .unresolved _ => none

/-- entry points of activations: program start, procedure entries, GOSUB / handler / RESUME label /
RETURN label targets -/
def rootsOfInstr : Instr → List Nat
  | .goSub (.addr a) => [a]
  | .onErrorGoTo (.addr a) => [a]
  | .resumeLabel (.addr a) => [a]
  | .ret (some (.addr a)) => [a]
  | _ => []

def roots (code : Code) : List Nat :=
  0 :: (List.range code.size).flatMap fun pc =>
    match instrAt code pc with
    | some (.label l) => if isProcLabel l then [pc] else []
    | some i => rootsOfInstr i
    | none => []

abbrev Cert := Array (Option H)

/-- the per-pc condition of the certificate checker -/
def checkPc (code : Code) (cert : Cert) (pc : Nat) : Bool :=
  match cert[pc]? with
  | some (some rel) =>
    match instrAt code pc with
    | none => false
    | some i =>
      match apply rel (eff i) with
      | none => false
      | some rel' =>
        (succs code pc i).all (fun s => cert[s]? == some (some rel')) &&
        (!isBalancedExit i || rel == H.zero)
  | _ => true

def checkCert (code : Code) (cert : Cert) : Bool :=
  cert.size == code.size &&
  (roots code).all (fun r => cert[r]? == some (some H.zero)) &&
  (List.range code.size).all (checkPc code cert)

/-! ### untrusted certificate inference (worklist) -/

def inferLoop (code : Code) : Nat → List Nat → Cert → Except (String × Nat) Cert
  | 0, _, cert => .ok cert
  | _, [], cert => .ok cert
  | fuel + 1, pc :: work, cert =>
    match cert[pc]? with
    | some (some rel) =>
      match instrAt code pc with
      | none => .error ("pc-out-of-range", pc)
      | some i =>
        match apply rel (eff i) with
        | none => .error ("stack-underflow", pc)
        | some rel' =>
          if isBalancedExit i && rel != H.zero then .error ("unbalanced-exit", pc) else
          let rec go (ss : List Nat) (work : List Nat) (cert : Cert) : Except (String × Nat) (List Nat × Cert) :=
            match ss with
            | [] => .ok (work, cert)
            | s :: ss =>
              match cert[s]? with
              | none => .error ("successor-out-of-range", pc)
              | some none => go ss (s :: work) (cert.set! s (some rel'))
              | some (some old) => if old == rel' then go ss work cert else .error ("depth-conflict", s)
          match go (succs code pc i) work cert with
          | .error e => .error e
          | .ok (work, cert) => inferLoop code fuel work cert
    | _ => inferLoop code fuel work cert

def infer (code : Code) : Except (String × Nat) Cert :=
  let rs := roots code
  if rs.any (fun r => r ≥ code.size) then .error ("root-out-of-range", 0) else
  let cert : Cert := rs.foldl (fun c r => c.set! r (some H.zero)) (Array.replicate code.size none)
  inferLoop code (code.size * 8 + 16) rs cert

/-! ### structural checks -/

def upper (s : String) : String := s.map Char.toUpper

def labelNames (code : Code) : List String :=
  code.toList.filterMap fun ip => match ip.instr with
    | .label l => some (upper l)
    | _ => none

def nodupB : List String → Bool
  | [] => true
  | x :: xs => !xs.contains x && nodupB xs

def labelsUnique (code : Code) : Bool := nodupB (labelNames code)

def isLabelAt (code : Code) (a : Nat) : Bool :=
  match instrAt code a with
  | some (.label _) => true
  | _ => false

def targetOk (code : Code) : Target → Bool
  | .addr a => a < code.size && isLabelAt code a
  | .unresolved _ => false

def instrTargetsOk (code : Code) : Instr → Bool
  | .pushRet a => a < code.size
  | i => (targetsOf i).all (targetOk code)

def targetsResolved (code : Code) : Bool :=
  code.toList.all fun ip => instrTargetsOk code ip.instr

/-- indices of procedure entry labels, ascending -/
def procEntries (code : Code) : List Nat :=
  (List.range code.size).filter fun pc =>
    match instrAt code pc with
    | some (.label l) => isProcLabel l
    | _ => false

/-- region of a pc: 0 = main module, k = k-th procedure -/
def regionOf (entries : List Nat) (pc : Nat) : Nat := (entries.filter (· ≤ pc)).length

def isHaltAt (code : Code) (a : Nat) : Bool :=
  match instrAt code a with | some .halt => true | _ => false

def isPopRetAt (code : Code) (a : Nat) : Bool :=
  match instrAt code a with | some .popRet => true | _ => false

/-- main module ends with `Halt`, every procedure with `PopRet` -/
def terminatorsOk (code : Code) : Bool :=
  let es := procEntries code
  let mainEnd := es.headD code.size
  (mainEnd ≥ 1 && isHaltAt code (mainEnd - 1)) &&
  (es.zip (es.drop 1 ++ [code.size])).all fun (s, e) => e ≥ s + 2 && isPopRetAt code (e - 1)

/-- every branch stays inside its procedure; the `Jump` of a call goes to a procedure entry -/
def branchesLocal (code : Code) : Bool :=
  let es := procEntries code
  (List.range code.size).all fun pc =>
    match instrAt code pc with
    | none => false
    | some i =>
      match i with
      | .jump (.addr a) =>
        if isCall code pc then es.contains a else regionOf es a == regionOf es pc
      | _ => (targetsOf i).all fun t => match t with
          | .addr a => regionOf es a == regionOf es pc
          | .unresolved _ => false

def ascendingB : List Nat → Bool
  | [] => true
  | [_] => true
  | a :: b :: rest => a ≤ b && ascendingB (b :: rest)

def addrsOk (code : Code) (addrs : List Nat) : Bool :=
  ascendingB addrs && addrs.all (· ≤ code.size)

structure Report where
  resolved : Bool
  unique : Bool
  terminators : Bool
  local_ : Bool
  addrs : Bool
  cert : Except (String × Nat) Cert
  certChecked : Bool

def analyse (code : Code) (addrs : List Nat) : Report :=
  let c := infer code
  { resolved := targetsResolved code
    unique := labelsUnique code
    terminators := terminatorsOk code
    local_ := branchesLocal code
    addrs := addrsOk code addrs
    cert := c
    certChecked := match c with
      | .ok cert => checkCert code cert
      | .error _ => false }

/-- the whole static verdict -/
def wfCheck (code : Code) (addrs : List Nat) (cert : Cert) : Bool :=
  targetsResolved code && labelsUnique code && terminatorsOk code && branchesLocal code &&
    addrsOk code addrs && checkCert code cert

end RbModel.Wf
