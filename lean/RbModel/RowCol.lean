/-
Model of the row/column table of the parser's input view:

* `rusty_parser/src/input/row_col_view.rs`  `create_row_col_view`   → `createRowColView` (index loop, as coded)
* `rusty_parser/src/input/string_view.rs`   `StringView::position`  → `position`
                                            `StringView::eof_row_col` → `eofRowCol`
* `rusty_common/src/position.rs`            `Position::{start, inc_col}` → `(1, 1)`, `(r, c + 1)`

A text is the list of the code points of its `char`s (`Vec<char>` in the code); CR = 13, LF = 10.
A position is `(row, col)`, both counted from 1 (`Position { row: u32, col: u32 }`; the model uses `Nat`,
i.e. it assumes texts shorter than 2^32 characters).

Independent of that code, `decompose` splits a text into its lines (at LF, CRLF or a lone CR) and
`humanRowCol` reads the row/column of a character off that list of lines: this is the reference the
theorems of `Thm/C11.lean` and `Thm/C07.lean` compare the table with.

The StringView also carries the reader's index; every syntax error is `position()` at the index where
the parser stopped (`rusty_parser/src/parser.rs program_parser`), which is why `position text idx` takes
the index as an argument.
-/
namespace RbModel.RowCol

def CR : Nat := 13
def LF : Nat := 10

/-- The `while i < chars.len()` loop of `create_row_col_view`, with the loop variables `i`, `row`, `col`
and the vector `data` built so far as arguments.  `fuel` bounds the number of iterations (the loop
increments `i` every time round, `chars.length` iterations are enough).  `chars.getD i 0` is `chars[i]`
(always in range where it is used). -/
def loop (chars : List Nat) : Nat → Nat → Nat → Nat → List (Nat × Nat) → List (Nat × Nat)
  | 0, _, _, _, data => data
  | fuel + 1, i, row, col, data =>
    if i < chars.length then
      let data := data ++ [(row, col)]                       -- data.push(Position::new(row, col))
      if chars.getD i 0 = CR then
        if i < chars.length - 1 ∧ chars.getD (i + 1) 0 = LF then
          loop chars fuel (i + 1) row col data                -- CR of a CR LF pair: do not increment
        else
          loop chars fuel (i + 1) (row + 1) 1 data
      else if chars.getD i 0 = LF then
        loop chars fuel (i + 1) (row + 1) 1 data
      else
        loop chars fuel (i + 1) row (col + 1) data
    else data

/-- `create_row_col_view(chars)`: `row = 1; col = 1; i = 0; data = []`, then the loop. -/
def createRowColView (chars : List Nat) : List (Nat × Nat) :=
  loop chars chars.length 0 1 1 []

/-- `StringView::eof_row_col`: `Position::start()` for the empty table, otherwise the last entry
with the column incremented. -/
def eofRowCol (table : List (Nat × Nat)) : Nat × Nat :=
  match table.getLast? with
  | none => (1, 1)
  | some (r, c) => (r, c + 1)

/-- `StringView::position()` with the reader at index `idx`: `is_eof()` is `idx >= len`. -/
def position (text : List Nat) (idx : Nat) : Nat × Nat :=
  let table := createRowColView text
  if idx ≥ text.length then eofRowCol table
  else table.getD idx (1, 1)

/-! ### The same table by structural recursion on the rest of the text
(`Thm/C11.lean` proves `createRowColView chars = tableFrom chars 1 1`; the driver answers long texts with
this linear-time version.) -/

/-- Rows/columns of the characters of `chars` when the first of them is at `(row, col)`. -/
def tableFrom : List Nat → Nat → Nat → List (Nat × Nat)
  | [], _, _ => []
  | c :: rest, row, col =>
    (row, col) ::
      (if c = CR then
        (if rest.head? = some LF then tableFrom rest row col else tableFrom rest (row + 1) 1)
      else if c = LF then tableFrom rest (row + 1) 1
      else tableFrom rest row (col + 1))

/-! ### Reference: lines and human row/column -/

/-- The three line terminators. -/
inductive Eol where
  | lf | crlf | cr
  deriving DecidableEq, Repr

/-- Characters of a terminator. -/
def Eol.chars : Eol → List Nat
  | .lf => [LF]
  | .crlf => [CR, LF]
  | .cr => [CR]

/-- A terminated line: its characters (none of them CR or LF) and its terminator. -/
abbrev Line := List Nat × Eol

/-- Puts a character in front of the first line of a decomposition. -/
def consChar (c : Nat) : List Line × List Nat → List Line × List Nat
  | ([], last) => ([], c :: last)
  | ((cs, e) :: ls, last) => ((c :: cs, e) :: ls, last)

/-- Splits a text into its terminated lines and the final, unterminated line (possibly empty):
a line ends at LF, at CR LF (one terminator) or at a CR that is not followed by LF. -/
def decompose : List Nat → List Line × List Nat
  | [] => ([], [])
  | c :: rest =>
    if c = LF then (([], Eol.lf) :: (decompose rest).1, (decompose rest).2)
    else if c = CR then
      match rest with
      | [] => ([([], Eol.cr)], [])
      | d :: rest' =>
        -- CR LF is one terminator
        if d = LF then (([], Eol.crlf) :: (decompose rest').1, (decompose rest').2)
        else (([], Eol.cr) :: (decompose (d :: rest')).1, (decompose (d :: rest')).2)
    else consChar c (decompose rest)

/-- The text of a decomposition. -/
def render : List Line → List Nat → List Nat
  | [], last => last
  | (cs, e) :: ls, last => cs ++ e.chars ++ render ls last

/-- All lines of a text, terminators removed, the final unterminated line (possibly empty) included. -/
def linesOf (text : List Nat) : List (List Nat) :=
  (decompose text).1.map (·.1) ++ [(decompose text).2]

/-- Row/column of the character at offset `idx` of the text `render lines last`, when the first line
is row `row`: character `j` of a line is at column `j + 1`; both characters of a terminator are at the
column after the line's last character. `none` beyond the end. -/
def humanAt : List Line → List Nat → Nat → Nat → Option (Nat × Nat)
  | [], last, row, idx => if idx < last.length then some (row, idx + 1) else none
  | (cs, e) :: ls, last, row, idx =>
    if idx < cs.length then some (row, idx + 1)
    else if idx < cs.length + e.chars.length then some (row, cs.length + 1)
    else humanAt ls last (row + 1) (idx - (cs.length + e.chars.length))

/-- Human row/column of character `idx` of a text (read off the list of lines). -/
def humanRowCol (text : List Nat) (idx : Nat) : Option (Nat × Nat) :=
  humanAt (decompose text).1 (decompose text).2 1 idx

/-- `(row, col)` names a place of the text: an existing line, and a column on it or directly after
its last character (where the terminator or the end of the text is). -/
def inBoundsStrict (text : List Nat) (row col : Nat) : Bool :=
  1 ≤ row && row ≤ (linesOf text).length && 1 ≤ col && col ≤ ((linesOf text).getD (row - 1) []).length + 1

/-- The one further place the code reports: the end of a text that ends in a line terminator is
given as one column past that terminator's position, on the terminated line (not as column 1 of the
empty line after it). -/
def isEndAfterTerminator (text : List Nat) (row col : Nat) : Bool :=
  (decompose text).2.isEmpty && row ≥ 1 && row = (decompose text).1.length &&
    col = ((linesOf text).getD (row - 1) []).length + 2

/-- Inside the text or immediately at its end. -/
def inBounds (text : List Nat) (row col : Nat) : Bool :=
  inBoundsStrict text row col || isEndAfterTerminator text row col

/-- Offsets `[start, end)` of line `k` (0-based, terminator excluded) in the text. -/
def lineSpanAt : List Line → List Nat → Nat → Nat → Option (Nat × Nat)
  | [], last, k, off => if k = 0 then some (off, off + last.length) else none
  | (cs, e) :: ls, last, k, off =>
    match k with
    | 0 => some (off, off + cs.length)
    | k + 1 => lineSpanAt ls last k (off + cs.length + e.chars.length)

def lineSpan (text : List Nat) (k : Nat) : Option (Nat × Nat) :=
  lineSpanAt (decompose text).1 (decompose text).2 k 0

/-! ### Run-time error bookkeeping (`rusty_basic/src/interpreter/main.rs`, `error_envelope.rs`)

`stacktrace: Vec<Position>`; `Instruction::PushStack` / `PushStaticStack` do
`stacktrace.insert(0, pos)` with the position of the call; `Instruction::PopStack` does
`stacktrace.remove(0)`; an instruction failing at `pos` yields `ErrorEnvelope::new(e, pos)` =
`[pos]` (`with_err_at`); a failing built-in (`BuiltInSub` / `BuiltInFunction`) yields a copy of the
stacktrace (`with_stacktrace` on a clone, `new_draining_stacktrace`; its head is the built-in's own
`PushStack` position).  With no error handler installed the fetch-execute loop returns the built-in's
envelope as it is and any other error as `e.with_stacktrace(&mut self.stacktrace)` = the error's list
with the stacktrace appended.  (Modelled after commit 56099c3, which made the built-in case copy the
vector instead of draining it; the reported list is the same before and after that commit.) -/

abbrev Pos := Nat × Nat

/-- What the bookkeeping sees of one executed instruction. -/
inductive Ev where
  /-- `PushStack` / `PushStaticStack` at the call's position -/
  | push (pos : Pos)
  /-- `PopStack` -/
  | pop
  /-- any other instruction that succeeds -/
  | other
  /-- `ResumeLabel` (`RESUME label` in an error handler): the label lives at the module level, the
  procedures in progress are left: `self.stacktrace.clear()` -/
  | clear
  /-- a built-in fails and the error is handled (`abandon_failed_call`): the built-in was entered with
  `PushStack`, its `PopStack` will never run: `self.stacktrace.remove(0)` -/
  | dropFront
  deriving Repr

/-- The `stacktrace` vector after one instruction (`remove(0)` on an empty vector panics in the code:
`none`). -/
def stepStack (st : List Pos) : Ev → Option (List Pos)
  | .push p => some (p :: st)
  | .pop => match st with
    | [] => none
    | _ :: rest => some rest
  | .other => some st
  | .clear => some []
  | .dropFront => match st with
    | [] => none
    | _ :: rest => some rest

/-- The vector after a run of instructions, starting from `st`. -/
def runStack : List Pos → List Ev → Option (List Pos)
  | st, [] => some st
  | st, e :: es => match stepStack st e with
    | none => none
    | some st' => runStack st' es

/-- How the failing instruction fails. -/
inductive Fault where
  /-- an ordinary instruction at `pos`: `with_err_at(&pos)` -/
  | instr (pos : Pos)
  /-- `BuiltInSub` / `BuiltInFunction`: `.with_stacktrace(&mut self.stacktrace)` on a bare error -/
  | builtIn
  deriving Repr

/-- The position list of the `RuntimeErrorPos` returned by `interpret` when, with no error handler
installed, the instruction after the run `evs` fails.  (`new_draining_stacktrace` with a one-element
vector builds the same one-element list; with an empty vector it would hit a `debug_assert`: the code
asserts non-emptiness before every built-in, the model returns `none`.) -/
def reported (evs : List Ev) (f : Fault) : Option (List Pos) :=
  match runStack [] evs with
  | none => none
  | some st =>
    match f with
    | .instr pos => some ([pos] ++ st)          -- ErrorEnvelope::new(e, pos), then the stacktrace appended
    | .builtIn => if st.isEmpty then none else some st  -- the copied stacktrace, returned as it is

end RbModel.RowCol
