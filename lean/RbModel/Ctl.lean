import RbModel.Instr
/-!
Control-transfer model of the VM (`rusty_basic/src/interpreter/main.rs`):

* `NearestStatementFinder::{find_current, find_next}` over the recorded statement addresses.
  `[usize]::binary_search` is modelled by its CONTRACT (`Admissible`): it returns `Ok(i)` with
  `l[i] = a` for SOME such `i` if one exists, else `Err(i)` with `i` the insertion point.  The
  finders are functions of the answer (`findCurrentWith`, `findNextWith`); a panic of the real
  code (`panic!("should never happen")`, index out of range) is `none`.
* the part of `Interpreter::interpret` / `interpret_one` that decides where control goes:
  `pc`, `go_sub_address_stack`, `return_address_stack`, `ctx.error_handler`,
  `last_error_address`, `last_error_code`, and the number of error-handler contexts pushed by
  `Context::push_error_handler_context` and popped by the RESUME family.
  Everything else an instruction does is outside the model; whether a non-control instruction
  fails, and which way `JumpIfFalse` goes, are inputs (`Ev`).
-/
namespace RbModel.Ctl
open RbModel

/-! ## the statement finder -/

/-- answer of `statement_addresses.binary_search(&a)`: `Ok(i)` / `Err(i)` -/
inductive BsResult where
  | found (i : Nat)
  | notFound (i : Nat)
  deriving Repr, DecidableEq, Inhabited

/-- the documented contract of `binary_search` on a sorted slice -/
def Admissible (l : List Nat) (a : Nat) : BsResult → Prop
  | .found i => l[i]? = some a
  | .notFound i => i ≤ l.length ∧ ∀ j x, l[j]? = some x → (j < i → x < a) ∧ (i ≤ j → a < x)

/-- executable form of `Admissible` (the driver checks the real `binary_search` answers with it) -/
def admissibleB (l : List Nat) (a : Nat) : BsResult → Bool
  | .found i => l[i]? == some a
  | .notFound i => decide (i ≤ l.length) && (l.take i).all (· < a) && (l.drop i).all (a < ·)

/-- a binary search the model can run by itself: first index holding `a`, else the insertion point -/
def bsFirst (l : List Nat) (a : Nat) : BsResult :=
  let i := (l.takeWhile (· < a)).length
  if l[i]? = some a then .found i else .notFound i

/-- `NearestStatementFinder::find_current` as coded, as a function of the binary-search answer -/
def findCurrentWith (l : List Nat) (a : Nat) : BsResult → Option Nat
  | .found _ => some a
  | .notFound i => if 1 ≤ i then l[i - 1]? else none

/-- `NearestStatementFinder::find_next` as coded (`1 + statement_addresses[existing_index]` for the
last index, `statement_addresses[existing_index + 1]` otherwise, `statement_addresses[would_be_index]`
when not found) -/
def findNextWith (l : List Nat) (_a : Nat) : BsResult → Option Nat
  | .found i => if i + 1 = l.length then (l[i]?).map (1 + ·) else l[i + 1]?
  | .notFound i => l[i]?

/-! ## the control machine -/

/-- `enum ErrorHandler` -/
inductive Handler where
  | none
  | next
  | address (a : Nat)
  deriving Repr, DecidableEq, Inhabited

structure St where
  pc : Nat
  /-- `go_sub_address_stack`, top first -/
  gosub : List Nat
  /-- `return_address_stack`, top first -/
  ret : List Nat
  handler : Handler
  errAddr : Option Nat
  errCode : Option Int
  /-- error-handler contexts pushed and not yet popped -/
  hctx : Nat
  /-- `return_marks`, top first: the height of the GOSUB stack at every call in progress
  (the register-stack heights recorded with them are in `RbModel.Frames`) -/
  marks : List Nat
  deriving Repr, DecidableEq, Inhabited

def St.init : St := ⟨0, [], [], .none, none, none, 0, []⟩

/-- what the environment decides at a step -/
inductive Ev where
  /-- the instruction completes -/
  | ok
  /-- `JumpIfFalse`: the value of register A -/
  | cond (isTrue : Bool)
  /-- the instruction fails with this error code (`RuntimeError::get_code`) -/
  | error (code : Int)
  deriving Repr, DecidableEq, Inhabited

inductive Outcome where
  | cont (s : St)
  /-- `Halt`, or the pc ran past the end of the list: `interpret` returns `Ok` -/
  | halted (s : St)
  /-- `interpret` returns `Err`: unhandled error `code` raised by the instruction at `s.pc` -/
  | failed (code : Int) (s : St)
  /-- the real code panics here (finder out of range, empty return stack, unresolved target) -/
  | stuck
  deriving Repr, DecidableEq, Inhabited

/-- the finder's environment: the recorded addresses and the binary search in use -/
structure Finder where
  addrs : List Nat
  bs : Nat → BsResult

def Finder.current (f : Finder) (a : Nat) : Option Nat := findCurrentWith f.addrs a (f.bs a)
def Finder.next (f : Finder) (a : Nat) : Option Nat := findNextWith f.addrs a (f.bs a)

/-- every answer of the binary search obeys the contract -/
def Finder.Ok (f : Finder) : Prop := ∀ a, Admissible f.addrs a (f.bs a)

def tgt : Target → Option Nat
  | .addr a => some a
  | .unresolved _ => none

def goto (s : St) (pc : Nat) : Outcome := .cont { s with pc := pc }

/-- the `Err(e)` arm of the fetch-execute loop: record the code, then dispatch on the handler -/
def raise (f : Finder) (s : St) (code : Int) : Outcome :=
  match s.handler with
  | .address h => .cont { s with errCode := some code, errAddr := some s.pc, pc := h, hctx := s.hctx + 1 }
  | .next => match f.next s.pc with
    | some n => .cont { s with errCode := some code, pc := n }
    | none => .stuck
  | .none => .failed code { s with errCode := some code }

/-- `take_last_error_address`: clears the code first, then takes the address -/
def takeErr (s : St) : St × Option Nat := ({ s with errCode := none, errAddr := none }, s.errAddr)

/-- `go_sub_address_stack.truncate(n)`: keep the `n` oldest pending GOSUBs (the list is top first) -/
def cut (g : List Nat) (n : Nat) : List Nat := g.drop (g.length - n)

/-- RESUME label: the label lives at the module level, the procedures in progress are left
(`context.unwind_to_global()`, `return_address_stack.clear()`), and the GOSUBs pending inside them are
forgotten: the stack is cut back to its height at the OUTERMOST call (`return_marks.first()`) -/
def leaveProcs (s : St) : St :=
  { s with ret := [], marks := [],
           gosub := match s.marks.getLast? with
             | some m => cut s.gosub m
             | none => s.gosub }

/-- the three RESUME instructions: `target` computes the address from the error address;
`leave` = RESUME label -/
def resumeWith (f : Finder) (s : St) (target : Nat → Option Nat) (leave : Bool := false) : Outcome :=
  match takeErr s with
  | (s', some a) => match target a with
    | some n =>
      let s1 : St := { s' with pc := n, hctx := s'.hctx - 1 }
      .cont (if leave then leaveProcs s1 else s1)
    | none => .stuck
  | (s', none) => raise f s' 20

/-- one turn of the loop at instruction `i` (= `code[s.pc]`) -/
def stepInstr (f : Finder) (i : Instr) (ev : Ev) (s : St) : Outcome :=
  match i with
  | .jump t => match tgt t with | some a => goto s a | none => .stuck
  | .jumpIfFalse t => match ev with
    | .cond true => goto s (s.pc + 1)
    | .cond false => (match tgt t with | some a => goto s a | none => .stuck)
    | .error c => raise f s c
    | .ok => .stuck
  | .goSub t => match tgt t with
    | some a => .cont { s with gosub := s.pc :: s.gosub, pc := a }
    | none => .stuck
  | .ret ot =>
    -- `pop_go_sub_address`: only a GOSUB of the procedure that is running can be answered — those
    -- pending in the callers (the stack below the innermost call's mark) are out of reach
    if s.gosub.length ≤ s.marks.head?.getD 0 then raise f s 3 else
    match s.gosub with
    | a :: rest => (match ot with
      | none => .cont { s with gosub := rest, pc := a + 1 }
      | some t => match tgt t with
        | some l => .cont { s with gosub := rest, pc := l }
        | none => .stuck)
    | [] => raise f s 3
  | .onErrorGoTo t => match tgt t with
    | some a => .cont { s with handler := .address a, pc := s.pc + 1 }
    | none => .stuck
  | .onErrorResumeNext => .cont { s with handler := .next, pc := s.pc + 1 }
  | .onErrorGoToZero => .cont { s with handler := .none, pc := s.pc + 1 }
  | .resume => resumeWith f s f.current
  | .resumeNext => resumeWith f s f.next
  | .resumeLabel t => resumeWith f s (fun _ => tgt t) true
  | .halt => .halted s
  | .pushRet a => .cont { s with ret := a :: s.ret, marks := s.gosub.length :: s.marks, pc := s.pc + 1 }
  | .popRet => match s.ret with
    | a :: rest =>
      -- the GOSUBs still pending in the procedure that returns are forgotten (`return_marks.pop()`)
      .cont { s with ret := rest, pc := a, marks := s.marks.tail,
                     gosub := match s.marks with
                       | m :: _ => cut s.gosub m
                       | [] => s.gosub }
    | [] => .stuck
  | _ => match ev with
    | .error c => raise f s c
    | _ => goto s (s.pc + 1)

abbrev Code := Array InstrPos

def step (code : Code) (f : Finder) (ev : Ev) (s : St) : Outcome :=
  match code[s.pc]? with
  | some ip => stepInstr f ip.instr ev s
  | none => .halted s

/-- runs the machine on a list of events; returns the states visited (before each step) and how it ended
(`none`: the events ran out while the machine was still running) -/
def run (code : Code) (f : Finder) : List Ev → St → List St × Option Outcome
  | [], s => ([s], none)
  | ev :: evs, s =>
    match step code f ev s with
    | .cont s' => let (tr, o) := run code f evs s'; (s :: tr, o)
    | o => ([s], some o)

/-- is the event of this instruction an input (true) or determined by the machine (false)? -/
def needsEvent : Instr → Bool
  | .jump _ | .goSub _ | .ret _ | .onErrorGoTo _ | .onErrorResumeNext | .onErrorGoToZero
  | .resume | .resumeNext | .resumeLabel _ | .halt | .pushRet _ | .popRet => false
  | _ => true

/-- the value the `ERR` built-in returns (`built_ins/err.rs`) -/
def errValue (s : St) : Int := s.errCode.getD 0

end RbModel.Ctl
