import RbModel.Ctx
/-
Model of the call EPILOGUE of a user SUB / FUNCTION call, as the instruction generator emits it and
the interpreter executes it (tree after the C03-a repair):

* generator: `instruction_generator/calls.rs` `generate_stash_by_ref_args`,
  `generate_stash_function_return_value`, `Instruction::PopStack`, `generate_un_stash_by_ref_args`,
  `generate_un_stash_function_return_value` — i.e. everything `generate_sub_call_instructions` /
  `generate_function_call_instructions` emit after the return address;
* interpreter: `handlers/subprogram.rs` `enqueue_to_return_stack`, `dequeue_from_return_stack`
  (with and without path), `stash_function_return_value`, `un_stash_function_return_value`,
  `handlers/var_path.rs` `var_path_name`, `copy_a_to_var_path` + `pop_var_path`
  (`Instruction::CopyAToVarPath`), `Context::pop` — over the context model `RbModel.Ctx`.

A by-reference actual is seen through its RESOLVED path `Loc`: the block it lives in (`shared` =
global block, else the current one) and a cell key (root name, and for an array element the values
of its subscripts as they were evaluated BEFORE the call).  For a plain variable the generator
re-emits `VarPathName` after the call (nothing to evaluate); for an array element the path resolved
before the call travels with the argument (`PushNamedByRef` → `RuntimeVariableInfo.arg_path` →
`EnqueueToReturnStack` → `DequeueFromReturnStackWithPath`).  Values are integers, names naturals.
-/
namespace RbModel.CallProto
open RbModel.Ctx

/-- A resolved variable path. -/
structure Loc where
  shared : Bool
  key : Nat
  deriving DecidableEq, Repr

/-- How an actual argument is passed (`Expression::is_by_ref`, `has_array_indices`). -/
inductive ArgKind where
  | byVal
  /-- a plain variable (or a field of one): root path, nothing to evaluate -/
  | byRefVar (l : Loc)
  /-- an array element (or a field of one): the path was resolved before the call -/
  | byRefElem (l : Loc)
  deriving DecidableEq, Repr

/-- The instructions of a call epilogue. -/
inductive EI where
  | enqueue (idx : Nat)
  | stashResult (name : Nat)
  | popStack
  | dequeue
  | dequeueWithPath
  | varPathName (l : Loc)
  | copyAToVarPath
  | unStashResult
  deriving DecidableEq, Repr

/-- The by-reference arguments with their positions (`args.iter().enumerate()` filtered by
`is_by_ref`), left to right: (position, resolved path, is an array element). -/
def refsFrom : Nat → List ArgKind → List (Nat × Loc × Bool)
  | _, [] => []
  | i, .byVal :: r => refsFrom (i + 1) r
  | i, .byRefVar l :: r => (i, l, false) :: refsFrom (i + 1) r
  | i, .byRefElem l :: r => (i, l, true) :: refsFrom (i + 1) r

/-- `generate_stash_by_ref_args`. -/
def genStash (refs : List (Nat × Loc × Bool)) : List EI := refs.map fun r => .enqueue r.1

/-- `generate_un_stash_by_ref_args` (FixLength omitted: values are integers). -/
def genUnStash : List (Nat × Loc × Bool) → List EI
  | [] => []
  | (_, _, true) :: r => .dequeueWithPath :: .copyAToVarPath :: genUnStash r
  | (_, l, false) :: r => .dequeue :: .varPathName l :: .copyAToVarPath :: genUnStash r

/-- What `generate_sub_call_instructions` emits after the return address. -/
def genSubEpilogue (args : List ArgKind) : List EI :=
  genStash (refsFrom 0 args) ++ [.popStack] ++ genUnStash (refsFrom 0 args)

/-- What `generate_function_call_instructions` emits after the return address. -/
def genFunEpilogue (name : Nat) (args : List ArgKind) : List EI :=
  genStash (refsFrom 0 args) ++ [.stashResult name, .popStack] ++ genUnStash (refsFrom 0 args)
    ++ [.unStashResult]

/-- The part of the interpreter the epilogue touches. -/
structure Vm where
  ctx : Ctx
  /-- register A -/
  a : Int
  /-- `var_path_stack`, top first -/
  paths : List Loc
  /-- `by_ref_stack`, front first -/
  queue : List (Int × Option Loc)
  /-- `arg_path` of the callee's variables, by position (`Variables::get_arg_path`) -/
  argPaths : List (Option Loc)
  /-- `function_result` -/
  result : Option Int
  deriving DecidableEq, Repr

inductive VFail where
  | ctx (f : Fail)
  /-- "Variable not found at requested index" -/
  | noVariableAtIndex
  /-- "by_ref_stack underflow" -/
  | queueUnderflow
  /-- "Should have a VarPath" -/
  | noVarPath
  /-- "Should have function result" -/
  | noFunctionResult
  deriving DecidableEq, Repr

def liftCtx (vm : Vm) : Except Fail Ctx → Except VFail Vm
  | .ok c => .ok { vm with ctx := c }
  | .error e => .error (.ctx e)

/-- One epilogue instruction. -/
def exec : EI → Vm → Except VFail Vm
  | .enqueue idx, vm =>
    match (curVars vm.ctx)[idx]? with
    | none => .error .noVariableAtIndex
    | some kv => .ok { vm with queue := vm.queue ++ [(kv.2, (vm.argPaths[idx]?).join)] }
  | .stashResult name, vm =>
    match modifyVars false (fun vs => Vars.touch vs name) vm.ctx with
    | .error e => .error (.ctx e)
    | .ok c => .ok { vm with ctx := c, result := some (((curVars c).get? name).getD 0) }
  | .popStack, vm => liftCtx vm (pop vm.ctx)
  | .dequeue, vm =>
    match vm.queue with
    | [] => .error .queueUnderflow
    | (v, _) :: q => .ok { vm with a := v, queue := q }
  | .dequeueWithPath, vm =>
    match vm.queue with
    | [] => .error .queueUnderflow
    | (_, none) :: _ => .error .noVarPath
    | (v, some l) :: q => .ok { vm with a := v, queue := q, paths := l :: vm.paths }
  | .varPathName l, vm => .ok { vm with paths := l :: vm.paths }
  | .copyAToVarPath, vm =>
    match vm.paths with
    | [] => .error .noVarPath
    | l :: ps =>
      match modifyVars l.shared (fun vs => Vars.insert vs l.key vm.a) vm.ctx with
      | .error e => .error (.ctx e)
      | .ok c => .ok { vm with ctx := c, paths := ps }
  | .unStashResult, vm =>
    match vm.result with
    | none => .error .noFunctionResult
    | some v => .ok { vm with a := v, result := none }

def execAll : List EI → Vm → Except VFail Vm
  | [], vm => .ok vm
  | i :: is, vm =>
    match exec i vm with
    | .error e => .error e
    | .ok vm' => execAll is vm'

/-- The value of the callee's variable at position `idx` (0 when absent; present in the theorems). -/
def valAt (vs : Vars) (idx : Nat) : Int :=
  match vs[idx]? with
  | some kv => kv.2
  | none => 0

/-- The write-backs as context operations, left to right. -/
def stores (cv : Vars) (refs : List (Nat × Loc × Bool)) : List Op :=
  refs.map fun r => .setVar r.2.1.shared r.2.1.key (valAt cv r.1)

end RbModel.CallProto
