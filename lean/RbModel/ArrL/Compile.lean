import RbModel.ArrL.Syntax
import RbModel.Instr
import RbModel.Core
/-!
# RbModel.ArrL.Compile — model of the code generator with arrays of scalars (property C04, phase A)

`RbModel.Core` (the generator model of C01) extended to the constructs of `ArrL.SStmt`:
`rusty_basic/src/instruction_generator/{main, statement, expression, calls, loops, if_block, select_case, print,
dim}.rs` restricted to them.  What is new (everything else is C01's generator, copied):

    element path  ⟦a(i1,…,ik)⟧path @p  =  VarPathName a @p
                                          ( PushAToValueStack · ⟦i_j⟧ [Cast %] · VarPathIndex · PopValueStackIntoA ) @i_j.pos   for every j
      (`generate_path_instructions`: register A — the value to be stored, when the path is an assignment target — is
       saved on the value stack around every subscript; `Cast(%)` iff the subscript's static type is not INTEGER)
    element read        ⟦a(i…)⟧path · CopyVarPathToA · PopVarPath                         @p
    element assignment  ⟦e⟧ [Cast t] · ⟦a(i…)⟧path @stmt · CopyAToVarPath @stmt          (right-hand side FIRST)
    DIM a(l TO u, …)    BeginCollectArguments @p · ( ⟦l⟧ PushUnnamedByVal @l.pos | LoadIntoA 0 · PushUnnamedByVal @p ) ·
                        ⟦u⟧ PushUnnamedByVal @u.pos … · AllocateArrayIntoA t · VarPathName a · CopyAToVarPath   @p
      (the bounds are NOT cast by an instruction: `AllocateArrayIntoA` converts them)
    LBOUND(a[, d]) @p   BeginCollectArguments @p · VarPathName a · CopyVarPathToA · PushUnnamedByRef @ap · [⟦d⟧arg] ·
                        PushStack · BuiltInFunction(LBound) @p · EnqueueToReturnStack 0 @ap · [EnqueueToReturnStack 1 @d.pos] ·
                        StashFunctionReturnValue LBound% · PopStack @p ·
                        DequeueFromReturnStack · VarPathName a · CopyAToVarPath @ap · [write-back of d] ·
                        UnStashFunctionReturnValue @p
      (the whole array travels through register A, the argument list, the by-reference queue and back into the
       variable; `d` is by reference when it is a variable or an array element: `Expression::is_by_ref`)
    READ a(i…)          BeginCollectArguments @p · ⟦a(i…)⟧path · CopyVarPathToA · PushUnnamedByRef @target ·
                        PushStack · BuiltInSub(Read) @p · EnqueueToReturnStack 0 @target · PopStack @p ·
                        DequeueFromReturnStackWithPath · CopyAToVarPath @target
      (the path resolved before the call is queued with the value and restored for the store; `READ a, b` is
       generated as `READ a : READ b`, one built-in call per target — fd1c771)

Branch targets are absolute addresses computed structurally, label names are emitted too, and `normalise` maps the
real instruction list into the model's vocabulary (`VarPathName` becomes `varPath x` or `arrPath a` through the two
name tables of the serialiser).  The tie demands `compile p = normalise (real list)`.
-/
set_option linter.unusedVariables false

namespace RbModel.ArrL.Compile
open RbModel RbModel.Num RbModel.ArrL
open RbModel.Ast (Pos)

inductive CInstr where
  | loadA (v : Val)
  | copyAToB | copyAToC | copyAToD | copyCToB | copyDToA | copyDToB
  | bin (op : Op)
  | negateA | notA
  | cast (t : Ty)
  | pushA | popA
  /-- `VarPathName` of a scalar variable (slot) -/
  | varPath (x : Nat)
  /-- `VarPathName` of an array (array number) -/
  | arrPath (a : Nat)
  /-- `VarPathIndex`: append the INTEGER in A to the path on top of the path stack -/
  | pathIndex
  | copyVarPathToA | popVarPath | copyAToVarPath
  | label (name : String)
  | jump (a : Nat) | jumpIfFalse (a : Nat)
  | pushRegs | popRegs
  | throwZeroStep
  | halt
  | allocate (t : Ty)
  /-- `AllocateArrayIntoA(BuiltIn t)` -/
  | allocArr (t : Ty)
  | printSetPrinter | printSetFormat | printComma | printSemicolon | printValue | printEnd
  | beginArgs | pushByVal | pushByRef | pushStack | popStack
  | builtInData | builtInRead
  /-- `BuiltInFunction(LBound)` (`false`) / `BuiltInFunction(UBound)` -/
  | builtInBound (upper : Bool)
  | enqueue (i : Nat) | dequeue
  /-- `DequeueFromReturnStackWithPath` -/
  | dequeuePath
  /-- `StashFunctionReturnValue(LBound%)` / `(UBound%)` -/
  | stashBound (upper : Bool)
  | unStash
  deriving DecidableEq, Inhabited

abbrev Code := List (CInstr × Pos)

abbrev labelName := _root_.RbModel.Core.labelName
abbrev maxPos := _root_.RbModel.Core.maxPos

/-! ### expressions: `generate_expression_instructions`, `generate_path_instructions` -/

/-- `generate_un_stash_by_ref_args` for one by-reference argument: a variable is stored through its name, an array
element through the path that was queued with the value -/
def writeBackOf : Expr → List (CInstr × Pos)
  | .var x _ q => [(.dequeue, q), (.varPath x, q), (.copyAToVarPath, q)]
  | .elem _ _ _ q => [(.dequeuePath, q), (.copyAToVarPath, q)]
  | _ => []

mutual
def compileExpr : Expr → Code
  | .lit v p => [(.loadA v, p)]
  | .var x _ p => [(.varPath x, p), (.copyVarPathToA, p), (.popVarPath, p)]
  | .un .neg e p => compileExpr e ++ [(.negateA, p)]
  | .un .not e p => compileExpr e ++ [(.notA, p)]
  | .bin op l r t p =>
    compileExpr l ++ [(.pushA, p)] ++ compileExpr r ++ [(.copyAToB, p), (.popA, p), (.bin op, p)] ++
      (if op = .divide then [(.cast t, p)] else [])
  | .paren e _ => compileExpr e
  | .elem a idx _ p => [(.arrPath a, p)] ++ compileIdx idx ++ [(.copyVarPathToA, p), (.popVarPath, p)]
  | .bound up a _ ap p =>
    [(.beginArgs, p), (.arrPath a, ap), (.copyVarPathToA, ap), (.pushByRef, ap),
     (.pushStack, p), (.builtInBound up, p), (.enqueue 0, ap), (.stashBound up, p), (.popStack, p),
     (.dequeue, ap), (.arrPath a, ap), (.copyAToVarPath, ap), (.unStash, p)]
  | .boundD up a _ ap d p =>
    [(.beginArgs, p), (.arrPath a, ap), (.copyVarPathToA, ap), (.pushByRef, ap)] ++
     -- `generate_push_unnamed_args_instructions` for the dimension argument: by reference (the code of the
     -- expression without its final `PopVarPath`) when it is a variable or an element, else by value
     (if d.isRef then (compileExpr d).dropLast ++ [(.pushByRef, d.pos)] else compileExpr d ++ [(.pushByVal, d.pos)]) ++
     [(.pushStack, p), (.builtInBound up, p), (.enqueue 0, ap)] ++
     (if d.isRef then [(.enqueue 1, d.pos)] else []) ++
     [(.stashBound up, p), (.popStack, p), (.dequeue, ap), (.arrPath a, ap), (.copyAToVarPath, ap)] ++
     writeBackOf d ++ [(.unStash, p)]
/-- the subscripts of a path: `PushAToValueStack · ⟦i⟧ [Cast %] · VarPathIndex · PopValueStackIntoA` each -/
def compileIdx : Exprs → Code
  | .nil => []
  | .cons e rest =>
    [(.pushA, e.pos)] ++ compileExpr e ++ (if e.ty = .int then [] else [(.cast .int, e.pos)]) ++
      [(.pathIndex, e.pos), (.popA, e.pos)] ++ compileIdx rest
end

/-- `generate_expression_instructions_casting` -/
def compileExprTo (e : Expr) (target : Ty) : Code :=
  compileExpr e ++ (if e.ty = target then [] else [(.cast target, e.pos)])

def storeVar (x : Nat) (p : Pos) : Code := [(.varPath x, p), (.copyAToVarPath, p)]

def loadVar (x : Nat) (p : Pos) : Code := [(.varPath x, p), (.copyVarPathToA, p), (.popVarPath, p)]

/-- the bound arguments of a DIM -/
def compileDims (p : Pos) : Dims → Code
  | .nil => []
  | .cons lo hi rest =>
    (match lo with
     | none => [(.loadA (.int 0), p), (.pushByVal, p)]
     | some e => compileExpr e ++ [(.pushByVal, e.pos)]) ++
      compileExpr hi ++ [(.pushByVal, hi.pos)] ++ compileDims p rest

def sizeDims (dims : Dims) : Nat := (compileDims ⟨0, 0⟩ dims).length

/-- READ: one target as a by-reference argument -/
def pushTarget : ReadTarget → Code
  | .var x _ q => [(.varPath x, q), (.copyVarPathToA, q), (.pushByRef, q)]
  | .elem a _ idx q => [(.arrPath a, q)] ++ compileIdx idx ++ [(.copyVarPathToA, q), (.pushByRef, q)]

/-- READ: the write-back of one target (`generate_un_stash_by_ref_args`) -/
def writeTarget : ReadTarget → Code
  | .var x _ q => [(.dequeue, q), (.varPath x, q), (.copyAToVarPath, q)]
  | .elem _ _ _ q => [(.dequeuePath, q), (.copyAToVarPath, q)]

/-- READ of one target: one call of the built-in -/
def readOne (p : Pos) (tg : ReadTarget) : Code :=
  [(.beginArgs, p)] ++ pushTarget tg ++
    [(.pushStack, p), (.builtInRead, p), (.enqueue 0, tg.pos), (.popStack, p)] ++ writeTarget tg

/-- `READ a, b, …` is generated as `READ a : READ b : …` (one built-in call per target, since fd1c771) -/
def compileReads (p : Pos) : List ReadTarget → Code
  | [] => []
  | tg :: rest => readOne p tg ++ compileReads p rest

def sizeRead (tg : ReadTarget) : Nat := (readOne ⟨0, 0⟩ tg).length

def sizeReads : List ReadTarget → Nat
  | [] => 0
  | tg :: rest => sizeRead tg + sizeReads rest

def compileItem (p : Pos) : PrintItem → Code
  | .expr e => compileExpr e ++ [(.printValue, e.pos)]
  | .comma => [(.printComma, p)]
  | .semicolon => [(.printSemicolon, p)]

/-- one CASE item: `generate_case_expression` (jump to `next` when it does not match) -/
def compileCaseExpr (p : Pos) (next : Nat) : CaseExpr → Code
  | .simple e =>
    compileExpr e ++ [(.copyAToB, p), (.popA, p), (.pushA, p), (.bin .equal, p), (.jumpIfFalse next, p)]
  | .is op e =>
    compileExpr e ++ [(.copyAToB, p), (.popA, p), (.pushA, p), (.bin op, p), (.jumpIfFalse next, p)]
  | .range lo hi =>
    compileExpr lo ++ [(.copyAToB, p), (.popA, p), (.pushA, p), (.bin .greaterOrEqual, p), (.jumpIfFalse next, p)] ++
    compileExpr hi ++ [(.copyAToB, p), (.popA, p), (.pushA, p), (.bin .lessOrEqual, p), (.jumpIfFalse next, p)]

def sizeCaseExpr : CaseExpr → Nat
  | .simple e => (compileExpr e).length + 5
  | .is _ e => (compileExpr e).length + 5
  | .range lo hi => (compileExpr lo).length + 5 + (compileExpr hi).length + 5

/-! ### sizes (needed to place forward labels) -/

def sizeItems : List PrintItem → Nat
  | [] => 0
  | .expr e :: rest => (compileExpr e).length + 1 + sizeItems rest
  | _ :: rest => 1 + sizeItems rest

/-- size of the code of the condition list of one CASE block (`generate_case_expressions`) -/
def sizeConds : List CaseExpr → Nat
  | [] => 0
  | [c] => sizeCaseExpr c
  | c :: rest => sizeCaseExpr c + 1 /- jump to statements -/ + 1 /- label of next expr -/ + sizeConds rest

mutual
def sizeStmt : SStmt → Nat
  | .skip => 0
  | .seq a b => sizeStmt a + sizeStmt b
  | .comment => 0
  | .dim _ _ _ => 3
  | .dimArr _ _ dims _ => 1 + sizeDims dims + 3
  | .assign _ t e _ => (compileExprTo e t).length + 2
  | .assignElem _ t idx e _ => (compileExprTo e t).length + 1 + (compileIdx idx).length + 1
  | .print items _ => 3 + sizeItems items + 1
  | .data items _ => 1 + 2 * items.length + 3
  | .read tgs _ => if tgs.isEmpty then 4 else sizeReads tgs
  | .ifBlock c thn elifs hasElse els _ =>
    (compileExpr c).length + 1 + sizeStmt thn + 1 + sizeElifs elifs + (if hasElse then 1 + sizeStmt els else 0) + 1
  | .select e cases hasElse els _ =>
    (compileExpr e).length + 1 + 3 + sizeCases cases + (if hasElse then 1 + sizeStmt els else 0) + 3
  | .forLoop x t lo hi step body p =>
    (compileExprTo lo t).length + 2 + (compileExprTo hi t).length +
    (match step with
     | none => 6 + sizeForBody x body + 1
     | some s => 1 + (compileExpr s).length + 11 + sizeForBody x body + 2 + 3 + sizeForBody x body + 4)
  | .while c body _ => 1 + (compileExpr c).length + 1 + sizeStmt body + 2
  | .doLoop c top u body _ =>
    if top then 1 + (compileExpr c).length + (if u then 3 else 1) + sizeStmt body + 2
    else 1 + sizeStmt body + (compileExpr c).length + (if u then 1 else 2) + 1
  | .end_ _ => 1
/-- loop head + body + increment (`generate_for_loop_instructions_positive_or_negative_step`) -/
def sizeForBody (_x : Nat) (body : SStmt) : Nat :=
  1 + 1 + 3 + 1 + 1 + 1 + sizeStmt body + 1 + 3 + 2 + 1 + 2 + 1
def sizeElifs : ElseIfs → Nat
  | .nil => 0
  | .cons c body rest => 1 + (compileExpr c).length + 1 + sizeStmt body + 1 + sizeElifs rest
def sizeCases : SCases → Nat
  | .nil => 0
  | .cons conds body rest =>
    1 + sizeConds conds + (if conds.length > 1 then 1 else 0) + sizeStmt body + 1 + sizeCases rest
end

/-! ### statements: `Visitor<StatementPos>` and the per-construct generators

`off` is the address of the first emitted instruction, `sfx` the current label suffix. -/

def compileItems (p : Pos) : List PrintItem → Code
  | [] => []
  | it :: rest => compileItem p it ++ compileItems p rest

/-- the condition list of CASE block `bi` starting at `off`: `generate_case_expressions`.
`nextCase` is the address to continue at when no item matches, `stmts` the address of the
block's statements; `ei` is the index of the first item of `conds` within the block. -/
def compileConds (p : Pos) (sfx : String) (bi : Nat) (nextCase stmts : Nat) :
    Nat → Nat → List CaseExpr → Code
  | _, _, [] => []
  | _, _, [c] => compileCaseExpr p nextCase c
  | off, ei, c :: rest =>
    let nextItem := off + sizeCaseExpr c + 1
    compileCaseExpr p nextItem c ++ [(.jump stmts, p)] ++
      [(.label (labelName ("case-multi-expr-" ++ toString bi ++ "-" ++ toString (ei + 1)) p sfx), p)] ++
      compileConds p sfx bi nextCase stmts (nextItem + 1) (ei + 1) rest

/-- `generate_for_loop_instructions_positive_or_negative_step`, placed at `off`, around the already
generated code of the body (which starts at `off + 8` and carries the extended label suffix);
`outOff` = address of the `out-of-for` label -/
def forBody (sfx : String) (x : Nat) (t : Ty) (bodyCode : Code) (up : Bool) (p : Pos) (off outOff : Nat) : Code :=
  [(.label (labelName (if up then "positive-loop" else "negative-loop") p sfx), p), (.copyCToB, p)] ++ loadVar x p ++
    [(.bin (if up then .lessOrEqual else .greaterOrEqual), p), (.jumpIfFalse outOff, p), (.pushRegs, p)] ++
    bodyCode ++
    [(.popRegs, p)] ++ loadVar x p ++ [(.copyDToB, p), (.bin .plus, p), (.cast t, p)] ++ storeVar x p ++
    [(.jump off, p)]

def stepSuffix (sfx : String) (up : Bool) : String :=
  sfx ++ (if up then "_positive-step" else "_negative-step")

mutual
def compileStmt : String → Nat → SStmt → Code
  | sfx, _, .skip => []
  | sfx, off, .seq a b => compileStmt sfx off a ++ compileStmt sfx (off + sizeStmt a) b
  | sfx, _, .comment => []
  | sfx, _, .dim x t p => [(.allocate t, p), (.varPath x, p), (.copyAToVarPath, p)]
  | sfx, _, .dimArr a t dims p =>
    -- `generate_dim_name`, `DimType::Array`
    [(.beginArgs, p)] ++ compileDims p dims ++ [(.allocArr t, p), (.arrPath a, p), (.copyAToVarPath, p)]
  | sfx, _, .assign x t e p => compileExprTo e t ++ storeVar x p
  | sfx, _, .assignElem a t idx e p =>
    -- `generate_assignment_instructions`: value (converted), then the path, then the store
    compileExprTo e t ++ [(.arrPath a, p)] ++ compileIdx idx ++ [(.copyAToVarPath, p)]
  | sfx, _, .print items p =>
    [(.printSetPrinter, p), (.loadA (.int 0), p), (.printSetFormat, p)] ++ compileItems p items ++ [(.printEnd, p)]
  | sfx, _, .data items p =>
    [(.beginArgs, p)] ++ items.flatMap (fun (v, q) => [(.loadA v, q), (.pushByVal, q)]) ++
      [(.pushStack, p), (.builtInData, p), (.popStack, p)]
  | sfx, _, .read tgs p =>
    -- `READ a, b` is generated as `READ a : READ b` (one built-in call per target)
    if tgs.isEmpty then [(.beginArgs, p), (.pushStack, p), (.builtInRead, p), (.popStack, p)]
    else compileReads p tgs
  | sfx, off, .ifBlock c thn elifs hasElse els p =>
    let nc := (compileExpr c).length
    let thnOff := off + nc + 1
    let afterThn := thnOff + sizeStmt thn + 1          -- address of the first else-if label / else / end-if
    let elseOff := afterThn + sizeElifs elifs           -- address of the `else` label (if any)
    let endOff := elseOff + (if hasElse then 1 + sizeStmt els else 0)
    compileExpr c ++ [(.jumpIfFalse afterThn, p)] ++ compileStmt sfx thnOff thn ++ [(.jump endOff, p)] ++
      compileElifs sfx p endOff elseOff afterThn 0 elifs ++
      (if hasElse then [(.label (labelName "else" p sfx), p)] ++ compileStmt sfx (elseOff + 1) els else []) ++
      [(.label (labelName "end-if" p sfx), p)]
  | sfx, off, .select e cases hasElse els p =>
    let ne := (compileExpr e).length
    let casesOff := off + ne + 1 + 3
    let elseOff := casesOff + sizeCases cases
    let endOff := elseOff + (if hasElse then 1 + sizeStmt els else 0)
    -- `jump select-begin; jump select-skip; label select-begin`: a resume point for an error in the selector
    compileExpr e ++ [(.pushA, p)] ++
      [(.jump (casesOff - 1), p), (.jump (endOff + 2), p), (.label (labelName "select-begin" p sfx), p)] ++
      compileCases sfx p endOff elseOff casesOff 0 cases ++
      (if hasElse then [(.label (labelName "case-else" p sfx), p)] ++ compileStmt sfx (elseOff + 1) els else []) ++
      [(.label (labelName "end-select" p sfx), p), (.popA, p), (.label (labelName "select-skip" p sfx), p)]
  | sfx, off, .forLoop x t lo hi step body p =>
    let nlo := (compileExprTo lo t).length
    let nhi := (compileExprTo hi t).length
    let hdr := off + nlo + 2 + nhi
    compileExprTo lo t ++ storeVar x p ++ compileExprTo hi t ++
    (match step with
     | none =>
       let bodyOff := hdr + 6
       let outOff := bodyOff + sizeForBody x body
       -- `jump for-begin; jump out-of-for; label for-begin`: a resume point for an error in the header
       [(.copyAToC, p), (.loadA (.int 1), p), (.copyAToD, p),
        (.jump (hdr + 5), p), (.jump outOff, p), (.label (labelName "for-begin" p sfx), p)] ++
         forBody sfx x t (compileStmt (stepSuffix sfx true) (bodyOff + 8) body) true p bodyOff outOff ++
         [(.label (labelName "out-of-for" p sfx), p)]
     | some s =>
       let ns := (compileExpr s).length
       let negOff := hdr + 1 + ns + 11
       let testPosOff := negOff + sizeForBody x body + 1
       let posOff := testPosOff + 4
       let zeroOff := posOff + sizeForBody x body + 1
       let outOff := zeroOff + 2
       [(.pushA, p)] ++ compileExpr s ++
         [(.copyAToD, p), (.popA, p), (.copyAToC, p),
          (.jump (hdr + 1 + ns + 5), p), (.jump outOff, p), (.label (labelName "for-begin" p sfx), p),
          (.loadA (.int 0), p), (.copyAToB, p), (.copyDToA, p),
          (.bin .less, p), (.jumpIfFalse testPosOff, p)] ++
         forBody sfx x t (compileStmt (stepSuffix sfx false) (negOff + 8) body) false p negOff outOff ++
         [(.jump outOff, p), (.label (labelName "test-positive-or-zero" p sfx), p), (.copyDToA, p),
          (.bin .greater, p), (.jumpIfFalse zeroOff, p)] ++
         forBody sfx x t (compileStmt (stepSuffix sfx true) (posOff + 8) body) true p posOff outOff ++
         [(.jump outOff, p), (.label (labelName "zero" p sfx), p), (.throwZeroStep, s.pos),
          (.label (labelName "out-of-for" p sfx), p)])
  | sfx, off, .while c body p =>
    let nc := (compileExpr c).length
    let bodyOff := off + 1 + nc + 1
    let wendOff := bodyOff + sizeStmt body + 1
    [(.label (labelName "while" p sfx), p)] ++ compileExpr c ++ [(.jumpIfFalse wendOff, p)] ++
      compileStmt sfx bodyOff body ++ [(.jump off, p), (.label (labelName "wend" p sfx), p)]
  | sfx, off, .doLoop c top u body p =>
    let nc := (compileExpr c).length
    if top then
      let bodyOff := off + 1 + nc + (if u then 3 else 1)
      let loopOff := bodyOff + sizeStmt body + 1
      [(.label (labelName "do" p sfx), p)] ++ compileExpr c ++
        (if u then [(.jumpIfFalse (bodyOff - 1), p), (.jump loopOff, p), (.label (labelName "do-body" p sfx), p)]
         else [(.jumpIfFalse loopOff, p)]) ++
        compileStmt sfx bodyOff body ++
        [(.jump off, p), (.label (labelName "loop" p sfx), p)]
    else
      let loopOff := off + 1 + sizeStmt body + nc + (if u then 1 else 2)
      [(.label (labelName "do" p sfx), p)] ++ compileStmt sfx (off + 1) body ++ compileExpr c ++
        (if u then [(.jumpIfFalse off, p)] else [(.jumpIfFalse loopOff, p), (.jump off, p)]) ++
        [(.label (labelName "loop" p sfx), p)]
  | sfx, _, .end_ p => [(.halt, p)]
/-- the ELSEIF arms starting at `off` (the address of the label of arm `i`) -/
def compileElifs : String → Pos → Nat → Nat → Nat → Nat → ElseIfs → Code
  | _, _, _, _, _, _, .nil => []
  | sfx, p, endOff, elseOff, off, i, .cons c body rest =>
    let nc := (compileExpr c).length
    let bodyOff := off + 1 + nc + 1
    let next := bodyOff + sizeStmt body + 1
    [(.label (labelName ("else-if-" ++ toString i) p sfx), p)] ++ compileExpr c ++ [(.jumpIfFalse next, p)] ++
      compileStmt sfx bodyOff body ++ [(.jump endOff, p)] ++ compileElifs sfx p endOff elseOff next (i + 1) rest
/-- the CASE blocks starting at `off` (the address of the label of block `i`) -/
def compileCases : String → Pos → Nat → Nat → Nat → Nat → SCases → Code
  | _, _, _, _, _, _, .nil => []
  | sfx, p, endOff, elseOff, off, i, .cons conds body rest =>
    let multi := decide (conds.length > 1)
    let condsOff := off + 1
    let stmtsLabel := condsOff + sizeConds conds
    let bodyOff := stmtsLabel + (if multi then 1 else 0)
    let next := bodyOff + sizeStmt body + 1
    [(.label (labelName ("case" ++ toString i) p sfx), p)] ++
      compileConds p sfx i next stmtsLabel condsOff 0 conds ++
      (if multi then [(.label (labelName ("case-statements" ++ toString i) p sfx), p)] else []) ++
      compileStmt sfx bodyOff body ++ [(.jump endOff, p)] ++ compileCases sfx p endOff elseOff next (i + 1) rest
end

/-- `move_data_statements_first`: top-level DATA statements are generated before everything else -/
def topLevel : SStmt → List SStmt
  | .seq a b => topLevel a ++ topLevel b
  | .skip => []
  | s => [s]

def isData : SStmt → Bool
  | .data _ _ => true
  | _ => false

def seqOf : List SStmt → SStmt
  | [] => .skip
  | s :: rest => .seq s (seqOf rest)

def reorder (body : SStmt) : SStmt :=
  let ss := topLevel body
  seqOf (ss.filter isData ++ ss.filter (fun s => !isData s))

/-- `generate_instructions` for a core program (no procedures): the statements, then `Halt` -/
def compile (prog : SProgram) : Code :=
  let body := reorder prog.body
  compileStmt "" 0 body ++ [(.halt, maxPos)]

/-! ### normalisation of the real instruction list -/

abbrev litToVal := _root_.RbModel.Core.litToVal
abbrev qualToTy := _root_.RbModel.Core.qualToTy
abbrev slotOf := _root_.RbModel.Core.slotOf

def targetAddr : Target → Option Nat
  | .addr a => some a
  | .unresolved _ => none

/-- `AllocateArrayIntoA(BuiltIn(q))` as serialised by `instr_sx::expr_type` -/
def elemTy? : Sexp → Option Ty
  | .list [.atom "builtin", q] => (Instr.qual? q).map qualToTy
  | _ => none

/-- `vars`: the scalar slot table, `arrs`: the array table (both: upper-cased bare name, qualifier) -/
def normInstr (vars arrs : List (String × Ty)) : Instr → Option CInstr
  | .loadIntoA v => (litToVal v).map .loadA
  | .copyAToB => some .copyAToB | .copyAToC => some .copyAToC | .copyAToD => some .copyAToD
  | .copyCToB => some .copyCToB | .copyDToA => some .copyDToA | .copyDToB => some .copyDToB
  | .plus => some (.bin .plus) | .minus => some (.bin .minus) | .multiply => some (.bin .multiply)
  | .divide => some (.bin .divide) | .modulo => some (.bin .modulo)
  | .less => some (.bin .less) | .lessOrEqual => some (.bin .lessOrEqual) | .equal => some (.bin .equal)
  | .greaterOrEqual => some (.bin .greaterOrEqual) | .greater => some (.bin .greater)
  | .notEqual => some (.bin .notEqual) | .and => some (.bin .and) | .or => some (.bin .or)
  | .negateA => some .negateA | .notA => some .notA
  | .cast q => some (.cast (qualToTy q))
  | .pushAToValueStack => some .pushA | .popValueStackIntoA => some .popA
  | .varPathName n false =>
    match slotOf arrs n with
    | some a => some (.arrPath a)
    | none => (slotOf vars n).map .varPath
  | .varPathIndex => some .pathIndex
  | .copyVarPathToA => some .copyVarPathToA | .popVarPath => some .popVarPath
  | .copyAToVarPath => some .copyAToVarPath
  | .label l => some (.label l)
  | .jump t => (targetAddr t).map .jump
  | .jumpIfFalse t => (targetAddr t).map .jumpIfFalse
  | .pushRegisters => some .pushRegs | .popRegisters => some .popRegs
  | .throw e => if e == "ForLoopZeroStep" then some .throwZeroStep else none
  | .halt => some .halt
  | .allocateBuiltIn q => some (.allocate (qualToTy q))
  | .allocateArrayIntoA t => (elemTy? t).map .allocArr
  | .printSetPrinterType p => if p == "print" then some .printSetPrinter else none
  | .printSetFormatStringFromA => some .printSetFormat
  | .printComma => some .printComma | .printSemicolon => some .printSemicolon
  | .printValueFromA => some .printValue | .printEnd => some .printEnd
  | .beginCollectArguments => some .beginArgs
  | .pushUnnamedByVal => some .pushByVal | .pushUnnamedByRef => some .pushByRef
  | .pushStack => some .pushStack | .popStack => some .popStack
  | .builtInSub n => if n == "Data" then some .builtInData else if n == "Read" then some .builtInRead else none
  | .builtInFunction n =>
    if n == "LBound" then some (.builtInBound false) else if n == "UBound" then some (.builtInBound true) else none
  | .enqueueToReturnStack i => some (.enqueue i)
  | .dequeueFromReturnStack => some .dequeue
  | .dequeueFromReturnStackWithPath => some .dequeuePath
  | .stashFunctionReturnValue n =>
    if n.q == some .int && n.bare.map Char.toUpper == "LBOUND" then some (.stashBound false)
    else if n.q == some .int && n.bare.map Char.toUpper == "UBOUND" then some (.stashBound true)
    else none
  | .unStashFunctionReturnValue => some .unStash
  | _ => none

def normalise (vars arrs : List (String × Ty)) (code : Array InstrPos) : Option Code :=
  code.toList.mapM fun ip => (normInstr vars arrs ip.instr).map fun c => (c, ⟨ip.row, ip.col⟩)

def firstDiff : Code → Code → Nat → Option Nat
  | [], [], _ => none
  | a :: as, b :: bs, i => if a = b then firstDiff as bs (i + 1) else some i
  | _, _, i => some i

end RbModel.ArrL.Compile
