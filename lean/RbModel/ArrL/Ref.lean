import RbModel.ArrL.Syntax
import RbModel.Ref
/-!
# RbModel.ArrL.Ref — big-step reference semantics with arrays (property C04, phase A)

The reference semantics of C01 (`RbModel.Ref`) extended with arrays of scalars; the SPECIFICATION side of the tie:
written from the language rules (the text of property C04), not from the generator or the VM.

An array value (`RArr`) is its element type, its declared bounds and a FINITE MAP from index tuples to values: an
association list holding the elements stored so far; every other element of the index box reads as zero / the empty
string (`RArr.get`).  There is no flattening, no stride: two index tuples denote the same element iff they are equal.

Rules (each checked against the real pipeline by `harness/src/bin/c04l.rs`):
* `DIM a(l1 TO u1, …)`: the bound expressions are evaluated left to right (an error inside one carries that expression's
  position), then converted to INTEGER left to right (round half away from zero; Overflow (6) beyond ±32767 — the first
  failing conversion wins), then `ui < li` for some dimension is Subscript out of range (9); all three at the position of
  the declared variable.  On success the array holds zero / "" everywhere — also when the statement runs again (a `DIM`
  in a loop, a `REDIM`): the old contents are gone.  An array with more than `sizeLimit` elements is outside the
  modelled language (`tooBig`: the real outcome is Out of memory (7) or success depending on the machine).
* subscript conversion (`evalIdx`): every subscript, left to right, is evaluated and converted to INTEGER exactly like
  the right-hand side of an assignment to an INTEGER variable (`storeCast`: round half away from zero, Overflow (6)
  beyond ±32767, at the SUBSCRIPT's position).  NB: a LONG / SINGLE / DOUBLE subscript beyond ±32767 is therefore
  Overflow, not Subscript out of range (see the report).
* element read `a(i…)`: subscripts, then Subscript out of range (9) at the position of the element expression iff the
  NUMBER of subscripts differs from the number of dimensions or some subscript lies outside its declared bounds.
* element assignment `a(i…) = e`: `e` is evaluated and converted to the element type FIRST, then the subscripts, then the
  bounds check (9 at the statement's position), then the store, which changes that element and nothing else.
* `LBOUND(a[, d])` / `UBOUND(a[, d])`: `d` converted to INTEGER (Overflow at the call's position), `d < 1` or `d` greater
  than the number of dimensions is Subscript out of range (9) at the call's position; the result is the declared bound
  as an INTEGER.
* `READ a(i…)`: subscripts and bounds check first (9 at the target's position), then the DATA item (Out of DATA (4) /
  conversion errors at the statement's position), then the store.
* an array that was never dimensioned when it is used (`DIM` inside a branch not taken): `illFormed` — outside the
  language (the real interpreter aborts with a panic, see the report).

Expression evaluation is pure (no procedures): `eval` needs the scalar environment and the arrays.
-/
namespace RbModel.ArrL.Ref
open RbModel RbModel.Num RbModel.ArrL
open RbModel.Ast (Pos)

abbrev codeOf := _root_.RbModel.Ref.codeOf
abbrev binStep := _root_.RbModel.Ref.binStep
abbrev printValue := _root_.RbModel.Ref.printValue
abbrev truthy := _root_.RbModel.Ref.truthy
def codeOutOfData : Nat := 4
def codeZeroStep : Nat := 258
def codeSubscript : Nat := 9
def codeOutOfMemory : Nat := 7

/-- arrays with more elements are outside the modelled language -/
def sizeLimit : Nat := 1000000

/-! ### array values -/

structure RArr where
  ty : Ty
  bounds : List (Int × Int)
  /-- the elements stored so far, most recent first, at most one entry per index tuple -/
  cells : List (List Int × Val)

/-- every subscript within its declared bounds, and as many subscripts as dimensions -/
def inBox : List (Int × Int) → List Int → Bool
  | [], [] => true
  | (lo, hi) :: bs, i :: is => decide (lo ≤ i) && decide (i ≤ hi) && inBox bs is
  | _, _ => false

def RArr.inBounds (a : RArr) (idx : List Int) : Bool := inBox a.bounds idx

def lookupCell : List (List Int × Val) → List Int → Option Val
  | [], _ => none
  | (k, v) :: rest, idx => if k = idx then some v else lookupCell rest idx

def RArr.get (a : RArr) (idx : List Int) : Val := (lookupCell a.cells idx).getD (zeroOf a.ty)

def RArr.set (a : RArr) (idx : List Int) (v : Val) : RArr :=
  { a with cells := (idx, v) :: a.cells.filter (fun c => !(c.1 == idx)) }

/-- number of elements of an index box with `lo ≤ hi` in every dimension -/
def boxSize : List (Int × Int) → Nat
  | [] => 1
  | (lo, hi) :: bs => (hi - lo + 1).toNat * boxSize bs

/-! ### results -/

inductive ERes (α : Type) where
  | ok (v : α)
  | err (code : Nat) (p : Pos)
  | inexact
  /-- use of an array that has not been dimensioned -/
  | illFormed
  deriving Inhabited

def ERes.bind {α β : Type} : ERes α → (α → ERes β) → ERes β
  | .ok v, f => f v
  | .err c p, _ => .err c p
  | .inexact, _ => .inexact
  | .illFormed, _ => .illFormed

def lift (p : Pos) : Res Val → ERes Val
  | .ok v => .ok v
  | .err e => .err (codeOf e) p
  | .inexact => .inexact

/-- a value converted to INTEGER, as a mathematical integer (`cast … .int` always answers an INTEGER) -/
def toIndex (p : Pos) (r : Res Val) : ERes Int :=
  match r with
  | .ok (.int i) => .ok i
  | .ok _ => .illFormed
  | .err e => .err (codeOf e) p
  | .inexact => .inexact

def getArr (arrs : List (Option RArr)) (a : Nat) : ERes RArr :=
  match arrs[a]? with
  | some (some A) => .ok A
  | _ => .illFormed

/-- the bound `d` (1-based) of an array: Subscript out of range unless `1 ≤ d ≤ rank` -/
def boundOf (upper : Bool) (A : RArr) (d : Int) (p : Pos) : ERes Val :=
  if d ≤ 0 then .err codeSubscript p
  else
    match A.bounds[d.toNat - 1]? with
    | some (lo, hi) => .ok (.int (if upper then hi else lo))
    | none => .err codeSubscript p

mutual
def eval (env : List Val) (arrs : List (Option RArr)) : Expr → ERes Val
  | .lit v _ => .ok v
  | .var x t _ => .ok (env.getD x (zeroOf t))
  | .un .neg e p => (eval env arrs e).bind fun v => lift p (negate v)
  | .un .not e p => (eval env arrs e).bind fun v => lift p (unaryNot v)
  | .bin op l r t p =>
    (eval env arrs l).bind fun a => (eval env arrs r).bind fun b => lift p (binStep op t a b)
  | .paren e _ => eval env arrs e
  | .elem a idx _ p =>
    (evalIdx env arrs idx).bind fun is =>
      (getArr arrs a).bind fun A =>
        if A.inBounds is then .ok (A.get is) else .err codeSubscript p
  | .bound upper a _ _ p => (getArr arrs a).bind fun A => boundOf upper A 1 p
  | .boundD upper a _ _ d p =>
    (getArr arrs a).bind fun A =>
      (eval env arrs d).bind fun dv =>
        (toIndex p (cast dv .int)).bind fun k => boundOf upper A k p
/-- the subscripts, left to right, each converted to INTEGER at its own position -/
def evalIdx (env : List Val) (arrs : List (Option RArr)) : Exprs → ERes (List Int)
  | .nil => .ok []
  | .cons e rest =>
    (eval env arrs e).bind fun v =>
      (toIndex e.pos (storeCast e.ty .int v)).bind fun i =>
        (evalIdx env arrs rest).bind fun is => .ok (i :: is)
end

/-- evaluate and convert to the type of the location that receives the value -/
def evalTo (env : List Val) (arrs : List (Option RArr)) (e : Expr) (target : Ty) : ERes Val :=
  (eval env arrs e).bind fun v => lift e.pos (storeCast e.ty target v)

/-- the bound expressions of a DIM, left to right (a missing lower bound is 0) -/
def evalDims (env : List Val) (arrs : List (Option RArr)) : Dims → ERes (List (Val × Val))
  | .nil => .ok []
  | .cons lo hi rest =>
    (match lo with
     | none => ERes.ok (Val.int 0)
     | some e => eval env arrs e).bind fun l =>
      (eval env arrs hi).bind fun h =>
        (evalDims env arrs rest).bind fun ds => .ok ((l, h) :: ds)

/-- conversion of the evaluated bounds to INTEGER, left to right; errors at the DIM's position -/
def convDims (p : Pos) : List (Val × Val) → ERes (List (Int × Int))
  | [] => .ok []
  | (l, h) :: rest =>
    (toIndex p (cast l .int)).bind fun lo =>
      (toIndex p (cast h .int)).bind fun hi =>
        (convDims p rest).bind fun ds => .ok ((lo, hi) :: ds)

structure St where
  env : List Val
  arrs : List (Option RArr)
  out : Print.WritePrinter
  data : List Val
  dataIdx : Nat

inductive Outcome where
  | normal
  | halted
  | error (code : Nat) (p : Pos)
  | inexact
  | outOfFuel
  /-- use of an array that has not been dimensioned: outside the language -/
  | illFormed
  /-- an array with more than `sizeLimit` elements: outside the language -/
  | tooBig
  deriving Inhabited

def St.set (s : St) (x : Nat) (v : Val) : St := { s with env := s.env.set x v }

def St.setArr (s : St) (a : Nat) (A : RArr) : St := { s with arrs := s.arrs.set a (some A) }

def outcomeOf {α : Type} : ERes α → Outcome
  | .ok _ => .normal
  | .err c p => .error c p
  | .inexact => .inexact
  | .illFormed => .illFormed

def endsInSeparator : List PrintItem → Bool
  | [] => false
  | [.comma] => true
  | [.semicolon] => true
  | [_] => false
  | _ :: rest => endsInSeparator rest

def printItems (s : St) : List PrintItem → St × Outcome
  | [] => (s, .normal)
  | .comma :: rest => printItems { s with out := s.out.moveToNextPrintZone } rest
  | .semicolon :: rest => printItems s rest
  | .expr e :: rest =>
    match eval s.env s.arrs e with
    | .ok v =>
      match printValue v with
      | none => (s, .inexact)
      | some pv => printItems { s with out := s.out.print (Print.valueText pv) } rest
    | r => (s, outcomeOf r)

def evalCond (s : St) (c : Expr) : Except Outcome Bool :=
  match eval s.env s.arrs c with
  | .ok v =>
    match truthy v with
    | some b => .ok b
    | none => .error (.error 13 c.pos)
  | r => .error (outcomeOf r)

def relTest (p : Pos) (op : Op) (a b : Val) : Except Outcome Bool :=
  match tryCmp a b with
  | .ok o => .ok (relHolds op o)
  | .err e => .error (.error (codeOf e) p)
  | .inexact => .error .inexact

def evalE (s : St) (e : Expr) : Except Outcome Val :=
  match eval s.env s.arrs e with
  | .ok v => .ok v
  | r => .error (outcomeOf r)

def caseMatches (s : St) (p : Pos) (subject : Val) : CaseExpr → Except Outcome Bool
  | .simple e =>
    match evalE s e with
    | .error o => .error o
    | .ok v => relTest p .equal subject v
  | .is op e =>
    match evalE s e with
    | .error o => .error o
    | .ok v => relTest p op subject v
  | .range lo hi =>
    match evalE s lo with
    | .error o => .error o
    | .ok l =>
      match relTest p .greaterOrEqual subject l with
      | .error o => .error o
      | .ok false => .ok false
      | .ok true =>
        match evalE s hi with
        | .error o => .error o
        | .ok h => relTest p .lessOrEqual subject h

def anyMatches (s : St) (p : Pos) (subject : Val) : List CaseExpr → Except Outcome Bool
  | [] => .ok false
  | c :: rest =>
    match caseMatches s p subject c with
    | .error o => .error o
    | .ok true => .ok true
    | .ok false => anyMatches s p subject rest

inductive StepSign where
  | neg | pos | zero

def stepSign (p : Pos) (s : Val) : Except Outcome StepSign :=
  match relTest p .less s (.int 0) with
  | .error o => .error o
  | .ok true => .ok .neg
  | .ok false =>
    match relTest p .greater s (.int 0) with
    | .error o => .error o
    | .ok true => .ok .pos
    | .ok false => .ok .zero

/-- `DIM a(dims)`: the new array, or how the statement fails -/
def dimArray (s : St) (t : Ty) (dims : Dims) (p : Pos) : Except Outcome RArr :=
  match (evalDims s.env s.arrs dims).bind (convDims p) with
  | .ok bounds =>
    if bounds.any (fun b => decide (b.2 < b.1)) then .error (.error codeSubscript p)
    else if boxSize bounds > sizeLimit then .error .tooBig
    else .ok ⟨t, bounds, []⟩
  | r => .error (outcomeOf r)

/-- one DATA item converted to the target's type; errors at the READ statement's position -/
def readItem (s : St) (t : Ty) (p : Pos) : Except Outcome Val :=
  match s.data[s.dataIdx]? with
  | none => .error (.error codeOutOfData p)
  | some v =>
    match cast v t with
    | .ok w => .ok w
    | .err e => .error (.error (codeOf e) p)
    | .inexact => .error .inexact

mutual
/-- `exec fuel stmt state`: the state after the statement (output included) and how it ended -/
def exec : Nat → Stmt → St → St × Outcome
  | 0, _, s => (s, .outOfFuel)
  | _ + 1, .skip, s => (s, .normal)
  | fuel + 1, .seq a b, s =>
    match exec fuel a s with
    | (s', .normal) => exec fuel b s'
    | r => r
  | _ + 1, .assign x t e _, s =>
    match evalTo s.env s.arrs e t with
    | .ok v => (s.set x v, .normal)
    | r => (s, outcomeOf r)
  | _ + 1, .dimArr a t dims p, s =>
    match dimArray s t dims p with
    | .ok A => (s.setArr a A, .normal)
    | .error o => (s, o)
  | _ + 1, .assignElem a t idx e p, s =>
    -- right-hand side first, then the subscripts, then the bounds check at the statement's position
    match evalTo s.env s.arrs e t with
    | .ok v =>
      match (evalIdx s.env s.arrs idx).bind fun is => (getArr s.arrs a).bind fun A => .ok (is, A) with
      | .ok (is, A) =>
        if A.inBounds is then (s.setArr a (A.set is v), .normal) else (s, .error codeSubscript p)
      | r => (s, outcomeOf r)
    | r => (s, outcomeOf r)
  | _ + 1, .print items _, s =>
    match printItems s items with
    | (s', .normal) =>
      if endsInSeparator items then (s', .normal) else ({ s' with out := s'.out.println }, .normal)
    | r => r
  | _ + 1, .read (.var x t _) p, s =>
    match readItem s t p with
    | .ok w => ({ s.set x w with dataIdx := s.dataIdx + 1 }, .normal)
    | .error o => (s, o)
  | _ + 1, .read (.elem a t idx q) p, s =>
    match (evalIdx s.env s.arrs idx).bind fun is => (getArr s.arrs a).bind fun A => .ok (is, A) with
    | .ok (is, A) =>
      if A.inBounds is then
        match readItem s t p with
        | .ok w => ({ s.setArr a (A.set is w) with dataIdx := s.dataIdx + 1 }, .normal)
        | .error o => (s, o)
      else (s, .error codeSubscript q)
    | r => (s, outcomeOf r)
  | fuel + 1, .ifs c thn els _, s =>
    match evalCond s c with
    | .error o => (s, o)
    | .ok true => exec fuel thn s
    | .ok false => exec fuel els s
  | fuel + 1, .select e cases p, s =>
    match evalE s e with
    | .error o => (s, o)
    | .ok subject => execCases fuel p subject cases s
  | fuel + 1, .forLoop x t lo hi step body p, s =>
    match evalTo s.env s.arrs lo t with
    | .ok l =>
      let s := s.set x l
      match evalTo s.env s.arrs hi t with
      | .ok h =>
        match step with
        | none => forIter fuel x t h (.int 1) true body p s
        | some se =>
          match evalE s se with
          | .error o => (s, o)
          | .ok sv =>
            match stepSign p sv with
            | .error o => (s, o)
            | .ok .neg => forIter fuel x t h sv false body p s
            | .ok .pos => forIter fuel x t h sv true body p s
            | .ok .zero => (s, .error codeZeroStep se.pos)
      | r => (s, outcomeOf r)
    | r => (s, outcomeOf r)
  | fuel + 1, .while c body p, s =>
    match evalCond s c with
    | .error o => (s, o)
    | .ok false => (s, .normal)
    | .ok true =>
      match exec fuel body s with
      | (s', .normal) => exec fuel (.while c body p) s'
      | r => r
  | fuel + 1, .doLoop c top until_ body p, s =>
    if top then
      match evalCond s c with
      | .error o => (s, o)
      | .ok b =>
        if b != until_ then
          match exec fuel body s with
          | (s', .normal) => exec fuel (.doLoop c top until_ body p) s'
          | r => r
        else (s, .normal)
    else
      match exec fuel body s with
      | (s', .normal) =>
        match evalCond s' c with
        | .error o => (s', o)
        | .ok b => if b != until_ then exec fuel (.doLoop c top until_ body p) s' else (s', .normal)
      | r => r
  | _ + 1, .end_ _, s => (s, .halted)
def execCases : Nat → Pos → Val → Cases → St → St × Outcome
  | 0, _, _, _, s => (s, .outOfFuel)
  | _ + 1, _, _, .nil, s => (s, .normal)
  | fuel + 1, _, _, .else_ body, s => exec fuel body s
  | fuel + 1, p, subject, .case conds body rest, s =>
    match anyMatches s p subject conds with
    | .error o => (s, o)
    | .ok true => exec fuel body s
    | .ok false => execCases fuel p subject rest s
def forIter : Nat → Nat → Ty → Val → Val → Bool → Stmt → Pos → St → St × Outcome
  | 0, _, _, _, _, _, _, _, s => (s, .outOfFuel)
  | fuel + 1, x, t, h, sv, up, body, p, s =>
    let cur := s.env.getD x (zeroOf t)
    match relTest p (if up then .lessOrEqual else .greaterOrEqual) cur h with
    | .error o => (s, o)
    | .ok false => (s, .normal)
    | .ok true =>
      match exec fuel body s with
      | (s', .normal) =>
        let cur' := s'.env.getD x (zeroOf t)
        match (plus cur' sv).bind (fun v => cast v t) with
        | .ok v => forIter fuel x t h sv up body p (s'.set x v)
        | .err e => (s', .error (codeOf e) p)
        | .inexact => (s', .inexact)
      | r => r
end

def St.init (P : Program) : St :=
  { env := P.slots.map zeroOf, arrs := P.arrs.map fun _ => none, out := Print.WritePrinter.new,
    data := P.data, dataIdx := 0 }

/-- run a whole program -/
def run (fuel : Nat) (P : Program) : St × Outcome := exec fuel P.body (St.init P)

end RbModel.ArrL.Ref
