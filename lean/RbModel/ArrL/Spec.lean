import RbModel.ArrL.Ref
import RbModel.ArrL.Vm
/-!
# RbModel.ArrL.Spec — PROPOSED statements of phase B (definitions only, nothing proved)

`CompileCorrect` is the statement `ArrL.compile_correct` phase B should prove (the VM model on the generator model's code
does what `ArrL.Ref` prescribes), with the invariants it is expected to need spelled out as definitions so that they
type-check against the three models; `StoreChangesOnlyThatElement` and `SubscriptErrorIffOutOfBounds` (with their
`def … : Prop` instances `store_changes_only_that_element`, `subscript_error_iff_out_of_bounds`) are the two
property-level statements of C04 phase B should derive FROM THE REFERENCE SEMANTICS ALONE.
Everything here is a `def … : Prop`; there is no theorem, no `sorry`, no axiom.  Shapes follow `Thm/C01SimBase.lean`
and `RbModel/Proc/Spec.lean`.

Expected proof structure: `ExprSpec` / `IdxSpec` by mutual structural induction on the expression (expressions do
not change the reference state and there are no calls, so no fuel is involved); `StmtSpec` by induction on the fuel of
`Ref.exec` with every C01 case lemma ported (register A is `RV.sc v` where C01 has `v`); the new cases are
* `elem`: `IdxSpec` (the path on top of the path stack grows by the converted subscripts, register A is saved and restored
  around each one) + `ArrRel` (`Arr.getElem` of the flat vector = `RArr.get` of the finite map inside the box, `none`
  outside: `RbThm.C04.absIndex_some_iff`, `getElem_some_iff`);
* `assignElem`: the same + `ArrRel` preserved by `Arr.setElem` vs `RArr.set` (`RbThm.C04.get_set_same`,
  `get_set_other`, `absIndex_inj`: distinct tuples have distinct flat indices);
* `dimArr`: `allocArray` vs `Ref.dimArray` (`RbThm.C04.new_wf`, `getElem_new`, `dimsLenChecked_some`; the size limit makes
  `dimsLenChecked` succeed);
* `bound` / `boundD`: the whole-array round trip through A, the argument list and the queue stores the array back
  unchanged (`BoundSpec` is `ExprSpec` for these nodes);
* `read` with an element target: `dequeuePath` restores the path resolved before the call.
-/
namespace RbModel.ArrL.Spec
open RbModel RbModel.Num RbModel.ArrL RbModel.ArrL.Compile RbModel.ArrL.Vm
open RbModel.Ast (Pos)

/-- zero or more `next` steps -/
inductive Steps (code : Code) : Vm → Vm → Prop where
  | refl (σ : Vm) : Steps code σ σ
  | cons {σ σ' σ'' : Vm} : step code σ = .next σ' → Steps code σ' σ'' → Steps code σ σ''

/-- `code` contains `c` at address `off` -/
def CodeAt (code : Code) (off : Nat) (c : Code) : Prop :=
  ∀ i, i < c.length → code[off + i]? = c[i]?

/-- the propositional index box (same as `RbThm.C04.InBox`): as many subscripts as dimensions, each within its bounds -/
def InBox : List (Int × Int) → List Int → Prop
  | [], [] => True
  | (lo, hi) :: ds, i :: is => lo ≤ i ∧ i ≤ hi ∧ InBox ds is
  | _, _ => False

/-- a VM array (dimensions + row-major flat vector) represents a reference array (bounds + finite map):
same bounds, the vector has one entry per element of the box (`RbThm.C04.WF`), and every tuple of the box reads the
same value through `abs_index` as through the map.  With `RbThm.C04.absIndex_inj` / `absIndex_surj` (the bijection
between the box and `0 … len-1`) this determines the vector from the map. -/
def ArrRel (A : Ref.RArr) (V : VArr) : Prop :=
  V.dims = A.bounds ∧ V.elems.length = Arr.dimsLen V.dims ∧
  (∀ idx, InBox A.bounds idx → Arr.getElem V idx = some (A.get idx)) ∧
  (∀ idx v, (idx, v) ∈ A.cells → InBox A.bounds idx ∧ v.tag = A.ty) ∧
  (∀ v ∈ V.elems, v.tag = A.ty)

/-- the arrays of the two states correspond slot by slot (a never-dimensioned array on both sides) -/
def ArrsRel (ra : List (Option Ref.RArr)) (va : List (Option VArr)) : Prop :=
  ra.length = va.length ∧
  ∀ a : Nat, match ra[a]?, va[a]? with
    | some (some A), some (some V) => ArrRel A V
    | some none, some none => True
    | none, none => True
    | _, _ => False

/-- the relation between a reference state and a VM state at a statement or expression boundary -/
def Rel (s : Ref.St) (σ : Vm) : Prop :=
  σ.env = s.env ∧ ArrsRel s.arrs σ.arrs ∧ σ.out = s.out ∧ σ.data = s.data ∧ σ.dataIdx = s.dataIdx ∧
  σ.queue = [] ∧ σ.funRes = none

/-- what a construct leaves alone: value stack, path stack, register stack, the open argument lists, the stack trace,
the pending PRINT separator -/
def SameStacks (σ σ' : Vm) : Prop :=
  σ'.vals = σ.vals ∧ σ'.paths = σ.paths ∧ σ'.regStack = σ.regStack ∧ σ'.ctx = σ.ctx ∧ σ'.trace = σ.trace ∧
  σ'.skipNewline = σ.skipNewline

/-- the run ends in an error `(c, p)` with the output `out` -/
def ErrsWith (code : Code) (σ : Vm) (c : Nat) (p : Pos) (out : Print.WritePrinter) : Prop :=
  ∃ σ1 σ2, Steps code σ σ1 ∧ step code σ1 = .error c p σ2 ∧ σ2.out = out

/-- the run halts with the output `out` -/
def HaltsWith (code : Code) (σ : Vm) (out : Print.WritePrinter) : Prop :=
  ∃ σ1 σ2, Steps code σ σ1 ∧ step code σ1 = .halt σ2 ∧ σ2.out = out

/-- expression evaluation (`Ref.eval`) vs the code of `compileExpr` at `off`: the value ends up in A as a scalar -/
def ExprSpec (code : Code) (e : Expr) : Prop :=
  ∀ off s σ, CodeAt code off (compileExpr e) → σ.pc = off → Rel s σ →
    match Ref.eval s.env s.arrs e with
    | .ok v =>
      ∃ σ', Steps code σ σ' ∧ σ'.pc = off + (compileExpr e).length ∧ σ'.regs.a = .sc v ∧ Rel s σ' ∧ SameStacks σ σ' ∧
        σ'.regs.c = σ.regs.c ∧ σ'.regs.d = σ.regs.d
    | .err c p => ErrsWith code σ c p s.out
    | _ => True

/-- the subscripts of a path (`Ref.evalIdx`) vs the code of `compileIdx` at `off`: the path on top of the path stack is
extended by the converted subscripts, everything else — register A included — is as before -/
def IdxSpec (code : Code) (idx : Exprs) : Prop :=
  ∀ off s σ pth rest, CodeAt code off (compileIdx idx) → σ.pc = off → Rel s σ → σ.paths = pth :: rest →
    match Ref.evalIdx s.env s.arrs idx with
    | .ok is =>
      ∃ σ', Steps code σ σ' ∧ σ'.pc = off + (compileIdx idx).length ∧ σ'.regs.a = σ.regs.a ∧ Rel s σ' ∧
        σ'.paths = { pth with idx := pth.idx ++ is } :: rest ∧ σ'.vals = σ.vals ∧ σ'.regStack = σ.regStack ∧
        σ'.ctx = σ.ctx ∧ σ'.trace = σ.trace ∧ σ'.skipNewline = σ.skipNewline ∧
        σ'.regs.c = σ.regs.c ∧ σ'.regs.d = σ.regs.d
    | .err c p => ErrsWith code σ c p s.out
    | _ => True

/-- statement execution (`Ref.exec`) vs the code of `compileStmt` at `off` -/
def StmtSpec (code : Code) (fuel : Nat) (st : SStmt) : Prop :=
  ∀ sfx off s σ, CodeAt code off (compileStmt sfx off st) → σ.pc = off → Rel s σ → σ.paths = [] → σ.ctx = [] →
    σ.skipNewline = false →
    match Ref.exec fuel (desugar st) s with
    | (s', .normal) =>
      ∃ σ', Steps code σ σ' ∧ σ'.pc = off + sizeStmt st ∧ Rel s' σ' ∧ SameStacks σ σ'
    | (s', .halted) => HaltsWith code σ s'.out
    | (s', .error c p) => ErrsWith code σ c p s'.out
    | _ => True

/-- PROPOSED main theorem (`ArrL.compile_correct`): under a decidable static premise on the linted program (expected:
`SProgram.wf` + C01's `wfTopB` conditions over the slot table + every array number below `prog.arrs.length` and used at
its declared element type), whatever the reference semantics says about a run — normal end, END, or error
`(code, position)` with the output so far — the VM model does on the model-compiled code.  The outcomes `illFormed`
(use of an array before its DIM ran), `tooBig`, `inexact` and `outOfFuel` claim nothing. -/
def CompileCorrect (Premise : SProgram → Prop) : Prop :=
  ∀ (prog : SProgram) (fuel : Nat), Premise prog →
    match Ref.run fuel prog.toAst with
    | (s, .normal) => HaltsWith (compile prog) (Vm.init prog.slots prog.arrs) s.out
    | (s, .halted) => HaltsWith (compile prog) (Vm.init prog.slots prog.arrs) s.out
    | (s, .error c p) => ErrsWith (compile prog) (Vm.init prog.slots prog.arrs) c p s.out
    | _ => True

/-! ### property-level statements over the reference semantics alone (C04) -/

/-- reading element `idx` of array `a` in a state: the value of the expression `a(idx…)` with literal subscripts -/
def readElem (s : Ref.St) (a : Nat) (idx : List Int) : Option Val :=
  match s.arrs[a]? with
  | some (some A) => if A.inBounds idx then some (A.get idx) else none
  | _ => none

/-- "Storing into one array element changes that element and nothing else, and reading it back yields the stored value
converted to the element type; distinct index tuples denote distinct elements": whenever `a(idx…) = e` ends normally
from `s` in `s'`, with the subscripts evaluating to `is` and `e` to `v` (already converted to the element type `t`),
then afterwards (1) `a(is)` reads `v`; (2) every other tuple `js ≠ is` of `a` reads what it read before (in or out of
the box); (3) every other array is untouched; (4) the scalar variables, the output, the DATA cursor are untouched;
(5) the bounds of `a` are unchanged. -/
def StoreChangesOnlyThatElement : Prop :=
  ∀ (fuel : Nat) (a : Nat) (t : Ty) (idx : Exprs) (e : Expr) (p : Pos) (s s' : Ref.St),
    Ref.exec fuel (.assignElem a t idx e p) s = (s', .normal) →
    ∃ is v A, Ref.evalIdx s.env s.arrs idx = .ok is ∧ Ref.evalTo s.env s.arrs e t = .ok v ∧
      s.arrs[a]? = some (some A) ∧ A.inBounds is = true ∧
      readElem s' a is = some v ∧
      (∀ js, js ≠ is → readElem s' a js = readElem s a js) ∧
      (∀ b, b ≠ a → s'.arrs[b]? = s.arrs[b]?) ∧
      s'.env = s.env ∧ s'.out = s.out ∧ s'.dataIdx = s.dataIdx ∧ s'.data = s.data ∧
      (∀ A', s'.arrs[a]? = some (some A') → A'.bounds = A.bounds ∧ A'.ty = A.ty)

def store_changes_only_that_element : Prop := StoreChangesOnlyThatElement

/-- "An access raises Subscript out of range exactly when some index lies outside its declared bounds" for the element
read `a(idx…)` at position `p`, given that the subscripts themselves evaluate and convert (to `is`) and that the array
has been dimensioned (with bounds `A.bounds`): the access answers error 9 — at `p` — iff the number of subscripts
differs from the number of dimensions or some subscript is below its lower or above its upper declared bound; and
otherwise it answers a value.  (The conversion of a subscript beyond ±32767 fails with Overflow before the bounds are
looked at: that case is excluded by the hypothesis `evalIdx … = .ok is`, see the report.) -/
def SubscriptErrorIffOutOfBounds : Prop :=
  ∀ (env : List Val) (arrs : List (Option Ref.RArr)) (a : Nat) (idx : Exprs) (t : Ty) (p : Pos)
    (is : List Int) (A : Ref.RArr),
    Ref.evalIdx env arrs idx = .ok is → arrs[a]? = some (some A) →
    ((Ref.eval env arrs (.elem a idx t p) = .err Ref.codeSubscript p) ↔
      (is.length ≠ A.bounds.length ∨ ∃ (k : Nat) (lo hi i : Int), A.bounds[k]? = some (lo, hi) ∧ is[k]? = some i ∧ (i < lo ∨ hi < i))) ∧
    ((∃ v, Ref.eval env arrs (.elem a idx t p) = .ok v) ↔ InBox A.bounds is)

def subscript_error_iff_out_of_bounds : Prop := SubscriptErrorIffOutOfBounds

/-- LBOUND / UBOUND report the declared bounds: after `DIM a(dims)` ended normally, `LBOUND(a, k)` / `UBOUND(a, k)`
evaluate to the converted `k`-th declared pair -/
def BoundsReportDeclared : Prop :=
  ∀ (fuel : Nat) (a : Nat) (t : Ty) (dims : Dims) (p q ap : Pos) (s s' : Ref.St),
    Ref.exec fuel (.dimArr a t dims p) s = (s', .normal) → a < s.arrs.length →
    ∃ bounds, (Ref.evalDims s.env s.arrs dims).bind (Ref.convDims p) = .ok bounds ∧
      ∀ (k : Nat) lo hi, bounds[k]? = some (lo, hi) →
        Ref.eval s'.env s'.arrs (.boundD false a t ap (.lit (.int (k + 1)) q) q) = .ok (.int lo) ∧
        Ref.eval s'.env s'.arrs (.boundD true a t ap (.lit (.int (k + 1)) q) q) = .ok (.int hi)

end RbModel.ArrL.Spec
