import RbModel.ArrL.Syntax
import Gen.NumTables
/-!
# RbModel.ArrL.WfB — the executable premise checker of `ArrL.compile_correct` (property C04)

`progWfB prog` is the decidable form of the static premise `RbThm.ArrLSim.ProgWf` of the simulation theorem for the arrays
layer (`Thm/ArrLSim.lean`); `Thm/ArrLWf.lean` proves `progWfB prog = true → ProgWf prog`.  This file has no theorem imports:
the driver evaluates `progWfB` on every program the harness explores (request `arrl.wf`), so the evidence says on how many
of them the theorem applies.

What it checks: every scalar variable is a slot of the slot table used at the slot's type; every array is an entry of the
array table used at its element type; an element (read, assignment target, READ target) has at least one subscript; an
operator node carries the type the checker's table (`Gen.NumTables.binType`, extracted from `cast_binary_op`) gives for
its operand types (`/` excepted: it is followed by a `Cast`); conditions of IF / WHILE / DO are not strings; `CASE IS`
uses a relational operator, a CASE has at least one item; a missing ELSE part is empty; DATA only at the top level.
-/
namespace RbModel.ArrL
open RbModel RbModel.Num
open RbModel.Ast (Pos)

def Exprs.isNil : Exprs → Bool
  | .nil => true
  | .cons _ _ => false

mutual
def eWfB (sl al : List Ty) : ArrL.Expr → Bool
  | .lit _ _ => true
  | .var x t _ => decide (sl[x]? = some t)
  | .un _ e _ => eWfB sl al e
  | .bin op l r t _ =>
    eWfB sl al l && eWfB sl al r && (decide (op = .divide) || decide (Gen.NumTables.binType op l.ty r.ty = some t))
  | .paren e _ => eWfB sl al e
  | .elem a idx t _ => decide (al[a]? = some t) && !idx.isNil && idxWfB sl al idx
  | .bound _ a t _ _ => decide (al[a]? = some t)
  | .boundD _ a t _ d _ => decide (al[a]? = some t) && eWfB sl al d
def idxWfB (sl al : List Ty) : Exprs → Bool
  | .nil => true
  | .cons e rest => eWfB sl al e && idxWfB sl al rest
end

def itemsWfB (sl al : List Ty) : List PrintItem → Bool
  | [] => true
  | .expr e :: rest => eWfB sl al e && itemsWfB sl al rest
  | _ :: rest => itemsWfB sl al rest

def selRelOpB (op : Op) : Bool :=
  decide (op = .less) || decide (op = .lessOrEqual) || decide (op = .equal) || decide (op = .greaterOrEqual) ||
    decide (op = .greater) || decide (op = .notEqual)

def caseWfB (sl al : List Ty) : CaseExpr → Bool
  | .simple e => eWfB sl al e
  | .is op e => selRelOpB op && eWfB sl al e
  | .range lo hi => eWfB sl al lo && eWfB sl al hi

def condsWfB (sl al : List Ty) : List CaseExpr → Bool
  | [] => true
  | c :: rest => caseWfB sl al c && condsWfB sl al rest

def dimsWfB (sl al : List Ty) : Dims → Bool
  | .nil => true
  | .cons none hi rest => eWfB sl al hi && dimsWfB sl al rest
  | .cons (some lo) hi rest => eWfB sl al lo && eWfB sl al hi && dimsWfB sl al rest

def targetWfB (sl al : List Ty) : ReadTarget → Bool
  | .var x t _ => decide (sl[x]? = some t)
  | .elem a t idx _ => decide (al[a]? = some t) && !idx.isNil && idxWfB sl al idx

def isSkipB : SStmt → Bool
  | .skip => true
  | _ => false

mutual
def wfB (sl al : List Ty) : SStmt → Bool
  | .skip => true
  | .comment => true
  | .seq a b => wfB sl al a && wfB sl al b
  | .dim x t _ => decide (sl[x]? = some t)
  | .dimArr a t dims _ => decide (al[a]? = some t) && dimsWfB sl al dims
  | .assign x t e _ => decide (sl[x]? = some t) && eWfB sl al e
  | .assignElem a t idx e _ => decide (al[a]? = some t) && !idx.isNil && idxWfB sl al idx && eWfB sl al e
  | .print items _ => itemsWfB sl al items
  | .ifBlock c thn elifs hasElse els _ =>
    eWfB sl al c && decide (c.ty ≠ .str) && wfB sl al thn && wfElifsB sl al elifs && wfB sl al els &&
      (hasElse || isSkipB els)
  | .while c body _ => eWfB sl al c && decide (c.ty ≠ .str) && wfB sl al body
  | .doLoop c _ _ body _ => eWfB sl al c && decide (c.ty ≠ .str) && wfB sl al body
  | .end_ _ => true
  | .data _ _ => false
  | .read tgs _ => tgs.all (targetWfB sl al)
  | .select e cases hasElse els _ =>
    eWfB sl al e && wfCasesB sl al cases && wfB sl al els && (hasElse || isSkipB els)
  | .forLoop x t lo hi step body _ =>
    decide (sl[x]? = some t) && eWfB sl al lo && eWfB sl al hi &&
      (match step with | some se => eWfB sl al se | none => true) && wfB sl al body
def wfElifsB (sl al : List Ty) : ElseIfs → Bool
  | .nil => true
  | .cons c body rest => eWfB sl al c && decide (c.ty ≠ .str) && wfB sl al body && wfElifsB sl al rest
def wfCasesB (sl al : List Ty) : SCases → Bool
  | .nil => true
  | .cons conds body rest => !conds.isEmpty && condsWfB sl al conds && wfB sl al body && wfCasesB sl al rest
end

def wfTopB (sl al : List Ty) : SStmt → Bool
  | .seq a b => wfTopB sl al a && wfTopB sl al b
  | .data _ _ => true
  | st => wfB sl al st

/-- the premise of `ArrL.compile_correct`, executable -/
def progWfB (prog : SProgram) : Bool := wfTopB prog.slots prog.arrs prog.body

end RbModel.ArrL
