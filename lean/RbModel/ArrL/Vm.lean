import RbModel.ArrL.Compile
import RbModel.ArrL.Ref
import RbModel.Arr
/-!
# RbModel.ArrL.Vm — model of the VM with arrays of scalars (property C04, phase A)

`RbModel.CoreVm` extended with what `ArrL.Compile.CInstr` needs beyond the core
(`rusty_basic/src/interpreter/main.rs`, `handlers/{var_path, allocation, subprogram}.rs`, `built_ins/{lbound, ubound,
read}.rs`, `context.rs`, `arguments.rs`):

* an array variable holds a `RbModel.Arr.VArray Val` — the declared dimensions and the ROW-MAJOR FLAT element vector
  of `rusty_variant/src/array_value.rs`; element access is `Arr.getElem` / `Arr.setElem` (= `abs_index` + vector
  access; `Thm/C04.lean` proves `absIndex` a bijection from the index box onto `0 … len-1`);
* register A, the value stack, the collected arguments and the by-reference queue hold `RV`: a scalar or a WHOLE ARRAY
  (LBOUND / UBOUND copy their array argument into A, into the argument list, into the queue and back into the
  variable); B, C, D only ever hold scalars in generated code (`CopyAToB` … with an array in A is `stuck`);
* the path stack holds `Path`s: a root (scalar slot or array) and the subscripts appended so far (`VarPathIndex` appends
  the INTEGER in A: `Path::append_array_element`).  `CopyVarPathToA` resolves the top path WITHOUT popping it,
  `CopyAToVarPath` resolves, stores and pops; both raise Subscript out of range (9) at their own position when
  `abs_index` fails (wrong number of subscripts, or some subscript outside its bounds);
* scalar variables and arrays live in two maps (`env`, `arrs`): the real `Variables` is one map keyed by the qualified
  name, and the linter guarantees that a scalar and an array never share a name.  A scalar slot reads as zero of its type
  before its first assignment (as in `CoreVm`: the linter's implicit `DIM`s make that true of the real map); an array
  that was never allocated is `none`, and resolving an element of it is `stuck` (the real VM creates a default scalar
  under the name and then panics with "Expected array");
* `ctx` is the part of `Context::states` above the global frame, top first: one entry per `BeginCollectArguments` not
  yet closed (nested: `DIM B(UBOUND(A))`, `A(LBOUND(A))`), holding the arguments collected so far — (value, path of a
  by-reference argument) — and, for LBOUND / UBOUND, the result variable `set_built_in_function_result` inserts into the
  callee's variables.  Names always resolve in the global frame (no procedures; `Thm.C03.ctx_refines_abs`).
  `AllocateArrayIntoA` pops the top entry itself (`drop_arguments_for_array_allocation`), `PopStack` pops it after a
  built-in call;
* `AllocateArrayIntoA`: every argument converted to INTEGER in order (`QBNumberCast<i32>`: Overflow beyond ±32767),
  `to_dimensions` (Subscript out of range when an upper bound is below its lower bound), `VArray::try_new`
  (`Arr.dimsLenChecked`: Out of memory (7) when the element count cannot be computed; an array with more than
  `Ref.sizeLimit` elements is `stuck` here: whether the real reservation succeeds depends on the machine);
* `trace` is the `stacktrace`: a failing built-in reports the position of its `PushStack`.

`stuck` marks what the real VM answers with a panic or what the model does not cover.
-/
namespace RbModel.ArrL.Vm
open RbModel RbModel.Num RbModel.ArrL RbModel.ArrL.Compile
open RbModel.Ast (Pos)

abbrev VArr := Arr.VArray Val

/-- a `Variant` as far as this fragment goes: a scalar or an array of scalars -/
inductive RV where
  | sc (v : Val)
  | arr (a : VArr)

instance : Inhabited RV := ⟨.sc (.int 0)⟩

structure Regs where
  a : RV
  b : Val
  c : Val
  d : Val
  deriving Inhabited

def Regs.new : Regs := ⟨.sc (.int 0), .int 0, .int 0, .int 0⟩

inductive Root where
  | var (x : Nat)
  | arr (a : Nat)
  deriving DecidableEq

/-- `instruction_generator::Path` restricted to `Root` and `ArrayElement(Root, indices)` -/
structure Path where
  root : Root
  idx : List Int

/-- one open `BeginCollectArguments` -/
structure Call where
  args : List (RV × Option Path)
  /-- the result variable of a built-in function (`LBound%` / `UBound%`) -/
  result : Option Val

structure Vm where
  pc : Nat
  regs : Regs
  regStack : List Regs
  /-- `value_stack`, top first -/
  vals : List RV
  /-- `var_path_stack`, top first -/
  paths : List Path
  env : List Val
  arrs : List (Option VArr)
  out : Print.WritePrinter
  skipNewline : Bool
  data : List Val
  dataIdx : Nat
  ctx : List Call
  /-- `by_ref_stack` (a queue) -/
  queue : List (RV × Option Path)
  /-- `function_result` -/
  funRes : Option Val
  trace : List Pos

def Vm.init (slots arrs : List Ty) : Vm :=
  { pc := 0, regs := Regs.new, regStack := [], vals := [], paths := [], env := slots.map zeroOf,
    arrs := arrs.map fun _ => none, out := Print.WritePrinter.new, skipNewline := false, data := [], dataIdx := 0,
    ctx := [], queue := [], funRes := none, trace := [] }

inductive StepRes where
  | next (σ : Vm)
  | halt (σ : Vm)
  | error (code : Nat) (p : Pos) (σ : Vm)
  | stuck

def setA (σ : Vm) (v : Val) : Vm := { σ with regs := { σ.regs with a := .sc v } }

def setRA (σ : Vm) (v : RV) : Vm := { σ with regs := { σ.regs with a := v } }

def advance (σ : Vm) : Vm := { σ with pc := σ.pc + 1 }

abbrev codeOf := _root_.RbModel.Ref.codeOf

def resA (σ : Vm) (p : Pos) : Res Val → StepRes
  | .ok v => .next (advance (setA σ v))
  | .err e => .error (codeOf e) p σ
  | .inexact => .stuck

def binInstr (op : Op) (a b : Val) : Res Val :=
  match op with
  | .divide => divide a b
  | _ => vmBin Gen.NumTables.binType op a b

/-- an operation on the scalar in A -/
def onA (σ : Vm) (f : Val → StepRes) : StepRes :=
  match σ.regs.a with
  | .sc v => f v
  | .arr _ => .stuck

/-! ### paths: `resolve_some_name_ptr_mut` -/

inductive Resolved where
  | ok (v : RV)
  | subscript
  | stuck

/-- `copy_var_path_to_a` -/
def readPath (σ : Vm) (pth : Path) : Resolved :=
  match pth.root, pth.idx with
  | .var x, [] =>
    match σ.env[x]? with
    | some v => .ok (.sc v)
    | none => .stuck
  | .var _, _ :: _ => .stuck
  | .arr a, idx =>
    match σ.arrs[a]? with
    | some (some A) =>
      match idx with
      | [] => .ok (.arr A)
      | _ =>
        match Arr.getElem A idx with
        | some v => .ok (.sc v)
        | none => .subscript
    | _ => .stuck

inductive Stored where
  | ok (σ : Vm)
  | subscript
  | stuck

/-- `copy_a_to_var_path` (without the pop) -/
def writePath (σ : Vm) (pth : Path) (v : RV) : Stored :=
  match pth.root, pth.idx, v with
  | .var x, [], .sc w => if x < σ.env.length then .ok { σ with env := σ.env.set x w } else .stuck
  | .arr a, [], .arr A => if a < σ.arrs.length then .ok { σ with arrs := σ.arrs.set a (some A) } else .stuck
  | .arr a, i :: is, .sc w =>
    match σ.arrs[a]? with
    | some (some A) =>
      match Arr.setElem A (i :: is) w with
      | some A' => .ok { σ with arrs := σ.arrs.set a (some A') }
      | none => .subscript
    | _ => .stuck
  | _, _, _ => .stuck

/-! ### built-ins -/

/-- `QBNumberCast<i32>` of the arguments of `AllocateArrayIntoA`, in order -/
def argInts : List (RV × Option Path) → Except Err (List Int) ⊕ Unit
  | [] => .inl (.ok [])
  | (.sc v, _) :: rest =>
    match cast v .int with
    | .ok (.int i) =>
      match argInts rest with
      | .inl (.ok is) => .inl (.ok (i :: is))
      | r => r
    | .ok _ => .inr ()
    | .err e => .inl (.error e)
    | .inexact => .inr ()
  | (.arr _, _) :: _ => .inl (.error .typeMismatch)

/-- `to_dimensions`: pairs; `none` = an upper bound below its lower bound (or an odd number of arguments) -/
def toDimensions : List Int → Option (List (Int × Int))
  | [] => some []
  | lo :: hi :: rest =>
    if hi < lo then none else (toDimensions rest).map ((lo, hi) :: ·)
  | [_] => none

inductive AllocRes where
  | ok (a : VArr)
  | err (code : Nat)
  | stuck

/-- `allocate_array` for an array of scalars of type `t` -/
def allocArray (t : Ty) (args : List (RV × Option Path)) : AllocRes :=
  match argInts args with
  | .inr () => .stuck
  | .inl (.error e) => .err (codeOf e)
  | .inl (.ok is) =>
    match toDimensions is with
    | none => .err Ref.codeSubscript
    | some dims =>
      match Arr.dimsLenChecked dims 1 with
      | none => .err Ref.codeOutOfMemory
      | some n => if n > Ref.sizeLimit then .stuck else .ok (Arr.VArray.new dims (zeroOf t))

/-- `READ` (`built_ins/read.rs`): every argument, in order, receives the next DATA item converted to the type of the
value it holds -/
def readArgs : List (RV × Option Path) → List Val → Nat → Except Err (List (RV × Option Path) × Nat) ⊕ Unit
  | [], _, idx => .inl (.ok ([], idx))
  | (.sc cur, pth) :: rest, data, idx =>
    match data[idx]? with
    | none => .inr ()
    | some v =>
      match cast v cur.tag with
      | .ok w =>
        match readArgs rest data (idx + 1) with
        | .inl (.ok (rs, idx')) => .inl (.ok ((.sc w, pth) :: rs, idx'))
        | r => r
      | .err e => .inl (.error e)
      | .inexact => .inl (.error .typeMismatch)
  | (.arr _, _) :: _, _, _ => .inl (.error .typeMismatch)

/-- `built_ins/lbound.rs::run` / `ubound.rs::run` on the collected arguments: the bound, or an error code -/
def boundRun (upper : Bool) (args : List (RV × Option Path)) : Except Nat Val ⊕ Unit :=
  let dimension : Except Nat Int ⊕ Unit :=
    match (args[1]? : Option (RV × Option Path)) with
    | none => .inl (.ok 1)
    | some (.sc dv, _) =>
      match cast dv .int with
      | .ok (.int k) => if k > 0 then .inl (.ok k) else .inl (.error Ref.codeSubscript)
      | .ok _ => .inr ()
      | .err e => .inl (.error (codeOf e))
      | .inexact => .inr ()
    | some (.arr _, _) => .inl (.error 13)
  match dimension with
  | .inr () => .inr ()
  | .inl (.error c) => .inl (.error c)
  | .inl (.ok k) =>
    match (args[0]? : Option (RV × Option Path)) with
    | some (.arr A, _) =>
      match (if upper then Arr.ubound A k else Arr.lbound A k) with
      | some b => .inl (.ok (.int b))
      | none => .inl (.error Ref.codeSubscript)
    | some (.sc _, _) => .inl (.error 13)
    | none => .inr ()

def step (code : Code) (σ : Vm) : StepRes :=
  match code[σ.pc]? with
  | none => .stuck
  | some (i, p) =>
    match i with
    | .loadA v => .next (advance (setA σ v))
    | .copyAToB => onA σ fun v => .next (advance { σ with regs := { σ.regs with b := v } })
    | .copyAToC => onA σ fun v => .next (advance { σ with regs := { σ.regs with c := v } })
    | .copyAToD => onA σ fun v => .next (advance { σ with regs := { σ.regs with d := v } })
    | .copyCToB => .next (advance { σ with regs := { σ.regs with b := σ.regs.c } })
    | .copyDToA => .next (advance (setA σ σ.regs.d))
    | .copyDToB => .next (advance { σ with regs := { σ.regs with b := σ.regs.d } })
    | .bin op => onA σ fun v => resA σ p (binInstr op v σ.regs.b)
    | .negateA => onA σ fun v => resA σ p (negate v)
    | .notA => onA σ fun v => resA σ p (unaryNot v)
    | .cast t => onA σ fun v => resA σ p (cast v t)
    | .pushA => .next (advance { σ with vals := σ.regs.a :: σ.vals })
    | .popA =>
      match σ.vals with
      | [] => .stuck
      | v :: rest => .next (advance { setRA σ v with vals := rest })
    | .varPath x => .next (advance { σ with paths := ⟨.var x, []⟩ :: σ.paths })
    | .arrPath a => .next (advance { σ with paths := ⟨.arr a, []⟩ :: σ.paths })
    | .pathIndex =>
      -- `var_path_index`: the generator has cast the subscript to INTEGER
      match σ.regs.a, σ.paths with
      | .sc (.int k), pth :: rest => .next (advance { σ with paths := { pth with idx := pth.idx ++ [k] } :: rest })
      | _, _ => .stuck
    | .copyVarPathToA =>
      match σ.paths with
      | [] => .stuck
      | pth :: _ =>
        match readPath σ pth with
        | .ok v => .next (advance (setRA σ v))
        | .subscript => .error Ref.codeSubscript p σ
        | .stuck => .stuck
    | .popVarPath =>
      match σ.paths with
      | [] => .stuck
      | _ :: rest => .next (advance { σ with paths := rest })
    | .copyAToVarPath =>
      match σ.paths with
      | [] => .stuck
      | pth :: rest =>
        match writePath σ pth σ.regs.a with
        | .ok σ' => .next (advance { σ' with paths := rest })
        | .subscript => .error Ref.codeSubscript p σ
        | .stuck => .stuck
    | .label _ => .next (advance σ)
    | .jump a => .next { σ with pc := a }
    | .jumpIfFalse a =>
      onA σ fun v =>
        match _root_.RbModel.Ref.truthy v with
        | none => .error 13 p σ
        | some true => .next (advance σ)
        | some false => .next { σ with pc := a }
    | .pushRegs => .next (advance { σ with regs := Regs.new, regStack := σ.regs :: σ.regStack })
    | .popRegs =>
      match σ.regStack with
      | [] => .stuck
      | r :: rest => .next (advance { σ with regs := r, regStack := rest })
    | .throwZeroStep => .error Ref.codeZeroStep p σ
    | .halt => .halt σ
    | .allocate t => .next (advance (setA σ (zeroOf t)))
    | .allocArr t =>
      match σ.ctx with
      | [] => .stuck
      | c :: rest =>
        match allocArray t c.args with
        | .ok A => .next (advance { setRA σ (.arr A) with ctx := rest })
        | .err code => .error code p { σ with ctx := rest }
        | .stuck => .stuck
    | .printSetPrinter => .next (advance { σ with skipNewline := false })
    | .printSetFormat =>
      match σ.regs.a with
      | .sc (.str _) => .stuck
      | .sc _ => .next (advance σ)
      | .arr _ => .stuck
    | .printComma => .next (advance { σ with out := σ.out.moveToNextPrintZone, skipNewline := true })
    | .printSemicolon => .next (advance { σ with skipNewline := true })
    | .printValue =>
      onA σ fun v =>
        match _root_.RbModel.Ref.printValue v with
        | none => .stuck
        | some pv => .next (advance { σ with out := σ.out.print (Print.valueText pv), skipNewline := false })
    | .printEnd =>
      if σ.skipNewline then .next (advance { σ with skipNewline := false })
      else .next (advance { σ with out := σ.out.println })
    | .beginArgs => .next (advance { σ with ctx := ⟨[], none⟩ :: σ.ctx })
    | .pushByVal =>
      match σ.ctx with
      | [] => .stuck
      | c :: rest => .next (advance { σ with ctx := { c with args := c.args ++ [(σ.regs.a, none)] } :: rest })
    | .pushByRef =>
      match σ.ctx, σ.paths with
      | c :: rest, pth :: paths =>
        .next (advance { σ with ctx := { c with args := c.args ++ [(σ.regs.a, some pth)] } :: rest, paths := paths })
      | _, _ => .stuck
    | .pushStack => .next (advance { σ with trace := p :: σ.trace })
    | .popStack =>
      match σ.ctx, σ.trace with
      | _ :: rest, _ :: tr => .next (advance { σ with ctx := rest, trace := tr })
      | _, _ => .stuck
    | .builtInData =>
      match σ.ctx with
      | [] => .stuck
      | c :: _ =>
        match c.args.mapM (fun a => match a.1 with | .sc v => some v | .arr _ => none) with
        | some vs => .next (advance { σ with data := σ.data ++ vs })
        | none => .stuck
    | .builtInRead =>
      match σ.ctx with
      | [] => .stuck
      | c :: rest =>
        match readArgs c.args σ.data σ.dataIdx with
        | .inr () => .error Ref.codeOutOfData (σ.trace.headD p) σ
        | .inl (.error e) => .error (codeOf e) (σ.trace.headD p) σ
        | .inl (.ok (args', idx')) => .next (advance { σ with ctx := { c with args := args' } :: rest, dataIdx := idx' })
    | .builtInBound upper =>
      match σ.ctx with
      | [] => .stuck
      | c :: rest =>
        match boundRun upper c.args with
        | .inr () => .stuck
        | .inl (.error code) => .error code (σ.trace.headD p) σ
        | .inl (.ok v) => .next (advance { σ with ctx := { c with result := some v } :: rest })
    | .enqueue i =>
      match σ.ctx with
      | [] => .stuck
      | c :: _ =>
        match c.args[i]? with
        | none => .stuck
        | some a => .next (advance { σ with queue := σ.queue ++ [a] })
    | .dequeue =>
      match σ.queue with
      | [] => .stuck
      | (v, _) :: rest => .next (advance { setRA σ v with queue := rest })
    | .dequeuePath =>
      match σ.queue with
      | (v, some pth) :: rest => .next (advance { setRA σ v with queue := rest, paths := pth :: σ.paths })
      | _ => .stuck
    | .stashBound _ =>
      match σ.ctx with
      | c :: _ =>
        match c.result with
        | some v => .next (advance { σ with funRes := some v })
        | none => .stuck
      | [] => .stuck
    | .unStash =>
      match σ.funRes with
      | some v => .next (advance { setA σ v with funRes := none })
      | none => .stuck

inductive RunRes where
  | halted (σ : Vm)
  | error (code : Nat) (p : Pos) (σ : Vm)
  | stuck
  | outOfFuel

def run (code : Code) : Nat → Vm → RunRes
  | 0, _ => .outOfFuel
  | fuel + 1, σ =>
    match step code σ with
    | .next σ' => run code fuel σ'
    | .halt σ' => .halted σ'
    | .error c p σ' => .error c p σ'
    | .stuck => .stuck

end RbModel.ArrL.Vm
