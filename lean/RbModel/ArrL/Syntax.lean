import RbModel.Ast
import RbModel.Instr
/-!
# RbModel.ArrL.Syntax — core language + arrays of scalars (property C04, phase A; also serves C06 / C08)

The core language of `RbModel.Ast` / `RbModel.Src` (property C01, no procedures) extended with arrays of the five
scalar element types, as the linter hands it to the code generator (`rusty_parser::{Statement, Expression}` after
`rusty_linter::core::lint`):

* `DIM a(l1 TO u1, …, lk TO uk)` / `REDIM …` (`dimArr`): any number of dimensions ≥ 1 (the harness explores 1–3), the
  bounds are EXPRESSIONS (static or computed at run time), a missing lower bound is `none` (the generator loads 0);
* element read `a(i1,…,ik)` (`Expr.elem`) and element assignment `a(i1,…,ik) = e` (`assignElem`); subscripts are
  expressions of any numeric static type (the generator converts them to INTEGER: `Cast(%)` iff the static type
  differs — `generate_path_instructions`);
* `LBOUND(a)` / `UBOUND(a)` (`Expr.bound`) and `LBOUND(a, d)` / `UBOUND(a, d)` (`Expr.boundD`);
* an element as a READ target (`ReadTarget.elem`).

What the real front end decides (checked against /repo, not assumed):
* an element is NOT accepted as a FOR counter (linter: `VariableRequired`) — not in the language;
* a scalar and an array cannot share a (name, qualifier) (linter: `TypeMismatch` / `DuplicateDefinition`), an
  array must be declared textually before its first use (`ArrayNotDefined`; no implicit 0..10 arrays), two `DIM`s of
  one array are rejected statically (`DuplicateDefinition`), `REDIM` is accepted only for an array first declared by
  `REDIM`; hence arrays have their own numbering here (`a`), apart from the scalar slots (`x`);
* a string subscript / bound / dimension argument is rejected statically;
* a wrong NUMBER of subscripts is accepted statically and is a run-time Subscript out of range (9).

Conventions of the serialiser `harness/src/arrl_sx.rs`: scalar slots and arrays are numbered separately, each in order
of first occurrence of the resolved `(bare name, qualifier)`; every node keeps its source position; the positions a
generated instruction can carry are all in the tree (`bound … ap …`: the position of the array argument).

Two levels as in C01: `SStmt` is the faithful syntax the generator sees (`ArrL.Compile` is defined on it), `Stmt` the
leaner syntax of the reference semantics `ArrL.Ref`; `desugar` relates them.

Excluded: procedures, records, fixed-length strings, SHARED / CONST, GOSUB / GOTO / labels, ON ERROR, whole arrays
anywhere but as the first argument of LBOUND / UBOUND, DATA inside blocks (`SStmt.wf`).  (`READ a, b` reads its targets one
after the other — since fd1c771 the generator emits one built-in call per target — so a READ with several targets, array
elements among them, is in the language.)
-/
namespace RbModel.ArrL
open RbModel RbModel.Num
open RbModel.Ast (Pos ty? op? val? pos?)

mutual
inductive Expr where
  | lit (v : Val) (p : Pos)
  | var (x : Nat) (t : Ty) (p : Pos)
  | un (op : UnOp) (e : Expr) (p : Pos)
  /-- `t` is the static type the linter resolved for the node (`expression_type()`) -/
  | bin (op : Op) (l r : Expr) (t : Ty) (p : Pos)
  | paren (e : Expr) (p : Pos)
  /-- element `a(idx)` of array number `a` with element type `t` -/
  | elem (a : Nat) (idx : Exprs) (t : Ty) (p : Pos)
  /-- `LBOUND(a)` (`upper = false`) / `UBOUND(a)`; `t` = element type of `a`, `ap` = position of the argument `a` -/
  | bound (upper : Bool) (a : Nat) (t : Ty) (ap : Pos) (p : Pos)
  /-- `LBOUND(a, d)` / `UBOUND(a, d)` -/
  | boundD (upper : Bool) (a : Nat) (t : Ty) (ap : Pos) (d : Expr) (p : Pos)
/-- a subscript list -/
inductive Exprs where
  | nil
  | cons (e : Expr) (rest : Exprs)
end

instance : Inhabited Expr := ⟨.lit (.int 0) ⟨0, 0⟩⟩
instance : Inhabited Exprs := ⟨.nil⟩

def Expr.pos : Expr → Pos
  | .lit _ p => p | .var _ _ p => p | .un _ _ p => p | .bin _ _ _ _ p => p | .paren _ p => p
  | .elem _ _ _ p => p | .bound _ _ _ _ p => p | .boundD _ _ _ _ _ p => p

/-- `expression_type()` of the linted node (LBOUND / UBOUND are INTEGER functions) -/
def Expr.ty : Expr → Ty
  | .lit v _ => v.tag
  | .var _ t _ => t
  | .un _ e _ => e.ty
  | .bin _ _ _ t _ => t
  | .paren e _ => e.ty
  | .elem _ _ t _ => t
  | .bound _ _ _ _ _ => .int
  | .boundD _ _ _ _ _ _ => .int

/-- `Expression::is_by_ref`: a variable or an array element -/
def Expr.isRef : Expr → Bool
  | .var _ _ _ => true
  | .elem _ _ _ _ => true
  | _ => false

def Exprs.length : Exprs → Nat
  | .nil => 0
  | .cons _ rest => rest.length + 1

def Exprs.toList : Exprs → List Expr
  | .nil => []
  | .cons e rest => e :: rest.toList

inductive PrintItem where
  | expr (e : Expr)
  | comma
  | semicolon
  deriving Inhabited

inductive CaseExpr where
  | simple (e : Expr)
  | is (op : Op) (e : Expr)
  | range (lo hi : Expr)
  deriving Inhabited

/-- the dimensions of a `DIM`: optional lower bound, upper bound -/
inductive Dims where
  | nil
  | cons (lo : Option Expr) (hi : Expr) (rest : Dims)
  deriving Inhabited

def Dims.length : Dims → Nat
  | .nil => 0
  | .cons _ _ rest => rest.length + 1

/-- a READ target: a scalar variable or an array element; the position is the target's own -/
inductive ReadTarget where
  | var (x : Nat) (t : Ty) (p : Pos)
  | elem (a : Nat) (t : Ty) (idx : Exprs) (p : Pos)
  deriving Inhabited

def ReadTarget.isElem : ReadTarget → Bool
  | .elem _ _ _ _ => true
  | _ => false

def ReadTarget.pos : ReadTarget → Pos
  | .var _ _ p => p
  | .elem _ _ _ p => p

/-! ### the lean syntax of the reference semantics -/

mutual
inductive Stmt where
  | skip
  | seq (a b : Stmt)
  | assign (x : Nat) (t : Ty) (e : Expr) (p : Pos)
  | dimArr (a : Nat) (t : Ty) (dims : Dims) (p : Pos)
  | assignElem (a : Nat) (t : Ty) (idx : Exprs) (e : Expr) (p : Pos)
  | print (items : List PrintItem) (p : Pos)
  | read (tg : ReadTarget) (p : Pos)
  | ifs (c : Expr) (thn els : Stmt) (p : Pos)
  | select (e : Expr) (cases : Cases) (p : Pos)
  | forLoop (x : Nat) (t : Ty) (lo hi : Expr) (step : Option Expr) (body : Stmt) (p : Pos)
  | while (c : Expr) (body : Stmt) (p : Pos)
  | doLoop (c : Expr) (top until_ : Bool) (body : Stmt) (p : Pos)
  | end_ (p : Pos)
inductive Cases where
  | nil
  | else_ (body : Stmt)
  | case (conds : List CaseExpr) (body : Stmt) (rest : Cases)
end

instance : Inhabited Stmt := ⟨.skip⟩

/-! ### the faithful syntax of the generator -/

mutual
inductive SStmt where
  | skip
  | seq (a b : SStmt)
  | comment
  | dim (x : Nat) (t : Ty) (p : Pos)
  /-- `DIM` / `REDIM` of an array (the generator emits the same code for both) -/
  | dimArr (a : Nat) (t : Ty) (dims : Dims) (p : Pos)
  | assign (x : Nat) (t : Ty) (e : Expr) (p : Pos)
  | assignElem (a : Nat) (t : Ty) (idx : Exprs) (e : Expr) (p : Pos)
  | print (items : List PrintItem) (p : Pos)
  | data (items : List (Val × Pos)) (p : Pos)
  | read (targets : List ReadTarget) (p : Pos)
  | ifBlock (c : Expr) (thn : SStmt) (elifs : ElseIfs) (hasElse : Bool) (els : SStmt) (p : Pos)
  | select (e : Expr) (cases : SCases) (hasElse : Bool) (els : SStmt) (p : Pos)
  | forLoop (x : Nat) (t : Ty) (lo hi : Expr) (step : Option Expr) (body : SStmt) (p : Pos)
  | while (c : Expr) (body : SStmt) (p : Pos)
  | doLoop (c : Expr) (top until_ : Bool) (body : SStmt) (p : Pos)
  | end_ (p : Pos)
inductive ElseIfs where
  | nil
  | cons (c : Expr) (body : SStmt) (rest : ElseIfs)
inductive SCases where
  | nil
  | cons (conds : List CaseExpr) (body : SStmt) (rest : SCases)
end

instance : Inhabited SStmt := ⟨.skip⟩

structure SProgram where
  /-- types of the scalar slots -/
  slots : List Ty
  /-- element types of the arrays -/
  arrs : List Ty
  body : SStmt

structure Program where
  slots : List Ty
  arrs : List Ty
  data : List Val
  body : Stmt

def zeroOf : Ty → Val
  | .int => .int 0 | .long => .long 0 | .sgl => .sgl 0 | .dbl => .dbl 0 | .str => .str []

/-! ### desugaring -/

def readSeq (p : Pos) : List ReadTarget → Stmt
  | [] => .skip
  | tg :: rest => .seq (.read tg p) (readSeq p rest)

mutual
def desugar : SStmt → Stmt
  | .skip => .skip
  | .seq a b => .seq (desugar a) (desugar b)
  | .comment => .skip
  | .dim x t p => .assign x t (.lit (zeroOf t) p) p
  | .dimArr a t dims p => .dimArr a t dims p
  | .assign x t e p => .assign x t e p
  | .assignElem a t idx e p => .assignElem a t idx e p
  | .print items p => .print items p
  | .data _ _ => .skip
  | .read tgs p => readSeq p tgs
  | .ifBlock c thn elifs _ els p => .ifs c (desugar thn) (desugarElifs elifs (desugar els) p) p
  | .select e cases hasElse els p =>
    .select e (desugarCases cases (if hasElse then .else_ (desugar els) else .nil)) p
  | .forLoop x t lo hi step body p => .forLoop x t lo hi step (desugar body) p
  | .while c body p => .while c (desugar body) p
  | .doLoop c top u body p => .doLoop c top u (desugar body) p
  | .end_ p => .end_ p
def desugarElifs : ElseIfs → Stmt → Pos → Stmt
  | .nil, els, _ => els
  | .cons c body rest, els, p => .ifs c (desugar body) (desugarElifs rest els p) p
def desugarCases : SCases → Cases → Cases
  | .nil, tail => tail
  | .cons conds body rest, tail => .case conds (desugar body) (desugarCases rest tail)
end

/-- DATA items in program order (only top-level statements carry DATA) -/
def dataOf : SStmt → List Val
  | .seq a b => dataOf a ++ dataOf b
  | .data items _ => items.map (·.1)
  | _ => []

def SProgram.toAst (sp : SProgram) : Program :=
  ⟨sp.slots, sp.arrs, dataOf sp.body, desugar sp.body⟩

/-! ### well-formedness (decidable; the driver checks it on every program) -/

mutual
/-- `top`: the statement is a top-level statement of the program (DATA is allowed only there) -/
def SStmt.wf (top : Bool) : SStmt → Bool
  | .seq a b => a.wf top && b.wf top
  | .data _ _ => top
  | .ifBlock _ thn elifs _ els _ => thn.wf false && elifs.wf && els.wf false
  | .select _ cases _ els _ => cases.wf && els.wf false
  | .forLoop _ _ _ _ _ body _ => body.wf false
  | .while _ body _ => body.wf false
  | .doLoop _ _ _ body _ => body.wf false
  | _ => true
def ElseIfs.wf : ElseIfs → Bool
  | .nil => true
  | .cons _ body rest => body.wf false && rest.wf
def SCases.wf : SCases → Bool
  | .nil => true
  | .cons _ body rest => body.wf false && rest.wf
end

def SProgram.wf (sp : SProgram) : Bool := sp.body.wf true

/-! ### reader of the serialised linted program (`harness/src/arrl_sx.rs`) -/

mutual
partial def expr? : Sexp → Option Expr
  | .list [.atom "lit", v, r, c] => do pure (.lit (← val? v) (← pos? r c))
  | .list [.atom "var", x, t, r, c] => do pure (.var (← x.nat?) (← ty? t) (← pos? r c))
  | .list [.atom "neg", e, r, c] => do pure (.un .neg (← expr? e) (← pos? r c))
  | .list [.atom "not", e, r, c] => do pure (.un .not (← expr? e) (← pos? r c))
  | .list [.atom "bin", o, l, rr, t, r, c] => do
      pure (.bin (← op? o) (← expr? l) (← expr? rr) (← ty? t) (← pos? r c))
  | .list [.atom "paren", e, r, c] => do pure (.paren (← expr? e) (← pos? r c))
  | .list [.atom "elem", a, .list idx, t, r, c] => do
      pure (.elem (← a.nat?) (← exprs? idx) (← ty? t) (← pos? r c))
  | .list [.atom "bound", up, a, t, ar, ac, .atom "none", r, c] => do
      pure (.bound (← up.bool?) (← a.nat?) (← ty? t) (← pos? ar ac) (← pos? r c))
  | .list [.atom "bound", up, a, t, ar, ac, d, r, c] => do
      pure (.boundD (← up.bool?) (← a.nat?) (← ty? t) (← pos? ar ac) (← expr? d) (← pos? r c))
  | _ => none
partial def exprs? : List Sexp → Option Exprs
  | [] => some .nil
  | e :: rest => do pure (.cons (← expr? e) (← exprs? rest))
end

def item? : Sexp → Option PrintItem
  | .atom "comma" => some .comma
  | .atom "semi" => some .semicolon
  | .list [.atom "e", e] => do pure (.expr (← expr? e))
  | _ => none

def caseExpr? : Sexp → Option CaseExpr
  | .list [.atom "simple", e] => do pure (.simple (← expr? e))
  | .list [.atom "is", o, e] => do pure (.is (← op? o) (← expr? e))
  | .list [.atom "range", a, b] => do pure (.range (← expr? a) (← expr? b))
  | _ => none

/-- `((<lo expr | none> <hi expr>) …)` -/
def dims? : List Sexp → Option Dims
  | [] => some .nil
  | .list [.atom "none", hi] :: rest => do pure (.cons none (← expr? hi) (← dims? rest))
  | .list [lo, hi] :: rest => do pure (.cons (some (← expr? lo)) (← expr? hi) (← dims? rest))
  | _ => none

def readTarget? : Sexp → Option ReadTarget
  | .list [.atom "v", x, t, r, c] => do pure (.var (← x.nat?) (← ty? t) (← pos? r c))
  | .list [.atom "el", a, t, .list idx, r, c] => do pure (.elem (← a.nat?) (← ty? t) (← exprs? idx) (← pos? r c))
  | _ => none

mutual
partial def sstmt? : Sexp → Option SStmt
  | .atom "comment" => some .comment
  | .list [.atom "dim", x, t, r, c] => do pure (.dim (← x.nat?) (← ty? t) (← pos? r c))
  | .list [.atom "dimarr", a, t, .list dims, r, c] => do
      pure (.dimArr (← a.nat?) (← ty? t) (← dims? dims) (← pos? r c))
  | .list [.atom "assign", x, t, e, r, c] => do
      pure (.assign (← x.nat?) (← ty? t) (← expr? e) (← pos? r c))
  | .list [.atom "assignel", a, t, .list idx, e, r, c] => do
      pure (.assignElem (← a.nat?) (← ty? t) (← exprs? idx) (← expr? e) (← pos? r c))
  | .list [.atom "print", .list items, r, c] => do
      pure (.print (← items.mapM item?) (← pos? r c))
  | .list [.atom "data", .list items, r, c] => do
      let its ← items.mapM fun it => match it with
        | .list [v, ir, ic] => do pure ((← val? v), (← pos? ir ic))
        | _ => none
      pure (.data its (← pos? r c))
  | .list [.atom "read", .list tgs, r, c] => do pure (.read (← tgs.mapM readTarget?) (← pos? r c))
  | .list [.atom "if", cnd, thn, .list elifs, els, r, c] => do
      let (he, eb) ← optBlock? els
      pure (.ifBlock (← expr? cnd) (← sblock? thn) (← elifs? elifs) he eb (← pos? r c))
  | .list [.atom "select", e, .list cs, els, r, c] => do
      let (he, eb) ← optBlock? els
      pure (.select (← expr? e) (← scases? cs) he eb (← pos? r c))
  | .list [.atom "for", x, t, lo, hi, st, body, r, c] => do
      let step ← match st with
        | .atom "none" => pure none
        | s => do pure (some (← expr? s))
      pure (.forLoop (← x.nat?) (← ty? t) (← expr? lo) (← expr? hi) step (← sblock? body) (← pos? r c))
  | .list [.atom "while", cnd, body, r, c] => do
      pure (.while (← expr? cnd) (← sblock? body) (← pos? r c))
  | .list [.atom "do", cnd, top, unt, body, r, c] => do
      pure (.doLoop (← expr? cnd) (← top.bool?) (← unt.bool?) (← sblock? body) (← pos? r c))
  | .list [.atom "end", r, c] => do pure (.end_ (← pos? r c))
  | _ => none
partial def sblock? : Sexp → Option SStmt
  | .list [] => some .skip
  | .list (s :: rest) => do pure (.seq (← sstmt? s) (← sblock? (.list rest)))
  | _ => none
partial def optBlock? : Sexp → Option (Bool × SStmt)
  | .atom "none" => some (false, .skip)
  | b => do pure (true, ← sblock? b)
partial def elifs? : List Sexp → Option ElseIfs
  | [] => some .nil
  | .list [c, body] :: rest => do pure (.cons (← expr? c) (← sblock? body) (← elifs? rest))
  | _ => none
partial def scases? : List Sexp → Option SCases
  | [] => some .nil
  | .list [.list conds, body] :: rest => do
      pure (.cons (← conds.mapM caseExpr?) (← sblock? body) (← scases? rest))
  | _ => none
end

/-- `(aprogram (<slot ty>…) (<array element ty>…) (<stmt>…))` -/
def sprogram? : Sexp → Option SProgram
  | .list [.atom "aprogram", .list slots, .list arrs, body] => do
      pure ⟨← slots.mapM ty?, ← arrs.mapM ty?, ← sblock? body⟩
  | _ => none

end RbModel.ArrL
