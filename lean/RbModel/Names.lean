/-!
# C13 — name resolution (model)

Hand-written transcription of the name-resolution part of `rusty_linter` (and of the run-time variable keys of
`rusty_basic/src/interpreter/variables.rs`) for the fragment

* `DEFINT/DEFLNG/DEFSNG/DEFDBL/DEFSTR` letter ranges,
* `DIM [SHARED] x`, `DIM [SHARED] x%`, `DIM [SHARED] x AS <built-in type>`, `CONST x[sfx] = <literal>`,
* assignment to / `PRINT` of a bare or suffixed name, `PRINT f(args)`, `s args` (literal arguments),
* in the main module or inside `SUB`/`FUNCTION` implementations with bare / suffixed / `AS type` parameters.

Not modelled (the harness never generates them, the driver refuses ill-formed names): arrays, user defined types,
fixed-length strings, `DECLARE`, `REDIM`, `STATIC`, names that are keywords / built-in functions or subs, names with
dots, by-reference arguments.

Characters are bytes (`Nat`), as in `rusty_common::case_insensitive_utils` (which works on `as_bytes()`).
A *key* is the ASCII-upper-cased byte list of an identifier: `CaseInsensitiveString`'s `Eq`/`Hash` (`cmp_str`,
`hash_str`) depend on nothing else (theorem `RbThm.C13.ciEq_iff_fold`), and every table of the linter is a `HashMap`
keyed by `CaseInsensitiveString`.  Core imports only.
-/
namespace RbModel.Names

/-! ## characters, identifiers, DEFtype table -/

/-- `TypeQualifier`: `%`, `&`, `!`, `#`, `$`. -/
inductive Q where
  | int | lng | sng | dbl | str
  deriving DecidableEq, Repr, Inhabited

/-- `u8::to_ascii_uppercase`. -/
def upper (b : Nat) : Nat := if 97 ≤ b ∧ b ≤ 122 then b - 32 else b

/-- `char::is_ascii_uppercase`. -/
def isAsciiUpper (b : Nat) : Bool := decide (65 ≤ b ∧ b ≤ 90)

/-- Port of `type_resolver_impl.rs::char_to_alphabet_index`; `none` is the `panic!("Not a latin letter")`. -/
def charToAlphabetIndex (b : Nat) : Option Nat :=
  let u := upper b
  if isAsciiUpper u then some (u - 65) else none

/-- identifier as written (bytes) -/
abbrev Ident := List Nat
/-- identifier as the hash maps see it -/
abbrev Key := List Nat

/-- `CaseInsensitiveString` identity: the upper-cased bytes. -/
def fold (s : Ident) : Key := s.map upper

/-- Port of `case_insensitive_utils.rs::cmp_bytes(..) == Ordering::Equal` (the `PartialEq` of
`CaseInsensitiveString`). -/
def ciEq : List Nat → List Nat → Bool
  | [], [] => true
  | a :: as, b :: bs => if upper a = upper b then ciEq as bs else false
  | _, _ => false

/-- An identifier the parser can produce starts with a latin letter (`<bare-name> ::= <letter> ...`). -/
def wellFormedName (s : List Nat) : Bool :=
  match s with
  | [] => false
  | b :: _ => (charToAlphabetIndex b).isSome

/-- Port of the parser's check of a DEFtype letter range `a-b` (`rusty_parser/src/core/def_type.rs::letter_range`:
`l.to_ascii_uppercase() <= r.to_ascii_uppercase()`, otherwise the syntax error "Invalid letter range"):
the two letters are compared without regard to case. -/
def rangeAccepted (a b : Nat) : Bool := decide (upper a ≤ upper b)

/-- `TypeResolverImpl.ranges`: 26 qualifiers. -/
abbrev DefTable := List Q

/-- `TypeResolverImpl::new`: all `BangSingle`. -/
def DefTable.init : DefTable := List.replicate 26 Q.sng

/-- The `while x <= y { ranges[x] = q; x += 1 }` loop of `fill_ranges`, `n` = remaining iterations. -/
def fillLoop (t : DefTable) (x : Nat) (q : Q) : Nat → DefTable
  | 0 => t
  | n + 1 => fillLoop (t.set x q) (x + 1) q n

/-- Port of `TypeResolverImpl::fill_ranges` on alphabet indexes. -/
def fillRanges (t : DefTable) (start stop : Nat) (q : Q) : DefTable :=
  fillLoop t start q (stop + 1 - start)

/-- Port of `TypeResolverImpl::set` (`LetterRange::Single(c)` is the range `(c, c)`); letters are bytes.
A non-letter would panic in Rust; the parser only produces letters, the model skips such a range. -/
def setDefType (t : DefTable) (q : Q) : List (Nat × Nat) → DefTable
  | [] => t
  | (a, b) :: rest =>
    match charToAlphabetIndex a, charToAlphabetIndex b with
    | some x, some y => setDefType (fillRanges t x y q) q rest
    | _, _ => setDefType t q rest

/-- Port of `char_to_qualifier` ∘ first character (`IntoTypeQualifier for BareName`).
For names that do not start with a letter Rust panics; the model answers SINGLE (such names are excluded by
`wellFormedName`, the driver refuses them). -/
def defaultQ (t : DefTable) (k : List Nat) : Q :=
  match k with
  | [] => Q.sng
  | b :: _ =>
    match charToAlphabetIndex b with
    | some i => t.getD i Q.sng
    | none => Q.sng

/-! ## tables -/

/-- literal kinds used on the right of `CONST` (`7`, `70000`, `7.25`, `7.25#`, `"c"`) -/
inductive Lit where
  | int | lng | sng | dbl | str
  deriving DecidableEq, Repr, Inhabited

/-- qualifier of a literal's `Variant` (`qualifier_of_const_variant`) -/
def Lit.q : Lit → Q
  | .int => .int | .lng => .lng | .sng => .sng | .dbl => .dbl | .str => .str

/-- `NameInfoInner`.  `VariableInfo` is (qualifier, shared) in this fragment; a constant's `Variant` is kept as
(literal it came from, qualifier after the cast to the declared suffix). -/
inductive NameInfo where
  | const (q : Q) (lit : Lit)
  | compacts (m : List (Q × Bool))
  | extended (q : Q) (shared : Bool)
  deriving DecidableEq, Repr, Inhabited

/-- `NamesInner.map`: newest binding first; `find` returns the first match (a `HashMap` with overwrite). -/
abbrev Table := List (Key × NameInfo)

def Table.find (t : Table) (k : Key) : Option NameInfo :=
  match t with
  | [] => none
  | (k', v) :: rest => if k' = k then some v else Table.find rest k

/-- shared flag of compact `q` -/
def compactFind (m : List (Q × Bool)) (q : Q) : Option Bool :=
  match m with
  | [] => none
  | (q', s) :: rest => if q' = q then some s else compactFind rest q

/-- `ManyNamesTrait::get_compact` -/
def Table.getCompact (t : Table) (k : Key) (q : Q) : Option Bool :=
  match t.find k with
  | some (.compacts m) => compactFind m q
  | _ => none

/-- `ManyNamesTrait::get_extended` -/
def Table.getExtended (t : Table) (k : Key) : Option (Q × Bool) :=
  match t.find k with
  | some (.extended q s) => some (q, s)
  | _ => none

/-- `ConstLookup::get_const_value` -/
def Table.getConst (t : Table) (k : Key) : Option (Q × Lit) :=
  match t.find k with
  | some (.const q l) => some (q, l)
  | _ => none

/-- `NamesInner::insert_compact` (the Rust code panics when the name is a constant or extended; every caller
rules that out first, the model overwrites). -/
def Table.insertCompact (t : Table) (k : Key) (q : Q) (shared : Bool) : Table :=
  match t.find k with
  | some (.compacts m) => (k, .compacts ((q, shared) :: m)) :: t
  | _ => (k, .compacts [(q, shared)]) :: t

def Table.insertExtended (t : Table) (k : Key) (q : Q) (shared : Bool) : Table := (k, .extended q shared) :: t
def Table.insertConst (t : Table) (k : Key) (q : Q) (l : Lit) : Table := (k, .const q l) :: t

/-- `collect_var_info(bare_name, only_shared)`: (is-extended, qualifier) of the variables of that name. -/
def Table.collect (t : Table) (k : Key) (onlyShared : Bool) : List (Bool × Q) :=
  match t.find k with
  | some (.compacts m) => (m.filter (fun e => e.2 || !onlyShared)).map (fun e => (false, e.1))
  | some (.extended q s) => if s || !onlyShared then [(true, q)] else []
  | _ => []

/-! ## linter context -/

/-- `ScopeName` -/
inductive Scope where
  | global
  | func (k : Key) (q : Q)
  | sub (k : Key)
  deriving DecidableEq, Repr, Inhabited

/-- the coded errors this fragment can produce (`LintError` variants) -/
inductive LintErr where
  | duplicateDefinition | typeMismatch | illegalInSubFunction | argumentCountMismatch | argumentTypeMismatch
  | subprogramNotDefined | overflow | functionNeedsArguments
  deriving DecidableEq, Repr, Inhabited

/-- `LinterContext` (+ `Names`): only the global table and the table of the subprogram being converted are live. -/
structure Ctx where
  deft : DefTable
  /-- `functions: SignatureMap`: name ↦ (result qualifier, parameter qualifiers) -/
  funcs : List (Key × (Q × List Q))
  /-- `subs: SignatureMap` -/
  subs : List (Key × List Q)
  globals : Table
  locals : Table
  scope : Scope
  deriving DecidableEq, Repr, Inhabited

def assocFind {β : Type} (l : List (Key × β)) (k : Key) : Option β :=
  match l with
  | [] => none
  | (k', v) :: rest => if k' = k then some v else assocFind rest k

def Ctx.inSub (c : Ctx) : Bool := decide (c.scope ≠ Scope.global)

/-- `Names::names()` -/
def Ctx.cur (c : Ctx) : Table := if c.inSub then c.locals else c.globals

def Ctx.setCur (c : Ctx) (t : Table) : Ctx := if c.inSub then { c with locals := t } else { c with globals := t }

/-- `LinterContext::function_qualifier` -/
def Ctx.funcQ (c : Ctx) (k : Key) : Option Q := (assocFind c.funcs k).map (·.1)

def Ctx.hasSub (c : Ctx) (k : Key) : Bool := (assocFind c.subs k).isSome

/-- `Names::is_in_function` -/
def Ctx.inFunction (c : Ctx) (k : Key) : Bool :=
  match c.scope with
  | .func f _ => decide (f = k)
  | _ => false

/-- `Names::get_extended_var_recursively`: (qualifier, frame the variable lives in). -/
def Ctx.getExtendedRec (c : Ctx) (k : Key) : Option (Q × Scope) :=
  match c.cur.getExtended k with
  | some (q, _) => some (q, c.scope)
  | none =>
    if c.inSub then
      match c.globals.getExtended k with
      | some (q, true) => some (q, Scope.global)   -- `require_shared`
      | _ => none
    else none

/-- `Names::get_compact_var_recursively`: the frame the variable lives in. -/
def Ctx.getCompactRec (c : Ctx) (k : Key) (q : Q) : Option Scope :=
  match c.cur.getCompact k q with
  | some _ => some c.scope
  | none =>
    if c.inSub then
      match c.globals.getCompact k q with
      | some true => some Scope.global             -- `require_shared`
      | _ => none
    else none

/-- `Names::get_const_value_recursively` (constants are always visible) -/
def Ctx.getConstRec (c : Ctx) (k : Key) : Option (Q × Lit) :=
  match c.cur.getConst k with
  | some v => some v
  | none => if c.inSub then c.globals.getConst k else none

/-- `Names::find_name_or_shared_in_parent` -/
def Ctx.findNameOrSharedInParent (c : Ctx) (k : Key) : List (Bool × Q) :=
  c.cur.collect k false ++ (if c.inSub then c.globals.collect k true else [])

/-! ## script language -/

/-- a name occurrence: identifier + optional suffix -/
structure NameRef where
  name : Ident
  sfx : Option Q
  deriving DecidableEq, Repr, Inhabited

/-- `DIM A` / `DIM A%` / `DIM A AS INTEGER`, also the three parameter forms -/
inductive Decl where
  | bare
  | compact (q : Q)
  | extended (q : Q)
  deriving DecidableEq, Repr, Inhabited

inductive Stmt where
  | dim (shared : Bool) (name : Ident) (d : Decl)
  | const (n : NameRef) (lit : Lit)
  /-- `n = <numeric literal tag>` or `n = "s<tag>"` -/
  | assign (n : NameRef) (rhsStr : Bool) (tag : Nat)
  /-- `PRINT n` -/
  | print (n : NameRef)
  /-- `name arg, ...` with literal arguments (`true` = string literal) -/
  | callSub (name : Ident) (args : List Bool)
  /-- `PRINT n(arg, ...)` with literal arguments -/
  | printCall (n : NameRef) (args : List Bool)
  deriving DecidableEq, Repr, Inhabited

structure Param where
  name : Ident
  d : Decl
  deriving DecidableEq, Repr, Inhabited

inductive Item where
  | defType (q : Q) (ranges : List (Nat × Nat))
  | stmt (s : Stmt)
  | sub (name : Ident) (params : List Param) (body : List Stmt)
  | func (n : NameRef) (params : List Param) (body : List Stmt)
  deriving DecidableEq, Repr, Inhabited

abbrev Script := List Item

/-! ## resolution of one name occurrence (`variable.rs::convert`) -/

/-- what an occurrence resolves to -/
inductive Res where
  /-- `Expression::Variable(Name::qualified(k, q), BuiltIn(q))`, stored in frame `home` -/
  | var (k : Key) (q : Q) (home : Scope)
  /-- replaced by the literal of the constant -/
  | constant (q : Q) (lit : Lit)
  /-- `Expression::FunctionCall(Name::qualified(k, q), args)` of a user defined function -/
  | call (k : Key) (q : Q)
  /-- call of an undefined function: reduced by `undefined_function_reducer` to the literal 0, or to the
  empty string when the name carries the `$` suffix (`isStr`) -/
  | undefCall (isStr : Bool)
  deriving DecidableEq, Repr, Inhabited

inductive Mode where
  | assignment   -- `ExprContext::Assignment`
  | default      -- `ExprContext::Default`
  deriving DecidableEq, Repr

/-- `Name::is_bare_or_of_type` / the success condition of `try_qualify` -/
def sfxOk (sfx : Option Q) (q : Q) : Bool :=
  match sfx with
  | none => true
  | some s => decide (s = q)

/-- `ExistingConst::resolve` -/
def resolveConst (sfx : Option Q) (v : Q × Lit) : Except LintErr Res :=
  if sfxOk sfx v.1 then .ok (.constant v.1 v.2) else .error .duplicateDefinition

/-- `add_as_new_implicit_var` -/
def addImplicit (c : Ctx) (k : Key) (sfx : Option Q) : Ctx × Res :=
  let q := sfx.getD (defaultQ c.deft k)
  (c.setCur (c.cur.insertCompact k q false), .var k q c.scope)

/-- rules after `ExistingVar` and the local `ExistingConst` failed to match -/
def resolveTail (c : Ctx) (k : Key) (sfx : Option Q) (m : Mode) : Except LintErr (Ctx × Res) :=
  match c.funcQ k with
  | some fq =>
    match m with
    | .assignment =>
      -- `AssignToFunction`
      if c.inFunction k then
        if sfxOk sfx fq then .ok (c.setCur (c.cur.insertCompact k fq false), .var k fq c.scope)
        else .error .duplicateDefinition
      else .error .duplicateDefinition
    | .default =>
      -- `VarAsUserDefinedFunctionCall` (`VarAsBuiltInFunctionCall` is outside the fragment)
      if sfxOk sfx fq then .ok (c, .call k fq) else .error .duplicateDefinition
  | none =>
    -- `ExistingConst::new_recursive`
    match c.getConstRec k with
    | some v => (resolveConst sfx v).map (fun r => (c, r))
    | none => .ok (addImplicit c k sfx)

/-- Port of `variable.rs::convert` (+ `validate`): the ordered rule list. -/
def resolveVar (c : Ctx) (k : Key) (sfx : Option Q) (m : Mode) : Except LintErr (Ctx × Res) :=
  if c.hasSub k then .error .duplicateDefinition          -- `validate`
  else
    -- `ExistingVar`
    match c.getExtendedRec k with
    | some (q, home) =>
      -- `qualify_name`: a different suffix is `TypeMismatch`
      if sfxOk sfx q then .ok (c, .var k q home) else .error .typeMismatch
    | none =>
      let q := sfx.getD (defaultQ c.deft k)
      match c.getCompactRec k q with
      | some home => .ok (c, .var k q home)
      | none =>
        -- `ExistingConst::new_local`
        match c.cur.getConst k with
        | some v => (resolveConst sfx v).map (fun r => (c, r))
        | none => resolveTail c k sfx m

/-! ## declarations -/

/-- `require_compact_can_be_defined` -/
def requireCompact (c : Ctx) (k : Key) (q : Q) : Bool :=
  (c.findNameOrSharedInParent k).all (fun e => !e.1 && decide (e.2 ≠ q))

/-- `require_extended_can_be_defined` -/
def requireExtended (c : Ctx) (k : Key) : Bool := (c.findNameOrSharedInParent k).isEmpty

/-- `on_dim_type` / `on_param_type` followed by `Names::insert` -/
def declare (c : Ctx) (k : Key) (d : Decl) (shared : Bool) : Except LintErr Ctx :=
  match d with
  | .bare =>
    let q := defaultQ c.deft k
    if requireCompact c k q then .ok (c.setCur (c.cur.insertCompact k q shared)) else .error .duplicateDefinition
  | .compact q =>
    if requireCompact c k q then .ok (c.setCur (c.cur.insertCompact k q shared)) else .error .duplicateDefinition
  | .extended q =>
    if requireExtended c k then .ok (c.setCur (c.cur.insertExtended k q shared)) else .error .duplicateDefinition

/-- `ConvertibleIn<DimNameState> for DimVar` with `validation::validate` -/
def convDim (c : Ctx) (shared : Bool) (k : Key) (d : Decl) : Except LintErr Ctx :=
  if c.hasSub k then .error .duplicateDefinition
  else if (c.funcQ k).isSome then .error .duplicateDefinition
  else if (c.cur.getConst k).isSome then .error .duplicateDefinition
  else if shared && c.inSub then .error .illegalInSubFunction
  else declare c k d shared

/-- `CannotClashWithFunctions for Parameter`: a parameter may carry the name of a function only as a compact of
the function's own type ("for some reason you can have a FUNCTION Add(Add)") -/
def paramClash (c : Ctx) (k : Key) (d : Decl) : Bool :=
  match c.funcQ k with
  | some fq =>
    match d with
    | .extended _ => true
    | .compact q => decide (q ≠ fq)
    | .bare => decide (defaultQ c.deft k ≠ fq)
  | none => false

/-- `ConvertibleIn<Position> for Parameter` with `validation::validate` -/
def convParam (c : Ctx) (k : Key) (d : Decl) : Except LintErr Ctx :=
  if c.hasSub k then .error .duplicateDefinition
  else if paramClash c k d then .error .duplicateDefinition
  else if (c.cur.getConst k).isSome then .error .duplicateDefinition
  else declare c k d false

/-- `Variant::cast` of a literal's value to a declared suffix: string↔number is `TypeMismatch`,
70000 to INTEGER is `Overflow`. -/
def castLit (l : Lit) (q : Q) : Except LintErr Q :=
  if decide (l.q = Q.str) != decide (q = Q.str) then .error .typeMismatch
  else if l = Lit.lng ∧ q = Q.int then .error .overflow
  else .ok q

/-- the qualifier a `CONST n = lit` gets (`new_const` / `cast_resolved_value_to_declared_type`) -/
def constQ (sfx : Option Q) (l : Lit) : Except LintErr Q :=
  match sfx with
  | none => .ok l.q
  | some s => if s = l.q then .ok s else castLit l s

/-- `const_rules.rs::on_const` -/
def convConst (c : Ctx) (k : Key) (sfx : Option Q) (l : Lit) : Except LintErr Ctx :=
  if (c.cur.find k).isSome || (c.getExtendedRec k).isSome || c.hasSub k || (c.funcQ k).isSome then
    .error .duplicateDefinition
  else
    match constQ sfx l with
    | .ok q => .ok (c.setCur (c.cur.insertConst k q l))
    | .error e => .error e

/-! ## statements -/

/-- linted statement (what the generator / the run needs) -/
inductive RStmt where
  | nop
  | assign (k : Key) (q : Q) (home : Scope) (tag : Nat)
  | print (r : Res)
  | callSub (k : Key) (args : List Bool)
  | printCall (r : Res) (args : List Bool)
  deriving DecidableEq, Repr, Inhabited

/-- `function.rs::convert` for `n(args)` in the fragment (no arrays): user function or undefined function. -/
def resolveCall (c : Ctx) (k : Key) (sfx : Option Q) (args : List Bool) : Except LintErr Res :=
  if args.isEmpty then .error .functionNeedsArguments
  else
    match c.funcQ k with
    | some fq => if sfxOk sfx fq then .ok (.call k fq) else .error .duplicateDefinition
    | none => .ok (.undefCall (sfx.getD (defaultQ c.deft k) == Q.str))

/-- Port of the statement converters (`on_assignment`, `on_const`, DIM, PRINT, sub call). -/
def convStmt (c : Ctx) (s : Stmt) : Except LintErr (Ctx × RStmt) :=
  match s with
  | .dim shared name d => (convDim c shared (fold name) d).map (fun c' => (c', .nop))
  | .const n l => (convConst c (fold n.name) n.sfx l).map (fun c' => (c', .nop))
  | .assign n rhsStr tag =>
    -- `cannot_assign_to_const`
    if (c.getConstRec (fold n.name)).isSome then .error .duplicateDefinition
    else
      match resolveVar c (fold n.name) n.sfx .assignment with
      | .error e => .error e
      | .ok (c', .var k q home) =>
        -- `assignment_post_conversion_validation_rules`: the literal must be castable
        if decide (q = Q.str) != rhsStr then .error .typeMismatch else .ok (c', .assign k q home tag)
      | .ok (_, _) => .error .duplicateDefinition   -- unreachable: assignment resolves to a variable
  | .print n =>
    match resolveVar c (fold n.name) n.sfx .default with
    | .error e => .error e
    | .ok (c', r) => .ok (c', .print r)
  | .callSub name args => .ok (c, .callSub (fold name) args)
  | .printCall n args =>
    match resolveCall c (fold n.name) n.sfx args with
    | .error e => .error e
    | .ok r => .ok (c, .printCall r args)

def convStmts (c : Ctx) : List Stmt → Except LintErr (Ctx × List RStmt)
  | [] => .ok (c, [])
  | s :: rest =>
    match convStmt c s with
    | .error e => .error e
    | .ok (c', r) =>
      match convStmts c' rest with
      | .error e => .error e
      | .ok (c'', rs) => .ok (c'', r :: rs)

def convParams (c : Ctx) : List Param → Except LintErr (Ctx × List (Key × Q))
  | [] => .ok (c, [])
  | p :: rest =>
    match convParam c (fold p.name) p.d with
    | .error e => .error e
    | .ok c' =>
      let q := match p.d with
        | .bare => defaultQ c.deft (fold p.name)
        | .compact q => q
        | .extended q => q
      match convParams c' rest with
      | .error e => .error e
      | .ok (c'', ps) => .ok (c'', (fold p.name, q) :: ps)

/-- linted top-level item -/
inductive RItem where
  | stmt (s : RStmt)
  /-- `locals`: the name table of the subprogram's scope when it is left (`Names.data[scope]`) -/
  | sub (k : Key) (params : List (Key × Q)) (body : List RStmt) (locals : Table)
  | func (k : Key) (q : Q) (params : List (Key × Q)) (body : List RStmt) (locals : Table)
  deriving Repr, Inhabited

/-- `on_sub_implementation` / `on_function_implementation`: push scope, parameters, body, pop. -/
def convSubprogram (c : Ctx) (sc : Scope) (params : List Param) (body : List Stmt) :
    Except LintErr (Ctx × List (Key × Q) × List RStmt × Table) :=
  let c1 : Ctx := { c with scope := sc, locals := [] }
  match convParams c1 params with
  | .error e => .error e
  | .ok (c2, ps) =>
    match convStmts c2 body with
    | .error e => .error e
    | .ok (c3, rs) => .ok ({ c3 with scope := Scope.global, locals := [] }, ps, rs, c3.locals)

/-- `ConvertibleIn<Position> for GlobalStatement` -/
def convItem (c : Ctx) (it : Item) : Except LintErr (Ctx × List RItem) :=
  match it with
  | .defType q ranges => .ok ({ c with deft := setDefType c.deft q ranges }, [])
  | .stmt s => (convStmt c s).map (fun p => (p.1, [RItem.stmt p.2]))
  | .sub name params body =>
    match convSubprogram c (.sub (fold name)) params body with
    | .error e => .error e
    | .ok (c', ps, rs, loc) => .ok (c', [RItem.sub (fold name) ps rs loc])
  | .func n params body =>
    let q := n.sfx.getD (defaultQ c.deft (fold n.name))
    match convSubprogram c (.func (fold n.name) q) params body with
    | .error e => .error e
    | .ok (c', ps, rs, loc) => .ok (c', [RItem.func (fold n.name) q ps rs loc])

def convItems (c : Ctx) : List Item → Except LintErr (Ctx × List RItem)
  | [] => .ok (c, [])
  | it :: rest =>
    match convItem c it with
    | .error e => .error e
    | .ok (c', r) =>
      match convItems c' rest with
      | .error e => .error e
      | .ok (c'', rs) => .ok (c'', r ++ rs)

/-! ## pre-linter (`pre_linter/main.rs`): signatures, global constants -/

structure Pre where
  deft : DefTable
  funcs : List (Key × (Q × List Q))
  subs : List (Key × List Q)
  consts : List Key

def paramQ (t : DefTable) (p : Param) : Q :=
  match p.d with
  | .bare => defaultQ t (fold p.name)
  | .compact q => q
  | .extended q => q

def preItem (p : Pre) (it : Item) : Except LintErr Pre :=
  match it with
  | .defType q ranges => .ok { p with deft := setDefType p.deft q ranges }
  | .func n params _ =>
    let k := fold n.name
    if (assocFind p.funcs k).isSome then .error .duplicateDefinition
    else .ok { p with funcs := (k, (n.sfx.getD (defaultQ p.deft k), params.map (paramQ p.deft))) :: p.funcs }
  | .sub name params _ =>
    let k := fold name
    if (assocFind p.subs k).isSome then .error .duplicateDefinition
    else .ok { p with subs := (k, params.map (paramQ p.deft)) :: p.subs }
  | .stmt (.const n l) =>
    -- `ConstantMap::visit`
    let k := fold n.name
    if p.consts.contains k then .error .duplicateDefinition
    else
      match constQ n.sfx l with
      | .error e => .error e
      | .ok _ => .ok { p with consts := k :: p.consts }
  | .stmt _ => .ok p

def preItems (p : Pre) : List Item → Except LintErr Pre
  | [] => .ok p
  | it :: rest =>
    match preItem p it with
    | .error e => .error e
    | .ok p' => preItems p' rest

/-! ## post-linter (`user_defined_function_linter`, `user_defined_sub_linter`) -/

/-- `lint_call_args` for literal (by value) arguments: count, then castability string↔number. -/
def lintCallArgs (args : List Bool) (params : List Q) : Except LintErr Unit :=
  if args.length ≠ params.length then .error .argumentCountMismatch
  else if (args.zip params).all (fun e => e.1 == decide (e.2 = Q.str)) then .ok ()
  else .error .argumentTypeMismatch

def postFnExpr (funcs : List (Key × (Q × List Q))) (r : Res) (args : List Bool) : Except LintErr Unit :=
  match r with
  | .call k _ =>
    match assocFind funcs k with
    | some sig => lintCallArgs args sig.2
    | none => .ok ()
  | .undefCall _ => if args.any id then .error .argumentTypeMismatch else .ok ()   -- `handle_undefined_function`
  | _ => .ok ()

def postFnStmt (funcs : List (Key × (Q × List Q))) : RStmt → Except LintErr Unit
  | .print r => postFnExpr funcs r []
  | .printCall r args => postFnExpr funcs r args
  | _ => .ok ()

def postSubStmt (subs : List (Key × List Q)) : RStmt → Except LintErr Unit
  | .callSub k args =>
    match assocFind subs k with
    | some ps => lintCallArgs args ps
    | none => .error .subprogramNotDefined
  | _ => .ok ()

def allStmts : List RItem → List RStmt
  | [] => []
  | .stmt s :: rest => s :: allStmts rest
  | .sub _ _ body _ :: rest => body ++ allStmts rest
  | .func _ _ _ body _ :: rest => body ++ allStmts rest

def firstErr (f : RStmt → Except LintErr Unit) : List RStmt → Except LintErr Unit
  | [] => .ok ()
  | s :: rest =>
    match f s with
    | .error e => .error e
    | .ok () => firstErr f rest

/-- Port of `core::lint`: pre-linter, converter, post-linter. -/
def lint (s : Script) : Except LintErr (List RItem × Table) :=
  match preItems { deft := DefTable.init, funcs := [], subs := [], consts := [] } s with
  | .error e => .error e
  | .ok p =>
    let c0 : Ctx := { deft := DefTable.init, funcs := p.funcs, subs := p.subs, globals := [], locals := [],
                      scope := Scope.global }
    match convItems c0 s with
    | .error e => .error e
    | .ok (cEnd, items) =>
      match firstErr (postFnStmt p.funcs) (allStmts items) with
      | .error e => .error e
      | .ok () =>
        match firstErr (postSubStmt p.subs) (allStmts items) with
        | .error e => .error e
        | .ok () => .ok (items, cEnd.globals)

/-! ## what the instruction generator asks (`Names::get_resolved_variable_info`) -/

/-- `NamesInner::get_variable_info_by_name` for a qualified name: the compact of that qualifier, else the extended
variable of that bare name. Result: (qualifier, shared). -/
def varInfoByName (t : Table) (k : Key) (q : Q) : Option (Q × Bool) :=
  match t.getCompact k q with
  | some s => some (q, s)
  | none => t.getExtended k

/-- Port of `Names::get_resolved_variable_info(scope, name)`: the scope's own table, else — inside a subprogram —
the global table, where the variable must be SHARED.  `none` stands for the three `panic!`s. -/
def resolvedInfo (loc glob : Table) (inSub : Bool) (k : Key) (q : Q) : Option (Q × Bool) :=
  match varInfoByName loc k q with
  | some i => some i
  | none =>
    if inSub then
      match varInfoByName glob k q with
      | some (x, true) => some (x, true)
      | _ => none
    else none

/-- the variable a linted statement mentions (what `generate_path_instructions` looks up) -/
def RStmt.varOcc : RStmt → Option (Key × Q)
  | .assign k q _ _ => some (k, q)
  | .print (.var k q _) => some (k, q)
  | .printCall (.var k q _) _ => some (k, q)
  | _ => none

def stmtResolved (loc glob : Table) (inSub : Bool) (r : RStmt) : Bool :=
  match r.varOcc with
  | some (k, q) => (resolvedInfo loc glob inSub k q).isSome
  | none => true

/-- every variable occurrence of the linted program has lint-time info in the final tables -/
def itemResolved (glob : Table) : RItem → Bool
  | .stmt r => stmtResolved glob glob false r
  | .sub _ _ body loc => body.all (stmtResolved loc glob true)
  | .func _ _ _ body loc => body.all (stmtResolved loc glob true)

def allResolved (items : List RItem) (glob : Table) : Bool := items.all (itemResolved glob)

/-- the resolution of every assignment / PRINT occurrence in program order -/
def traceOf : List RStmt → List Res
  | [] => []
  | .assign k q home _ :: rest => .var k q home :: traceOf rest
  | .print r :: rest => r :: traceOf rest
  | .printCall r _ :: rest => r :: traceOf rest
  | _ :: rest => traceOf rest

/-! ## run-time: variables keyed by qualified `Name` per frame (`interpreter/variables.rs`) -/

/-- where a printed value came from -/
inductive Src where
  | tag (n : Nat)     -- the assignment with that tag
  | arg (j : Nat)     -- the j-th literal argument of a call
  | lit (l : Lit)     -- a constant's literal
  | default           -- never assigned: 0 or ""
  deriving DecidableEq, Repr, Inhabited

/-- a value: its source and the qualifier of the variable/constant it was stored into (one cast) -/
structure Val where
  src : Src
  q : Q
  deriving DecidableEq, Repr, Inhabited

abbrev Frame := List ((Key × Q) × Val)

def Frame.get (f : Frame) (n : Key × Q) : Val :=
  match f with
  | [] => ⟨.default, n.2⟩
  | (n', v) :: rest => if n' = n then v else Frame.get rest n

def Frame.set (f : Frame) (n : Key × Q) (v : Val) : Frame := (n, v) :: f

structure Mem where
  global : Frame
  locl : Frame
  out : List Val
  deriving Repr, Inhabited

def findSub : List RItem → Key → Option (List (Key × Q) × List RStmt)
  | [], _ => none
  | .sub k ps body _ :: rest, n => if k = n then some (ps, body) else findSub rest n
  | _ :: rest, n => findSub rest n

def findFunc : List RItem → Key → Option (Q × List (Key × Q) × List RStmt)
  | [], _ => none
  | .func k q ps body _ :: rest, n => if k = n then some (q, ps, body) else findFunc rest n
  | _ :: rest, n => findFunc rest n

/-- by-value parameter frame: the j-th parameter holds the j-th literal argument, cast to its qualifier -/
def bindParams (ps : List (Key × Q)) (j : Nat) : Frame :=
  match ps with
  | [] => []
  | (k, q) :: rest => bindParams rest (j + 1) ++ [((k, q), ⟨.arg j, q⟩)]

def readVar (m : Mem) (inGlobal : Bool) (k : Key) (q : Q) (home : Scope) : Val :=
  if inGlobal || home = Scope.global then m.global.get (k, q) else m.locl.get (k, q)

def writeVar (m : Mem) (inGlobal : Bool) (k : Key) (q : Q) (home : Scope) (v : Val) : Mem :=
  if inGlobal || home = Scope.global then { m with global := m.global.set (k, q) v }
  else { m with locl := m.locl.set (k, q) v }

/-- Runs statements.  Every statement costs one unit of `fuel` along the current chain of statements and calls
(structural recursion on the fuel); `none` = fuel exhausted, e.g. a function whose body mentions its own name
recurses forever.  `inGlobal`: executing the main module. -/
def exec (prog : List RItem) : Nat → List RStmt → Bool → Mem → Option Mem
  | _, [], _, m => some m
  | 0, _ :: _, _, _ => none
  | fuel + 1, s :: rest, g, m =>
    match s with
    | .nop => exec prog fuel rest g m
    | .assign k q home tag => exec prog fuel rest g (writeVar m g k q home ⟨.tag tag, q⟩)
    | .callSub k _ =>
      match findSub prog k with
      | none => none
      | some (ps, body) =>
        match exec prog fuel body false { m with locl := bindParams ps 0 } with
        | none => none
        | some m' => exec prog fuel rest g { m' with locl := m.locl }
    | .print r | .printCall r _ =>
      match r with
      | .var k q home => exec prog fuel rest g { m with out := m.out ++ [readVar m g k q home] }
      | .constant q l => exec prog fuel rest g { m with out := m.out ++ [⟨.lit l, q⟩] }
      | .undefCall isStr => exec prog fuel rest g { m with out := m.out ++ [⟨.default, if isStr then Q.str else Q.int⟩] }
      | .call k q =>
        match findFunc prog k with
        | none => none
        | some (_, ps, body) =>
          match exec prog fuel body false { m with locl := bindParams ps 0 } with
          | none => none
          | some m' =>
            -- the function's value is the local variable carrying its qualified name
            exec prog fuel rest g { m' with locl := m.locl, out := m'.out ++ [m'.locl.get (k, q)] }

def mainStmts : List RItem → List RStmt
  | [] => []
  | .stmt s :: rest => s :: mainStmts rest
  | _ :: rest => mainStmts rest

/-- result of a script: the coded lint error, or the resolutions in program order and the printed values
(`none` when the run does not terminate within the fuel) -/
inductive Outcome where
  | rejected (e : LintErr)
  /-- `resolved`: `allResolved` (the generator's look-ups are all defined) -/
  | accepted (trace : List Res) (out : Option (List Val)) (resolved : Bool)
  deriving DecidableEq, Repr, Inhabited

def runFuel : Nat := 256

def runScript (s : Script) : Outcome :=
  match lint s with
  | .error e => .rejected e
  | .ok (items, glob) =>
    .accepted (traceOf (allStmts items))
      ((exec items runFuel (mainStmts items) true { global := [], locl := [], out := [] }).map (·.out))
      (allResolved items glob)

end RbModel.Names
