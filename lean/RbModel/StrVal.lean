import RbModel.Str
import RbModel.Num
/-!
# VAL and STR$ beyond whole numbers

Extension of `RbModel/Str.lean` (property C17) to the parts of
`rusty_basic/src/interpreter/built_ins/val.rs` (`val`, the whole scanner: integer digits beyond 2^53 and the
digits after the decimal point) and `str_fn.rs` (`str_fmt!` on `VSingle` / `VDouble` values that are not whole)
that `Str.val` / `Str.strWholeFloat` answer `none` for.

`val.rs` computes in `f64`, one rounding per operation:

* an integer digit:  `value = value * 10.0 + d`                                       (two operations),
* a fraction digit:  `value = (value * 10.0.powi(fp) + d) / 10.0.powi(fp)`, `fp += 1` first (three operations).

The intermediate values of the fraction path are **not** dyadic (`VAL("2.25")` goes through `2.2`), so the "exact
domain" convention of `RbModel/Num.lean` (an operation whose exact result is not representable answers
`inexact`) would leave nearly every fractional input unmodelled.  Here the `f64` operations are modelled as
IEEE-754 prescribes them: the exact rational result rounded to the nearest binary64 number, ties to even
(`fl53`).  A `f64` is its exact rational value (plus a sign bit kept apart, for the negative zero).  Not
modelled (the model answers `none`): texts longer than 300 characters (no value below can then reach the
binary64 overflow threshold, and the smallest non-zero value, `10^-22`, is far above the subnormal range, so
`fl53` needs no exponent bounds) and more than 22 digits after the decimal point (`10.0_f64.powi(k)` is the
exact power of ten for `k ≤ 22`, where every partial product of the repeated-squaring loop is a binary64
number; beyond that its value depends on the order of the multiplications).

There is no exponent syntax in `val.rs`: `E`, `D`, `e`, `d` end the scan like any other letter.

Since /repo 1b55932 the fraction arm leaves `value` as it is when `value * 10.0.powi(fp)` is not finite, and the
end of `val` raises Overflow when `value` is an infinity.  Neither can happen inside the modelled fragment (at most
300 characters: `value < 10^300`; at most 22 fraction digits: `10^300 * 10^22` is far below the binary64 overflow
threshold `2^1024`), so the model has neither branch; beyond the fragment (310 digits and more) the harness
checks `VAL` against the correctly rounded value (`c17.rs`, family `val.long-text`).
-/
namespace RbModel.Str
open RbModel.Num (sigFits)

/-! ### binary64 rounding on rationals -/

/-- `n / d` rounded to the nearest natural number, ties to even. -/
def rne (n d : Nat) : Nat :=
  let q := n / d
  let r := n % d
  if 2 * r < d then q else if d < 2 * r then q + 1 else if q % 2 = 0 then q else q + 1

/-- The rational is a binary64 number (exponent range not considered): a dyadic rational whose numerator
has at most 53 significant bits. -/
def isDouble (q : Rat) : Bool := (q.den == 2 ^ q.den.log2) && sigFits 53 q.num.natAbs

/-- `floor (log2 (n / d))` for `n, d > 0`. -/
def ilog2 (n d : Nat) : Int :=
  let e0 : Int := (n.log2 : Int) - (d.log2 : Int)
  if d * 2 ^ e0.toNat ≤ n * 2 ^ (-e0).toNat then e0 else e0 - 1

/-- Nearest binary64 number (ties to even) of the positive rational `n / d`: with `E = floor (log2 (n/d))` the
significand is `n/d * 2^(52 - E)` rounded to a natural number in `2^52 .. 2^53`. -/
def round53 (n d : Nat) : Rat :=
  let s : Int := 52 - ilog2 n d
  let m := rne (n * 2 ^ s.toNat) (d * 2 ^ (-s).toNat)
  (m : Rat) * (2 : Rat) ^ (-s).toNat / (2 : Rat) ^ s.toNat

/-- The result of an IEEE-754 binary64 operation whose exact result is `q` (round to nearest, ties to even;
no overflow, no underflow): `q` itself when it is a binary64 number. -/
def fl53 (q : Rat) : Rat :=
  if isDouble q then q
  else if q < 0 then -(round53 q.num.natAbs q.den) else round53 q.num.natAbs q.den

/-! ### `val.rs` -/

/-- What `val` returns: a `Variant::VDouble`, given by its sign bit and the exact value of its magnitude
(`⟨true, 0⟩` is the negative zero of `VAL("-0")`). -/
structure VQ where
  negative : Bool
  magnitude : Rat
  deriving DecidableEq

/-- The numeric value of the double. -/
def VQ.value (r : VQ) : Rat := if r.negative then -r.magnitude else r.magnitude

/-- `10.0_f64.powi(k)` for `k ≤ 22` (an exact power of ten). -/
def pow10 (k : Nat) : Rat := ((10 ^ k : Nat) : Rat)

/-- The `for c in s.chars()` loop of `val.rs::val`, every arm.  State: `is_positive`, `value`, `fraction_power`,
`state`.  `break` = return the state.  `none`: more than 22 fraction digits. -/
def valQScan : List Nat → Bool → Rat → Nat → VState → Option (Bool × Rat × VState)
  | [], pos, v, _, st => some (pos, v, st)
  | c :: cs, pos, v, fp, st =>
    if 48 ≤ c ∧ c ≤ 57 then
      if st = .dot ∨ st = .fraction then
        if fp + 1 ≤ 22 then
          let p := pow10 (fp + 1)
          valQScan cs pos (fl53 (fl53 (fl53 (v * p) + ((c - 48 : Nat) : Rat)) / p)) (fp + 1) .fraction
        else none
      else valQScan cs pos (fl53 (fl53 (v * 10) + ((c - 48 : Nat) : Rat))) fp .int
    else if c = 32 then valQScan cs pos v fp st
    else if c = 46 then
      if st = .dot ∨ st = .fraction then some (pos, v, st) else valQScan cs pos v fp .dot
    else if c = 45 then
      if st = .initial then valQScan cs false v fp .sign else some (pos, v, st)
    else if c = 43 then
      if st = .initial then valQScan cs pos v fp .sign else some (pos, v, st)
    else some (pos, v, st)

/-- The end of `val.rs::val`: `VDouble(0.0)` when neither a digit nor a decimal point was seen, otherwise
`VDouble(value)`, negated when a minus sign was seen. -/
def valQFinish (pos : Bool) (v : Rat) (st : VState) : VQ :=
  if st = .initial ∨ st = .sign then ⟨false, 0⟩ else ⟨!pos, v⟩

/-- The longest text the model answers for. -/
def maxValLen : Nat := 300

/-- `val.rs::val` (`none`: outside the modelled fragment, see the header). -/
def valQ (s : List Nat) : Option VQ :=
  if s.length > maxValLen then none
  else match valQScan s true 0 0 .initial with
    | none => none
    | some (pos, v, st) => some (valQFinish pos v st)

/-! ### `str_fn.rs` on floats -/

/-- The lowest `k` decimal digits of `n`, zero padded, as character codes. -/
def fixedDigits : Nat → Nat → List Nat
  | 0, _ => []
  | k + 1, n => fixedDigits k (n / 10) ++ [48 + n % 10]

/-- The finite decimal `mant / 10^scale` as Rust's `Display` for floats writes it: integer digits, and `.` with
exactly `scale` fraction digits when `scale > 0`. -/
def decText (mant scale : Nat) : List Nat :=
  if scale = 0 then decimal mant
  else decimal (mant / 10 ^ scale) ++ 46 :: fixedDigits scale (mant % 10 ^ scale)

/-- `str_fn.rs` `str_fmt!` on a `VSingle` (`maxDigits = 7`, `wholeLimit = 2^24 + 1`) or `VDouble` (`15`, `2^53`)
holding the non-zero or positive-zero value `q`: a blank for `q ≥ 0`, then `format!("{}", q)`.  Rust prints the
shortest decimal that reads back as the same binary32 / binary64 number, without an exponent; for a dyadic `q`
whose exact decimal `|num| * 5^k / 10^k` has at most `maxDigits` significant digits that is the exact decimal
(two decimals of at most 7 / 15 digits never round to the same float).  `none`: no claim (not dyadic, or a
longer exact decimal). -/
def strFloat (maxDigits wholeLimit : Nat) (q : Rat) : Option (List Nat) :=
  let k := q.den.log2
  if q.den == 2 ^ k then
    if k = 0 then
      if q.num.natAbs < wholeLimit then some (strWholeFloat q.num) else none
    else
      let mant := q.num.natAbs * 5 ^ k
      if (decimal mant).length ≤ maxDigits then
        some ((if q < 0 then 45 else 32) :: decText mant k)
      else none
  else none

/-- STR$ of a DOUBLE. -/
def strDouble (q : Rat) : Option (List Nat) := strFloat 15 exactLimit q
/-- STR$ of a SINGLE. -/
def strSingle (q : Rat) : Option (List Nat) := strFloat 7 16777217 q

end RbModel.Str
