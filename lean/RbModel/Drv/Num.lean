import RbModel.Sexp
import RbModel.Num
import Gen.NumTables
/-! Line-protocol handlers for `RbModel.Num` (requests `num.*`).

Values: `(int n)`, `(long n)`, `(sgl num den)`, `(dbl num den)`, `(str (c1 c2 ...))` (code points).
Answers: `(ok <value>)`, `(ok lt|eq|gt)`, `(err overflow|divisionByZero|typeMismatch)`, `inexact`. -/
namespace RbModel.Drv.Num
open RbModel RbModel.Num

def ty? : Sexp → Option Ty
  | .atom "int" => some .int
  | .atom "long" => some .long
  | .atom "sgl" => some .sgl
  | .atom "dbl" => some .dbl
  | .atom "str" => some .str
  | _ => none

def op? : Sexp → Option Op
  | .atom "plus" => some .plus
  | .atom "minus" => some .minus
  | .atom "multiply" => some .multiply
  | .atom "divide" => some .divide
  | .atom "modulo" => some .modulo
  | .atom "less" => some .less
  | .atom "lessOrEqual" => some .lessOrEqual
  | .atom "equal" => some .equal
  | .atom "greaterOrEqual" => some .greaterOrEqual
  | .atom "greater" => some .greater
  | .atom "notEqual" => some .notEqual
  | .atom "and" => some .and
  | .atom "or" => some .or
  | _ => none

def rat? (n d : Sexp) : Option Rat := do
  let n ← n.int?
  let d ← d.nat?
  if d == 0 then none else pure (mkRat n d)

def val? : Sexp → Option Val
  | .list [.atom "int", n] => do pure (.int (← n.int?))
  | .list [.atom "long", n] => do pure (.long (← n.int?))
  | .list [.atom "sgl", n, d] => do pure (.sgl (← rat? n d))
  | .list [.atom "dbl", n, d] => do pure (.dbl (← rat? n d))
  | .list [.atom "str", cs] => do
      let l ← cs.nats?
      pure (.str (l.map Char.ofNat))
  | _ => none

def showTy : Ty → String
  | .int => "int" | .long => "long" | .sgl => "sgl" | .dbl => "dbl" | .str => "str"

def showVal : Val → String
  | .int n => s!"(int {n})"
  | .long n => s!"(long {n})"
  | .sgl q => s!"(sgl {q.num} {q.den})"
  | .dbl q => s!"(dbl {q.num} {q.den})"
  | .str s => "(str " ++ toString (Sexp.ofNats (s.map Char.toNat)) ++ ")"

def showErr : Err → String
  | .divisionByZero => "divisionByZero"
  | .overflow => "overflow"
  | .typeMismatch => "typeMismatch"

def showRes {α : Type} (f : α → String) : Res α → String
  | .ok a => "(ok " ++ f a ++ ")"
  | .err e => "(err " ++ showErr e ++ ")"
  | .inexact => "inexact"

def showOrd : Ordering → String
  | .lt => "lt" | .eq => "eq" | .gt => "gt"

/-- The `Variant`-level operation behind an operator (relational operators have none). -/
def variantOp : Op → Option (Val → Val → Res Val)
  | .plus => some plus
  | .minus => some minus
  | .multiply => some multiply
  | .divide => some divide
  | .modulo => some modulo
  | .and => some Num.and
  | .or => some Num.or
  | _ => none

def handle (cmd : String) (args : List Sexp) : Option String :=
  match cmd, args with
  | "num.op", [o, a, b] => do
      let o ← op? o; let a ← val? a; let b ← val? b
      let f ← variantOp o
      pure (showRes showVal (f a b))
  | "num.vm", [o, a, b] => do
      let o ← op? o; let a ← val? a; let b ← val? b
      pure (showRes showVal (vmBin Gen.NumTables.binType o a b))
  | "num.cmp", [a, b] => do
      let a ← val? a; let b ← val? b
      pure (showRes showOrd (tryCmp a b))
  | "num.neg", [a] => do
      let a ← val? a
      pure (showRes showVal (negate a))
  | "num.not", [a] => do
      let a ← val? a
      pure (showRes showVal (unaryNot a))
  | "num.cast", [a, t] => do
      let a ← val? a; let t ← ty? t
      pure (showRes showVal (Num.cast a t))
  | "num.store", [s, t, a] => do
      let s ← ty? s; let t ← ty? t; let a ← val? a
      pure (showRes showVal (storeCast s t a))
  | "num.inrange", [a] => do
      let a ← val? a
      pure (toString (Sexp.ofBool (decide a.InRange)))
  | "num.static", [o, a, b] => do
      let o ← op? o; let a ← ty? a; let b ← ty? b
      pure (match Gen.NumTables.binType o a b with
        | some t => showTy t
        | none => "none")
  | _, _ => none

end RbModel.Drv.Num
