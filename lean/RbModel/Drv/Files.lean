import RbModel.Sexp
import RbModel.Files
/-!
Line-protocol handlers for `RbModel.Files` (requests `files.*`).

`(files.run (fs ENTRY*) (stdin BYTE*) (ops OP*) [stop])`
  ENTRY = `(k d)` (directory) | `(k (BYTE*))` (file);  names: `(p k)` plain, `(o k)` below a missing directory
  OP    = `(open h NAME i|o|a|r reclen)` `(print h ((BYTE*)*) t|f)` `(input h v)` `(line h v)` `(eof h)`
          `(close (h*))` `(kill NAME)` `(name NAME NAME)` `(field h ((w v)*))` `(lset v (BYTE*))` `(put h n)`
          `(get h n)` `(show v)` `(cinput v)` `(cline v)`
answers `OUT;OUT;...|k=d;k=BYTES;...` with OUT = `ok` | `e<code>` | `v<bytes>` | `f0` | `f1`, the listing sorted
by name.  Bytes must be ASCII (< 128), except in the value of an LSET, which may hold any byte (< 256): a record of a
RANDOM file is a sequence of bytes, and LSET / PUT / GET / show never look inside a value (the generators keep values
with bytes of the upper half away from files that a text reader opens: the UTF-8 validation of the text readers is
not modelled); an LSET whose variable is fielded on two open handles is refused (the real code's choice depends on
hash-map order).

`(files.scan field|line|eof (BYTE*))` answers `OUT|rest bytes|looked` for the pure scanners.
-/
namespace RbModel.Drv.Files
open RbModel RbModel.Files

def bytes? (s : Sexp) : Option (List Nat) := do
  let l ← s.nats?
  if l.all (· < 128) then some l else none

/-- the value of an LSET: any byte -/
def recBytes? (s : Sexp) : Option (List Nat) := do
  let l ← s.nats?
  if l.all (· < 256) then some l else none

def name? : Sexp → Option Name
  | .list [.atom "p", k] => do pure (.plain (← k.nat?))
  | .list [.atom "o", k] => do pure (.orphan (← k.nat?))
  | _ => none

def mode? : Sexp → Option Mode
  | .atom "i" => some .input
  | .atom "o" => some .output
  | .atom "a" => some .append
  | .atom "r" => some .random
  | _ => none

def pair? : Sexp → Option (Nat × Nat)
  | .list [a, b] => do pure ((← a.nat?), (← b.nat?))
  | _ => none

def op? : Sexp → Option Op
  | .list [.atom "open", h, n, m, l] => do pure (.open (← h.nat?) (← name? n) (← mode? m) (← l.nat?))
  | .list [.atom "print", h, .list items, nl] => do pure (.print (← h.nat?) (← items.mapM bytes?) (← nl.bool?))
  | .list [.atom "input", h, v] => do pure (.input (← h.nat?) (← v.nat?))
  | .list [.atom "line", h, v] => do pure (.lineInput (← h.nat?) (← v.nat?))
  | .list [.atom "eof", h] => do pure (.eof (← h.nat?))
  | .list [.atom "close", hs] => do pure (.close (← hs.nats?))
  | .list [.atom "kill", n] => do pure (.kill (← name? n))
  | .list [.atom "name", o, n] => do pure (.name (← name? o) (← name? n))
  | .list [.atom "field", h, .list fs] => do pure (.field (← h.nat?) (← fs.mapM pair?))
  | .list [.atom "lset", v, b] => do pure (.lset (← v.nat?) (← recBytes? b))
  | .list [.atom "put", h, n] => do pure (.put (← h.nat?) (← n.nat?))
  | .list [.atom "get", h, n] => do pure (.get (← h.nat?) (← n.nat?))
  | .list [.atom "show", v] => do pure (.show (← v.nat?))
  | .list [.atom "cinput", v] => do pure (.conInput (← v.nat?))
  | .list [.atom "cline", v] => do pure (.conLineInput (← v.nat?))
  | _ => none

/-- Builds the initial store: entry `i` of the request gets inode `i` if it is a file. -/
def initFs : List Sexp → Fs → Option Fs
  | [], fs => some fs
  | .list [k, .atom "d"] :: rest, fs => do
      let k ← k.nat?
      initFs rest { fs with dir := alSet fs.dir k .dir }
  | .list [k, b] :: rest, fs => do
      let k ← k.nat?
      let b ← bytes? b
      initFs rest { inodes := fs.inodes ++ [b], dir := alSet fs.dir k (.file fs.inodes.length) }
  | _, _ => none

def showBytes (b : List Nat) : String := " ".intercalate (b.map toString)

def showOut : Out → String
  | .ok => "ok"
  | .err e => "e" ++ toString e.code
  | .val b => "v" ++ showBytes b
  | .flag b => if b then "f1" else "f0"

def insertSorted (p : Nat × String) : List (Nat × String) → List (Nat × String)
  | [] => [p]
  | q :: rest => if p.1 ≤ q.1 then p :: q :: rest else q :: insertSorted p rest

def showListing (fs : Fs) : String :=
  let entries := fs.listing.map fun p => (p.1, match p.2 with | none => "d" | some b => showBytes b)
  let sorted := entries.foldr insertSorted []
  ";".intercalate (sorted.map fun p => toString p.1 ++ "=" ++ p.2)

/-- Runs the history step by step; refuses it at an ambiguous LSET.  With `stop` the run ends at the first
error (a program without an error handler). -/
def runChecked (stop : Bool) (s : State) : List Op → List Out → Option (State × List Out)
  | [], acc => some (s, acc.reverse)
  | op :: ops, acc =>
    let amb := match op with
      | .lset v _ => lsetAmbiguous s v
      | _ => false
    if amb then none
    else
      let r := step s op
      let failed := match r.2 with
        | .err _ => true
        | _ => false
      if stop && failed then some (r.1, (r.2 :: acc).reverse)
      else runChecked stop r.1 ops (r.2 :: acc)

def showScan (x : Scan) (eofForm : Bool) : String :=
  let o := match x.val with
    | .ok b => if eofForm then (if b.isEmpty then "f0" else "f1") else "v" ++ showBytes b
    | .error e => "e" ++ toString (Err.ofIo e).code
  o ++ "|" ++ showBytes x.rest ++ "|" ++ toString x.looked

def handle (cmd : String) (args : List Sexp) : Option String :=
  match cmd, args with
  | "files.run", .list (.atom "fs" :: entries) :: .list (.atom "stdin" :: inp) :: .list (.atom "ops" :: ops) :: more => do
      let stop ← match more with
        | [] => some false
        | [.atom "stop"] => some true
        | _ => none
      let fs ← initFs entries { inodes := [], dir := [] }
      let inp ← bytes? (.list inp)
      let ops ← ops.mapM op?
      let r ← runChecked stop { fs := fs, handles := [], vars := [], stdin := inp } ops []
      pure (";".intercalate (r.2.map showOut) ++ "|" ++ showListing r.1.fs)
  | "files.scan", [.atom which, b] => do
      let b ← bytes? b
      match which with
      | "field" => pure (showScan (scanField b) false)
      | "line" => pure (showScan (scanLine b) false)
      | "eof" => pure (showScan (scanEof b) true)
      | _ => none
  | _, _ => none

end RbModel.Drv.Files
