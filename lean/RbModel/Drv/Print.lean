import RbModel.Sexp
import RbModel.Print
/-! Line-protocol handlers for `RbModel.Print` (requests `print.*`).

`(print.run (h1 h2 ...) (stmt ...))`
  * `(h1 h2 ...)`  file handles open for output, in the order the answer lists them;
  * `stmt  = (dev fmt (arg ...))`, `dev = s | l | (f h)`, `fmt = n | (u cp ...)` (format string as code points);
  * `arg   = c | s | (i n) | (l n) | (f neg mant scale) | (d neg mant scale) | (t cp ...)`.
Answer: `(status (instr-tags) (col cp ...) (col cp ...) (col cp ...)...)`: the lowering, then screen, LPT1 and the files:
column counter and everything written (code points), as they are when the program stops.

`(print.runt (h ...) (tstmt ...))`: a history under an error trap; `tstmt = stmt | (ab k stmt)`, the latter a statement
abandoned in front of its item number `k` (`Print.lowerAbandoned`); same answer.

`(print.runf (h ...) ((stmt ...) ...) (stmt ...))`: the same with function bodies (lists of statements); an item
`(k f n)` calls function `f` (0-based) with argument `n` (value `n + 1`): PushRet, the body, PopRet, then the item. -/
namespace RbModel.Drv.Print
open RbModel RbModel.Print

def chars? (l : List Sexp) : Option (List Char) :=
  l.mapM fun x => do
    let n ← x.nat?
    if n < 0x110000 then pure (Char.ofNat n) else none

def dec? (a b c : Sexp) : Option Dec := do
  let neg ← a.bool?
  let mant ← b.nat?
  let scale ← c.nat?
  pure ⟨neg, mant, scale⟩

def arg? : Sexp → Option Arg
  | .atom "c" => some .comma
  | .atom "s" => some .semicolon
  | .list [.atom "i", n] => do let n ← n.int?; pure (.expr (.int n))
  | .list [.atom "l", n] => do let n ← n.int?; pure (.expr (.long n))
  | .list [.atom "f", a, b, c] => do let d ← dec? a b c; pure (.expr (.single d))
  | .list [.atom "d", a, b, c] => do let d ← dec? a b c; pure (.expr (.double d))
  | .list (.atom "t" :: cps) => do let s ← chars? cps; pure (.expr (.str s))
  | _ => none

def dev? : Sexp → Option Device
  | .atom "s" => some .screen
  | .atom "l" => some .lpt1
  | .list [.atom "f", h] => do let h ← h.nat?; pure (.file h)
  | _ => none

def fmt? : Sexp → Option (Option Value)
  | .atom "n" => some none
  | .list (.atom "u" :: cps) => do let s ← chars? cps; pure (some (.str s))
  | _ => none

def stmt? : Sexp → Option Stmt
  | .list [d, f, .list args] => do
    let d ← dev? d
    let f ← fmt? f
    let args ← args.mapM arg?
    pure { target := d, format := f, args := args }
  | _ => none

def instrTag : Instr → String
  | .setPrinterType .print => "Tp"
  | .setPrinterType .lprint => "Tl"
  | .setPrinterType .file => "Tf"
  | .setFileHandle h => "H" ++ toString h
  | .setFormatStringFromA _ => "F"
  | .comma => "C"
  | .semicolon => "S"
  | .valueFromA _ => "V"
  | .printEnd => "E"

def errName : Option Err → String
  | none => "ok"
  | some .illegalFunctionCall => "illegal-function-call"
  | some .typeMismatch => "type-mismatch"
  | some .other => "other"
  | some .fileNotOpen => "file-not-open"

def sink (p : Option WritePrinter) : Sexp :=
  match p with
  | none => .atom "closed"
  | some p => .list (.atom (toString p.lastColumn) :: p.out.map fun c => .atom (toString c.toNat))

/-- `(k f n)`: the item calls function number `f` with argument `n`; the function returns `n + 1`. -/
def xarg? : Sexp → Option XArg
  | .list [.atom "k", f, n] => do
    let f ← f.nat?
    let n ← n.int?
    pure (.call f (.int (n + 1)))
  | x => do
    match ← arg? x with
    | .expr v => pure (.expr v)
    | .comma => pure .comma
    | .semicolon => pure .semicolon

def xstmt? : Sexp → Option XStmt
  | .list [d, f, .list args] => do
    let d ← dev? d
    let f ← fmt? f
    let args ← args.mapM xarg?
    pure { target := d, format := f, args := args }
  | _ => none

def sinstrTag : SInstr → String
  | .base i => instrTag i
  | .pushRet => "Push"
  | .popRet => "Pop"

/-- `(ab k stmt)`: the statement is abandoned in front of item `k`; anything else is a whole statement. -/
def tstmt? : Sexp → Option TStmt
  | .list [.atom "ab", k, s] => do
    let k ← k.nat?
    let s ← stmt? s
    pure (.abandoned s k)
  | x => do
    let s ← stmt? x
    pure (.whole s)

def handle (cmd : String) (args : List Sexp) : Option String :=
  match cmd, args with
  | "print.runt", [.list hs, .list stmts] => do
      -- a history under an error trap, laid out by the harness: whole statements and `(ab k stmt)`
      let hs ← hs.mapM Sexp.nat?
      let stmts ← stmts.mapM tstmt?
      let code := lowerProgramT stmts
      let (st, err) := runKeep (St.init hs) code
      let sinks := sink (st.dev .screen) :: sink (st.dev .lpt1) :: hs.map (fun h => sink (st.dev (.file h)))
      pure (toString (Sexp.list (.atom (errName err) :: .list (code.map fun i => .atom (instrTag i)) :: sinks)))
  | "print.run", [.list hs, .list stmts] => do
      let hs ← hs.mapM Sexp.nat?
      let stmts ← stmts.mapM stmt?
      let code := lowerProgram stmts
      let (st, err) := runKeep (St.init hs) code
      let sinks := sink (st.dev .screen) :: sink (st.dev .lpt1) :: hs.map (fun h => sink (st.dev (.file h)))
      pure (toString (Sexp.list (.atom (errName err) :: .list (code.map fun i => .atom (instrTag i)) :: sinks)))
  | "print.runf", [.list hs, .list funcs, .list stmts] => do
      -- `(print.runf (handles) ((stmt ...) (stmt ...) ...) (stmt ...))`: function bodies, then the main program
      let hs ← hs.mapM Sexp.nat?
      let funcs ← funcs.mapM (fun f => match f with
        | .list body => body.mapM xstmt?
        | _ => none)
      let stmts ← stmts.mapM xstmt?
      let code ← lowerProgramX funcs (funcs.length + 1) stmts
      let (st, err) := runS (St.init hs) [] code
      let sinks := sink (st.dev .screen) :: sink (st.dev .lpt1) :: hs.map (fun h => sink (st.dev (.file h)))
      pure (toString (Sexp.list (.atom (errName err) :: .list (code.map fun i => .atom (sinstrTag i)) :: sinks)))
  | _, _ => none

end RbModel.Drv.Print
