import RbModel.Sexp
import RbModel.Pc
/-! Line-protocol handlers for `RbModel.Pc` (requests `pc.*`).

* `(pc.run <expr> (<sym> …) <start>)`            → one result
* `(pc.runall <expr> <alphabet> <maxlen> <start>)` → `(r …)`: the results on every input over `0..alphabet-1`
  of length `0..maxlen` (by length, then lexicographically), each run from position `start`
* `(pc.token <kind> (<sym> …))` → `panic` (`Token::new` on the empty text) or
  `(tok <kind> (str …) <try> <demand>)`: `try_as_single_char` (`none` / symbol), `demand_single_char` (`panic` / symbol)

Results: `(ok <val> <pos>)`, `(soft <code> <pos>)`, `(fatal <code> <pos>)`, `hang`.
Values: `u`, `(s n)`, `(p a b)`, `n`, `(c h t)`, `none`, `(some v)`, `(str c …)`, `(tok k c …)`, `(num n)`.
Two library functions are compositions of modelled ones and are expanded here: `(oneStr k)` = `one_char_to_str`,
`(manyStrWith mc k)` = `many_str_with_combiner`. -/
namespace RbModel.Drv.Pc
open RbModel RbModel.Pc

def cmb? : Sexp → Option Cmb
  | .atom "tuple" => some .tuple
  | .atom "left" => some .left
  | .atom "right" => some .right
  | .atom "ignore" => some .ignore
  | .atom "swap" => some .swap
  | .atom "vec2" => some .vec2
  | .atom "vecCat" => some .vecCat
  | .atom "strCat" => some .strCat
  | .atom "optStrCat" => some .optStrCat
  | .atom "chars" => some .chars
  | .atom "charOpt" => some .charOpt
  | .atom "charVec" => some .charVec
  | _ => none

def mcmb? : Sexp → Option MCmb
  | .atom "vec" => some .vec
  | .atom "str" => some .str
  | .atom "tokStr" => some .tokStr
  | .atom "ignore" => some .ignore
  | _ => none

def pred? : Sexp → Option Pred
  | .list [.atom "eq", k] => do pure (.eqSym (← k.nat?))
  | .list [.atom "ne", k] => do pure (.neSym (← k.nat?))
  | .list [.atom "in", ks] => do pure (.inSyms (← ks.nats?))
  | _ => none

def mapFn? : Sexp → Option MapFn
  | .atom "unit" => some .toUnit
  | .atom "wrap" => some .wrap
  | .atom "dup" => some .dup
  | .atom "charStr" => some .charStr
  | .list [.atom "mkTok", k] => do pure (.mkTok (← k.nat?))
  | .atom "tokKind" => some .tokKind
  | .atom "tokText" => some .tokText
  | .atom "tokChar" => some .tokChar
  | .atom "tokShow" => some .tokShow
  | _ => none

def errFn? : Sexp → Option ErrFn
  | .atom "recover" => some .recover
  | .list [.atom "recoverIf", k] => do pure (.recoverIf (← k.nat?))
  | .list [.atom "replace", c, f] => do pure (.replace (← c.nat?) (← f.bool?))
  | _ => none

partial def expr? : Sexp → Option PExpr
  | .atom "any" => some .any
  | .atom "peekAny" => some .peekAny
  | .atom "eatSoft" => some .eatSoft
  | .atom "pure" => some .pure
  | .list [.atom "one", k] => do pure (.one (← k.nat?))
  | .list [.atom "oneOf", ks] => do pure (.oneOf (← ks.nats?))
  | .list [.atom "failSoft", c] => do pure (.failSoft (← c.nat?))
  | .list [.atom "failFatal", c] => do pure (.failFatal (← c.nat?))
  | .list [.atom "manyStr", k] => do pure (.manyStr (← k.nat?))
  | .list [.atom "and", c, l, r] => do pure (.and (← cmb? c) (← expr? l) (← expr? r))
  | .list [.atom "or2", a, b] => do pure (.or2 (← expr? a) (← expr? b))
  | .list [.atom "or3", a, b, c] => do pure (.or3 (← expr? a) (← expr? b) (← expr? c))
  | .list [.atom "orNoBox", a, b] => do pure (.orNoBox (← expr? a) (← expr? b))
  | .list [.atom "many", an, e] => do pure (.many (← an.bool?) (← expr? e))
  | .list [.atom "manyC", mc, an, e] => do pure (.manyC (← mcmb? mc) (← an.bool?) (← expr? e))
  | .list [.atom "oneStr", k] => do pure (oneStrE (← k.nat?))
  | .list [.atom "manyStrWith", mc, k] => do pure (manyStrWithE (← mcmb? mc) (← k.nat?))
  | .list [.atom "manyCtx", an, e] => do pure (.manyCtx (← an.bool?) (← expr? e))
  | .list [.atom "filter", pr, e] => do pure (.filter (← pred? pr) (← expr? e))
  | .list [.atom "filterMap", k, e] => do pure (.filterMap (.dupIf (← k.nat?)) (← expr? e))
  | .list [.atom "peek", e] => do pure (.peek (← expr? e))
  | .list [.atom "toOption", e] => do pure (.toOption (← expr? e))
  | .list [.atom "orDefault", e] => do pure (.orDefault (← expr? e))
  | .list [.atom "surround", md, l, m, r] => do
      pure (.surround (← md.bool?) (← expr? l) (← expr? m) (← expr? r))
  | .list [.atom "delimited", am, te, e, d] => do
      pure (.delimited (← am.bool?) (← te.nat?) (← expr? e) (← expr? d))
  | .list [.atom "seq2", a, b] => do pure (.seq2 (← expr? a) (← expr? b))
  | .list [.atom "seq3", a, b, c] => do pure (.seq3 (← expr? a) (← expr? b) (← expr? c))
  | .list [.atom "seq4", a, b, c, d] => do pure (.seq4 (← expr? a) (← expr? b) (← expr? c) (← expr? d))
  | .list [.atom "seq5", a, b, c, d, e] => do
      pure (.seq5 (← expr? a) (← expr? b) (← expr? c) (← expr? d) (← expr? e))
  | .list [.atom "seq6", a, b, c, d, e, f] => do
      pure (.seq6 (← expr? a) (← expr? b) (← expr? c) (← expr? d) (← expr? e) (← expr? f))
  | .list [.atom "thenWith", c, l, r] => do pure (.thenWith (← cmb? c) (← expr? l) (← expr? r))
  | .list [.atom "andThen", keep, code, ft, e] => do
      pure (.andThen ⟨← keep.nat?, ← code.nat?, ← ft.bool?⟩ (← expr? e))
  | .list [.atom "andThenErr", m, e] => do pure (.andThenErr (← errFn? m) (← expr? e))
  | .list [.atom "map", f, e] => do pure (.map (← mapFn? f) (← expr? e))
  | .list [.atom "toFatal", e] => do pure (.toFatal (← expr? e))
  | .list [.atom "withSoftErr", c, ft, e] => do pure (.withSoftErr (← c.nat?) (← ft.bool?) (← expr? e))
  | .list [.atom "mapFatalErr", c, e] => do pure (.mapFatalErr (← c.nat?) (← expr? e))
  | .list [.atom "flatten", p, q] => do pure (.flatten (← expr? p) (← expr? q))
  | .list [.atom "lazy", e] => do pure (.lazy (← expr? e))
  | .list [.atom "iif", b, l, r] => do pure (.iif (← b.bool?) (← expr? l) (← expr? r))
  | _ => none

def natsStr (l : List Nat) : String := String.join (l.map (fun c => " " ++ toString c))

def valStr : Val → String
  | .str cs => "(str" ++ natsStr cs ++ ")"
  | .tok k t => "(tok " ++ toString k ++ natsStr t ++ ")"
  | .num n => "(num " ++ toString n ++ ")"
  | .unit => "u"
  | .sym n => "(s " ++ toString n ++ ")"
  | .pair a b => "(p " ++ valStr a ++ " " ++ valStr b ++ ")"
  | .nil => "n"
  | .cons h t => "(c " ++ valStr h ++ " " ++ valStr t ++ ")"
  | .none => "none"
  | .some v => "(some " ++ valStr v ++ ")"

def resStr : Res → String
  | .ok v q => "(ok " ++ valStr v ++ " " ++ toString q ++ ")"
  | .soft e q => "(soft " ++ toString e ++ " " ++ toString q ++ ")"
  | .fatal e q => "(fatal " ++ toString e ++ " " ++ toString q ++ ")"
  | .hang => "hang"

/-- all words of length `n` over `0..k-1`, lexicographically -/
def words (k : Nat) : Nat → List (List Nat)
  | 0 => [[]]
  | n + 1 => (List.range k).flatMap (fun c => (words k n).map (c :: ·))

def allInputs (k maxlen : Nat) : List (List Nat) :=
  (List.range (maxlen + 1)).flatMap (words k)

def handle (cmd : String) (args : List Sexp) : Option String :=
  match cmd, args with
  | "pc.run", [e, inp, start] => do
      let e ← expr? e
      let inp ← inp.nats?
      let start ← start.nat?
      pure (resStr (run e inp start))
  | "pc.runall", [e, k, maxlen, start] => do
      let e ← expr? e
      let k ← k.nat?
      let maxlen ← maxlen.nat?
      let start ← start.nat?
      pure ("(" ++ " ".intercalate ((allInputs k maxlen).map (fun inp => resStr (run e inp start))) ++ ")")
  | "pc.token", [k, t] => do
      let k ← k.nat?
      let t ← t.nats?
      match Token.new? k t with
      | none => pure "panic"
      | some tok =>
        let tr := match tok.trySingleChar with | some c => toString c | none => "none"
        let dm := match tok.demandSingleChar? with | some c => toString c | none => "panic"
        pure ("(tok " ++ toString tok.kind ++ " (str" ++ natsStr tok.toText ++ ") " ++ tr ++ " " ++ dm ++ ")")
  | _, _ => none

end RbModel.Drv.Pc
