import RbModel.Sexp
import RbModel.Lex
/-! Line-protocol handlers for `RbModel.Lex` (requests `lex.*`). Strings travel as lists of
byte values / code points. -/
namespace RbModel.Drv.Lex
open RbModel RbModel.Lex

def kindName : Kind → String
  | .eol => "eol" | .ws => "ws" | .digits => "digits" | .ge => "ge" | .gt => "gt" | .le => "le" | .lt => "lt"
  | .eq => "eq" | .ne => "ne" | .keyword => "keyword" | .ident => "ident" | .oct => "oct" | .hex => "hex"
  | .symbol => "symbol"

def ordName : Ordering → String
  | .lt => "lt" | .eq => "eq" | .gt => "gt"

def tokSexp (t : Tok) : Sexp := Sexp.list [Sexp.atom (kindName t.kind), Sexp.atom (toString t.text.length)]

def ntokSexp : NTok → Sexp
  | .word k t => Sexp.list [Sexp.atom "w", Sexp.atom (kindName k), Sexp.ofNats t]
  | .raw k t => Sexp.list [Sexp.atom "r", Sexp.atom (kindName k), Sexp.ofNats t]
  | .blank => Sexp.atom "b"
  | .eol => Sexp.atom "e"

def optNat : Option Nat → String
  | some n => toString n
  | none => "none"

def handle (cmd : String) (args : List Sexp) : Option String :=
  match cmd, args with
  | "lex.cmp", [a, b] => do
      let a ← a.nats?; let b ← b.nats?
      pure (ordName (cmpStr a b))
  | "lex.hash", [a] => do
      let a ← a.nats?
      pure (toString (Sexp.ofNats (hashStr a)))
  | "lex.kw", [a] => do
      let a ← a.nats?
      pure (optNat (kwLookup a))
  | "lex.tokens", [a] => do
      let a ← a.nats?
      pure (toString (Sexp.list ((lex a).map tokSexp)))
  | "lex.norm", [a] => do
      let a ← a.nats?
      pure (toString (Sexp.list ((norm (lex a)).map ntokSexp)))
  | "lex.sep", [a, b] => do
      -- does `common_separator` applied to the tokens of `a ++ b` leave exactly the tokens of `b`?
      let a ← a.nats?; let b ← b.nats?
      pure (match commonSeparator (lex (a ++ b)) with
        | some rest => if rest == lex b then "all" else "part"
        | none => "none")
  | "lex.longnames", [a] => do
      -- the lengths of the identifier tokens that are too long to be names
      let a ← a.nats?
      pure (toString (Sexp.ofNats (((lex a).filter (fun t => t.kind == .ident && nameTooLong t)).map (·.text.length))))
  | "lex.alpha", [c] => do
      let c ← c.nat?
      pure (optNat (charToAlphabetIndex c))
  | _, _ => none

end RbModel.Drv.Lex
