import RbModel.Sexp
import RbModel.AoR.Syntax
import RbModel.AoR.Ref
import RbModel.AoR.Compile
import RbModel.AoR.Vm
import RbModel.AoR.WfB
/-! Line-protocol handlers for the models of the layer "arrays of records / fixed-length strings" (requests `aor.*`):
`aor.compare` (model generator = normalised real instruction list), `aor.run` (VM model on the model-compiled code),
`aor.ref` (reference semantics), `aor.wf` (the executable premise checker `RbModel.AoR.progWfB`), all on the program
serialised by `harness/src/aor_sx.rs`. -/
namespace RbModel.Drv.AoR
open RbModel RbModel.AoR RbModel.AoR.Compile
open RbModel.Ast (Pos ty?)

/-- `((<name> <ty | none>) …)` -/
private def varTable? : Sexp → Option (List (String × Option Num.Ty))
  | .list l => l.mapM fun e => match e with
      | .list [n, .atom "none"] => do pure ((← Instr.str? n).map Char.toUpper, none)
      | .list [n, t] => do pure ((← Instr.str? n).map Char.toUpper, some (← ty? t))
      | _ => none
  | _ => none

/-- `(<type name> …)` -/
private def typeTable? : Sexp → Option (List String)
  | .list l => l.mapM fun e => (Instr.str? e).map fun n => n.map Char.toUpper
  | _ => none

private def showC : CInstr × Pos → String
  | (c, p) =>
    let k := match c with
      | .loadA _ => "loadA" | .copyAToB => "copyAToB" | .copyAToC => "copyAToC" | .copyAToD => "copyAToD"
      | .copyCToB => "copyCToB" | .copyDToA => "copyDToA" | .copyDToB => "copyDToB"
      | .bin _ => "bin" | .negateA => "negateA" | .notA => "notA" | .cast _ => "cast" | .fixLength n => s!"fixLength{n}"
      | .pushA => "pushA" | .popA => "popA" | .varPath x => s!"varPath{x}" | .arrPath a => s!"arrPath{a}"
      | .pathIndex => "pathIndex" | .allocArr _ => "allocArr" | .builtInBound u => s!"builtInBound{u}"
      | .stashBound u => s!"stashBound{u}" | .unStash => "unStash" | .prop f => "prop:" ++ f.replace " " "_"
      | .copyVarPathToA => "copyVarPathToA"
      | .popVarPath => "popVarPath" | .copyAToVarPath => "copyAToVarPath" | .label n => "label:" ++ n.replace " " "_"
      | .jump a => s!"jump{a}" | .jumpIfFalse a => s!"jumpIfFalse{a}" | .pushRegs => "pushRegs" | .popRegs => "popRegs"
      | .throwZeroStep => "throwZeroStep" | .halt => "halt" | .allocate _ => "allocate"
      | .allocFix n => s!"allocFix{n}" | .allocUdt k => s!"allocUdt{k}"
      | .printSetPrinter => "printSetPrinter" | .printSetFormat => "printSetFormat" | .printComma => "printComma"
      | .printSemicolon => "printSemicolon" | .printValue => "printValue" | .printEnd => "printEnd"
      | .beginArgs => "beginArgs" | .pushByVal => "pushByVal" | .pushByRef => "pushByRef" | .pushStack => "pushStack"
      | .popStack => "popStack" | .builtInData => "builtInData" | .builtInRead => "builtInRead"
      | .enqueue i => s!"enqueue{i}" | .dequeue => "dequeue"
    s!"{k}@{p.row}:{p.col}"

/-- stdout as the real run writes it: the UTF-8 bytes of the printed characters -/
private def outBytes (cs : List Char) : Sexp :=
  Sexp.ofNats ((String.ofList cs).toUTF8.toList.map (·.toNat))

private def outcomeStr : RbModel.AoR.Ref.Outcome → String
  | .normal => "normal"
  | .halted => "halted"
  | .error c p => s!"(error {c} {p.row} {p.col})"
  | .inexact => "inexact"
  | .outOfFuel => "outOfFuel"
  | .illFormed => "illFormed"
  | .tooBig => "tooBig"

def handle (cmd : String) (args : List Sexp) : Option String :=
  match cmd, args with
  | "aor.compare", [prog, .list [varT, arrT, typeT], code] => do
      let prog ← sprogram? prog
      let varT ← varTable? varT
      let arrT ← varTable? arrT
      let typeT ← typeTable? typeT
      let real ← codeOfSexp code
      if !prog.wf then pure "(ill-formed)"
      else
        match normalise varT arrT typeT real with
        | none => pure "(not-core)"
        | some rc =>
          let mc := compile prog
          match firstDiff mc rc 0 with
          | none => pure s!"(same {mc.length})"
          | some i =>
            let m := (mc[i]?).map showC |>.getD "-"
            let r := (rc[i]?).map showC |>.getD "-"
            pure s!"(differ {i} {m} {r} {mc.length} {rc.length})"
  | "aor.run", [fuel, prog] => do
      let fuel ← fuel.nat?
      let prog ← sprogram? prog
      let code := compile prog
      let outS := fun (σ : RbModel.AoR.Vm.Vm) => toString (outBytes σ.out.out)
      match RbModel.AoR.Vm.run code fuel (RbModel.AoR.Vm.Vm.init prog.types prog.slots prog.arrs) with
      | .halted σ => pure s!"(normal {outS σ} ())"
      | .error c p σ => pure s!"((error {c} {p.row} {p.col}) {outS σ} ())"
      | .stuck => pure "(stuck () ())"
      | .outOfFuel => pure "(outOfFuel () ())"
  | "aor.ref", [fuel, prog] => do
      let fuel ← fuel.nat?
      let prog ← sprogram? prog
      let (st, o) := RbModel.AoR.Ref.run fuel prog.toAst
      let out := outBytes st.out.out
      pure s!"({outcomeStr o} {out} ())"
  | "aor.wf", [prog] => do
      let prog ← sprogram? prog
      pure (if progWfB prog then "(wf true)" else "(wf false)")
  | _, _ => none

end RbModel.Drv.AoR
