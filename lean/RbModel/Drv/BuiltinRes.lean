import RbModel.Sexp
import RbModel.BuiltinRes
import RbModel.Drv.Num
/-! Line-protocol handlers for `RbModel.BuiltinRes` (requests `bres.*`): what a numeric built-in function
hands to the store.

Strings: `(str (c1 c2 ...))` (code points) or `(rep n c (t1 t2 ...))` = `n` times the character `c` followed
by the characters `t1 t2 ...` (so that a string of 70 000 characters is a short request).
Values as in `num.*`. Answers: `(ok <value>)`, `(err overflow)`, `inexact`. -/
namespace RbModel.Drv.BuiltinRes
open RbModel RbModel.Num RbModel.BuiltinRes

def chars? : Sexp → Option (List Char)
  | .list [.atom "str", cs] => do
      let l ← cs.nats?
      pure (l.map Char.ofNat)
  | .list [.atom "rep", n, c, tail] => do
      let n ← n.nat?; let c ← c.nat?; let t ← tail.nats?
      pure (List.replicate n (Char.ofNat c) ++ t.map Char.ofNat)
  | _ => none

/-- A value; strings also in the `rep` form. -/
def arg? (s : Sexp) : Option Val :=
  match chars? s with
  | some cs => some (.str cs)
  | none => Drv.Num.val? s

def args? : List Sexp → Option (List Val)
  | [] => some []
  | s :: rest => do
      let v ← arg? s
      let r ← args? rest
      pure (v :: r)

def bytes? (l : List Sexp) : Option (List Nat) := do
  let bs ← (Sexp.list l).nats?
  if bs.length = 8 ∧ bs.all (· < 256) then pure bs else none

def show' (c : Call) : String := Drv.Num.showRes Drv.Num.showVal c.run

def handle (cmd : String) (args : List Sexp) : Option String :=
  match cmd, args with
  | "bres.count", [n] => do
      let n ← n.nat?
      pure (Drv.Num.showRes Drv.Num.showVal (countResult n))
  | "bres.len", [a] => do
      let v ← arg? a
      pure (show' (.lenVal v))
  | "bres.lenrec", leaves => do
      let l ← args? leaves
      pure (show' (.lenRecord l))
  | "bres.instr", [start, hay, needle] => do
      let start ← start.nat?; let hay ← chars? hay; let needle ← chars? needle
      if start = 0 then none else pure (show' (.instr start hay needle))
  | "bres.varptr", [n] => do
      let n ← n.nat?
      pure (show' (.varptr n))
  | "bres.varseg", [e, n] => do
      let e ← e.bool?; let n ← n.nat?
      pure (show' (.varseg e n))
  | "bres.lbound", [lo, hi] => do
      let lo ← lo.int?; let hi ← hi.int?
      pure (show' (.lbound lo hi))
  | "bres.ubound", [lo, hi] => do
      let lo ← lo.int?; let hi ← hi.int?
      pure (show' (.ubound lo hi))
  | "bres.eof", [b] => do
      let b ← b.bool?
      pure (show' (.eof b))
  | "bres.err", [k] => do
      let k ← k.nat?
      pure (show' (.err k))
  | "bres.peek", [b] => do
      let b ← b.nat?
      if h : b < 256 then pure (show' (.peek ⟨b, h⟩)) else none
  | "bres.cvd", bytes => do
      let bs ← bytes? bytes
      pure (show' (.cvd (Bits.bytesToF64 bs)))
  | "bres.val", [.atom "nonfinite"] => pure (show' (.val none))
  | "bres.val", [n, d] => do
      let q ← Drv.Num.rat? n d
      pure (show' (.val (some q)))
  | _, _ => none

end RbModel.Drv.BuiltinRes
