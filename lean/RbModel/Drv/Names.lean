import RbModel.Sexp
import RbModel.Names
/-! Line-protocol handlers for `RbModel.Names` (requests `names.*`).

Script encoding (S-expressions; identifiers are byte lists):
* qualifier atoms `% & ! # $`, "no suffix" `-`; literal kinds `i l s d t` (int, long, single, double, string)
* nameref `((bytes) sfx)`; decl `b` | `(c q)` | `(e q)`; param `((bytes) decl)`
* stmt `(dim t|f (bytes) decl)` `(const nameref lit)` `(asg nameref t|f tag)` `(pr nameref)`
  `(call (bytes) (t|f ...))` `(prc nameref (t|f ...))`
* item `(def q ((lo hi) ...))` `(s stmt)` `(sub (bytes) (param ...) (stmt ...))` `(fn nameref (param ...) (stmt ...))`
Anything malformed (including identifiers that do not start with a letter) answers `none` → `(bad-op)`. -/
namespace RbModel.Drv.Names
open RbModel RbModel.Names

def q? : Sexp → Option Q
  | .atom "%" => some .int | .atom "&" => some .lng | .atom "!" => some .sng
  | .atom "#" => some .dbl | .atom "$" => some .str | _ => none

def sfx? : Sexp → Option (Option Q)
  | .atom "-" => some none
  | s => (q? s).map some

def lit? : Sexp → Option Lit
  | .atom "i" => some .int | .atom "l" => some .lng | .atom "s" => some .sng
  | .atom "d" => some .dbl | .atom "t" => some .str | _ => none

def ident? (s : Sexp) : Option Ident := do
  let l ← s.nats?
  if wellFormedName l && l.all (· < 256) then some l else none

def nameRef? : Sexp → Option NameRef
  | .list [n, s] => do
    let n ← ident? n
    let s ← sfx? s
    pure ⟨n, s⟩
  | _ => none

def decl? : Sexp → Option Decl
  | .atom "b" => some .bare
  | .list [.atom "c", q] => (q? q).map .compact
  | .list [.atom "e", q] => (q? q).map .extended
  | _ => none

def bools? : Sexp → Option (List Bool)
  | .list l => l.mapM Sexp.bool?
  | _ => none

def stmt? : Sexp → Option Stmt
  | .list [.atom "dim", sh, n, d] => do
    pure (.dim (← sh.bool?) (← ident? n) (← decl? d))
  | .list [.atom "const", n, l] => do
    pure (.const (← nameRef? n) (← lit? l))
  | .list [.atom "asg", n, b, t] => do
    pure (.assign (← nameRef? n) (← b.bool?) (← t.nat?))
  | .list [.atom "pr", n] => do
    pure (.print (← nameRef? n))
  | .list [.atom "call", n, a] => do
    pure (.callSub (← ident? n) (← bools? a))
  | .list [.atom "prc", n, a] => do
    pure (.printCall (← nameRef? n) (← bools? a))
  | _ => none

def param? : Sexp → Option Param
  | .list [n, d] => do pure ⟨← ident? n, ← decl? d⟩
  | _ => none

def range? : Sexp → Option (Nat × Nat)
  | .list [a, b] => do
    let a ← a.nat?
    let b ← b.nat?
    -- a range the parser rejects ("Invalid letter range") is not a program
    if (charToAlphabetIndex a).isSome && (charToAlphabetIndex b).isSome && rangeAccepted a b then some (a, b) else none
  | _ => none

def item? : Sexp → Option Item
  | .list [.atom "def", q, .list rs] => do
    pure (.defType (← q? q) (← rs.mapM range?))
  | .list [.atom "s", s] => (stmt? s).map .stmt
  | .list [.atom "sub", n, .list ps, .list body] => do
    pure (.sub (← ident? n) (← ps.mapM param?) (← body.mapM stmt?))
  | .list [.atom "fn", n, .list ps, .list body] => do
    pure (.func (← nameRef? n) (← ps.mapM param?) (← body.mapM stmt?))
  | _ => none

def showQ : Q → String
  | .int => "%" | .lng => "&" | .sng => "!" | .dbl => "#" | .str => "$"

def showLit : Lit → String
  | .int => "i" | .lng => "l" | .sng => "s" | .dbl => "d" | .str => "t"

def showErr : LintErr → String
  | .duplicateDefinition => "DuplicateDefinition"
  | .typeMismatch => "TypeMismatch"
  | .illegalInSubFunction => "IllegalInSubFunction"
  | .argumentCountMismatch => "ArgumentCountMismatch"
  | .argumentTypeMismatch => "ArgumentTypeMismatch"
  | .subprogramNotDefined => "SubprogramNotDefined"
  | .overflow => "Overflow"
  | .functionNeedsArguments => "FunctionNeedsArguments"

def showKey (k : Key) : String := String.ofList (k.map Char.ofNat)

def showScope : Scope → String
  | .global => "G"
  | .func k q => "F." ++ showKey k ++ showQ q
  | .sub k => "S." ++ showKey k

def showRes : Res → String
  | .var k q home => "(v " ++ showKey k ++ " " ++ showQ q ++ " " ++ showScope home ++ ")"
  | .constant q l => "(c " ++ showQ q ++ " " ++ showLit l ++ ")"
  | .call k q => "(f " ++ showKey k ++ " " ++ showQ q ++ ")"
  | .undefCall isStr => if isStr then "(us)" else "(u)"

def showVal (v : Val) : String :=
  match v.src with
  | .tag n => "(t " ++ toString n ++ " " ++ showQ v.q ++ ")"
  | .arg j => "(a " ++ toString j ++ " " ++ showQ v.q ++ ")"
  | .lit l => "(l " ++ showLit l ++ " " ++ showQ v.q ++ ")"
  | .default => "(d " ++ showQ v.q ++ ")"

def showOutcome : Outcome → String
  | .rejected e => "(err " ++ showErr e ++ ")"
  | .accepted _ _ false => "(ok-unresolved)"
  | .accepted tr out true =>
    "(ok (" ++ " ".intercalate (tr.map showRes) ++ ") " ++
      (match out with
       | none => "diverges"
       | some vs => "(" ++ " ".intercalate (vs.map showVal) ++ ")") ++ ")"

def handle (cmd : String) (args : List Sexp) : Option String :=
  match cmd, args with
  | "names.run", [.list items] => do
      let s ← items.mapM item?
      pure (showOutcome (runScript s))
  | "names.idx", [b] => do
      let b ← b.nat?
      match charToAlphabetIndex b with
      | some i => pure (toString i)
      | none => pure "panic"
  | "names.rangeok", [a, b] => do
      let a ← a.nat?; let b ← b.nat?
      if (charToAlphabetIndex a).isSome && (charToAlphabetIndex b).isSome then
        pure (toString (Sexp.ofBool (rangeAccepted a b)))
      else none
  | "names.ci", [a, b] => do
      let a ← a.nats?; let b ← b.nats?
      pure (toString (Sexp.ofBool (ciEq a b)))
  | "names.def", [.list stmts] => do
      -- a sequence of DEFtype statements `(q ((lo hi) ...))`; answer: the 26 qualifiers
      let ds ← stmts.mapM (fun s => match s with
        | .list [q, .list rs] => do pure ((← q? q), (← rs.mapM range?))
        | _ => none)
      let t := ds.foldl (fun t d => setDefType t d.1 d.2) DefTable.init
      pure ("(" ++ " ".intercalate (t.map showQ) ++ ")")
  | _, _ => none

end RbModel.Drv.Names
