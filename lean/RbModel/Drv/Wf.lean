import RbModel.Sexp
import RbModel.Wf
/-! Line-protocol handlers for the static well-formedness checker (requests `wf.*`). -/
namespace RbModel.Drv.Wf
open RbModel RbModel.Wf

private def b (x : Bool) : String := if x then "t" else "f"

private def hStr (h : H) : String :=
  s!"({h.value} {h.reg} {h.ctx} {h.path} {h.byref})"

def handle (cmd : String) (args : List Sexp) : Option String :=
  match cmd, args with
  | "wf.check", [code, addrs] => do
      let code ← codeOfSexp code
      let addrs ← addrs.nats?
      let r := analyse code addrs
      let certS := match r.cert with
        | .ok cert => "ok (" ++ " ".intercalate (cert.toList.map fun o => match o with
            | some h => hStr h
            | none => "-") ++ ")"
        | .error (kind, pc) => s!"(fail {kind} {pc}) ()"
      pure s!"(wf {b r.resolved} {b r.unique} {b r.terminators} {b r.local_} {b r.addrs} {b r.certChecked} {certS})"
  | _, _ => none

end RbModel.Drv.Wf
