import RbModel.Sexp
import RbModel.ErrL.Syntax
import RbModel.ErrL.Ref
import RbModel.ErrL.Compile
import RbModel.ErrL.Vm
import RbModel.ErrL.WfB
/-! Line-protocol handlers for the models of the error layer (requests `errl.*`):
`errl.compare` (generator model = normalised real instruction list, statement-address table and label-depth table),
`errl.run` (VM model on the model-compiled code), `errl.ref` (reference semantics), `errl.wf` (the executable premise
checkers `RbModel.ErrL.progWfB` and `wfXB` — the clauses the simulation proof forced —, whose conjunction `progWfXB` is the premise of `Thm.ErrLSim.compile_correct_checked`), all on the program serialised by `harness/src/errl_sx.rs`. -/
namespace RbModel.Drv.ErrL
open RbModel RbModel.ErrL RbModel.ErrL.Compile
open RbModel.Ast (Pos ty?)

private def slotTable? : Sexp → Option (List (String × Num.Ty))
  | .list l => l.mapM fun e => match e with
      | .list [n, t] => do pure ((← Instr.str? n).map Char.toUpper, ← ty? t)
      | _ => none
  | _ => none

private def nats? : Sexp → Option (List Nat)
  | .list l => l.mapM Sexp.nat?
  | _ => none

private def triples? : Sexp → Option (List (Nat × Nat × Nat))
  | .list l => l.mapM fun e => match e with
      | .list [a, b, c] => do pure (← a.nat?, ← b.nat?, ← c.nat?)
      | _ => none
  | _ => none

private def showB : JmpL.Compile.CInstr → String
  | .loadA _ => "loadA" | .copyAToB => "copyAToB" | .copyAToC => "copyAToC" | .copyAToD => "copyAToD"
  | .copyCToB => "copyCToB" | .copyDToA => "copyDToA" | .copyDToB => "copyDToB"
  | .bin _ => "bin" | .negateA => "negateA" | .notA => "notA" | .cast _ => "cast"
  | .pushA => "pushA" | .popA => "popA" | .varPath x => s!"varPath{x}" | .copyVarPathToA => "copyVarPathToA"
  | .popVarPath => "popVarPath" | .copyAToVarPath => "copyAToVarPath" | .label n => "label:" ++ n.replace " " "_"
  | .jump a => s!"jump{a}" | .jumpIfFalse a => s!"jumpIfFalse{a}" | .goSub a => s!"goSub{a}" | .ret => "return"
  | .pushRegs => "pushRegs" | .popRegs => "popRegs"
  | .throwZeroStep => "throwZeroStep" | .halt => "halt" | .allocate _ => "allocate"
  | .printSetPrinter => "printSetPrinter" | .printSetFormat => "printSetFormat" | .printComma => "printComma"
  | .printSemicolon => "printSemicolon" | .printValue => "printValue" | .printEnd => "printEnd"
  | .beginArgs => "beginArgs" | .pushByVal => "pushByVal" | .pushByRef => "pushByRef" | .pushStack => "pushStack"
  | .popStack => "popStack" | .builtInData => "builtInData" | .builtInRead => "builtInRead"
  | .enqueue i => s!"enqueue{i}" | .dequeue => "dequeue"

private def showC : EInstr × Pos → String
  | (c, p) =>
    let k := match c with
      | .base b => showB b
      | .onErrorGoto a => s!"onErrorGoto{a}" | .onErrorResumeNext => "onErrorResumeNext" | .onErrorGoto0 => "onErrorGoto0"
      | .resume => "resume" | .resumeNext => "resumeNext" | .resumeLabel a => s!"resumeLabel{a}"
    s!"{k}@{p.row}:{p.col}"

private def outcomeStr : RbModel.ErrL.Ref.Outcome → String
  | .normal => "normal"
  | .halted => "halted"
  | .error c p => s!"(error {c} {p.row} {p.col})"
  | .inexact => "inexact"
  | .outOfFuel => "outOfFuel"
  | .unspec => "unspec"
  | _ => "illFormed"

private def firstDiffNat : List Nat → List Nat → Nat → Option Nat
  | [], [], _ => none
  | a :: as, b :: bs, i => if a = b then firstDiffNat as bs (i + 1) else some i
  | _, _, i => some i

def handle (cmd : String) (args : List Sexp) : Option String :=
  match cmd, args with
  | "errl.compare", [prog, table, code, addrs, depths] => do
      let prog ← sprogram? prog
      let table ← slotTable? table
      let real ← codeOfSexp code
      let addrs ← nats? addrs
      let depths ← triples? depths
      match normalise table real with
      | none => pure "(not-core)"
      | some rc =>
        let mc := compile prog
        match firstDiff mc rc 0 with
        | some i =>
          let m := (mc[i]?).map showC |>.getD "-"
          let r := (rc[i]?).map showC |>.getD "-"
          pure s!"(differ {i} {m} {r} {mc.length} {rc.length})"
        | none =>
          let mm := marks prog
          match firstDiffNat mm addrs 0 with
          | some i =>
            let m := (mm[i]?).map toString |>.getD "-"
            let r := (addrs[i]?).map toString |>.getD "-"
            pure s!"(marks-differ {i} {m} {r} {mm.length} {addrs.length})"
          | none =>
            let md := labelDepths prog
            if md = depths then pure s!"(same {mc.length} {mm.length} {md.length})"
            else pure s!"(depths-differ {md.length} {depths.length})"
  | "errl.run", [fuel, prog] => do
      let fuel ← fuel.nat?
      let prog ← sprogram? prog
      let P := RbModel.ErrL.Vm.Prog.ofProgram prog
      let outS := fun (σ : RbModel.ErrL.Vm.EVm) => toString (Sexp.ofNats (σ.b.out.out.map Char.toNat))
      match RbModel.ErrL.Vm.run P fuel (RbModel.ErrL.Vm.EVm.init prog.slots) with
      | .halted σ => pure s!"(normal {outS σ} ())"
      | .error c p σ => pure s!"((error {c} {p.row} {p.col}) {outS σ} ())"
      | .stuck => pure "(stuck () ())"
      | .outOfFuel => pure "(outOfFuel () ())"
  | "errl.ref", [fuel, prog] => do
      let fuel ← fuel.nat?
      let prog ← sprogram? prog
      let (st, o) := RbModel.ErrL.Ref.run fuel prog.toAst
      let out := Sexp.ofNats (st.st.out.out.map Char.toNat)
      pure s!"({outcomeStr o} {out} ())"
  | "errl.wf", [prog] => do
      let prog ← sprogram? prog
      -- first the premise of the jump discipline and typing (`progWfB`: what the harness classifies by), then the clauses the
      -- simulation proof forced (`wfXB`); the theorem's premise `progWfXB` is their conjunction
      pure s!"(wf {if progWfB prog then "true" else "false"} (x {if wfXB prog.body then "true" else "false"}))"
  | _, _ => none

end RbModel.Drv.ErrL
