import RbModel.Sexp
import RbModel.StrVal
/-! Line-protocol handlers for `RbModel/StrVal.lean` (requests `strval.*`).
Strings travel as lists of code points, rationals as `num den`. -/
namespace RbModel.Drv.StrVal
open RbModel

private def showVQ : Option RbModel.Str.VQ → String
  | none => "unmodelled"
  | some r => s!"(double {if r.negative then "t" else "f"} {r.magnitude.num} {r.magnitude.den})"

private def showText : Option (List Nat) → String
  | none => "unmodelled"
  | some s => toString (Sexp.list [Sexp.atom "ok", Sexp.ofNats s])

def handle (cmd : String) (args : List Sexp) : Option String :=
  match cmd, args with
  | "strval.val", [s] => do
      let s ← s.nats?
      pure (showVQ (RbModel.Str.valQ s))
  | "strval.strdbl", [n, d] => do
      let n ← n.int?; let d ← d.nat?
      if d = 0 then none else pure (showText (RbModel.Str.strDouble (mkRat n d)))
  | "strval.strsgl", [n, d] => do
      let n ← n.int?; let d ← d.nat?
      if d = 0 then none else pure (showText (RbModel.Str.strSingle (mkRat n d)))
  | "strval.valstrdbl", [n, d] => do
      -- VAL(STR$(x#))
      let n ← n.int?; let d ← d.nat?
      if d = 0 then none else
      pure (match RbModel.Str.strDouble (mkRat n d) with
        | none => "unmodelled"
        | some t => showVQ (RbModel.Str.valQ t))
  | "strval.valstrsgl", [n, d] => do
      let n ← n.int?; let d ← d.nat?
      if d = 0 then none else
      pure (match RbModel.Str.strSingle (mkRat n d) with
        | none => "unmodelled"
        | some t => showVQ (RbModel.Str.valQ t))
  | _, _ => none

end RbModel.Drv.StrVal
