import RbModel.Sexp
import RbModel.WfMarks
/-! Line-protocol handlers for the checker and the global machine of the restoring VM (requests `wfm.*`).

* `(wfm.check <code> <addrs>)` → `(wfm r u t l a c s n <status> <cert>)`: the five structural checks of
  `RbModel.Wf`, `checkCertM` on the inferred certificate, `popRetStrict` (`-` without a certificate), the
  number of `Return`s that rely on the restoring; status `ok` + the certificate, or `(fail kind pc) ()`.
* `(wfm.run <code> (pc v r c p b (rets…) (gosubs…) ((r g v p)…) ((r v)…)) …)`: runs `RbModel.WfMarks.next`
  from the initial state (pc 0, the depths of the first observation, no frames) along the observed pcs,
  comparing the machine's pc, absolute depths, the two address stacks and the recorded heights
  (`return_marks`, `go_sub_marks`; everything top first) with every observation →
  `(ok n)` | `(blocked k why)` | `(differ k what pc (v r c p b) (rets…) (gosubs…) (return marks…) (gosub marks…))`
  (the machine's state). -/
namespace RbModel.Drv.WfMarks
open RbModel RbModel.Wf RbModel.WfMarks

private def b (x : Bool) : String := if x then "t" else "f"

private def hStr (h : H) : String :=
  s!"({h.value} {h.reg} {h.ctx} {h.path} {h.byref})"

private def natsStr (l : List Nat) : String := "(" ++ " ".intercalate (l.map toString) ++ ")"

private def quad? : Sexp → Option (Nat × Nat × Nat × Nat)
  | .list [a, b, c, d] => do pure (← a.nat?, ← b.nat?, ← c.nat?, ← d.nat?)
  | _ => none

private def pair? : Sexp → Option (Nat × Nat)
  | .list [a, b] => do pure (← a.nat?, ← b.nat?)
  | _ => none

private def obsOfSexp : Sexp → Option Obs
  | .list [pc, v, r, c, p, bq, rets, gosubs, .list rm, .list gm] => do
      pure ⟨← pc.nat?, ⟨← v.nat?, ← r.nat?, ← c.nat?, ← p.nat?, ← bq.nat?⟩, ← rets.nats?, ← gosubs.nats?,
        ← rm.mapM quad?, ← gm.mapM pair?⟩
  | _ => none

private def quadsStr (l : List (Nat × Nat × Nat × Nat)) : String :=
  "(" ++ " ".intercalate (l.map fun (a, b, c, d) => s!"({a} {b} {c} {d})") ++ ")"

private def pairsStr (l : List (Nat × Nat)) : String :=
  "(" ++ " ".intercalate (l.map fun (a, b) => s!"({a} {b})") ++ ")"

def handle (cmd : String) (args : List Sexp) : Option String :=
  match cmd, args with
  | "wfm.check", [code, addrs] => do
      let code ← codeOfSexp code
      let addrs ← addrs.nats?
      let c := inferM code
      let (ok, strict, reliant, certS) := match c with
        | .ok cert => (checkCertM code cert, b (popRetStrict code cert), reliantReturns code cert,
            "ok (" ++ " ".intercalate (cert.toList.map fun o => match o with
              | some h => hStr h
              | none => "-") ++ ")")
        | .error (kind, pc) => (false, "-", 0, s!"(fail {kind} {pc}) ()")
      pure s!"(wfm {b (targetsResolved code)} {b (labelsUnique code)} {b (terminatorsOk code)} {b (branchesLocal code)} {b (addrsOk code addrs)} {b ok} {strict} {reliant} {certS})"
  | "wfm.run", code :: obs => do
      let code ← codeOfSexp code
      let obs ← obs.mapM obsOfSexp
      match obs with
      | [] => pure "(ok 0)"
      | o :: _ =>
        pure (match replay code (MState.init o.h) obs 0 with
          | .ok n => s!"(ok {n})"
          | .blocked k why => s!"(blocked {k} {why})"
          | .differ k what s =>
            s!"(differ {k} {what} {s.pc} {hStr s.h} {natsStr (retAddrs s.frames)} {natsStr (gosubAddrs s.frames)} {quadsStr (retMarks s.frames)} {pairsStr (gosubMarks s.frames)})")
  | _, _ => none

end RbModel.Drv.WfMarks
