import RbModel.Sexp
import RbModel.Rewrite
/-! Line-protocol handlers for the rewrites of property C02 (requests `rw.*`).

* `(rw.count <program>)` → `(<#while> <#do> <#for> <#select>)`: the number of sub-statements of each
  kind (source order is the order of the site indices).
* `(rw.apply <fuel> <rule> <idx> <program>)` → `(na)` when the program has no `idx`-th site of the
  rule's kind or the rule does not apply there, else `(both <before> <after>)`: the reference run of the
  program and of the program with the rule applied at that site, each as `ref.run` answers. -/
namespace RbModel.Drv.Rewrite
open RbModel RbModel.Ast RbModel.Ref RbModel.Rewrite

private def outcomeStr : Outcome → String
  | .normal => "normal"
  | .halted => "halted"
  | .error c p => s!"(error {c} {p.row} {p.col})"
  | .inexact => "inexact"
  | .outOfFuel => "outOfFuel"

private def valStr : Num.Val → String
  | .int i => s!"(int {i})"
  | .long i => s!"(long {i})"
  | .sgl q => s!"(sgl {q.num} {q.den})"
  | .dbl q => s!"(dbl {q.num} {q.den})"
  | .str s => "(str " ++ toString (Sexp.ofNats (s.map Char.toNat)) ++ ")"

private def resStr (r : St × Outcome) : String :=
  let out := Sexp.ofNats (r.1.out.out.map Char.toNat)
  s!"({outcomeStr r.2} {out} ({" ".intercalate (r.1.env.map valStr)}))"

/-- the rewritten body and the types of the temporaries appended to the slots -/
def rewriteAt (rule : String) (idx : Nat) (prog : Program) : Option (Option (Stmt × List Num.Ty)) :=
  let n := prog.slots.length
  match rule with
  | "while-do" => (applyAt .while_ whileToDo idx prog.body).map (·.map (·, []))
  | "until-not" => (applyAt .do_ untilToWhileNot idx prog.body).map (·.map (·, []))
  | "for-step1" => (applyAt .for_ forAddStep1 idx prog.body).map (·.map (·, []))
  | "wrap-loop" => (applyAt .loop wrapLoopBody idx prog.body).map (·.map (·, []))
  | "select-if" =>
    match siteAt .select idx prog.body with
    | some (c, .select e cs p) =>
      if casesWF cs then some (some (c.fill (.seq (.assign n e.ty e p) (chain n e.ty p cs)), [e.ty])) else some none
    | some _ => some none
    | none => none
  | "for-while" =>
    match siteAt .for_ idx prog.body with
    | some (c, .forLoop x t lo hi step body p) =>
      match Gen.NumTables.binType .plus t (stepTy step) with
      | some tres =>
        some ((forToWhile n (n + 1) tres (.forLoop x t lo hi step body p)).map fun st => (c.fill st, [t, stepTy step]))
      | none => some none
    | some _ => some none
    | none => none
  | _ => none

def handle (cmd : String) (args : List Sexp) : Option String :=
  match cmd, args with
  | "rw.count", [prog] => do
      let prog ← program? prog
      let ss := sites prog.body
      let cnt (k : Kind) := (ss.filter fun (_, sub) => k.test sub).length
      pure s!"({cnt .while_} {cnt .do_} {cnt .for_} {cnt .select})"
  | "rw.apply", [fuel, .atom rule, idx, prog] => do
      let fuel ← fuel.nat?
      let idx ← idx.nat?
      let prog ← program? prog
      match ← rewriteAt rule idx prog with
      | none => pure "(na)"
      | some (body', extra) =>
        let before := run fuel prog
        let after := run fuel { prog with slots := prog.slots ++ extra, body := body' }
        pure s!"(both {resStr before} {resStr after})"
  | _, _ => none

end RbModel.Drv.Rewrite
