import RbModel.Sexp
import RbModel.RowCol
/-! Line-protocol handlers for `RbModel.RowCol` (requests `rowcol.*`).  A text is the list of the code
points of its characters. -/
namespace RbModel.Drv.RowCol
open RbModel
open RbModel.RowCol

def pair (p : Nat × Nat) : Sexp := Sexp.ofNats [p.1, p.2]

def optPair : Option (Nat × Nat) → String
  | some p => toString (pair p)
  | none => "none"

/-- The table as coded (index loop) for texts up to 400 characters; the structural version
(`RbThm.C11.createRowColView_eq`: the same function) beyond, where the index loop over a linked list
is quadratic. -/
def table (text : List Nat) : List (Nat × Nat) :=
  if text.length ≤ 400 then createRowColView text else tableFrom text 1 1

def ev? : Sexp → Option Ev
  | Sexp.atom "pop" => some Ev.pop
  | Sexp.atom "other" => some Ev.other
  | Sexp.atom "clear" => some Ev.clear
  | Sexp.atom "drop" => some Ev.dropFront
  | Sexp.list [Sexp.atom "push", r, c] => do
      let r ← r.nat?; let c ← c.nat?
      pure (Ev.push (r, c))
  | _ => none

def evs? : Sexp → Option (List Ev)
  | Sexp.list l => l.mapM ev?
  | _ => none

def fault? : Sexp → Option Fault
  | Sexp.atom "builtin" => some Fault.builtIn
  | Sexp.list [Sexp.atom "instr", r, c] => do
      let r ← r.nat?; let c ← c.nat?
      pure (Fault.instr (r, c))
  | _ => none

def optPairs : Option (List (Nat × Nat)) → String
  | some l => toString (Sexp.list (l.map pair))
  | none => "none"

def handle (cmd : String) (args : List Sexp) : Option String :=
  match cmd, args with
  | "rowcol.table", [t] => do
      let t ← t.nats?
      pure (toString (Sexp.list ((table t).map pair)))
  | "rowcol.tableAsCoded", [t] => do
      let t ← t.nats?
      pure (toString (Sexp.list ((createRowColView t).map pair)))
  | "rowcol.position", [t, i] => do
      let t ← t.nats?; let i ← i.nat?
      -- `position` with the table computed by `table` (same function, see above)
      let tb := table t
      pure (toString (pair (if i ≥ t.length then eofRowCol tb else tb.getD i (1, 1))))
  | "rowcol.eof", [t] => do
      let t ← t.nats?
      pure (toString (pair (eofRowCol (table t))))
  | "rowcol.human", [t, i] => do
      let t ← t.nats?; let i ← i.nat?
      pure (optPair (humanRowCol t i))
  | "rowcol.inBounds", [t, r, c] => do
      let t ← t.nats?; let r ← r.nat?; let c ← c.nat?
      pure (toString (Sexp.ofBool (inBounds t r c)))
  | "rowcol.inBoundsStrict", [t, r, c] => do
      let t ← t.nats?; let r ← r.nat?; let c ← c.nat?
      pure (toString (Sexp.ofBool (inBoundsStrict t r c)))
  | "rowcol.lineSpan", [t, k] => do
      let t ← t.nats?; let k ← k.nat?
      pure (optPair (lineSpan t k))
  | "rowcol.lineCount", [t] => do
      let t ← t.nats?
      pure (toString (linesOf t).length)
  | "rowcol.runStack", [es] => do
      let es ← evs? es
      pure (optPairs (runStack [] es))
  | "rowcol.reported", [es, f] => do
      let es ← evs? es; let f ← fault? f
      pure (optPairs (reported es f))
  | _, _ => none

end RbModel.Drv.RowCol
