import RbModel.Sexp
import RbModel.ConstEval
import RbModel.ConstProg
import RbModel.Drv.Num
import Gen.NumTables
/-! Line-protocol handlers for `RbModel.ConstEval` (requests `const.*`).

Values as in `RbModel.Drv.Num`.  Expressions: `(lit <value>)`, `(ref n)`, `(ref n <ty>)`, `(var n)`,
`(neg e)`, `(not e)`, `(bin <op> l r)`, `(paren e)`, `other`.  Constants: `((n <value>) ...)` (newest
first).  Definitions: `((n none|<ty> <expr>) ...)` in program order.
Answers: `(ok ..)`, `(err invalidConstant|duplicateDefinition|typeMismatch|overflow|divisionByZero)`, `inexact`. -/
namespace RbModel.Drv.ConstEval
open RbModel RbModel.Num RbModel.ConstEval RbModel.Drv.Num

partial def expr? : Sexp → Option CExpr
  | .atom "other" => some .other
  | .list [.atom "lit", v] => do pure (.lit (← val? v))
  | .list [.atom "ref", n] => do pure (.cref (← n.nat?) none)
  | .list [.atom "ref", n, t] => do pure (.cref (← n.nat?) (some (← ty? t)))
  | .list [.atom "var", n] => do pure (.var (← n.nat?))
  | .list [.atom "neg", e] => do pure (.un .neg (← expr? e))
  | .list [.atom "not", e] => do pure (.un .not (← expr? e))
  | .list [.atom "bin", o, l, r] => do pure (.bin (← op? o) (← expr? l) (← expr? r))
  | .list [.atom "paren", e] => do pure (.paren (← expr? e))
  | _ => none

def suffix? : Sexp → Option (Option Ty)
  | .atom "none" => some none
  | t => (ty? t).map some

def consts? : Sexp → Option Consts
  | .list l => l.mapM fun
      | .list [n, v] => do pure ((← n.nat?), (← val? v))
      | _ => none
  | _ => none

def decls? : Sexp → Option (List Decl)
  | .list l => l.mapM fun
      | .list [n, s, e] => do pure { name := (← n.nat?), suffix := (← suffix? s), e := (← expr? e) }
      | _ => none
  | _ => none

def showLErr : LErr → String
  | .invalidConstant => "invalidConstant"
  | .duplicateDefinition => "duplicateDefinition"
  | .typeMismatch => "typeMismatch"
  | .overflow => "overflow"
  | .divisionByZero => "divisionByZero"

def showFRes {α : Type} (f : α → String) : FRes α → String
  | .ok a => "(ok " ++ f a ++ ")"
  | .err e => "(err " ++ showLErr e ++ ")"
  | .inexact => "inexact"

def showConsts (m : Consts) : String :=
  "(" ++ " ".intercalate (m.reverse.map fun (n, v) => s!"({n} {showVal v})") ++ ")"

partial def showExpr : Expr → String
  | .lit v => "(lit " ++ showVal v ++ ")"
  | .var x => s!"(var {x})"
  | .un .neg e => "(neg " ++ showExpr e ++ ")"
  | .un .not e => "(not " ++ showExpr e ++ ")"
  | .bin _ l r => "(bin " ++ showExpr l ++ " " ++ showExpr r ++ ")"

def showOptTy : Option Ty → String
  | some t => showTy t
  | none => "none"

/-! the expressions of a program (for the `inexact` diagnosis of `const.inlprog` only) -/

def exprsOfItems : List Ast.PrintItem → List Ast.Expr
  | [] => []
  | .expr e :: r => e :: exprsOfItems r
  | _ :: r => exprsOfItems r

def exprsOfCase : Ast.CaseExpr → List Ast.Expr
  | .simple e => [e]
  | .is _ e => [e]
  | .range a b => [a, b]

mutual
def exprsOfS : Ast.Stmt → List Ast.Expr
  | .skip => []
  | .seq a b => exprsOfS a ++ exprsOfS b
  | .assign _ _ e _ => [e]
  | .print items _ => exprsOfItems items
  | .read _ _ _ => []
  | .ifs c a b _ => c :: (exprsOfS a ++ exprsOfS b)
  | .select e cs _ => e :: exprsOfC cs
  | .forLoop _ _ lo hi st body _ => lo :: hi :: (st.toList ++ exprsOfS body)
  | .while c body _ => c :: exprsOfS body
  | .doLoop c _ _ body _ => c :: exprsOfS body
  | .end_ _ => []
def exprsOfC : Ast.Cases → List Ast.Expr
  | .nil => []
  | .else_ b => exprsOfS b
  | .case conds b rest => (conds.map exprsOfCase).flatten ++ exprsOfS b ++ exprsOfC rest
end

/-- some parenthesised closed subexpression leaves the exact float domain -/
partial def inexactParen : Ast.Expr → Bool
  | .lit _ _ => false
  | .var _ _ _ => false
  | .un _ e _ => inexactParen e
  | .bin _ l r _ _ => inexactParen l || inexactParen r
  | .paren k _ =>
    (ConstProg.closedE k && (match Ref.eval [] k with | .inexact => true | _ => false)) || inexactParen k

def handle (cmd : String) (args : List Sexp) : Option String :=
  match cmd, args with
  -- the folder on one expression, in the scope chain (local, global)
  | "const.fold", [loc, glob, e] => do
      let loc ← consts? loc; let glob ← consts? glob; let e ← expr? e
      pure (showFRes showVal (fold (scopeEnv loc glob) e))
  -- one definition at both sites, in the scope chain: `(<pre-linter> <converter>)`
  | "const.declare", [loc, glob, s, e] => do
      let loc ← consts? loc; let glob ← consts? glob; let s ← suffix? s; let e ← expr? e
      let env := scopeEnv loc glob
      pure ("(" ++ showFRes showVal (declarePre env s e) ++ " " ++ showFRes showVal (declareConv env s e) ++ ")")
  -- both passes over the global definitions, then the converter's pass over a subprogram's
  | "const.run", [g, s] => do
      let g ← decls? g; let s ← decls? s
      let pre := preLint g []
      let conv := convert [] g []
      let sub : FRes Consts := conv.bind fun gm => convert gm s []
      pure ("(" ++ showFRes showConsts pre ++ " " ++ showFRes showConsts conv ++ " " ++ showFRes showConsts sub ++ ")")
  -- a use of a constant: the literal it becomes, or none (rejected)
  | "const.use", [loc, glob, n, s] => do
      let loc ← consts? loc; let glob ← consts? glob; let n ← n.nat?; let s ← suffix? s
      pure (match useRef (scopeEnv loc glob) n s with
        | some k => showExpr k
        | none => "none")
  -- the run-time form of an expression over constants: static type and value
  | "const.runtime", [loc, glob, e] => do
      let loc ← consts? loc; let glob ← consts? glob; let e ← expr? e
      pure (match toExpr (scopeEnv loc glob) e with
        | some k => "(" ++ showOptTy (k.ty Gen.NumTables.binType fun _ => .int) ++ " " ++
            showRes showVal (k.eval Gen.NumTables.binType fun _ => .int 0) ++ ")"
        | none => "none")
  -- the linted trees of the named and the inlined program: do they match (`ConstProg.matchP`)?
  | "const.inlprog", [n, i] => do
      let n ← Ast.program? n; let i ← Ast.program? i
      pure (if ConstProg.matchP n i then "t"
        else if (exprsOfS i.body).any inexactParen then "inexact" else "f")
  | "const.strlen", [m, n, s] => do
      let m ← consts? m; let n ← n.nat?; let s ← suffix? s
      pure (match stringLength (lookup m) n s with
        | some i => toString i
        | none => "none")
  | _, _ => none

end RbModel.Drv.ConstEval
