import RbModel.Sexp
import RbModel.PcCtx
import RbModel.Drv.Pc
/-! Line-protocol handlers for `RbModel.PcCtx` (requests `pcc.*`).

* `(pcc.runall <cexpr> <top> <alphabet> <maxlen> <start>)` → `(r …)`, `<top>` = `none` or a symbol number
  (the context given to the whole parser by `set_context` before `parse`); results as for `pc.runall`, plus `panic`. -/
namespace RbModel.Drv.PcCtx
open RbModel RbModel.Pc RbModel.PcCtx

def ctxFn? : Sexp → Option CtxFn
  | .atom "id" => some .id
  | .atom "wrap" => some .wrap
  | .atom "const0" => some .const0
  | _ => none

partial def cexpr? : Sexp → Option CExpr
  | .atom "ctx" => some .ctx
  | .list [.atom "lift", e] => do pure (.lift (← RbModel.Drv.Pc.expr? e))
  | .list [.atom "iif", l, r] => do pure (.iif (← RbModel.Drv.Pc.expr? l) (← RbModel.Drv.Pc.expr? r))
  | .list [.atom "mapCtx", f, c] => do pure (.mapCtx (← ctxFn? f) (← cexpr? c))
  | .list [.atom "noCtx", c] => do pure (.noCtx (← cexpr? c))
  | .list [.atom "thenWith", cmb, l, r] => do
      pure (.thenWith (← RbModel.Drv.Pc.cmb? cmb) (← cexpr? l) (← cexpr? r))
  | .list [.atom "manyCtx", an, c] => do pure (.manyCtx (← an.bool?) (← cexpr? c))
  | .list [.atom "and", cmb, l, r] => do pure (.and (← RbModel.Drv.Pc.cmb? cmb) (← cexpr? l) (← cexpr? r))
  | .list [.atom "or2", a, b] => do pure (.or2 (← cexpr? a) (← cexpr? b))
  | .list [.atom "seq2", a, b] => do pure (.seq2 (← cexpr? a) (← cexpr? b))
  | .list [.atom "map", f, c] => do pure (.map (← RbModel.Drv.Pc.mapFn? f) (← cexpr? c))
  | _ => none

def top? : Sexp → Option (Option Val)
  | .atom "none" => some none
  | s => do pure (some (.sym (← s.nat?)))

def cresStr : CRes → String
  | .res r => RbModel.Drv.Pc.resStr r
  | .panic => "panic"

def handle (cmd : String) (args : List Sexp) : Option String :=
  match cmd, args with
  | "pcc.runall", [c, top, k, maxlen, start] => do
      let c ← cexpr? c
      let top ← top? top
      let k ← k.nat?
      let maxlen ← maxlen.nat?
      let start ← start.nat?
      pure ("(" ++ " ".intercalate
        ((RbModel.Drv.Pc.allInputs k maxlen).map (fun inp => cresStr (runTop c top inp start))) ++ ")")
  | _, _ => none

end RbModel.Drv.PcCtx
