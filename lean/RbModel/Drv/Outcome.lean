import RbModel.Sexp
import RbModel.Outcome
import Gen.ErrorCodes
/-! Line-protocol handlers for C08 (requests `outcome.*`): the extracted code table as seen by Lean. -/
namespace RbModel.Drv.Outcome
open RbModel RbModel.Outcome

def handle (cmd : String) (args : List Sexp) : Option String :=
  match cmd, args with
  | "outcome.code", [Sexp.atom name] =>
      match RtErr.all.find? (fun e => e.name == name) with
      | some e => match codeOf Gen.ErrorCodes.codeRows e with
        | some c => some s!"(code {c})"
        | none => some "(no-code)"
      | none => some "(unknown-variant)"
  | "outcome.known", [c] => do
      let c ← c.nat?
      pure (if RtErr.all.any (fun e => codeOf Gen.ErrorCodes.codeRows e == some c) then "t" else "f")
  | _, _ => none

end RbModel.Drv.Outcome
