import RbModel.Sexp
import RbModel.Ref
/-! Line-protocol handlers for the reference semantics (requests `ref.*`). -/
namespace RbModel.Drv.Ref
open RbModel RbModel.Ast RbModel.Ref

private def outcomeStr : Outcome → String
  | .normal => "normal"
  | .halted => "halted"
  | .error c p => s!"(error {c} {p.row} {p.col})"
  | .inexact => "inexact"
  | .outOfFuel => "outOfFuel"

private def valStr : Num.Val → String
  | .int i => s!"(int {i})"
  | .long i => s!"(long {i})"
  | .sgl q => s!"(sgl {q.num} {q.den})"
  | .dbl q => s!"(dbl {q.num} {q.den})"
  | .str s => "(str " ++ toString (Sexp.ofNats (s.map Char.toNat)) ++ ")"

def handle (cmd : String) (args : List Sexp) : Option String :=
  match cmd, args with
  | "ref.run", [fuel, prog] => do
      let fuel ← fuel.nat?
      let prog ← program? prog
      let (st, o) := run fuel prog
      let out := Sexp.ofNats (st.out.out.map Char.toNat)
      pure s!"({outcomeStr o} {out} ({" ".intercalate (st.env.map valStr)}))"
  | _, _ => none

end RbModel.Drv.Ref
