import RbModel.Sexp
import RbModel.Arr
import RbModel.ArrPath
import RbModel.Drv.Num
/-! Line-protocol handlers for `RbModel.Arr` (requests `arr.*`).

* `(arr.absIndex ((lb ub) ...) (i ...))`   → `k` or `none`
* `(arr.absIndex32 ((lb ub) ...) (i ...))` → `k` or `none` (the `i32` wrap-around transcription)
* `(arr.dimsLen ((lb ub) ...))`            → `n`
* `(arr.dimsLenChecked ((lb ub) ...))`     → `n` or `none` (Out of memory: the count does not fit 64 bits)
* `(arr.script ((lb ub) ...) dflt (op ...))` with `op` one of `(s (i ...) v)`, `(g (i ...))`, `(lb n)`, `(ub n)`,
  `(len)`; answers the list of results (`ok` / value / `e9` for Subscript out of range)
* `(arr.rec ((name v) ...) (op ...))` with names as lists of code points and `op` one of `(s name v)`,
  `(g name)`, `(names)`; results `ok` / value / `absent` / list of folded names
* `(arr.fixLength (cp ...) n)`             → `(cp ...)`
* `(arr.path ((name val) ...) (op ...))`: a variable map and a sequence of operations on paths.
  `val` = `(leaf <num value>)` | `(new ((lb ub) ...) val)` (as `VArray::new`) | `(udt ((name val) ...))`;
  `path` = `(root name)` | `(elem path (i ...))` | `(prop path name)`; `ety` = `(num int|long|sgl|dbl|str)` | `(fix n)`;
  `op` = `(r path)` (read: the scalar, `container`, or `none`) | `(a path static-ety target-ety value)` (assignment:
  `ok`, `e9` = the store failed, `(err …)`, `inexact`) | `(w path target-ety value)` (by-reference write-back);
  num values as in `num.*` requests.
-/
namespace RbModel.Drv.Arr
open RbModel

def dim? : Sexp → Option (Int × Int)
  | Sexp.list [a, b] => do
      let a ← a.int?; let b ← b.int?
      pure (a, b)
  | _ => none

def dims? : Sexp → Option (List (Int × Int))
  | Sexp.list l => l.mapM dim?
  | _ => none

def chars? (s : Sexp) : Option (List Char) := do
  let l ← s.nats?
  pure (l.map Char.ofNat)

def ofChars (l : List Char) : Sexp := Sexp.ofNats (l.map Char.toNat)

def optNat : Option Nat → String
  | some k => toString k
  | none => "none"

def optInt : Option Int → String
  | some k => toString k
  | none => "e9"

/-- One step of an array script: the new array and the printed result; `none` = malformed op. -/
def arrOp (a : RbModel.Arr.VArray Int) : Sexp → Option (RbModel.Arr.VArray Int × String)
  | Sexp.list [Sexp.atom "s", idx, v] => do
      let idx ← idx.ints?; let v ← v.int?
      match RbModel.Arr.setElem a idx v with
      | some a' => pure (a', "ok")
      | none => pure (a, "e9")
  | Sexp.list [Sexp.atom "g", idx] => do
      let idx ← idx.ints?
      pure (a, optInt (RbModel.Arr.getElem a idx))
  | Sexp.list [Sexp.atom "lb", n] => do
      let n ← n.int?
      pure (a, optInt (RbModel.Arr.lbound a n))
  | Sexp.list [Sexp.atom "ub", n] => do
      let n ← n.int?
      pure (a, optInt (RbModel.Arr.ubound a n))
  | Sexp.list [Sexp.atom "len"] => pure (a, toString a.len)
  | _ => none

def arrScript (a : RbModel.Arr.VArray Int) : List Sexp → List String → Option (List String)
  | [], acc => some acc.reverse
  | op :: ops, acc =>
      match arrOp a op with
      | some (a', r) => arrScript a' ops (r :: acc)
      | none => none

def field? : Sexp → Option (List Char × Int)
  | Sexp.list [n, v] => do
      let n ← chars? n; let v ← v.int?
      pure (n, v)
  | _ => none

def recOp (r : RbModel.Arr.Rec Int) : Sexp → Option (RbModel.Arr.Rec Int × String)
  | Sexp.list [Sexp.atom "s", n, v] => do
      let n ← chars? n; let v ← v.int?
      match RbModel.Arr.setField r n v with
      | some r' => pure (r', "ok")
      | none => pure (r, "absent")
  | Sexp.list [Sexp.atom "g", n] => do
      let n ← chars? n
      match RbModel.Arr.getField r n with
      | some v => pure (r, toString v)
      | none => pure (r, "absent")
  | Sexp.list [Sexp.atom "names"] =>
      pure (r, toString (Sexp.list (r.names.map ofChars)))
  | _ => none

def recScript (r : RbModel.Arr.Rec Int) : List Sexp → List String → Option (List String)
  | [], acc => some acc.reverse
  | op :: ops, acc =>
      match recOp r op with
      | some (r', s) => recScript r' ops (s :: acc)
      | none => none


open RbModel.ArrPath in
/-- A value description; `fuel` bounds the nesting depth. -/
def pval? : Nat → Sexp → Option ArrPath.Val
  | 0, _ => none
  | _ + 1, Sexp.list [Sexp.atom "leaf", v] => do
      let v ← RbModel.Drv.Num.val? v
      pure (.leaf v)
  | fuel + 1, Sexp.list [Sexp.atom "new", d, v] => do
      let d ← dims? d
      let v ← pval? fuel v
      pure (.arr d (List.replicate (RbModel.Arr.dimsLen d) v))
  | fuel + 1, Sexp.list [Sexp.atom "udt", Sexp.list fs] => do
      let fs ← fs.mapM fun f =>
        match f with
        | Sexp.list [n, v] => do
            let n ← chars? n
            let v ← pval? fuel v
            pure (n, v)
        | _ => none
      pure (.udt (RbModel.Arr.Rec.new fs).fields)
  | _, _ => none

def path? : Nat → Sexp → Option ArrPath.Path
  | 0, _ => none
  | _ + 1, Sexp.list [Sexp.atom "root", n] => do pure (.root (← chars? n))
  | fuel + 1, Sexp.list [Sexp.atom "elem", p, i] => do
      let p ← path? fuel p
      let i ← i.ints?
      pure (.elem p i)
  | fuel + 1, Sexp.list [Sexp.atom "prop", p, n] => do
      let p ← path? fuel p
      let n ← chars? n
      pure (.prop p n)
  | _, _ => none

def ety? : Sexp → Option ArrPath.ETy
  | Sexp.list [Sexp.atom "num", t] => do pure (.num (← RbModel.Drv.Num.ty? t))
  | Sexp.list [Sexp.atom "fix", n] => do pure (.fix (← n.nat?))
  | _ => none

def showStored : RbModel.Num.Res (Option ArrPath.Vars) → String
  | .ok (some _) => "ok"
  | .ok none => "e9"
  | .err e => "(err " ++ RbModel.Drv.Num.showErr e ++ ")"
  | .inexact => "inexact"

def keepVars (vars : ArrPath.Vars) : RbModel.Num.Res (Option ArrPath.Vars) → ArrPath.Vars
  | .ok (some v) => v
  | _ => vars

def pathOp (vars : ArrPath.Vars) : Sexp → Option (ArrPath.Vars × String)
  | Sexp.list [Sexp.atom "r", p] => do
      let p ← path? 16 p
      match ArrPath.resolve vars p with
      | some (.leaf v) => pure (vars, RbModel.Drv.Num.showVal v)
      | some _ => pure (vars, "container")
      | none => pure (vars, "none")
  | Sexp.list [Sexp.atom "a", p, s, t, v] => do
      let p ← path? 16 p; let s ← ety? s; let t ← ety? t; let v ← RbModel.Drv.Num.val? v
      let r := ArrPath.assign vars p s t v
      pure (keepVars vars r, showStored r)
  | Sexp.list [Sexp.atom "w", p, t, v] => do
      let p ← path? 16 p; let t ← ety? t; let v ← RbModel.Drv.Num.val? v
      let r := ArrPath.writeBack vars p t v
      pure (keepVars vars r, showStored r)
  | _ => none

def pathScript (vars : ArrPath.Vars) : List Sexp → List String → Option (List String)
  | [], acc => some acc.reverse
  | op :: ops, acc =>
      match pathOp vars op with
      | some (vars', s) => pathScript vars' ops (s :: acc)
      | none => none

def handle (cmd : String) (args : List Sexp) : Option String :=
  match cmd, args with
  | "arr.absIndex", [d, i] => do
      let d ← dims? d; let i ← i.ints?
      pure (optNat (RbModel.Arr.absIndex d i))
  | "arr.absIndex32", [d, i] => do
      let d ← dims? d; let i ← i.ints?
      pure (optNat (RbModel.Arr.absIndex32 d i))
  | "arr.dimsLen", [d] => do
      let d ← dims? d
      pure (toString (RbModel.Arr.dimsLen d))
  | "arr.dimsLenChecked", [d] => do
      let d ← dims? d
      pure (optNat (RbModel.Arr.dimsLenChecked d 1))
  | "arr.script", [d, dflt, Sexp.list ops] => do
      let d ← dims? d; let dflt ← dflt.int?
      let rs ← arrScript (RbModel.Arr.VArray.new d dflt) ops []
      pure ("(" ++ " ".intercalate rs ++ ")")
  | "arr.rec", [Sexp.list fields, Sexp.list ops] => do
      let fs ← fields.mapM field?
      let rs ← recScript (RbModel.Arr.Rec.new fs) ops []
      pure ("(" ++ " ".intercalate rs ++ ")")
  | "arr.path", [Sexp.list vs, Sexp.list ops] => do
      let vars ← vs.mapM fun f =>
        match f with
        | Sexp.list [n, v] => do
            let n ← chars? n
            let v ← pval? 16 v
            pure (n, v)
        | _ => none
      let rs ← pathScript vars ops []
      pure ("(" ++ " ".intercalate rs ++ ")")
  | "arr.fixLength", [s, n] => do
      let s ← chars? s; let n ← n.nat?
      pure (toString (ofChars (RbModel.Arr.fixLength s n)))
  | _, _ => none

end RbModel.Drv.Arr
