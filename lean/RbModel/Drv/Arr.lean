import RbModel.Sexp
import RbModel.Arr
/-! Line-protocol handlers for `RbModel.Arr` (requests `arr.*`).

* `(arr.absIndex ((lb ub) ...) (i ...))`   → `k` or `none`
* `(arr.absIndex32 ((lb ub) ...) (i ...))` → `k` or `none` (the `i32` wrap-around transcription)
* `(arr.dimsLen ((lb ub) ...))`            → `n`
* `(arr.script ((lb ub) ...) dflt (op ...))` with `op` one of `(s (i ...) v)`, `(g (i ...))`, `(lb n)`, `(ub n)`,
  `(len)`; answers the list of results (`ok` / value / `e9` for Subscript out of range)
* `(arr.rec ((name v) ...) (op ...))` with names as lists of code points and `op` one of `(s name v)`,
  `(g name)`, `(names)`; results `ok` / value / `absent` / list of folded names
* `(arr.fixLength (cp ...) n)`             → `(cp ...)`
-/
namespace RbModel.Drv.Arr
open RbModel

def dim? : Sexp → Option (Int × Int)
  | Sexp.list [a, b] => do
      let a ← a.int?; let b ← b.int?
      pure (a, b)
  | _ => none

def dims? : Sexp → Option (List (Int × Int))
  | Sexp.list l => l.mapM dim?
  | _ => none

def chars? (s : Sexp) : Option (List Char) := do
  let l ← s.nats?
  pure (l.map Char.ofNat)

def ofChars (l : List Char) : Sexp := Sexp.ofNats (l.map Char.toNat)

def optNat : Option Nat → String
  | some k => toString k
  | none => "none"

def optInt : Option Int → String
  | some k => toString k
  | none => "e9"

/-- One step of an array script: the new array and the printed result; `none` = malformed op. -/
def arrOp (a : RbModel.Arr.VArray Int) : Sexp → Option (RbModel.Arr.VArray Int × String)
  | Sexp.list [Sexp.atom "s", idx, v] => do
      let idx ← idx.ints?; let v ← v.int?
      match RbModel.Arr.setElem a idx v with
      | some a' => pure (a', "ok")
      | none => pure (a, "e9")
  | Sexp.list [Sexp.atom "g", idx] => do
      let idx ← idx.ints?
      pure (a, optInt (RbModel.Arr.getElem a idx))
  | Sexp.list [Sexp.atom "lb", n] => do
      let n ← n.int?
      pure (a, optInt (RbModel.Arr.lbound a n))
  | Sexp.list [Sexp.atom "ub", n] => do
      let n ← n.int?
      pure (a, optInt (RbModel.Arr.ubound a n))
  | Sexp.list [Sexp.atom "len"] => pure (a, toString a.len)
  | _ => none

def arrScript (a : RbModel.Arr.VArray Int) : List Sexp → List String → Option (List String)
  | [], acc => some acc.reverse
  | op :: ops, acc =>
      match arrOp a op with
      | some (a', r) => arrScript a' ops (r :: acc)
      | none => none

def field? : Sexp → Option (List Char × Int)
  | Sexp.list [n, v] => do
      let n ← chars? n; let v ← v.int?
      pure (n, v)
  | _ => none

def recOp (r : RbModel.Arr.Rec Int) : Sexp → Option (RbModel.Arr.Rec Int × String)
  | Sexp.list [Sexp.atom "s", n, v] => do
      let n ← chars? n; let v ← v.int?
      match RbModel.Arr.setField r n v with
      | some r' => pure (r', "ok")
      | none => pure (r, "absent")
  | Sexp.list [Sexp.atom "g", n] => do
      let n ← chars? n
      match RbModel.Arr.getField r n with
      | some v => pure (r, toString v)
      | none => pure (r, "absent")
  | Sexp.list [Sexp.atom "names"] =>
      pure (r, toString (Sexp.list (r.names.map ofChars)))
  | _ => none

def recScript (r : RbModel.Arr.Rec Int) : List Sexp → List String → Option (List String)
  | [], acc => some acc.reverse
  | op :: ops, acc =>
      match recOp r op with
      | some (r', s) => recScript r' ops (s :: acc)
      | none => none

def handle (cmd : String) (args : List Sexp) : Option String :=
  match cmd, args with
  | "arr.absIndex", [d, i] => do
      let d ← dims? d; let i ← i.ints?
      pure (optNat (RbModel.Arr.absIndex d i))
  | "arr.absIndex32", [d, i] => do
      let d ← dims? d; let i ← i.ints?
      pure (optNat (RbModel.Arr.absIndex32 d i))
  | "arr.dimsLen", [d] => do
      let d ← dims? d
      pure (toString (RbModel.Arr.dimsLen d))
  | "arr.script", [d, dflt, Sexp.list ops] => do
      let d ← dims? d; let dflt ← dflt.int?
      let rs ← arrScript (RbModel.Arr.VArray.new d dflt) ops []
      pure ("(" ++ " ".intercalate rs ++ ")")
  | "arr.rec", [Sexp.list fields, Sexp.list ops] => do
      let fs ← fields.mapM field?
      let rs ← recScript (RbModel.Arr.Rec.new fs) ops []
      pure ("(" ++ " ".intercalate rs ++ ")")
  | "arr.fixLength", [s, n] => do
      let s ← chars? s; let n ← n.nat?
      pure (toString (ofChars (RbModel.Arr.fixLength s n)))
  | _, _ => none

end RbModel.Drv.Arr
