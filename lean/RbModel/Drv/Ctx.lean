import RbModel.Sexp
import RbModel.Ctx
/-! Line-protocol handlers for `RbModel.Ctx` (requests `ctx.*`).

`(ctx.run (op ...))` runs the operations from `Ctx.init` and answers the shape of the context
after every operation, `(shape ...)`, in the hook's format:
`(ok ((blk collecting nargs) ...) ((rc static nvars) ...) ((scope index) ...))`
— states bottom first, blocks in index order, statics in insertion order — and stops with
`(fail <name>)` at the first operation that fails.  `ctx.runold` does the same with the
unrepaired `do_pop` (F5 witness replay).

Operations: `(bc)` beginCollect, `(arg p)` pushArg (value 0), `(sc)` stopCollect, `(scs n)`
stopCollectStatic, `(pop)`, `(eh)` pushErrorHandler, `(da)` dropArgumentsForArray, `(dc)` dropCollecting (drop_collecting_arguments),
`(touch s k)` get_or_create of name `k` (`s` = `t` shared / `f` current block),
`(set s k v)` store. -/
namespace RbModel.Drv.Ctx
open RbModel RbModel.Ctx

def op? : Sexp → Option Op
  | .list [.atom "bc"] => some .beginCollect
  | .list [.atom "arg", p] => do let p ← p.nat?; pure (.pushArg p 0)
  | .list [.atom "argv", p, v] => do let p ← p.nat?; let v ← v.int?; pure (.pushArg p v)
  | .list [.atom "sc"] => some .stopCollect
  | .list [.atom "scs", n] => do let n ← n.nat?; pure (.stopCollectStatic n)
  | .list [.atom "pop"] => some .pop
  | .list [.atom "eh"] => some .pushErrorHandler
  | .list [.atom "da"] => some .dropArgumentsForArray
  | .list [.atom "dc"] => some .dropCollecting
  | .list [.atom "touch", s, k] => do let s ← s.bool?; let k ← k.nat?; pure (.touch s k)
  | .list [.atom "set", s, k, v] => do let s ← s.bool?; let k ← k.nat?; let v ← v.int?; pure (.setVar s k v)
  | _ => none

def shape (c : Ctx) : Sexp :=
  let b2s (b : Bool) : Sexp := Sexp.ofBool b
  let n2s (n : Nat) : Sexp := .atom (toString n)
  .list [.atom "ok",
    .list (c.states.reverse.map fun s =>
      .list [n2s s.blk, b2s s.args.isSome, n2s (match s.args with | some a => a.length | none => 0)]),
    .list (c.blocks.map fun b => .list [n2s b.rc, b2s b.isStatic, n2s b.vars.length]),
    .list (c.statics.map fun e => .list [n2s e.1, n2s e.2])]

def failName : Fail → String
  | .statesUnderflow => "statesUnderflow"
  | .indexOOB => "indexOOB"
  | .expectedArgumentState => "expectedArgumentState"
  | .expectedNormalState => "expectedNormalState"
  | .notCollecting => "notCollecting"
  | .internalError => "internalError"

def trace (stepF : Op → Ctx → Except Fail Ctx) : List Op → Ctx → List Sexp
  | [], _ => []
  | op :: ops, c =>
    match stepF op c with
    | .error e => [.list [.atom "fail", .atom (failName e)]]
    | .ok c' => shape c' :: trace stepF ops c'

def handle (cmd : String) (args : List Sexp) : Option String :=
  match cmd, args with
  | "ctx.run", [.list ops] => do
      let ops ← ops.mapM op?
      pure (toString (Sexp.list (trace step ops init)))
  | "ctx.runold", [.list ops] => do
      let ops ← ops.mapM op?
      pure (toString (Sexp.list (trace stepOld ops init)))
  | _, _ => none

end RbModel.Drv.Ctx
