import RbModel.Sexp
import RbModel.Core
import RbModel.CoreVm
import RbModel.CoreWf
/-! Line-protocol handlers for the code-generator model (requests `core.*`). -/
namespace RbModel.Drv.Core
open RbModel RbModel.Ast RbModel.Src RbModel.Core

private def slotTable? : Sexp → Option (List (String × Num.Ty))
  | .list l => l.mapM fun e => match e with
      | .list [n, t] => do pure ((← Instr.str? n).map Char.toUpper, ← ty? t)
      | _ => none
  | _ => none

private def showC : CInstr × Pos → String
  | (c, p) =>
    let k := match c with
      | .loadA _ => "loadA" | .copyAToB => "copyAToB" | .copyAToC => "copyAToC" | .copyAToD => "copyAToD"
      | .copyCToB => "copyCToB" | .copyDToA => "copyDToA" | .copyDToB => "copyDToB"
      | .bin _ => "bin" | .negateA => "negateA" | .notA => "notA" | .cast _ => "cast"
      | .pushA => "pushA" | .popA => "popA" | .varPath x => s!"varPath{x}" | .copyVarPathToA => "copyVarPathToA"
      | .popVarPath => "popVarPath" | .copyAToVarPath => "copyAToVarPath" | .label n => "label:" ++ n.replace " " "_"
      | .jump a => s!"jump{a}" | .jumpIfFalse a => s!"jumpIfFalse{a}" | .pushRegs => "pushRegs" | .popRegs => "popRegs"
      | .throwZeroStep => "throwZeroStep" | .halt => "halt" | .allocate _ => "allocate"
      | .printSetPrinter => "printSetPrinter" | .printSetFormat => "printSetFormat" | .printComma => "printComma"
      | .printSemicolon => "printSemicolon" | .printValue => "printValue" | .printEnd => "printEnd"
      | .beginArgs => "beginArgs" | .pushByVal => "pushByVal" | .pushByRef => "pushByRef" | .pushStack => "pushStack"
      | .popStack => "popStack" | .builtInData => "builtInData" | .builtInRead => "builtInRead"
      | .enqueue i => s!"enqueue{i}" | .dequeue => "dequeue"
    s!"{k}@{p.row}:{p.col}"

def handle (cmd : String) (args : List Sexp) : Option String :=
  match cmd, args with
  | "core.compare", [prog, table, code] => do
      let prog ← sprogram? prog
      let table ← slotTable? table
      let real ← codeOfSexp code
      match normalise table real with
      | none => pure "(not-core)"
      | some rc =>
        let mc := compile prog
        match firstDiff mc rc 0 with
        | none => pure s!"(same {mc.length})"
        | some i =>
          let m := (mc[i]?).map showC |>.getD "-"
          let r := (rc[i]?).map showC |>.getD "-"
          pure s!"(differ {i} {m} {r} {mc.length} {rc.length})"
  | "core.run", [fuel, prog] => do
      let fuel ← fuel.nat?
      let prog ← sprogram? prog
      let code := compile prog
      let outS := fun (σ : CoreVm.Vm) => toString (Sexp.ofNats (σ.out.out.map Char.toNat))
      match CoreVm.run code fuel (CoreVm.Vm.init prog.slots) with
      | .halted σ => pure s!"(normal {outS σ} ())"
      | .error c p σ => pure s!"((error {c} {p.row} {p.col}) {outS σ} ())"
      | .stuck => pure "(stuck () ())"
      | .outOfFuel => pure "(outOfFuel () ())"
  | "core.wf", [prog] => do
      -- the premise of C01_core_correct, decided by the verified checker (Thm/C01Wf.lean: wfTopB_sound)
      let prog ← sprogram? prog
      pure (if CoreWf.wfTopB prog.slots prog.body then "(wf true)" else "(wf false)")
  | _, _ => none

end RbModel.Drv.Core
