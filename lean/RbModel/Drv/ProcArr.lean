import RbModel.Sexp
import RbModel.ProcArr.Syntax
import RbModel.ProcArr.Ref
import RbModel.ProcArr.Compile
import RbModel.ProcArr.Vm
import RbModel.ProcArr.WfB
/-! Line-protocol handlers for the combined layer "procedures + arrays of scalars + element actuals" (requests `pa.*`):
`pa.compare` (model generator = normalised real instruction list), `pa.run` (VM model on the model-compiled
code), `pa.ref` (reference semantics), `pa.wf` (the executable premise checker `RbModel.ProcArr.progWfB` proposed for
`ProcArr.compile_correct`), all on the program serialised by `harness/src/procarr_sx.rs`. -/
namespace RbModel.Drv.ProcArr
open RbModel RbModel.ProcArr RbModel.ProcArr.Compile
open RbModel.Ast (Pos ty?)

private def slotTable? : Sexp → Option (List (String × Num.Ty))
  | .list l => l.mapM fun e => match e with
      | .list [n, t] => do pure ((← Instr.str? n).map Char.toUpper, ← ty? t)
      | _ => none
  | _ => none

private def scopesOf (procs : List (ProcDecl SStmt))
    (tables : List (List (String × Num.Ty) × List (String × Num.Ty))) : List ScopeInfo :=
  (procs.zip tables).map fun (d, t) =>
    { label := (if d.result.isSome then ":fun:" else ":sub:") ++ d.name, result := d.result,
      nparams := d.params.length, table := t.1, atable := t.2 }

private def procTable? : Sexp → Option (List (String × Num.Ty) × List (String × Num.Ty))
  | .list [t, a] => do pure (← slotTable? t, ← slotTable? a)
  | _ => none

private def showC : CInstr × Pos → String
  | (c, p) =>
    let k := match c with
      | .loadA _ => "loadA" | .copyAToB => "copyAToB" | .copyAToC => "copyAToC" | .copyAToD => "copyAToD"
      | .copyCToB => "copyCToB" | .copyDToA => "copyDToA" | .copyDToB => "copyDToB"
      | .bin _ => "bin" | .negateA => "negateA" | .notA => "notA" | .cast _ => "cast"
      | .pushA => "pushA" | .popA => "popA"  | .varPath x _ => s!"varPath{if x.shared then "G" else ""}{x.slot}" | .arrPath a => s!"arrPath{a}" | .pathIndex => "pathIndex" | .allocArr _ => "allocArr"
      | .pushNamedByRef n _ => "pushNamedByRef:" ++ n | .dequeuePath => "dequeuePath" | .copyVarPathToA => "copyVarPathToA"
      | .popVarPath => "popVarPath" | .copyAToVarPath => "copyAToVarPath" | .label n => "label:" ++ n.replace " " "_"
      | .jump a => s!"jump{a}" | .jumpIfFalse a => s!"jumpIfFalse{a}" | .pushRegs => "pushRegs" | .popRegs => "popRegs"
      | .throwZeroStep => "throwZeroStep" | .halt => "halt" | .allocate _ => "allocate"
      | .printSetPrinter => "printSetPrinter" | .printSetFormat => "printSetFormat" | .printComma => "printComma"
      | .printSemicolon => "printSemicolon" | .printValue => "printValue" | .printEnd => "printEnd"
      | .beginArgs => "beginArgs" | .pushByVal => "pushByVal" | .pushByRef => "pushByRef" | .pushStack => "pushStack" | .pushStatic f => s!"pushStatic{f}" | .isDefined x => s!"isDefined{x}"
      | .popStack => "popStack" | .pushNamed n _ => "pushNamed:" ++ n | .pushRet a => s!"pushRet{a}" | .popRet => "popRet"
      | .builtInData => "builtInData" | .builtInRead => "builtInRead"
      | .enqueue i => s!"enqueue{i}" | .dequeue => "dequeue"
      | .stashResult x _ => s!"stashResult{x}" | .unStash => "unStash"
    s!"{k}@{p.row}:{p.col}"

private def outcomeStr : RbModel.ProcArr.Ref.Outcome → String
  | .normal => "normal"
  | .exited => "exited"
  | .halted => "halted"
  | .error c p => s!"(error {c} {p.row} {p.col})"
  | .inexact => "inexact"
  | .outOfFuel => "outOfFuel"
  | .illFormed => "illFormed"
  | .tooBig => "tooBig"

def handle (cmd : String) (args : List Sexp) : Option String :=
  match cmd, args with
  | "pa.compare", [prog, .list [mainT, globT, mainAT, .list procTs], code] => do
      let prog ← sprogram? prog
      let mainT ← slotTable? mainT
      let globT ← slotTable? globT
      let mainAT ← slotTable? mainAT
      let procTs ← procTs.mapM procTable?
      let real ← codeOfSexp code
      if !prog.wf || procTs.length != prog.procs.length then pure "(ill-formed)"
      else
        match normalise mainT globT mainAT (scopesOf prog.procs procTs) real with
        | none => pure "(not-core)"
        | some rc =>
          let mc := compile prog
          match firstDiff mc rc 0 with
          | none => pure s!"(same {mc.length})"
          | some i =>
            let m := (mc[i]?).map showC |>.getD "-"
            let r := (rc[i]?).map showC |>.getD "-"
            pure s!"(differ {i} {m} {r} {mc.length} {rc.length})"
  | "pa.run", [fuel, prog] => do
      let fuel ← fuel.nat?
      let prog ← sprogram? prog
      let code := compile prog
      let outS := fun (σ : RbModel.ProcArr.Vm.Vm) => toString (Sexp.ofNats (σ.out.out.map Char.toNat))
      match RbModel.ProcArr.Vm.run code fuel RbModel.ProcArr.Vm.Vm.init with
      | .halted σ => pure s!"(normal {outS σ} ())"
      | .error c p σ => pure s!"((error {c} {p.row} {p.col}) {outS σ} ())"
      | .stuck => pure "(stuck () ())"
      | .outOfFuel => pure "(outOfFuel () ())"
  | "pa.ref", [fuel, prog] => do
      let fuel ← fuel.nat?
      let prog ← sprogram? prog
      let (st, o) := RbModel.ProcArr.Ref.run fuel prog.toAst
      let out := Sexp.ofNats (st.out.out.map Char.toNat)
      pure s!"({outcomeStr o} {out} ())"
  | "pa.wf", [prog] => do
      let prog ← sprogram? prog
      pure (if progWfB prog then "(wf true)" else "(wf false)")
  | _, _ => none

end RbModel.Drv.ProcArr
