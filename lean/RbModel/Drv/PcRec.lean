import RbModel.Sexp
import RbModel.PcRec
import RbModel.Drv.Pc
/-! Line-protocol handlers for `RbModel.PcRec` (requests `pcg.*`).

* `(pcg.runall (<gexpr> …) <gexpr> <alphabet> <maxlen> <start>)` → `(r …)`: the grammar table, the start expression;
  one result per input as for `pc.runall`, each computed with the descent fuel `driverFuel table start len`. -/
namespace RbModel.Drv.PcRec
open RbModel RbModel.Pc RbModel.PcRec

partial def gexpr? : Sexp → Option GExpr
  | .list [.atom "lift", e] => do pure (.lift (← RbModel.Drv.Pc.expr? e))
  | .list [.atom "ref", i] => do pure (.ref (← i.nat?))
  | .list [.atom "and", c, l, r] => do pure (.and (← RbModel.Drv.Pc.cmb? c) (← gexpr? l) (← gexpr? r))
  | .list [.atom "or2", a, b] => do pure (.or2 (← gexpr? a) (← gexpr? b))
  | .list [.atom "orNoBox", a, b] => do pure (.orNoBox (← gexpr? a) (← gexpr? b))
  | .list [.atom "seq2", a, b] => do pure (.seq2 (← gexpr? a) (← gexpr? b))
  | .list [.atom "seq3", a, b, c] => do pure (.seq3 (← gexpr? a) (← gexpr? b) (← gexpr? c))
  | .list [.atom "many", an, e] => do pure (.many (← an.bool?) (← gexpr? e))
  | .list [.atom "surround", md, l, m, r] => do
      pure (.surround (← md.bool?) (← gexpr? l) (← gexpr? m) (← gexpr? r))
  | .list [.atom "delimited", am, te, e, d] => do
      pure (.delimited (← am.bool?) (← te.nat?) (← gexpr? e) (← gexpr? d))
  | .list [.atom "map", f, e] => do pure (.map (← RbModel.Drv.Pc.mapFn? f) (← gexpr? e))
  | .list [.atom "toOption", e] => do pure (.toOption (← gexpr? e))
  | _ => none

def handle (cmd : String) (args : List Sexp) : Option String :=
  match cmd, args with
  | "pcg.runall", [.list tbl, e, k, maxlen, start] => do
      let tbl ← tbl.mapM gexpr?
      let e ← gexpr? e
      let k ← k.nat?
      let maxlen ← maxlen.nat?
      let start ← start.nat?
      pure ("(" ++ " ".intercalate ((RbModel.Drv.Pc.allInputs k maxlen).map (fun inp =>
        RbModel.Drv.Pc.resStr (runG tbl inp (driverFuel tbl e inp.length) e start))) ++ ")")
  | _, _ => none

end RbModel.Drv.PcRec
