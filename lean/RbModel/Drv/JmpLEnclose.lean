import RbModel.Sexp
import RbModel.JmpL.Enclose
/-! Line-protocol handler `jmpl.enclosed`: the checker's rule about jumps into FOR bodies / SELECT CASE blocks
(`RbModel.JmpL.jumpsEnclosedB`) together with the premise checker `progWfB`, on the program serialised by
`harness/src/jmpl_sx.rs`. -/
namespace RbModel.Drv.JmpLEnclose
open RbModel RbModel.JmpL

def handle (cmd : String) (args : List Sexp) : Option String :=
  match cmd, args with
  | "jmpl.enclosed", [prog] => do
      let prog ← sprogram? prog
      pure s!"(enclosed {jumpsEnclosedB prog} {progWfB prog})"
  | _, _ => none

end RbModel.Drv.JmpLEnclose
