import RbModel.Sexp
import RbModel.CallProto
/-! Line-protocol handlers for `RbModel.CallProto` (requests `epi.*`).

`(epi.gen sub (<arg> ...))` / `(epi.gen fun <name> (<arg> ...))` with `<arg>` = `v` (by value),
`(var s k)` (plain variable, `s` = `t` shared / `f`, root name `k`), `(elem s k)` (array element):
answers the epilogue the model generator emits, one item per instruction, each followed by the
lengths of the by-ref queue and of the var-path stack after the model VM executed it from a state
in which a callee with those arguments has just returned:
`((Enqueue 0) q p) ((PopStack) q p) ((Dequeue) q p) ((VarPathName s k) q p) ((CopyAToVarPath) q p)
((DequeueWithPath) q p) ((Stash name) q p) ((UnStash) q p)`, ending with `(fail)` if the model VM fails. -/
namespace RbModel.Drv.CallProto
open RbModel RbModel.Ctx RbModel.CallProto

def loc? (s k : Sexp) : Option Loc := do
  let s ← s.bool?; let k ← k.nat?; pure ⟨s, k⟩

def arg? : Sexp → Option ArgKind
  | .atom "v" => some .byVal
  | .list [.atom "var", s, k] => (loc? s k).map .byRefVar
  | .list [.atom "elem", s, k] => (loc? s k).map .byRefElem
  | _ => none

def instr (i : EI) : Sexp :=
  let n2s (n : Nat) : Sexp := .atom (toString n)
  match i with
  | .enqueue idx => .list [.atom "Enqueue", n2s idx]
  | .stashResult name => .list [.atom "Stash", n2s name]
  | .popStack => .list [.atom "PopStack"]
  | .dequeue => .list [.atom "Dequeue"]
  | .dequeueWithPath => .list [.atom "DequeueWithPath"]
  | .varPathName l => .list [.atom "VarPathName", Sexp.ofBool l.shared, n2s l.key]
  | .copyAToVarPath => .list [.atom "CopyAToVarPath"]
  | .unStashResult => .list [.atom "UnStash"]

/-- A state in which a callee with the given arguments (parameter names 1000, 1001, …) has just
returned: `BeginCollectArguments`, one push per argument, `PushStack`, from `Context::new()`. -/
def calleeState (args : List ArgKind) : Option Vm :=
  let pushes : List Op := (List.range args.length).map fun i => .pushArg (1000 + i) 0
  match run ([.beginCollect] ++ pushes ++ [.stopCollect]) init with
  | .error _ => none
  | .ok c =>
    some ⟨c, 0, [], [], args.map (fun a => match a with | .byRefElem l => some l | _ => none), none⟩

def trace : List EI → Vm → List Sexp
  | [], _ => []
  | i :: is, vm =>
    match exec i vm with
    | .error _ => [.list [.atom "fail"]]
    | .ok vm' =>
      .list [instr i, .atom (toString vm'.queue.length), .atom (toString vm'.paths.length)] :: trace is vm'

def handle (cmd : String) (args : List Sexp) : Option String :=
  match cmd, args with
  | "epi.gen", [.atom "sub", .list as] => do
      let as ← as.mapM arg?
      let vm ← calleeState as
      pure (toString (Sexp.list (trace (genSubEpilogue as) vm)))
  | "epi.gen", [.atom "fun", name, .list as] => do
      let name ← name.nat?
      let as ← as.mapM arg?
      let vm ← calleeState as
      pure (toString (Sexp.list (trace (genFunEpilogue name as) vm)))
  | _, _ => none

end RbModel.Drv.CallProto
