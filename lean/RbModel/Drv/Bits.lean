import RbModel.Sexp
import RbModel.Bits
/-! Line-protocol handlers for `RbModel.Bits` (requests `bits.*`). -/
namespace RbModel.Drv.Bits
open RbModel

def handle (cmd : String) (args : List Sexp) : Option String :=
  match cmd, args with
  | "bits.ofInt", [a] => do
      let a ← a.int?
      pure (toString (Sexp.list ((RbModel.Bits.ofInt a).map Sexp.ofBool)))
  | "bits.and", [a, b] => do
      let a ← a.int?; let b ← b.int?
      pure (toString (RbModel.Bits.qbAnd a b))
  | "bits.or", [a, b] => do
      let a ← a.int?; let b ← b.int?
      pure (toString (RbModel.Bits.qbOr a b))
  | "bits.not", [a] => do
      let a ← a.int?
      pure (toString (RbModel.Bits.unaryNot a))
  | "bits.toBytes", [a] => do
      let a ← a.int?
      pure (toString (Sexp.ofNats (RbModel.Bits.i32ToBytes a)))
  | "bits.fromBytes", [a] => do
      let l ← a.nats?
      match l with
      | [lo, hi] => pure (toString (RbModel.Bits.bytesToI32 [lo, hi]))
      | _ => none
  | "bits.f64ToBytes", [w] => do
      let w ← w.nat?
      if w < 2 ^ 64 then pure (toString (Sexp.ofNats (RbModel.Bits.f64ToBytes w))) else none
  | "bits.f64FromBytes", [a] => do
      let l ← a.nats?
      if l.length = 8 && l.all (· < 256) then pure (toString (RbModel.Bits.bytesToF64 l)) else none
  | "bits.cvd", [a] => do
      let l ← a.nats?
      if l.length = 8 && l.all (· < 256) then
        pure (match RbModel.Bits.cvd l with
          | some w => s!"(ok {w})"
          | none => "overflow")
      else none
  | "bits.f64Fields", [w] => do
      let w ← w.nat?
      if w < 2 ^ 64 then
        pure (toString (Sexp.ofNats
          [RbModel.Bits.f64Sign w, RbModel.Bits.f64Exponent w, RbModel.Bits.f64Fraction w]))
      else none
  | _, _ => none

end RbModel.Drv.Bits
