import RbModel.Sexp
import RbModel.ArrL.Syntax
import RbModel.ArrL.Ref
import RbModel.ArrL.Compile
import RbModel.ArrL.Vm
import RbModel.ArrL.WfB
/-! Line-protocol handlers for the models with arrays of scalars (requests `arrl.*`):
`arrl.compare` (model generator = normalised real instruction list), `arrl.run` (VM model on the model-compiled code),
`arrl.ref` (reference semantics), `arrl.wf` (the executable premise checker `RbModel.ArrL.progWfB` of
`ArrL.compile_correct`: `Thm/ArrLWf.lean` proves it sound), all on the program serialised by `harness/src/arrl_sx.rs`. -/
namespace RbModel.Drv.ArrL
open RbModel RbModel.ArrL RbModel.ArrL.Compile
open RbModel.Ast (Pos ty?)

private def nameTable? : Sexp → Option (List (String × Num.Ty))
  | .list l => l.mapM fun e => match e with
      | .list [n, t] => do pure ((← Instr.str? n).map Char.toUpper, ← ty? t)
      | _ => none
  | _ => none

private def showC : CInstr × Pos → String
  | (c, p) =>
    let k := match c with
      | .loadA _ => "loadA" | .copyAToB => "copyAToB" | .copyAToC => "copyAToC" | .copyAToD => "copyAToD"
      | .copyCToB => "copyCToB" | .copyDToA => "copyDToA" | .copyDToB => "copyDToB"
      | .bin _ => "bin" | .negateA => "negateA" | .notA => "notA" | .cast _ => "cast"
      | .pushA => "pushA" | .popA => "popA" | .varPath x => s!"varPath{x}" | .arrPath a => s!"arrPath{a}"
      | .pathIndex => "pathIndex" | .copyVarPathToA => "copyVarPathToA"
      | .popVarPath => "popVarPath" | .copyAToVarPath => "copyAToVarPath" | .label n => "label:" ++ n.replace " " "_"
      | .jump a => s!"jump{a}" | .jumpIfFalse a => s!"jumpIfFalse{a}" | .pushRegs => "pushRegs" | .popRegs => "popRegs"
      | .throwZeroStep => "throwZeroStep" | .halt => "halt" | .allocate _ => "allocate" | .allocArr _ => "allocArr"
      | .printSetPrinter => "printSetPrinter" | .printSetFormat => "printSetFormat" | .printComma => "printComma"
      | .printSemicolon => "printSemicolon" | .printValue => "printValue" | .printEnd => "printEnd"
      | .beginArgs => "beginArgs" | .pushByVal => "pushByVal" | .pushByRef => "pushByRef" | .pushStack => "pushStack"
      | .popStack => "popStack" | .builtInData => "builtInData" | .builtInRead => "builtInRead"
      | .builtInBound u => if u then "builtInUBound" else "builtInLBound"
      | .enqueue i => s!"enqueue{i}" | .dequeue => "dequeue" | .dequeuePath => "dequeuePath"
      | .stashBound _ => "stashBound" | .unStash => "unStash"
    s!"{k}@{p.row}:{p.col}"

private def outcomeStr : RbModel.ArrL.Ref.Outcome → String
  | .normal => "normal"
  | .halted => "halted"
  | .error c p => s!"(error {c} {p.row} {p.col})"
  | .inexact => "inexact"
  | .outOfFuel => "outOfFuel"
  | .illFormed => "illFormed"
  | .tooBig => "tooBig"

def handle (cmd : String) (args : List Sexp) : Option String :=
  match cmd, args with
  | "arrl.compare", [prog, .list [varT, arrT], code] => do
      let prog ← sprogram? prog
      let varT ← nameTable? varT
      let arrT ← nameTable? arrT
      let real ← codeOfSexp code
      if !prog.wf then pure "(ill-formed)"
      else
        match normalise varT arrT real with
        | none => pure "(not-core)"
        | some rc =>
          let mc := compile prog
          match firstDiff mc rc 0 with
          | none => pure s!"(same {mc.length})"
          | some i =>
            let m := (mc[i]?).map showC |>.getD "-"
            let r := (rc[i]?).map showC |>.getD "-"
            pure s!"(differ {i} {m} {r} {mc.length} {rc.length})"
  | "arrl.run", [fuel, prog] => do
      let fuel ← fuel.nat?
      let prog ← sprogram? prog
      let code := compile prog
      let outS := fun (σ : RbModel.ArrL.Vm.Vm) => toString (Sexp.ofNats (σ.out.out.map Char.toNat))
      match RbModel.ArrL.Vm.run code fuel (RbModel.ArrL.Vm.Vm.init prog.slots prog.arrs) with
      | .halted σ => pure s!"(normal {outS σ} ())"
      | .error c p σ => pure s!"((error {c} {p.row} {p.col}) {outS σ} ())"
      | .stuck => pure "(stuck () ())"
      | .outOfFuel => pure "(outOfFuel () ())"
  | "arrl.ref", [fuel, prog] => do
      let fuel ← fuel.nat?
      let prog ← sprogram? prog
      let (st, o) := RbModel.ArrL.Ref.run fuel prog.toAst
      let out := Sexp.ofNats (st.out.out.map Char.toNat)
      pure s!"({outcomeStr o} {out} ())"
  | "arrl.wf", [prog] => do
      let prog ← sprogram? prog
      pure (if progWfB prog then "(wf true)" else "(wf false)")
  | _, _ => none

end RbModel.Drv.ArrL
