import RbModel.Sexp
import RbModel.JmpL.Syntax
import RbModel.JmpL.Ref
import RbModel.JmpL.Compile
import RbModel.JmpL.Vm
import RbModel.JmpL.WfB
/-! Line-protocol handlers for the models of the jump layer (requests `jmpl.*`):
`jmpl.compare` (generator model = normalised real instruction list), `jmpl.run` (VM model on the model-compiled code),
`jmpl.ref` (reference semantics), `jmpl.wf` (the executable premise checker `RbModel.JmpL.progWfB`), all on the program
serialised by `harness/src/jmpl_sx.rs`. -/
namespace RbModel.Drv.JmpL
open RbModel RbModel.JmpL RbModel.JmpL.Compile
open RbModel.Ast (Pos ty?)

private def slotTable? : Sexp → Option (List (String × Num.Ty))
  | .list l => l.mapM fun e => match e with
      | .list [n, t] => do pure ((← Instr.str? n).map Char.toUpper, ← ty? t)
      | _ => none
  | _ => none

private def showC : CInstr × Pos → String
  | (c, p) =>
    let k := match c with
      | .loadA _ => "loadA" | .copyAToB => "copyAToB" | .copyAToC => "copyAToC" | .copyAToD => "copyAToD"
      | .copyCToB => "copyCToB" | .copyDToA => "copyDToA" | .copyDToB => "copyDToB"
      | .bin _ => "bin" | .negateA => "negateA" | .notA => "notA" | .cast _ => "cast"
      | .pushA => "pushA" | .popA => "popA" | .varPath x => s!"varPath{x}" | .copyVarPathToA => "copyVarPathToA"
      | .popVarPath => "popVarPath" | .copyAToVarPath => "copyAToVarPath" | .label n => "label:" ++ n.replace " " "_"
      | .jump a => s!"jump{a}" | .jumpIfFalse a => s!"jumpIfFalse{a}" | .goSub a => s!"goSub{a}" | .ret => "return"
      | .pushRegs => "pushRegs" | .popRegs => "popRegs"
      | .throwZeroStep => "throwZeroStep" | .halt => "halt" | .allocate _ => "allocate"
      | .printSetPrinter => "printSetPrinter" | .printSetFormat => "printSetFormat" | .printComma => "printComma"
      | .printSemicolon => "printSemicolon" | .printValue => "printValue" | .printEnd => "printEnd"
      | .beginArgs => "beginArgs" | .pushByVal => "pushByVal" | .pushByRef => "pushByRef" | .pushStack => "pushStack"
      | .popStack => "popStack" | .builtInData => "builtInData" | .builtInRead => "builtInRead"
      | .enqueue i => s!"enqueue{i}" | .dequeue => "dequeue"
    s!"{k}@{p.row}:{p.col}"

private def outcomeStr : RbModel.JmpL.Ref.Outcome → String
  | .normal => "normal"
  | .halted => "halted"
  | .jump _ => "illFormed"
  | .ret _ => "illFormed"
  | .notHere => "illFormed"
  | .error c p => s!"(error {c} {p.row} {p.col})"
  | .inexact => "inexact"
  | .outOfFuel => "outOfFuel"
  | .illFormed => "illFormed"

def handle (cmd : String) (args : List Sexp) : Option String :=
  match cmd, args with
  | "jmpl.compare", [prog, table, code] => do
      let prog ← sprogram? prog
      let table ← slotTable? table
      let real ← codeOfSexp code
      match normalise table real with
      | none => pure "(not-core)"
      | some rc =>
        let mc := compile prog
        match firstDiff mc rc 0 with
        | none => pure s!"(same {mc.length})"
        | some i =>
          let m := (mc[i]?).map showC |>.getD "-"
          let r := (rc[i]?).map showC |>.getD "-"
          pure s!"(differ {i} {m} {r} {mc.length} {rc.length})"
  | "jmpl.run", [fuel, prog] => do
      let fuel ← fuel.nat?
      let prog ← sprogram? prog
      let code := compile prog
      let outS := fun (σ : RbModel.JmpL.Vm.Vm) => toString (Sexp.ofNats (σ.out.out.map Char.toNat))
      match RbModel.JmpL.Vm.run code fuel (RbModel.JmpL.Vm.Vm.init prog.slots) with
      | .halted σ => pure s!"(normal {outS σ} ())"
      | .error c p σ => pure s!"((error {c} {p.row} {p.col}) {outS σ} ())"
      | .stuck => pure "(stuck () ())"
      | .outOfFuel => pure "(outOfFuel () ())"
  | "jmpl.ref", [fuel, prog] => do
      let fuel ← fuel.nat?
      let prog ← sprogram? prog
      let (st, o) := RbModel.JmpL.Ref.run fuel prog.toAst
      let out := Sexp.ofNats (st.out.out.map Char.toNat)
      pure s!"({outcomeStr o} {out} ())"
  | "jmpl.wf", [prog] => do
      -- the premise of the jump layer's compile_correct, decided by RbModel.JmpL.progWfB
      let prog ← sprogram? prog
      pure (if progWfB prog then "(wf true)" else "(wf false)")
  | _, _ => none

end RbModel.Drv.JmpL
